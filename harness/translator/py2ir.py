"""
py2ir — the C19 TRANSLATOR (trusted; run on every check by harness/props/c19.py:pre_build).

Parses every public function and method of `persim/**/*.py` under PERSIM_ROOT with `ast` and emits, per entry
point, a program of the buffer-ownership IR of lean/PersimVerif/Model/IR.lean, the solver's solution, and the
generated obligations into lean/PersimVerif/Generated/ApiIR.lean.

Public = no leading underscore, plus the module-level helpers `_transform` and `_p_norm`; constructors and the
dunder operators of public classes count as public; `__init__.py` files are modules like any other.

The translation is an abstract interpretation of the function body that forgets values and keeps references:

* every assignment creates a new *version* of the name (SSA-like); branches are merged by union, loop bodies are
  re-run until the version sets are stable, `try` handlers see every version defined in the body;
* expressions are translated by the classification table in `tables.py` (printed into the evidence as
  `classification_table`), see `tables.TABLE_DOC` for the rules in words;
* calls into persim are inlined per call site, with fresh variables and allocation sites for each site (recursion-free);
* variables may hold FUNCTION VALUES (persim functions, lambdas, external functions, bound methods, …): a call through a variable
  applies every function value it is known to hold; a call through anything the translator cannot resolve is an UNKNOWN CALL,
  which may write everything reachable from its arguments and its receiver (`Frame.unknown_call`);
* subscripts / iteration / unpacking give `copy`+`elem` (a view of the same buffer, or an element of the container);
* `self.attr = v` (and `x.attr = v` for an attribute name persim classes define) is `setattr` (an instance's attribute table is not
  an array or list), any other attribute assignment is a write of `x`; `x.attr` is `elem`;
* what is NOT modelled is refused, never skipped (audit 3): decorators, module-level code other than imports / defs / classes /
  plain data, names bound twice, class-body code, `__init__.py` rebinding (ModuleInfo.problems / ClassInfo.problems ->
  TranslatorError for every entry point that runs such code); the only statements left out are the `_VERIF_*` hooks listed WORD
  FOR WORD in policy.json; obligations of the committed list expected_obligations.json that are no longer generated are reported
  by the generated obligation `expected_obligations_present`;
* (audit 4) every `*.py` file under persim/ is parsed — `_version.py` too, which must be the single statement
  `__version__ = "<literal>"` (anything else there is code of the package init: every entry point refused); what is not parsed is
  printed (`unparsedFiles`), and a file Python could import that is not `*.py` is a translation problem.  The `class` line of every
  persim class with what its bases resolve to is reviewed text (policy.json `class_lines`); a persim BASE class that defines
  `__init_subclass__` / `__set_name__` / `__class_getitem__` / `__new__` / attribute-lookup hooks (tables.CLASS_HOOK_METHODS) is an
  unreviewed class decorator on every subclass unless policy.json `base_hooks_reviewed` holds its text; the problems of a persim
  base class (metaclass, class-body code) are problems of its subclasses.  A module-level statement of file A that assigns an
  attribute of file B refuses the entry points of A AND the assigned function / class / module of B (Project.check_patches).

Nothing here decides the property: the emitted programs are checked by the Lean checker (`safe`), whose soundness is
`PersimVerif.C19.checked_no_owned_write`; `wellFormed` (obligation `wf_<entry>`) checks that no instruction reads a variable
that nothing defines, so that a dropped defining instruction is an error and not an empty points-to set.
"""
import ast, os, json, re, sys
from . import tables as T

if hasattr(sys, "set_int_max_str_digits"):
    sys.set_int_max_str_digits(0)          # packed tables travel as decimal numbers

NEW, COPY, STORE, ELEM, WRITE, SETATTR, RGLOB, WGLOB, RNG = range(9)
OPNAMES = ["new", "copy", "store", "elem", "write", "setattr", "readGlobal", "writeGlobal", "rng"]
HERE = os.path.dirname(os.path.abspath(__file__))
EXTRA_PUBLIC = {"_transform", "_p_norm"}
MAX_DEPTH = 12
LOOP_PASSES = 8                # a loop body is re-translated until its version sets are stable; not stable after that many: TranslatorError
CANON = [("matplotlib.pyplot", "plt"), ("matplotlib", "mpl"), ("numpy", "np")]


class TranslatorError(Exception):
    pass


def canon(dotted):
    for a, b in CANON:
        if dotted == a or dotted.startswith(a + "."):
            return b + dotted[len(a):]
    return dotted


# ------------------------------------------------------------------------------------------------ project model

BUILTIN_NAMES = set(dir(__import__("builtins")))
FUNC_DECORATORS = {"staticmethod", "abstractmethod", "abc.abstractmethod", "property"}


def is_docstring(st):
    return isinstance(st, ast.Expr) and isinstance(st.value, ast.Constant) and isinstance(st.value.value, str)


def single_name_target(st):
    """`NAME = value` / `NAME: T = value`: the name, else None"""
    if isinstance(st, ast.Assign) and len(st.targets) == 1 and isinstance(st.targets[0], ast.Name):
        return st.targets[0].id
    if isinstance(st, ast.AnnAssign) and isinstance(st.target, ast.Name):
        return st.target.id
    return None


def def_time_exprs(fn):
    """expressions a `def` evaluates when it is EXECUTED (at import, for module-level functions and methods): default values and
    annotations"""
    a = fn.args
    out = [("default value", e) for e in list(a.defaults) + [e for e in a.kw_defaults if e is not None]]
    for p in a.posonlyargs + a.args + a.kwonlyargs + [x for x in (a.vararg, a.kwarg) if x]:
        if p.annotation is not None:
            out.append(("annotation", p.annotation))
    if fn.returns is not None:
        out.append(("annotation", fn.returns))
    return out


def runs_code(e):
    return any(isinstance(n, (ast.Call, ast.Lambda, ast.NamedExpr, ast.Await, ast.Yield, ast.YieldFrom, ast.ListComp, ast.SetComp,
                              ast.DictComp, ast.GeneratorExp)) for n in ast.walk(e))


class ClassInfo:
    def __init__(self, module, node, policy=None):
        self.module, self.node, self.name = module, node, node.name
        self.bases = [b.id if isinstance(b, ast.Name) else (b.attr if isinstance(b, ast.Attribute) else None) for b in node.bases]
        self.methods, self.getters, self.setters, self.static = {}, {}, {}, set()
        self.problems = []            # what makes the class's `def`s NOT what the class's attributes are at run time (audit R6)
        self.bad_decorators = {}      # id(FunctionDef) -> decorator text the translator does not model
        self.data_names = set()
        # the `class` line as written (audit 4, IR-1): compared word for word with policy.json `class_lines` by Project.check_classes
        heads = [ast.unparse(b) for b in node.bases] + [ast.unparse(k) for k in node.keywords]
        self.line = "class %s%s" % (node.name, "(%s)" % ", ".join(heads) if heads else "")
        self.hooks = {}               # name of tables.CLASS_HOOK_METHODS bound in the body -> text of (the last of) its definitions
        for st in node.body:
            for n in ([st.name] if isinstance(st, (ast.FunctionDef, ast.AsyncFunctionDef, ast.ClassDef)) else
                      [x.id for x in ast.walk(st) if isinstance(x, ast.Name) and isinstance(x.ctx, ast.Store)] +
                      [(a.asname or a.name).split(".")[0] for a in getattr(st, "names", []) if isinstance(st, (ast.Import, ast.ImportFrom))]):
                if n in T.CLASS_HOOK_METHODS:
                    self.hooks[n] = (self.hooks[n] + "\n" if n in self.hooks else "") + ast.unparse(st)
        reviewed = (policy or {}).get("decorators_reviewed", {}).get("%s.%s" % (module.name, node.name), [])
        for d in node.decorator_list:
            if ast.unparse(d) not in reviewed:
                self.problems.append("class decorator `%s` is not in policy.json decorators_reviewed" % ast.unparse(d)[:80])
        if node.keywords:
            self.problems.append("class keywords (metaclass=…) are not modelled")
        for b in node.bases:
            if runs_code(b):
                self.problems.append("base class `%s` is computed" % ast.unparse(b)[:60])
        bound = {}
        for i, st in enumerate(node.body):
            if isinstance(st, ast.FunctionDef):
                decos = [ast.unparse(d) for d in st.decorator_list]
                for d in decos:
                    if d not in FUNC_DECORATORS and not (d.endswith(".setter") and d[:-7] in self.getters):
                        self.bad_decorators[id(st)] = d
                module.check_def(st, self.problems)
                if "property" in decos:
                    self.getters[st.name] = st
                    bound.setdefault(st.name, []).append("getter")
                elif any(d.endswith(".setter") for d in decos):
                    self.setters[st.name] = st
                    bound.setdefault(st.name, []).append("setter")
                else:
                    self.methods[st.name] = st
                    bound.setdefault(st.name, []).append("def")
                    if "staticmethod" in decos:
                        self.static.add(st.name)
            elif is_docstring(st) or isinstance(st, ast.Pass):
                pass
            elif single_name_target(st) is not None:
                bound.setdefault(single_name_target(st), []).append("data")
                self.data_names.add(single_name_target(st))
                if st.value is not None and not module.plain_data(st.value):
                    self.problems.append("class-level binding `%s` is not plain data" % ast.unparse(st)[:80])
            else:
                self.problems.append("class-body statement `%s` is not modelled" % ast.unparse(st)[:80].split("\n")[0])
        for n, kinds in bound.items():
            if len(kinds) > 1 and sorted(kinds) != ["getter", "setter"]:
                self.problems.append("`%s` is bound %d times in the class body (%s)" % (n, len(kinds), ", ".join(kinds)))


class ModuleInfo:
    def __init__(self, name, path, src, policy=None):
        self.name, self.path = name, path
        self.tree = ast.parse(src)
        self.lines = src.split("\n")
        self.funcs, self.classes, self.imports, self.data = {}, {}, {}, {}
        self.global_decls = set()
        self.star_imports = []
        self.problems = []            # module-level code the translator does not model: every entry point that runs code of
                                      # this module is untranslatable (audit R6: `f = wrap(f)`, conditional / repeated defs,
                                      # tuple bindings, `globals().update(…)`, code in `__init__.py`)
        self.bad_decorators = {}      # id(FunctionDef) -> decorator text
        self.hooks = {}               # reviewed `_VERIF_*` hook name -> set of reviewed guarded statements (policy.json)
        self.unmodelled = []          # (index into self.problems, statement): module-level statements the translator does not model
        self.patched = {}             # function name -> module-level statement (of any persim module) that assigns an attribute
                                      # of this module named like the function, or an attribute of the function (audit 4)
        reviewed = (policy or {}).get("verif_hooks", {}).get(name, {})
        pkg = name.split(".")[:-1]
        bound, values, class_nodes, defs = {}, [], [], []
        for i, st in enumerate(self.tree.body):
            if isinstance(st, ast.FunctionDef):
                self.funcs[st.name] = st
                bound.setdefault(st.name, []).append("def")
                for d in st.decorator_list:
                    self.bad_decorators[id(st)] = ast.unparse(d)
                defs.append(st)
            elif isinstance(st, ast.ClassDef):
                class_nodes.append(st)
                bound.setdefault(st.name, []).append("class")
            elif isinstance(st, ast.Import):
                for a in st.names:
                    self.imports[a.asname or a.name.split(".")[0]] = ("ext", a.name if a.asname else a.name.split(".")[0])
                    bound.setdefault(a.asname or a.name.split(".")[0], []).append("import")
            elif isinstance(st, ast.ImportFrom):
                if st.level > 0:
                    base = (["persim"] + pkg)[: len(pkg) + 2 - st.level]
                    mod = ".".join(base + ([st.module] if st.module else []))
                else:
                    mod = st.module or ""
                for a in st.names:
                    if a.name == "*":
                        self.star_imports.append(mod)
                        continue
                    self.imports[a.asname or a.name] = ("from", mod, a.name)
                    bound.setdefault(a.asname or a.name, []).append("import")
                    priv = a.name.startswith("_") and not (a.name.startswith("__") and a.name.endswith("__"))
                    if (mod == "persim" or mod.startswith("persim.")) and priv and not (a.asname or a.name).startswith("_"):
                        self.problems.append("`%s` makes a private name public" % ast.unparse(st)[:80])
            elif i == 0 and is_docstring(st):
                pass
            elif single_name_target(st) is not None:
                n = single_name_target(st)
                self.data[n] = st
                bound.setdefault(n, []).append("data")
                if st.value is not None:
                    values.append(st)
                if n in reviewed and ast.unparse(st) == reviewed[n].get("binding"):
                    self.hooks[n] = set(reviewed[n].get("statements", []))
            else:
                self.unmodelled.append((len(self.problems), st))
                self.problems.append("module-level statement `%s` is not modelled" % ast.unparse(st)[:80].split("\n")[0])
                for n in ast.walk(st):        # what it binds is module-level state all the same
                    if isinstance(n, ast.Name) and isinstance(n.ctx, ast.Store):
                        self.data.setdefault(n.id, st)
        for n, kinds in bound.items():
            if len(kinds) > 1 and set(kinds) != {"import"}:
                self.problems.append("module-level name `%s` is bound %d times (%s)" % (n, len(kinds), ", ".join(kinds)))
        for st in values:
            if not self.plain_data(st.value):
                self.unmodelled.append((len(self.problems), st))
                self.problems.append("module-level binding `%s` is not plain data (it may name or wrap a function)" % ast.unparse(st)[:80])
        for st in defs:
            self.check_def(st, self.problems)
        for st in class_nodes:
            self.classes[st.name] = ClassInfo(self, st, policy)
        for n in ast.walk(self.tree):
            if isinstance(n, ast.Global):
                self.global_decls.update(n.names)
            elif isinstance(n, ast.AsyncFunctionDef):
                self.problems.append("async def %s is not modelled" % n.name)

    def check_def(self, fn, problems):
        """default values and annotations of a module-level function / method are evaluated at import: anything that runs code
        there must be plain data (`order=np.array([0.5, 1])`), not a call of persim code (`_p=_install()`)"""
        for what, e in def_time_exprs(fn):
            if runs_code(e) and not self.plain_data(e):
                problems.append("%s `%s` of %s runs code at import" % (what, ast.unparse(e)[:60], fn.name))

    def plain_data(self, e):
        """module- / class-level data: literals, operators, conditional expressions, calls and attributes of NON-persim library
        names; no lambda, no comprehension, no name of this module (a function, a class, other data)"""
        for n in ast.walk(e):
            if isinstance(n, (ast.Lambda, ast.NamedExpr, ast.Await, ast.Yield, ast.YieldFrom, ast.GeneratorExp, ast.ListComp,
                              ast.SetComp, ast.DictComp, ast.Starred)):
                return False
            if isinstance(n, ast.Name):
                imp = self.imports.get(n.id)
                ext = imp is not None and not (imp[1] == "persim" or imp[1].startswith("persim."))
                if not ext and not (n.id in BUILTIN_NAMES and n.id not in self.funcs and n.id not in self.classes and n.id not in self.data):
                    return False
        return True


class EntryPoint:
    def __init__(self, module, cls, node, kind):
        self.module, self.cls, self.node, self.kind = module, cls, node, kind   # kind: func | method | static | getter | setter
        q = node.name + {"getter": ".get", "setter": ".set"}.get(kind, "")
        self.qualname = (cls.name + "." if cls else "") + q
        self.name = module.name + "." + self.qualname
        self.ident = self.name.replace(".", "_")
        self.line = node.lineno


class Project:
    """the parsed `persim` package (or a set of snippet modules for the self-test)"""

    def __init__(self, root=None, sources=None, policy=None):
        self.modules = {}
        self.unparsed = []                # (path under persim/, reason): files found and not parsed — files Python does not
                                          # import (printed: `unparsedFiles`); tables.UNPARSED_ALLOWED directories are not entered
        self.file_problems = []           # files Python could import that are not `*.py` source: translation problems
        if sources is not None:
            for name, src in sources.items():
                self.modules[name] = ModuleInfo(name, "<snippet:%s>" % name, src, policy)
        else:
            base = os.path.join(root, "persim")
            for d, dirs, files in sorted(os.walk(base)):
                # directories of the allow-list are not entered (the allow-list itself is printed, not its instances, so that
                # the generated text does not depend on whether an interpreter has left a `__pycache__` behind)
                dirs[:] = sorted(x for x in dirs if x not in T.UNPARSED_ALLOWED)
                for f in sorted(files):
                    if not f.endswith(".py"):
                        # every `*.py` file is parsed (also `_version.py`: audit 4, IR-2); nothing else is source
                        relf = os.path.relpath(os.path.join(d, f), base)
                        if f.endswith(T.IMPORTABLE_SUFFIXES):
                            self.file_problems.append("persim/%s: a file Python can import that is not `*.py` source (not parsed)" % relf)
                        else:
                            self.unparsed.append((relf, "not a file Python imports (suffix not one of %s)" % " ".join(T.IMPORTABLE_SUFFIXES)))
                        continue
                    rel = os.path.relpath(os.path.join(d, f), base)[:-3].replace(os.sep, ".")
                    # `__init__.py` files are modules like any other (audit R6): what they define is public, what they
                    # rebind changes what `persim.<name>` is
                    with open(os.path.join(d, f)) as fh:
                        self.modules[rel] = ModuleInfo(rel, os.path.join("persim", rel.replace(".", "/") + ".py"), fh.read(), policy)
        self.method_index = {}
        self.instance_attrs = set()       # attribute names of persim instances: `self.x = …` in some method, class-level
                                          # data, properties.  An assignment to any OTHER attribute of a non-`self` object is a
                                          # write of that object (audit R3)
        for m in self.modules.values():
            for c in m.classes.values():
                for name in c.methods:
                    self.method_index.setdefault(name, []).append(c)
                self.instance_attrs |= set(c.getters) | set(c.setters) | c.data_names
                for fn in list(c.methods.values()) + list(c.getters.values()) + list(c.setters.values()):
                    a = fn.args.posonlyargs + fn.args.args
                    if not a:
                        continue
                    for n in ast.walk(fn):
                        if isinstance(n, ast.Attribute) and isinstance(n.ctx, ast.Store) and isinstance(n.value, ast.Name) \
                                and n.value.id == a[0].arg:
                            self.instance_attrs.add(n.attr)
        self.check_version_module()
        self.check_patches()
        self.check_classes(policy, require=sources is None)

    # --- what no single module shows (audit 4)
    def check_version_module(self):
        """IR-2: `persim/_version.py` is run by `persim/__init__.py` on every import and has no entry point of its own: it
        must be the single statement `__version__ = "<string literal>"`; anything else there is code of the package init"""
        for name in sorted(self.modules):
            if name.split(".")[-1] != T.VERSION_MODULE:
                continue
            m, body = self.modules[name], self.modules[name].tree.body
            ok = len(body) == 1 and isinstance(body[0], ast.Assign) and single_name_target(body[0]) == "__version__" \
                and isinstance(body[0].value, ast.Constant) and isinstance(body[0].value.value, str)
            if ok:
                continue
            p = "%s must consist of the single statement `%s` (it is run by the package's __init__: every entry point is refused)" \
                % (m.path, T.VERSION_STATEMENT)
            m.problems.append(p)
            init = self.modules.get(".".join(name.split(".")[:-1] + ["__init__"]))
            if init is not None:
                init.problems.append(p)

    def resolve_expr(self, module, e, depth=0):
        """what a module-level expression NAMES, as far as the translator can tell: a list of ('module', ModuleInfo) |
        ('class', ClassInfo) | ('func', ModuleInfo, node) | ('data', ModuleInfo, name); [] for anything it cannot resolve
        (a call result, a non-persim name).  `X.__dict__`, `vars(X)`, `sys.modules['persim.m']`, `globals()` are read through."""
        if depth > 8:
            return []
        if isinstance(e, ast.Attribute) and e.attr == "__dict__":
            return self.resolve_expr(module, e.value, depth + 1)
        if isinstance(e, ast.Call) and isinstance(e.func, ast.Name) and e.func.id == "vars" and len(e.args) == 1:
            return self.resolve_expr(module, e.args[0], depth + 1)
        if isinstance(e, ast.Call) and isinstance(e.func, ast.Name) and e.func.id in ("globals", "locals") and not e.args:
            return [("module", module)]
        if isinstance(e, ast.Call) and e.args and isinstance(e.args[0], ast.Constant) and isinstance(e.args[0].value, str) \
                and ast.unparse(e.func) in ("importlib.import_module", "import_module", "__import__"):
            m = self.find_module(e.args[0].value) if e.args[0].value.split(".")[0] == "persim" else None
            return [("module", m)] if m else []
        if isinstance(e, ast.Subscript) and isinstance(e.slice, ast.Constant) and isinstance(e.slice.value, str):
            if ast.unparse(e.value) in ("sys.modules", "modules"):
                key = e.slice.value
                m = self.find_module(key) if key.split(".")[0] == "persim" else None
                return [("module", m)] if m else []
            out = []                                  # `X.__dict__['name']`, `vars(X)['name']`, `globals()['name']`
            if (isinstance(e.value, ast.Attribute) and e.value.attr == "__dict__") or isinstance(e.value, ast.Call):
                for r in self.resolve_expr(module, e.value, depth + 1):
                    out += self.resolve_attr(r, e.slice.value)
            return out
        if isinstance(e, ast.Subscript) and ast.unparse(e.value) in ("sys.modules", "modules") \
                and ast.unparse(e.slice) == "__name__":
            return [("module", module)]
        if isinstance(e, ast.Name):
            r = self.resolve_name(module, e.id)
            if r is None or r[0] == "ext":
                return []
            out = [r]
            imp = module.imports.get(e.id)
            if r[0] == "module" and imp and imp[0] == "from":
                # `from . import bottleneck as _b` is the submodule OR what the package's __init__ has bound to that name by then
                # (`from .bottleneck import *` makes `persim.bottleneck` the function): both
                pkg = self.find_module(imp[1])
                x = self.resolve_name(pkg, imp[2]) if pkg is not None and pkg is not module else None
                if x is not None and x[0] != "ext" and x not in out:
                    out.append(x)
            return out
        if isinstance(e, ast.Attribute):
            out = []
            for r in self.resolve_expr(module, e.value, depth + 1):
                out += self.resolve_attr(r, e.attr)
            return out
        return []

    def resolve_attr(self, r, attr):
        """the persim objects `r.attr` may be (for a package: the submodule AND what the package's __init__ binds to the name —
        `persim.bottleneck` is the module until `from .bottleneck import *` makes it the function)"""
        out = []
        if r[0] == "module" and r[1] is not None:
            m = r[1]
            if m.name.split(".")[-1] == "__init__":
                sub = self.modules.get(".".join(m.name.split(".")[:-1] + [attr])) or \
                    self.modules.get(".".join(m.name.split(".")[:-1] + [attr, "__init__"]))
                if sub is not None:
                    out.append(("module", sub))
            x = self.resolve_name(m, attr)
            if x is not None and x[0] != "ext" and x not in out:
                out.append(x)
        elif r[0] == "class":
            hit = self.lookup_method(r[1], attr)
            if hit:
                out.append(("method", hit[0], hit[1]))
        return out

    def assigned_objects(self, module, st):
        """(text, [resolved persim objects]) for every attribute / item STORE (or deletion) the module-level statement `st`
        makes on something other than a plain name: `X.a = v`, `X.a op= v`, `del X.a`, `X[k] = v`, `for X.a in …`,
        `setattr(X, 'a', v)` / `delattr`, `X.__setattr__('a', v)`, `object.__setattr__(X, 'a', v)`, `X.__dict__.update(…)` …"""
        out = []

        def add(node, owner, attr):
            objs = self.resolve_expr(module, owner)
            hits = []
            for r in objs:
                if attr is None:
                    hits.append(r)
                else:
                    sub = self.resolve_attr(r, attr)
                    # a function attribute (`f.__code__ = …`), an attribute the target does not define yet: the owner itself
                    hits += [x for x in sub if x[0] in ("func", "class", "method")] or [r + ("attr", attr)]
            out.append((ast.unparse(node)[:70].split("\n")[0], hits))

        for n in ast.walk(st):
            if isinstance(n, ast.Attribute) and isinstance(n.ctx, (ast.Store, ast.Del)):
                add(n, n.value, n.attr)
            elif isinstance(n, ast.Subscript) and isinstance(n.ctx, (ast.Store, ast.Del)):
                k = n.slice.value if isinstance(n.slice, ast.Constant) and isinstance(n.slice.value, str) else None
                add(n, n.value, k)
            elif isinstance(n, ast.Call):
                f = ast.unparse(n.func)
                a = n.args
                const = lambda i: a[i].value if len(a) > i and isinstance(a[i], ast.Constant) and isinstance(a[i].value, str) else None
                if f in ("setattr", "delattr") and a:
                    add(n, a[0], const(1))
                elif f.split(".")[-1] in ("__setattr__", "__delattr__") and f.split(".")[0] in ("object", "type") and a:
                    add(n, a[0], const(1))
                elif isinstance(n.func, ast.Attribute) and n.func.attr in ("__setattr__", "__delattr__", "__setitem__", "__delitem__"):
                    add(n, n.func.value, const(0))
                elif isinstance(n.func, ast.Attribute) and n.func.attr in ("update", "setdefault", "pop", "popitem", "clear", "__ior__"):
                    add(n, n.func.value, None)
        return out

    def check_patches(self):
        """a module-level statement of file A that assigns an attribute of ANOTHER persim module / class / function refuses the
        entry points of A (ModuleInfo.problems) AND the assigned target (audit 4, note on wording).  The problem's text says
        exactly what is refused."""
        for mname in sorted(self.modules):
            m = self.modules[mname]
            for idx, st in m.unmodelled:
                text = ast.unparse(st)[:80].split("\n")[0]
                refused, unresolved = [], []
                for what, hits in self.assigned_objects(m, st):
                    if not hits:
                        unresolved.append(what)
                    for r in hits:
                        why = "assigned by the module-level statement `%s` of %s" % (text, m.path)
                        extra = r[-2:] if len(r) > 2 and r[-2] == "attr" else None
                        r = r[:-2] if extra else r
                        if r[0] == "func" or (r[0] == "module" and extra and extra[1] in r[1].funcs):
                            tm, fname = (r[1], r[2].name) if r[0] == "func" else (r[1], extra[1])
                            tm.patched.setdefault(fname, "%s is %s" % (fname, why))
                            refused.append("%s.%s" % (tm.name, fname))
                        elif r[0] in ("class", "method"):
                            c = r[1]
                            p = "%s%s is %s" % (c.name, "." + r[2].name if r[0] == "method" else "", why)
                            if p not in c.problems:
                                c.problems.append(p)
                            refused.append("class %s.%s" % (c.module.name, c.name))
                        elif r[1] is not m or r[0] == "data":
                            tm = r[1]
                            p = "an attribute of this module%s is %s" % (" (`%s`)" % (extra[1] if extra else r[2]) if (extra or r[0] == "data") else "", why)
                            if tm is not m and p not in tm.problems:
                                tm.problems.append(p)
                            if tm is not m:
                                refused.append("every entry point of %s" % tm.path)
                refused = sorted(set(refused), key=refused.index)
                has_call = any(isinstance(n, ast.Call) for n in ast.walk(st))
                m.problems[idx] += " [refused: every entry point of %s%s%s]" % (
                    m.path, "".join("; " + x for x in refused),
                    "; what `%s` assigns is not resolved to a persim attribute" % unresolved[0] if unresolved else
                    ("; what the calls it makes change is not resolved" if has_call and not refused else ""))

    def base_name(self, cls, b):
        """what a base class of the `class` line resolves to: `persim.<module>.<Class>`, the dotted library name, or `?<text>`"""
        parts, e = [], b
        while isinstance(e, ast.Attribute):
            parts.insert(0, e.attr)
            e = e.value
        if not isinstance(e, ast.Name):
            return "?" + ast.unparse(b)
        r = self.resolve_name(cls.module, e.id)
        if r is None:
            return ("builtins." if e.id in BUILTIN_NAMES else "?") + ast.unparse(b)
        for a in parts:
            if r is not None and r[0] == "module":
                r = (self.resolve_attr(r, a) or [None])[-1]
            elif r is not None and r[0] == "ext":
                r = ("ext", r[1] + "." + a)
            else:
                return "?" + ast.unparse(b)
        if r is None:
            return "?" + ast.unparse(b)
        if r[0] == "class":
            return "persim.%s.%s" % (r[1].module.name, r[1].name)
        if r[0] == "ext":
            return r[1]
        return "?" + ast.unparse(b)

    def check_classes(self, policy, require):
        """IR-1: (1) the `class` line of every persim class and what its bases resolve to are the reviewed entry of policy.json
        `class_lines` (`require`: on a real tree; in a snippet only when the snippet's policy has the key); (2) a persim BASE
        class that defines one of tables.CLASS_HOOK_METHODS is an unreviewed class decorator on every subclass, unless
        `base_hooks_reviewed` holds the definition's text; (3) the problems of a persim base class are problems of its subclasses"""
        policy = policy or {}
        lines = policy.get("class_lines")
        hooks_ok = policy.get("base_hooks_reviewed", {})
        classes = [c for n in sorted(self.modules) for c in self.modules[n].classes.values()]
        for c in classes:
            key = "%s.%s" % (c.module.name, c.name)
            c.resolved_bases = [self.base_name(c, b) for b in c.node.bases]
            if lines is not None or require:
                want = (lines or {}).get(key)
                if want is None:
                    c.problems.append("class %s is not in policy.json class_lines (its `class` line and bases are not reviewed)" % key)
                elif want.get("line") != c.line or list(want.get("bases", [])) != c.resolved_bases:
                    c.problems.append("`%s` with bases [%s] is not the reviewed class line `%s` with bases [%s] of policy.json class_lines"
                                      % (c.line, ", ".join(c.resolved_bases), want.get("line"), ", ".join(want.get("bases", []))))
        own = {id(c): list(c.problems) for c in classes}
        for c in classes:
            for b in self.mro(c):
                bkey = "%s.%s" % (b.module.name, b.name)
                for h in sorted(b.hooks):
                    if b is c and h in T.CLASS_SELF_HOOKS and hooks_ok.get(bkey, {}).get(h) != b.hooks[h]:
                        c.problems.append("the class defines `%s`, which decides what the attributes of its instances are, and its text is "
                                          "not in policy.json base_hooks_reviewed" % h)
                    elif b is not c and hooks_ok.get(bkey, {}).get(h) != b.hooks[h]:
                        c.problems.append("base class %s defines `%s`, which acts on every subclass like a class decorator, and its text "
                                          "is not in policy.json base_hooks_reviewed" % (bkey, h))
                for p in own[id(b)] if b is not c else []:
                    c.problems.append("base class %s: %s" % (bkey, p))

    def package_inits(self, module):
        """the `__init__` modules of the packages `module` lives in (outermost first)"""
        parts = module.name.split(".")[:-1]
        names = ["__init__"] + [".".join(parts[:k]) + ".__init__" for k in range(1, len(parts) + 1)]
        return [self.modules[n] for n in names if n in self.modules and self.modules[n] is not module]

    def find_module(self, dotted):
        """persim.landscapes.exact -> ModuleInfo"""
        if dotted == "persim":
            return self.modules.get("__init__")
        if dotted.startswith("persim."):
            dotted = dotted[len("persim."):]
        return self.modules.get(dotted) or self.modules.get(dotted + ".__init__")

    def find_class(self, name, module=None):
        if module is not None:
            r = self.resolve_name(module, name)
            if r and r[0] == "class":
                return r[1]
        for m in self.modules.values():
            if name in m.classes:
                return m.classes[name]
        return None

    def mro(self, cls):
        out, todo = [], [cls]
        while todo:
            c = todo.pop(0)
            if c is None or c in out:
                continue
            out.append(c)
            todo += [self.find_class(b, c.module) for b in c.bases if b]
        return out

    def lookup_method(self, cls, name, skip_first=False):
        for c in self.mro(cls)[1 if skip_first else 0:]:
            if name in c.methods:
                return c, c.methods[name]
        return None

    def lookup_prop(self, cls, name, which):
        for c in self.mro(cls):
            d = c.getters if which == "get" else c.setters
            if name in d:
                return c, d[name]
        return None

    def resolve_name(self, module, name, depth=0):
        """module-level meaning of a name: ('func', ModuleInfo, node) | ('class', ClassInfo) | ('module', ModuleInfo)
        | ('ext', dotted) | ('data', ModuleInfo, name) | None"""
        if name in module.funcs:
            return ("func", module, module.funcs[name])
        if name in module.classes:
            return ("class", module.classes[name])
        if name in module.imports:
            imp = module.imports[name]
            if imp[0] == "ext":
                m = self.find_module(imp[1]) if imp[1].startswith("persim") else None
                return ("module", m) if m else ("ext", canon(imp[1]))
            _, mod, attr = imp
            if mod == "persim" or mod.startswith("persim."):
                sub = self.find_module(mod + "." + attr) if mod != "persim" else self.find_module(attr)
                if sub:
                    return ("module", sub)
                m = self.find_module(mod)
                if m and m is not module and depth < 5:
                    r = self.resolve_name(m, attr, depth + 1)
                    if r:
                        return r
                if mod == "persim":       # re-exported through persim/__init__
                    for mm in self.modules.values():
                        if attr in mm.funcs or attr in mm.classes:
                            return self.resolve_name(mm, attr, depth + 1)
                return ("ext", mod + "." + attr)
            return ("ext", canon(mod + "." + attr))
        if name in module.data:
            return ("data", module, name)
        for mod in module.star_imports:           # `from .tools import *`
            m = self.find_module(mod) if (mod == "persim" or mod.startswith("persim.")) else None
            if m and m is not module and depth < 5:
                r = self.resolve_name(m, name, depth + 1)
                if r:
                    return r
        return None

    def entry_points(self):
        eps = []
        for mname in sorted(self.modules):
            m = self.modules[mname]
            for st in m.tree.body:
                if isinstance(st, ast.FunctionDef) and (not st.name.startswith("_") or st.name in EXTRA_PUBLIC):
                    eps.append(EntryPoint(m, None, st, "func"))
                elif isinstance(st, ast.ClassDef) and not st.name.startswith("_"):
                    c = m.classes[st.name]
                    for b in st.body:
                        if not isinstance(b, ast.FunctionDef):
                            continue
                        if b.name in c.getters and c.getters[b.name] is b:
                            eps.append(EntryPoint(m, c, b, "getter"))
                        elif b.name in c.setters and c.setters[b.name] is b:
                            eps.append(EntryPoint(m, c, b, "setter"))
                        elif not b.name.startswith("_") or (b.name.startswith("__") and b.name.endswith("__")):
                            eps.append(EntryPoint(m, c, b, "static" if b.name in c.static else "method"))
        return eps


# ------------------------------------------------------------------------------------------------ IR builder

class Program:
    def __init__(self, name):
        self.name = name
        self.vars, self.sites, self.site_desc = {}, {}, []
        self.instrs, self.seen, self.origin = [], set(), {}
        self.params = []
        self.fv = {}                  # IR var -> set of callable descriptors (function values), see `Frame.apply_desc`
        self.fn_origin = set()        # IR vars created as holders of a function value (all their values are described by fv)
        self.defs = {}                # IR var -> [(op, source)] of the instructions that define it (new / copy / elem)
        self.list_vars = set()        # IR vars that can only hold fresh Python containers (list/tuple/dict/set objects):
                                      # subscripting / iterating them yields an element, never a view of the container
        self.notes = []
        self.globals_read, self.globals_written, self.uses_rng = set(), set(), False

    def var(self, key):
        if key not in self.vars:
            self.vars[key] = len(self.vars)
        return self.vars[key]

    def site(self, key, desc):
        if key not in self.sites:
            self.sites[key] = len(self.sites)
            self.site_desc.append(desc)
        return self.sites[key]

    def emit(self, op, a=0, b=0, origin=""):
        if op == COPY and a == b:
            return
        ins = (op, a, b)
        if ins not in self.seen:
            self.seen.add(ins)
            self.instrs.append(ins)
            self.origin[ins] = origin
            if op in (NEW, COPY, ELEM):
                self.defs.setdefault(a, []).append((op, b))
        elif op in (WRITE, STORE) and origin and origin != self.origin.get(ins):
            # the same instruction from another statement: kept for the diagnostics and for the reviewed-writes pin
            more = self.__dict__.setdefault("more_origins", {}).setdefault(ins, [])
            if origin not in more:
                more.append(origin)
        if op == COPY and b in self.fv:
            self.fv.setdefault(a, set()).update(self.fv[b])

    def fn_complete(self, v, seen=None):
        """every value `v` can hold is a function value described in `fv[v]` (or a constant, whose call only raises):
        `v` was created as a function-value holder, or is defined by copies of such variables only"""
        if v in self.fn_origin or v == self.vars.get(("const",)):
            return True
        seen = set() if seen is None else seen
        if v in seen:
            return True
        seen.add(v)
        ds = self.defs.get(v, [])
        if not ds or v in self.params:
            return False
        return all(op == COPY and self.fn_complete(src, seen) for op, src in ds)

    # --- least solution of the inclusion constraints (mirror of Model/IR.lean `solve`; unverified, checked in Lean)
    def solve(self):
        nv, no = getattr(self, "nvars", len(self.vars)), getattr(self, "nsites", len(self.sites)) + 1
        pts = [0] * nv
        cont = [0] * no
        cont[0] = 1
        for p in self.params:
            pts[p] |= 1
        changed = True
        while changed:
            changed = False
            for op, a, b in self.instrs:
                if op == NEW:
                    n = pts[a] | (1 << (b + 1))
                    if n != pts[a]:
                        pts[a] = n; changed = True
                elif op == COPY:
                    n = pts[a] | pts[b]
                    if n != pts[a]:
                        pts[a] = n; changed = True
                elif op in (STORE, SETATTR):
                    m, o = pts[a], 0
                    while m:
                        if m & 1:
                            n = cont[o] | pts[b]
                            if n != cont[o]:
                                cont[o] = n; changed = True
                        m >>= 1; o += 1
                elif op == ELEM:
                    m, o, acc = pts[b], 0, pts[a]
                    while m:
                        if m & 1:
                            acc |= cont[o]
                        m >>= 1; o += 1
                    if acc != pts[a]:
                        pts[a] = acc; changed = True
        return {"nObj": no, "pts": pts, "cont": cont}

    def unsafe_instrs(self, sol):
        """the writes / stores through a possibly-owned variable (Python mirror of `writeOk`; diagnostics only)"""
        out = []
        for ins in self.instrs:
            op, a, b = ins
            if op in (WRITE, STORE) and sol["pts"][a] & 1:
                out.append({"instr": "%s %d %d" % (OPNAMES[op], a, b), "origin": self.origin.get(ins, "")})
                for o in getattr(self, "more_origins", {}).get(ins, []):
                    out.append({"instr": "%s %d %d" % (OPNAMES[op], a, b), "origin": o})
        return out

    def well_formed(self, sol):
        """Python mirror of `wellFormed` (Model/IR.lean) on the unpacked tables: every variable and site is inside the tables,
        every variable that is read is a parameter or bound by some instruction, every write target has a non-empty points-to set"""
        nv, no = len(sol["pts"]), sol["nObj"]
        defined = set(self.params) | {a for op, a, b in self.instrs if op in (NEW, COPY, ELEM)}
        if no < 1 or len(sol["cont"]) < no or any(p >= nv for p in self.params):
            return False
        for op, a, b in self.instrs:
            uses = {COPY: (b,), STORE: (a, b), ELEM: (b,), WRITE: (a,), SETATTR: (a, b)}.get(op, ())
            allv = uses + ((a,) if op in (NEW, COPY, ELEM) else ())
            if any(v >= nv for v in allv) or (op == NEW and b + 1 >= no):
                return False
            if any(v not in defined for v in uses) or (op in (WRITE, STORE, SETATTR) and sol["pts"][a] == 0):
                return False
        return True

    def eliminate_dead(self):
        """drop `new`/`copy`/`elem` into variables that are never used (dead temporaries); nothing else is touched"""
        while True:
            live = set(self.params)
            for op, a, b in self.instrs:
                if op in (WRITE,):
                    live.add(a)
                elif op in (STORE, SETATTR):
                    live.add(a); live.add(b)
                elif op in (COPY, ELEM):
                    live.add(b)
            keep = [i for i in self.instrs if not (i[0] in (NEW, COPY, ELEM) and i[1] not in live)]
            if len(keep) == len(self.instrs):
                break
            self.instrs = keep
        self.seen = set(self.instrs)
        # renumber variables and sites densely
        used = sorted({v for op, a, b in self.instrs for v in ((a,) if op in (NEW, WRITE) else (a, b) if op in (COPY, STORE, ELEM, SETATTR) else ())}
                      | set(self.params))
        vmap = {v: i for i, v in enumerate(used)}
        sused = sorted({b for op, a, b in self.instrs if op == NEW})
        smap = {s: i for i, s in enumerate(sused)}
        new_instrs, new_origin = [], {}
        for ins in self.instrs:
            op, a, b = ins
            if op == NEW:
                n = (op, vmap[a], smap[b])
            elif op == WRITE:
                n = (op, vmap[a], 0)
            elif op in (COPY, STORE, ELEM, SETATTR):
                n = (op, vmap[a], vmap[b])
            else:
                n = ins
            new_instrs.append(n); new_origin[n] = self.origin.get(ins, "")
            if ins in getattr(self, "more_origins", {}):
                new_more = self.__dict__.setdefault("more_origins_renumbered", {})
                new_more[n] = self.more_origins[ins]
        self.more_origins = self.__dict__.pop("more_origins_renumbered", {})
        self.instrs, self.origin, self.seen = new_instrs, new_origin, set(new_instrs)
        self.params = [vmap[p] for p in self.params]
        self.site_desc = [self.site_desc[s] for s in sused]
        self.nvars, self.nsites = len(used), len(sused)

    def protocol(self):
        return "[%s,[%s]]" % ("[" + ",".join(map(str, self.params)) + "]",
                              ",".join("[%d,%d,%d]" % i for i in self.instrs))



# ------------------------------------------------------------------------------------------------ abstract interpreter

class Callee:
    """a persim function value: def / lambda / method, with its binding"""

    def __init__(self, module, node, cls=None, bound_self=None, self_cls=None, parent=None):
        self.module, self.node, self.cls, self.bound_self, self.self_cls, self.parent = module, node, cls, bound_self, self_cls, parent

    def key(self):
        return (self.module.name, self.node.lineno, self.node.col_offset, self.bound_self if self.bound_self is not None else -1,
                self.self_cls.name if self.self_cls else "", self.parent.ctx if self.parent else ())

    def __hash__(self):
        return hash(self.key())

    def __eq__(self, o):
        return isinstance(o, Callee) and self.key() == o.key()


def dkey(d):
    """a total, run-independent order on function-value descriptors"""
    return (0, repr(d.key())) if isinstance(d, Callee) else (1, repr(d))


def pos(node):
    return (getattr(node, "lineno", 0), getattr(node, "col_offset", 0), getattr(node, "end_lineno", 0),
            getattr(node, "end_col_offset", 0), type(node).__name__)


def is_immutable_const(e):
    if isinstance(e, ast.Constant):
        return True
    if isinstance(e, ast.UnaryOp) and isinstance(e.operand, ast.Constant):
        return True
    if isinstance(e, ast.Tuple):
        return all(is_immutable_const(x) for x in e.elts)
    return False


class Translator:
    def __init__(self, project, policy=None):
        self.project = project
        self.policy = policy or {}
        self.constants = set(self.policy.get("constants", []))
        self.unknown_calls = set()

    def translate(self, ep):
        for m in self.project.package_inits(ep.module):
            if m.problems:
                raise TranslatorError("%s: %s" % (m.path, "; ".join(m.problems[:3])))
        prog = Program(ep.name)
        fr = Frame(self, prog, ep.module, ep.node, (), cls=ep.cls, self_cls=ep.cls, parent=None)
        fr.bind_entry_params(ep)
        fr.run()
        prog.eliminate_dead()
        return prog


class Frame:
    def __init__(self, tr, prog, module, func, ctx, cls=None, self_cls=None, parent=None):
        self.tr, self.prog, self.module, self.func, self.ctx = tr, prog, module, func, ctx
        self.cls, self.self_cls, self.parent = cls, self_cls, parent
        self.project = tr.project
        self.state = {}           # name -> tuple of version vars
        self.deflog = []          # (name, var) in definition order
        self.local_imports = {}
        self.global_names = set()
        self.selfname = None
        self.vtag = ""            # distinguishes the temporaries of several function values applied at one call node
        self.param_bind = {}      # parameter name -> the variable it was bound to
        a = getattr(func, "args", None)
        self.param_names = set(p.arg for p in a.posonlyargs + a.args + a.kwonlyargs) if a else set()
        self.ret = prog.var(("ret", ctx))
        self.fname = (cls.name + "." if cls else "") + getattr(func, "name", "<lambda>")
        self.nested_defaults = {}  # id(nested def / lambda) -> {parameter name: variable of its default, evaluated at the definition}
        # code the translator does not model around this function (audit R6): the function is not what its `def` says
        for what in (module, cls, self_cls):
            if what is not None and what.problems:
                raise TranslatorError("%s: %s" % (getattr(what, "path", None) or "%s.%s" % (what.module.name, what.name),
                                                  "; ".join(what.problems[:3])))
        if cls is None and getattr(func, "name", None) in module.patched and module.funcs.get(func.name) is func:
            raise TranslatorError("%s (%s)" % (module.patched[func.name], module.path))
        for owner in (module, cls):
            if owner is not None and id(func) in owner.bad_decorators:
                raise TranslatorError("decorator `%s` of %s is not modelled (%s)" % (owner.bad_decorators[id(func)][:60], self.fname, module.path))

    # --- small helpers
    def org(self, node):
        ln = getattr(node, "lineno", 0)
        src = self.module.lines[ln - 1].strip() if 0 < ln <= len(self.module.lines) else ""
        via = " (inlined, depth %d)" % len(self.ctx) if self.ctx else ""
        return "%s:%d %s: %s%s" % (self.module.path, ln, self.fname, src[:100], via)

    def emit(self, op, a=0, b=0, node=None):
        self.prog.emit(op, a, b, self.org(node) if node is not None else "")

    def tmp(self, node, tag=""):
        return self.prog.var(("t", self.ctx, self.module.name, pos(node), tag + self.vtag))

    def fnval(self, node, desc, tag="fn"):
        """a variable holding exactly the function value `desc`"""
        t = self.tmp(node, tag + repr(dkey(desc)))
        self.prog.fv.setdefault(t, set()).add(desc)
        self.prog.fn_origin.add(t)
        self.emit(COPY, t, self.const(), node)
        return t

    def fresh(self, node, tag="", desc=None, is_list=False):
        t = self.tmp(node, "new" + tag)
        if is_list:
            self.prog.list_vars.add(t)
        s = self.prog.site(("s", self.ctx, self.module.name, pos(node), tag + self.vtag),
                           "%s %s" % (desc or type(node).__name__, self.org(node)))
        self.emit(NEW, t, s, node)
        return t

    def const(self):
        v = self.prog.var(("const",))
        self.prog.emit(NEW, v, self.prog.site(("const",), "constants / immutable scalars"), "constants")
        return v

    def defvar(self):
        """pre-existing module-level objects (mutable default arguments, module constants): caller-visible"""
        v = self.prog.var(("defaults",))
        if v not in self.prog.params:
            self.prog.params.append(v)
        return v

    def item(self, node, x, tag=""):
        t = self.tmp(node, "item" + tag)
        if x not in self.prog.list_vars:              # an ndarray row / slice is a view of the same buffer
            self.emit(COPY, t, x, node)
        self.emit(ELEM, t, x, node)
        return t

    def elem(self, node, x, tag=""):
        t = self.tmp(node, "elem" + tag)
        self.emit(ELEM, t, x, node)
        return t

    def handle(self, node, tag=""):
        return self.fresh(node, "h" + tag, "matplotlib handle")

    # --- names
    def define(self, name, val, node, tag="", extra=()):
        """a new version of `name`: the value variable itself (no copy) unless several sources must be joined"""
        if name in self.global_names:
            g = self.global_id(self.module.name + "." + name)
            self.emit(WGLOB, g, 0, node)
            self.prog.globals_written.add(self.module.name + "." + name)
        if extra:
            v = self.prog.var(("v", self.ctx, self.module.name, name, pos(node), tag))
            for s in (val,) + tuple(extra):
                self.emit(COPY, v, s, node)
        else:
            v = val
        self.state[name] = (v,)
        self.deflog.append((name, v))
        return v

    def global_id(self, qual):
        ids = self.prog.__dict__.setdefault("global_ids", {"<pyplot>": T.PYPLOT_GLOBAL})
        if qual not in ids:
            ids[qual] = len(ids)
        return ids[qual]

    def lookup_local(self, name):
        fr = self
        while fr is not None:
            if name in fr.state:
                return fr.state[name]
            fr = fr.parent
        return None

    def resolve_static(self, name):
        """module-level / builtin meaning of a name that is not a local"""
        fr = self
        while fr is not None:
            if name in fr.local_imports:
                imp = fr.local_imports[name]
                return ("ext", canon(imp))
            fr = fr.parent
        return self.project.resolve_name(self.module, name)

    def dotted(self, e):
        """('ext', 'np.array') | ('module', m) | ('func', m, node) | ('class', c) | ('data', m, name) | ('builtin', name) | None"""
        if isinstance(e, ast.Name):
            if self.lookup_local(e.id) is not None:
                return None
            r = self.resolve_static(e.id)
            if r:
                return r
            return ("builtin", e.id) if e.id in BUILTIN_NAMES else None   # an unresolved name is module-level state (ev_Name)
        if isinstance(e, ast.Attribute):
            b = self.dotted(e.value)
            if b is None:
                return None
            if b[0] == "builtin":                     # list.sort, dict.update, object.__setattr__ …
                return ("builtin", b[1] + "." + e.attr)
            if b[0] == "ext":
                return ("ext", canon(b[1] + "." + e.attr))
            if b[0] == "module":
                return self.project.resolve_name(b[1], e.attr) or ("ext", "persim." + b[1].name + "." + e.attr)
            if b[0] == "class":
                return ("classattr", b[1], e.attr)
            return None
        return None

    def ev_Name(self, node):
        vs = self.lookup_local(node.id)
        if vs is not None:
            if len(vs) == 1:
                return vs[0]
            t = self.prog.var(("rd", self.ctx, self.module.name, node.id, vs))
            if all(v in self.prog.list_vars for v in vs):
                self.prog.list_vars.add(t)
            for v in vs:
                self.emit(COPY, t, v, node)
            return t
        r = self.resolve_static(node.id)
        if r is None:
            if node.id in BUILTIN_NAMES:
                return self.fnval(node, ("ext", node.id))  # builtin name: no buffer; as a function value: the table
            # bound by nothing the translator reads (a tuple / conditional / star-import binding at module level, `globals()`):
            # module-level state
            self.read_global("<unresolved name %s.%s>" % (self.module.name, node.id), node)
            return self.defvar()
        return self.static_value(r, node)

    def static_value(self, r, node):
        if r[0] == "func":
            return self.fnval(node, Callee(r[1], r[2]))
        if r[0] in ("ext", "builtin"):
            return self.fnval(node, ("ext", r[1]))
        if r[0] == "class":
            return self.fnval(node, ("class", r[1].module.name, r[1].name))
        if r[0] == "data":
            qual = r[1].name + "." + r[2]
            if r[2] == "__all__":
                return self.const()
            # (a `_VERIF_*` name is ordinary module-level state wherever it is evaluated: the reviewed hook statements, the only
            # place where it is not, are skipped whole by `st_If`)
            if qual not in self.tr.constants or r[2] in r[1].global_decls:
                self.emit(RGLOB, self.global_id(qual), 0, node)
                self.prog.globals_read.add(qual)
            return self.defvar()
        return self.const()                          # modules, classes, external names

    # --- expressions
    def ev(self, e):
        if e is None:
            return self.const()
        m = getattr(self, "ev_" + type(e).__name__, None)
        if m is None:
            raise TranslatorError("unsupported expression %s at %s" % (type(e).__name__, self.org(e)))
        return m(e)

    def ev_Constant(self, e):
        return self.const()

    def ev_JoinedStr(self, e):
        for v in e.values:
            if isinstance(v, ast.FormattedValue):
                self.ev(v.value)
        return self.const()

    def ev_FormattedValue(self, e):
        self.ev(e.value)
        return self.const()

    def container(self, e, elts, tag=""):
        t = self.fresh(e, tag, "literal", is_list=True)
        for x in elts:
            if x is None:
                continue
            if isinstance(x, ast.Starred):
                self.emit(STORE, t, self.item(x, self.ev(x.value)), e)
            else:
                self.emit(STORE, t, self.ev(x), e)
        return t

    def ev_List(self, e):
        return self.container(e, e.elts)

    ev_Tuple = ev_List
    ev_Set = ev_List

    def ev_Dict(self, e):
        t = self.container(e, [k for k in e.keys if k is not None] + [v for k, v in zip(e.keys, e.values) if k is not None])
        for k, v in zip(e.keys, e.values):
            if k is None:                            # **other
                self.emit(STORE, t, self.item(v, self.ev(v)), e)
        return t

    def comprehension(self, e, elts):
        saved = dict(self.state)
        for _ in range(LOOP_PASSES):
            before = dict(self.state)
            for g in e.generators:
                it = self.ev(g.iter)
                self.assign_target(g.target, self.item(g.iter, it, "it"), g.iter)
                for c in g.ifs:
                    self.ev(c)
            t = self.fresh(e, "", "comprehension", is_list=True)
            for x in elts:
                self.emit(STORE, t, self.ev(x), e)
            if self.state == before:
                break
        else:
            raise TranslatorError("the version sets of the comprehension at %s are not stable after %d passes" % (self.org(e), LOOP_PASSES))
        self.state = saved
        return t

    def ev_ListComp(self, e):
        return self.comprehension(e, [e.elt])

    ev_SetComp = ev_ListComp
    ev_GeneratorExp = ev_ListComp

    def ev_DictComp(self, e):
        return self.comprehension(e, [e.key, e.value])

    def ev_IfExp(self, e):
        self.ev(e.test)
        t = self.tmp(e, "ifexp")
        self.emit(COPY, t, self.ev(e.body), e)
        self.emit(COPY, t, self.ev(e.orelse), e)
        return t

    def ev_BoolOp(self, e):
        t = self.tmp(e, "boolop")
        for v in e.values:
            self.emit(COPY, t, self.ev(v), e)
        return t

    def ev_Compare(self, e):
        self.ev(e.left)
        for c in e.comparators:
            self.ev(c)
        return self.fresh(e, "", "comparison")

    def ev_Lambda(self, e):
        self.eval_defaults(e)
        return self.fnval(e, Callee(self.module, e, cls=self.cls, self_cls=self.self_cls, parent=self), "lambda")

    def ev_Starred(self, e):
        return self.item(e, self.ev(e.value))

    def ev_NamedExpr(self, e):
        v = self.ev(e.value)
        self.assign_target(e.target, v, e)
        return v

    def selfkey(self, e):
        """(module, class) of the class `self` is an instance of when `e` is `self`, else (None, None)"""
        if self.is_self(e) and self.self_cls is not None:
            return (self.self_cls.module.name, self.self_cls.name)
        return (None, None)

    def is_self(self, e):
        return isinstance(e, ast.Name) and self.selfname is not None and e.id == self.selfname and self.lookup_local(e.id) is not None

    BINOPS = {ast.Add: ("__add__", "__radd__"), ast.Sub: ("__sub__", "__rsub__"), ast.Mult: ("__mul__", "__rmul__"),
              ast.Div: ("__truediv__", "__rtruediv__")}

    def ev_BinOp(self, e):
        l, r = self.ev(e.left), self.ev(e.right)
        obj = self.fresh(e, "", "arithmetic")
        if isinstance(e.op, (ast.Add, ast.Mult)):     # list concatenation / repetition keeps the operands' elements
            for x, sub in ((l, e.left), (r, e.right)):
                if not isinstance(sub, ast.Constant):
                    self.emit(STORE, obj, self.elem(e, x, "op%d" % x), e)
        t = self.tmp(e, "binres")
        self.emit(COPY, t, obj, e)
        names = self.BINOPS.get(type(e.op))
        if names and self.self_cls is not None:
            for operand, other, nm in ((e.left, r, names[0]), (e.right, l, names[1])):
                if self.is_self(operand) or self.is_instance_expr(operand):
                    m = self.project.lookup_method(self.self_cls, nm)
                    if m:
                        res = self.inline(Callee(m[0].module, m[1], cls=m[0], bound_self=self.ev(operand), self_cls=self.self_cls),
                                          [("pos", other)], {}, [], e)
                        self.emit(COPY, t, res, e)
        return t

    def is_instance_expr(self, e):
        """syntactic guess that an operand is an instance of the current class: `-other` in a dunder method"""
        return isinstance(e, ast.UnaryOp) and isinstance(e.op, ast.USub) and isinstance(e.operand, ast.Name) \
            and e.operand.id in self.param_names and e.operand.id != self.selfname \
            and self.self_cls is not None and self.project.lookup_method(self.self_cls, "__neg__") is not None \
            and getattr(self.func, "name", "").startswith("__")

    def ev_UnaryOp(self, e):
        v = self.ev(e.operand)
        t = self.tmp(e, "unres")
        self.emit(COPY, t, self.fresh(e, "", "unary operator"), e)
        if self.is_instance_expr(e):
            m = self.project.lookup_method(self.self_cls, "__neg__")
            res = self.inline(Callee(m[0].module, m[1], cls=m[0], bound_self=v, self_cls=self.self_cls), [], {}, [], e)
            self.emit(COPY, t, res, e)
        return t

    @staticmethod
    def is_dunder(name):
        return name.startswith("__") and name.endswith("__")

    def read_global(self, qual, node):
        self.emit(RGLOB, self.global_id(qual), 0, node)
        self.prog.globals_read.add(qual)

    def write_global(self, qual, node):
        self.emit(WGLOB, self.global_id(qual), 0, node)
        self.prog.globals_written.add(qual)

    def state_object(self, e, x=None, read=False):
        """the name of the module-level state a store through / attribute of expression `e` touches, or None:
        external modules and their objects, persim modules / classes / functions, class objects (`type(x)`, `x.__class__`),
        function objects held in a local variable"""
        d = self.dotted(e)
        if d is not None and read and d[0] not in ("class", "func"):
            return None                               # reads of module data / library attributes are handled where they are evaluated
        if d is not None:
            if d[0] in ("ext", "builtin"):
                return "<pyplot>" if d[1].split(".")[0] in ("plt", "mpl") else "<library state %s>" % d[1]
            if d[0] == "module":
                return "<module %s>" % d[1].name
            if d[0] == "class":
                return "%s.%s.<class attributes>" % (d[1].module.name, d[1].name)
            if d[0] == "func":
                return "%s.%s.<function attributes>" % (d[1].name, d[2].name)
            if d[0] == "classattr":
                return "%s.%s.%s" % (d[1].module.name, d[1].name, d[2])
            if d[0] == "data":
                return "%s.%s" % (d[1].name, d[2])
            return None
        if x is not None:
            for ds in sorted(self.prog.fv.get(x, ()), key=dkey):
                if isinstance(ds, Callee):
                    return "%s.%s.<function attributes>" % (ds.module.name, getattr(ds.node, "name", "<lambda>"))
                if ds[0] in ("classof", "class"):
                    return "<class attributes>"
        return None

    def ev_Attribute(self, e):
        d = self.dotted(e)
        if d is not None:
            if d[0] in ("func", "data", "ext", "builtin", "class"):
                if d[0] in ("ext", "builtin") and d[1] in T.STATE_READS:
                    self.read_global(T.STATE_READS[d[1]], e)
                return self.static_value(d, e)
            if d[0] == "classattr":
                m = self.project.lookup_method(d[1], d[2])
                if m:
                    return self.fnval(e, Callee(m[0].module, m[1], cls=m[0], self_cls=d[1]))
                if not self.is_dunder(d[2]) and d[2] not in d[1].getters:
                    # class-level data: state shared by all instances and all calls
                    qual = "%s.%s.%s" % (d[1].module.name, d[1].name, d[2])
                    if qual not in self.tr.constants:
                        self.read_global(qual, e)
                    return self.defvar()
            return self.const()
        x = self.ev(e.value)
        if e.attr in T.SCALAR_ATTRS:
            return self.fresh(e, "", "scalar attribute")
        if e.attr == "__class__":
            return self.fnval(e, ("classof",) + self.selfkey(e.value), "classof")
        if not self.is_dunder(e.attr):
            st = self.state_object(e.value, x, read=True)
            if st is not None:                        # attribute of a function / class object: module-level state
                self.read_global(st, e)
                return self.defvar()
        t = self.tmp(e, "attr")
        self.emit(ELEM, t, x, e)
        if e.attr in T.VIEW_ATTRS:
            self.emit(COPY, t, x, e)
        # as a function value: the bound method `x.attr`
        self.prog.fv.setdefault(t, set()).add(("bound", x, e.attr) + self.selfkey(e.value))
        self.prog.fn_origin.add(t)
        # property getters of persim classes
        if self.is_self(e.value) and self.self_cls is not None:
            g = self.project.lookup_prop(self.self_cls, e.attr, "get")
            cands = [g] if g else []
        else:
            cands = [(c, c.getters[e.attr]) for m in sorted(self.project.modules) for c in self.project.modules[m].classes.values()
                     if e.attr in c.getters]
        for c, fn in cands:
            res = self.inline(Callee(c.module, fn, cls=c, bound_self=x, self_cls=self.self_cls if self.is_self(e.value) else c),
                              [], {}, [], e)
            self.emit(COPY, t, res, e)
        return t

    NP_BOOL_FUNCS = ("np.isfinite", "np.isinf", "np.isnan", "np.logical_and", "np.logical_or", "np.logical_not", "np.any", "np.all")

    @staticmethod
    def is_nd_view(e):
        """syntactically an ndarray: a subscript with a multi-dimensional index holding a slice (`S[:, 1]`; lists and dicts
        raise on it), or arithmetic on one"""
        if isinstance(e, ast.Subscript):
            return isinstance(e.slice, ast.Tuple) and any(isinstance(x, ast.Slice) for x in e.slice.elts)
        if isinstance(e, ast.BinOp):
            return Frame.is_nd_view(e.left) or Frame.is_nd_view(e.right)
        if isinstance(e, ast.UnaryOp) and isinstance(e.op, (ast.USub, ast.UAdd)):
            return Frame.is_nd_view(e.operand)
        return False

    def is_np_bool(self, ix):
        """the expression's value is a NumPy boolean (array or `np.bool_` scalar), never a Python bool / int: used as an index
        it selects a COPY of an ndarray and raises on a list.  (`x[flag == True]`, `x[~0]`, `x[k == 1]` are Python bools / ints:
        element access, an alias — the audit's `is_mask` hole)"""
        if isinstance(ix, ast.Compare):
            return any(self.is_nd_view(x) for x in [ix.left] + ix.comparators)
        if isinstance(ix, ast.UnaryOp) and isinstance(ix.op, ast.Invert):
            return self.is_np_bool(ix.operand)
        if isinstance(ix, ast.BinOp) and isinstance(ix.op, (ast.BitAnd, ast.BitOr, ast.BitXor)):
            return self.is_np_bool(ix.left) or self.is_np_bool(ix.right)
        if isinstance(ix, ast.Call):
            d = self.dotted(ix.func)
            return d is not None and d[0] == "ext" and d[1] in self.NP_BOOL_FUNCS
        return False

    def is_mask(self, ix):
        if isinstance(ix, ast.Tuple):
            return any(self.is_mask(x) for x in ix.elts)
        return self.is_np_bool(ix)

    def mask_names_container(self, e):
        """`x[mask]`: the mask is computed from `x` itself (or the index is multi-dimensional), so `x` is not a dict keyed by
        booleans — for which `d[np.True_]` is the element `d[True]`"""
        if isinstance(e.slice, ast.Tuple):
            return True
        want = ast.dump(e.value)
        return any(ast.dump(n) == want for n in ast.walk(e.slice) if isinstance(n, (ast.Name, ast.Attribute, ast.Subscript)))

    def ev_index(self, ix):
        if isinstance(ix, ast.Slice):
            for p in (ix.lower, ix.upper, ix.step):
                if p is not None:
                    self.ev(p)
        elif isinstance(ix, ast.Tuple):
            for x in ix.elts:
                self.ev_index(x)
        else:
            self.ev(ix)

    def ev_Subscript(self, e):
        x = self.ev(e.value)
        self.ev_index(e.slice)
        if self.is_mask(e.slice):
            t = self.fresh(e, "", "boolean-mask index")
            if not self.mask_names_container(e):
                self.emit(ELEM, t, x, e)
            return t
        return self.item(e, x)

    def ev_Slice(self, e):
        self.ev_index(e)
        return self.const()

    # --- calls
    def ev_args(self, node):
        args, kwargs, kwstar = [], {}, []
        for a in node.args:
            if isinstance(a, ast.Starred):
                args.append(("star", self.ev(a.value)))
            else:
                args.append(("pos", self.ev(a)))
        for k in node.keywords:
            if k.arg is None:
                kwstar.append(self.ev(k.value))
            else:
                kwargs[k.arg] = self.ev(k.value)
        return args, kwargs, kwstar

    def all_arg_vars(self, node, args, kwargs, kwstar):
        out = []
        for kind, v in args:
            out.append(self.item(node, v, "star%d" % v) if kind == "star" else v)
        out += [kwargs[k] for k in sorted(kwargs)]
        out += [self.item(node, v, "kw%d" % v) for v in kwstar]
        return out

    def callback(self, node, argv, what):
        """a call through a caller-supplied callable: assumed read-only; the result is fresh or one of the arguments"""
        t = self.tmp(node, "cbres")
        self.emit(COPY, t, self.fresh(node, "cb", "result of callback %s" % what), node)
        for v in argv:
            self.emit(COPY, t, v, node)
        return t

    def unknown_call(self, node, argv, what, recv=None):
        """a callee the translator cannot resolve: HAVOC.  `R` ranges over every object reachable from the arguments and from
        the receiver / bound object (`elem R R`); each of them may be written (`write R`), may be linked to any other
        (`store R R`), and the result is any of them or fresh.  Function-valued arguments may be called by the callee on
        anything it can reach.  Module-level state may be read and written."""
        self.tr.unknown_calls.add(what)
        self.prog.notes.append("unknown call %s at %s: everything reachable from the arguments assumed written" % (what, self.org(node)))
        R = self.tmp(node, "havoc")
        self.emit(COPY, R, self.fresh(node, "unk", "result of unknown call %s" % what), node)
        srcs = list(argv) + ([recv] if recv is not None else [])
        for v in srcs:
            self.emit(COPY, R, v, node)
        self.emit(ELEM, R, R, node)
        self.emit(WRITE, R, 0, node)
        self.emit(STORE, R, R, node)
        self.read_global("<unknown callee>", node)
        self.write_global("<unknown callee>", node)
        busy = self.prog.__dict__.setdefault("havoc_busy", set())
        for v in srcs:
            for d in sorted(self.prog.fv.get(v, ()), key=dkey):
                k = (R, dkey(d))
                if not isinstance(d, Callee) and d[0] == "bound":
                    self.emit(COPY, R, d[1], node)    # a bound method may be called: its receiver is within reach
                    continue
                # a function value the unknown callee may call: applied to everything within reach.  While one is being applied,
                # an unknown call inside it (which would be handed the same function value again, on its own havoc variable)
                # does not apply it once more: the outer application has already written everything within reach
                if k in busy or dkey(d) in {kk[1] for kk in busy}:
                    continue
                busy.add(k)
                try:
                    self.emit(COPY, R, self.apply_desc(node, d, [("pos", R)] * self.arity(d), {}, [], direct=False), node)
                finally:
                    busy.discard(k)
        return R

    @staticmethod
    def arity(d):
        if isinstance(d, Callee):
            a = d.node.args
            return len(a.posonlyargs) + len(a.args)
        return 2

    def apply_key(self, node, kwargs, items):
        """`key=` callables (sorted / min / max / list.sort) are applied to the elements"""
        kv = kwargs.get("key")
        if kv is not None:
            for it in items:
                self.call_value(node, kv, [("pos", it)], {}, [], "key=")

    def apply_desc(self, node, d, args, kwargs, kwstar, direct=True):
        """apply one function value.  Descriptors: Callee (persim def / lambda / method) · ("ext", dotted) external or builtin
        function, through the classification table · ("class", module, name) persim constructor · ("bound", recv, name,
        module, class) bound method · ("classof", module, class) a class object · ("getter",) operator.itemgetter /
        attrgetter · ("vectorized", fn) np.vectorize(fn)"""
        saved = self.vtag
        self.vtag = saved + "|" + repr(dkey(d))
        try:
            if isinstance(d, Callee):
                return self.inline(d, args, kwargs, kwstar, node)
            if d[0] == "ext":
                return self.apply_table(node, d[1], args, kwargs, kwstar, direct=direct)
            if d[0] == "class":
                return self.construct(node, self.project.modules[d[1]].classes[d[2]], args, kwargs, kwstar)
            if d[0] == "bound":
                cls = self.project.modules[d[3]].classes[d[4]] if d[3] is not None else None
                return self.bound_call(node, d[1], d[2], cls, args, kwargs, kwstar)
            if d[0] == "classof" and d[1] is not None:
                return self.construct(node, self.project.modules[d[1]].classes[d[2]], args, kwargs, kwstar)
            argv = self.all_arg_vars(node, args, kwargs, kwstar)
            if d[0] == "getter":
                t = self.tmp(node, "got")
                for v in argv:
                    self.emit(COPY, t, self.item(node, v, "get%d" % v), node)
                return t
            if d[0] == "vectorized":
                its = [("pos", self.item(node, v, "vec%d" % v)) for v in argv]
                t = self.fresh(node, "vec", "result of a vectorized function")
                self.emit(STORE, t, self.call_value(node, d[1], its, {}, [], "np.vectorize function"), node)
                return t
            return self.unknown_call(node, argv, "function value %r" % (d,))
        finally:
            self.vtag = saved

    def ev_Call(self, node):
        f = node.func
        # super().m(...)
        if isinstance(f, ast.Attribute) and isinstance(f.value, ast.Call) and isinstance(f.value.func, ast.Name) \
                and f.value.func.id == "super" and self.cls is not None and self.selfname is not None:
            args, kwargs, kwstar = self.ev_args(node)
            m = self.project.lookup_method(self.cls, f.attr, skip_first=True)
            if m is None:
                return self.const()                  # external base class (__init__ of a mixin …): no effect on the arguments
            sv = self.ev(ast.Name(id=self.selfname, ctx=ast.Load(), lineno=node.lineno, col_offset=node.col_offset))
            return self.inline(Callee(m[0].module, m[1], cls=m[0], bound_self=sv, self_cls=self.self_cls), args, kwargs, kwstar, node)
        # delayed(f)(...)  /  Parallel(...)(generator)
        if isinstance(f, ast.Call):
            d = self.dotted(f.func)
            if d and d[0] == "ext" and d[1] == "joblib.delayed" and f.args:
                fn = self.ev(f.args[0])
                args, kwargs, kwstar = self.ev_args(node)
                return self.call_value(node, fn, args, kwargs, kwstar, "delayed(%s)" % ast.unparse(f.args[0]))
            if d and d[0] == "ext" and d[1] == "joblib.Parallel":
                self.ev_args(f)
                args, kwargs, kwstar = self.ev_args(node)
                return self.apply_table(node, "joblib.Parallel()", args, kwargs, kwstar)
        args, kwargs, kwstar = self.ev_args(node)
        d = self.dotted(f)
        if d is not None:
            if d[0] == "func":
                return self.inline(Callee(d[1], d[2]), args, kwargs, kwstar, node)
            if d[0] == "class":
                return self.construct(node, d[1], args, kwargs, kwstar)
            if d[0] == "classattr":
                m = self.project.lookup_method(d[1], d[2])
                if m:
                    return self.inline(Callee(m[0].module, m[1], cls=m[0], self_cls=d[1]), args, kwargs, kwstar, node, unbound=d[2] not in m[0].static)
                return self.unknown_call(node, self.all_arg_vars(node, args, kwargs, kwstar), ast.unparse(f))
            if d[0] in ("ext", "builtin"):
                return self.apply_table(node, d[1], args, kwargs, kwstar)
            if d[0] in ("module", "data"):
                return self.unknown_call(node, self.all_arg_vars(node, args, kwargs, kwstar), ast.unparse(f))
        if isinstance(f, ast.Attribute):
            return self.method_call(node, f, args, kwargs, kwstar)
        fn = self.ev(f)
        return self.call_value(node, fn, args, kwargs, kwstar, ast.unparse(f), fexpr=f)

    def is_caller_callable(self, fexpr):
        """`weight(...)`, `kernel(...)`: a parameter documented as a caller-supplied callable (tables.CALLER_CALLABLES), still
        bound to the argument it received"""
        if not (isinstance(fexpr, ast.Name) and fexpr.id in T.CALLER_CALLABLES):
            return False
        fr = self
        while fr is not None:
            if fexpr.id in fr.state:
                return fexpr.id in fr.param_bind and fr.state[fexpr.id] == (fr.param_bind[fexpr.id],)
            fr = fr.parent
        return False

    def call_value(self, node, fn, args, kwargs, kwstar, what, fexpr=None):
        """a call through a variable: every function value it is known to hold is applied; if it may hold anything else, the
        call is an unknown call (havoc) — except for the documented caller-supplied callables, which are assumed read-only"""
        descs = sorted(self.prog.fv.get(fn, ()), key=dkey)
        results = [self.apply_desc(node, d, args, kwargs, kwstar) for d in descs]
        if not descs or not self.prog.fn_complete(fn):
            argv = self.all_arg_vars(node, args, kwargs, kwstar)
            if self.is_caller_callable(fexpr):
                results.append(self.callback(node, argv, what))
            elif fn != self.prog.vars.get(("const",)):
                results.append(self.unknown_call(node, argv, what, recv=fn))
        if len(results) == 1:
            return results[0]
        t = self.tmp(node, "callv")
        for r in results:
            self.emit(COPY, t, r, node)
        if not results:
            self.emit(COPY, t, self.const(), node)
        return t

    def construct(self, node, cls, args, kwargs, kwstar):
        for c in self.project.mro(cls):
            if c.problems:
                raise TranslatorError("%s.%s: %s" % (c.module.name, c.name, "; ".join(c.problems[:3])))
        obj = self.fresh(node, "obj", "instance of %s" % cls.name)
        m = self.project.lookup_method(cls, "__init__")
        if m:
            self.inline(Callee(m[0].module, m[1], cls=m[0], bound_self=obj, self_cls=cls), args, kwargs, kwstar, node)
        else:
            for v in self.all_arg_vars(node, args, kwargs, kwstar):
                self.emit(SETATTR, obj, v, node)
        # the special methods of a PUBLIC class are entry points with their own obligations; those of a private class are run
        # implicitly (`with _C(a):`, `_C(a) + 1`, `len(_C(a))`, `for x in _C(a)`, `_C(a)[0]`, `repr(_C(a))` …) and nothing
        # else looks at them: an instance of such a class is an unknown call on what it was built from
        implicit = sorted({n for c in self.project.mro(cls) if c.name.startswith("_") for n in c.methods
                           if self.is_dunder(n) and n != "__init__"})
        if implicit:
            R = self.unknown_call(node, self.all_arg_vars(node, args, kwargs, kwstar), "implicit special methods %s of the private class %s"
                                  % (" ".join(implicit), cls.name), recv=obj)
            self.emit(COPY, R, obj, node)
            return R
        return obj

    def method_call(self, node, f, args, kwargs, kwstar):
        cls = self.self_cls if self.is_self(f.value) else None
        return self.bound_call(node, self.ev(f.value), f.attr, cls, args, kwargs, kwstar)

    def bound_call(self, node, r, name, self_cls, args, kwargs, kwstar):
        """the call `r.name(...)`; `self_cls` is the class `r` is an instance of when `r` is `self`, else None"""
        is_self = self_cls is not None
        if is_self:
            m = self.project.lookup_method(self_cls, name)
            if m:
                return self.inline(Callee(m[0].module, m[1], cls=m[0], bound_self=r, self_cls=self_cls),
                                   args, kwargs, kwstar, node, static=name in m[0].static)
        results = []
        # the receiver is a CLASS / MODULE object (`type(x).reverse(x)`, `x.__class__.sort(x)`, `L = list; L.sort(x)`,
        # `m = np; m.fill_diagonal(a, 0)`): the call is the function `Class.name`, which works on its first argument (audit R4)
        owners = [d for d in sorted(self.prog.fv.get(r, ()), key=dkey) if not isinstance(d, Callee) and d[0] in ("classof", "class", "ext")]
        for d in owners:
            pc = self.project.modules[d[1]].classes[d[2]] if d[0] in ("classof", "class") and d[1] is not None else None
            m = self.project.lookup_method(pc, name) if pc is not None else None
            if d[0] == "ext":
                results.append(self.apply_table(node, d[1] + "." + name, args, kwargs, kwstar, direct=False))
            elif m:
                results.append(self.inline(Callee(m[0].module, m[1], cls=m[0], self_cls=pc), args, kwargs, kwstar, node,
                                           unbound=name not in m[0].static))
            elif args and args[0][0] == "pos":
                results.append(self.bound_call(node, args[0][1], name, None, args[1:], kwargs, kwstar))
            else:
                results.append(self.unknown_call(node, self.all_arg_vars(node, args, kwargs, kwstar), "%s of a class object" % name, recv=r))
        if owners and self.prog.fn_complete(r):
            t = self.tmp(node, "clsres")
            for v in results:
                self.emit(COPY, t, v, node)
            return t
        argv = self.all_arg_vars(node, args, kwargs, kwstar)
        handled = False
        in_tables = name in T.MUTATOR_METHODS or name in T.FRESH_METHODS or name in T.VIEW_METHODS or name in T.ALIAS_OR_FRESH_METHODS
        if is_self and not in_tables and name in T.CALLER_CALLABLES:
            # an instance attribute documented as a caller-supplied callable (self.weight, self.kernel): assumed read-only
            self.elem(node, r, "fnattr")
            return self.callback(node, argv, "self." + name)
        if name in self.project.method_index and (not is_self or not in_tables):
            # unknown receiver (or a method `self`'s own class leaves to its subclasses): every persim method of that name
            for c in self.project.method_index[name]:
                results.append(self.inline(Callee(c.module, c.methods[name], cls=c, bound_self=r, self_cls=c), args, kwargs, kwstar, node))
            handled = True
        if name in T.MUTATOR_METHODS:
            handled = True
            self.emit(WRITE, r, 0, node)
            if name in T.INSERTING_METHODS:
                for v in argv:
                    self.emit(STORE, r, v, node)
                    if name in ("extend", "update"):
                        self.emit(STORE, r, self.item(node, v, "ext%d" % v), node)
            if name in T.POPPING_METHODS:
                results.append(self.item(node, r, "pop"))
            if name == "sort":
                self.apply_key(node, kwargs, [self.item(node, r, "sortit")])
        elif name in T.FRESH_METHODS and self.function_valued(argv):
            return self.unknown_call(node, argv, ".%s with a function-valued argument" % name, recv=r)
        elif name in T.FRESH_METHODS:
            handled = True
            t = self.fresh(node, "m", "result of .%s()" % name)
            if name == "copy":
                self.emit(STORE, t, self.elem(node, r, "cp"), node)
            posv = [v for kind, v in args if kind == "pos"]
            star = any(kind == "star" for kind, v in args) or bool(kwstar)
            if name in T.METHOD_COPY_POS:                  # astype(dtype, order, casting, subok, copy)
                if self.kw_state(node, kwargs, "copy") not in ("absent", True) or len(posv) > T.METHOD_COPY_POS[name] or star:
                    self.emit(COPY, t, r, node)
            if name in T.METHOD_OUT_POS and (len(posv) > T.METHOD_OUT_POS[name] or star):
                for o in posv[T.METHOD_OUT_POS[name]:] if not star else argv:
                    self.write_out(node, o, t)
            results.append(t)
        elif name in T.VIEW_METHODS or name in T.ALIAS_OR_FRESH_METHODS:
            handled = True
            t = self.tmp(node, "view")
            self.emit(COPY, t, r, node)
            if name in T.ALIAS_OR_FRESH_METHODS:      # the receiver itself, a new object on the receiver's buffers, or fresh
                self.emit(COPY, t, self.fresh(node, "conv", "sparse conversion" if name.startswith("to") else "result of .%s()" % name), node)
            results.append(t)
        elif name in T.ELEM_METHODS:
            handled = True
            t = self.item(node, r, "get")
            for v in argv:
                self.emit(COPY, t, v, node)
            results.append(t)
        elif name in T.HANDLE_METHODS or name.startswith(T.HANDLE_PREFIXES):
            handled = True
            self.emit(WRITE, r, 0, node)
            h = self.handle(node, "m")
            for v in argv:
                self.emit(STORE, r, v, node)
                self.emit(STORE, h, v, node)
            results.append(h)
            results.append(r)                         # fluent interfaces return the receiver; sub-handles (get_xaxis) are fresh handles
        if not handled:
            return self.unknown_call(node, argv, "." + name, recv=r)
        if "out" in kwargs:
            for t in results:
                self.write_out(node, kwargs["out"], t)
            if not results:
                self.write_out(node, kwargs["out"], None)
        for k in sorted(kwargs):
            if k in T.INPLACE_KW and self.kw_state(node, kwargs, k) is not False:
                self.emit(WRITE, r, 0, node)
        if not results:
            return self.const()
        t = self.tmp(node, "mres")
        for v in results:
            self.emit(COPY, t, v, node)
        return t

    def function_valued(self, argv):
        """some argument holds a persim function / lambda / bound method: a library routine given it may call it on anything
        it can reach (`pairwise_distances(a, metric=f)`, `bisect_left(a, x, key=f)`)"""
        return any(isinstance(d, Callee) or d[0] == "vectorized"
                   or (d[0] == "bound" and (d[2] in T.MUTATOR_METHODS or d[2] in self.project.method_index or d[2] == "<unknown attribute>"))
                   for v in argv for d in self.prog.fv.get(v, ()))

    def write_out(self, node, o, res):
        """`o` is an `out` argument: it (or, for `out=(a,)`, its element) is written and is what the call returns"""
        for w in (o, self.item(node, o, "out%d" % o)):
            self.emit(WRITE, w, 0, node)
            if res is not None:
                self.emit(COPY, res, w, node)

    def kw_state(self, node, kwargs, name, direct=True):
        """"absent", the constant given in the source, or "unknown" (not a literal / not a call written in the source)"""
        if name not in kwargs:
            return "absent"
        if direct:
            for k in getattr(node, "keywords", []):
                if k.arg == name and isinstance(k.value, ast.Constant):
                    return k.value.value
        return "unknown"

    def apply_table(self, node, d, args, kwargs, kwstar, direct=True):
        """a call of the external / builtin function `d`, by the classification table.  `direct`: the call is written in the
        source at `node` (so literal keyword values can be read off it); otherwise `d` is applied as a function value"""
        argv = self.all_arg_vars(node, args, kwargs, kwstar)
        posv = [self.item(node, v, "star%d" % v) if kind == "star" else v for kind, v in args]
        star = any(kind == "star" for kind, v in args) or bool(kwstar)
        if d in T.STATE_FUNCS:                         # library-level state (error / warning / print settings, environment, clock)
            name, reads, writes = T.STATE_FUNCS[d]
            if reads:
                self.read_global(name, node)
            if writes:
                self.write_global(name, node)
            return self.fresh(node, "st", "result of %s" % d)
        owner, _, meth = d.rpartition(".")
        if owner in T.METHOD_OWNER_TYPES and d not in T.MUTATING_FUNCS and d not in T.FRESH_FUNCS:
            # a method called through its type: `list.sort(x)` is `x.sort()` (audit R4)
            if args and args[0][0] == "pos":
                return self.bound_call(node, args[0][1], meth, None, args[1:], kwargs, kwstar)
            return self.unknown_call(node, argv, d)
        if d.startswith("np.random.") or d.startswith("random."):
            self.emit(RNG, 0, 0, node)
            self.prog.uses_rng = True
            if d in T.MUTATING_FUNCS:                  # shuffle(x) / shuffle(x=x)
                i = T.MUTATING_FUNCS[d]
                for w in ([posv[i]] if i < len(posv) and not star else argv):
                    self.emit(WRITE, w, 0, node)
            t = self.fresh(node, "rng", "random draw")
            if d.startswith("random."):               # random.choice / sample / choices return the very elements of the population
                res = self.tmp(node, "rngsel")
                self.emit(COPY, res, t, node)
                for v in argv:
                    it = self.item(node, v, "rs%d" % v)
                    self.emit(COPY, res, it, node)
                    self.emit(STORE, t, it, node)
                t = res
            if "out" in kwargs:
                self.write_out(node, kwargs["out"], t)
            return t
        if d.startswith("plt.") or d.startswith("mpl.") and d in T.PYPLOT_STATE_FUNCS:
            self.emit(RGLOB, T.PYPLOT_GLOBAL, 0, node)
            self.emit(WGLOB, T.PYPLOT_GLOBAL, 0, node)
            self.prog.globals_read.add("<pyplot>"); self.prog.globals_written.add("<pyplot>")
            h = self.handle(node, "plt")
            for v in argv:
                self.emit(STORE, h, v, node)
            return h
        if d in T.MUTATING_FUNCS:
            i = T.MUTATING_FUNCS[d]
            for w in ([posv[i]] if i < len(posv) and not star else argv):
                self.emit(WRITE, w, 0, node)
                for v in argv:
                    self.emit(STORE, w, v, node)
            return self.const()
        if d == "np.array" and (self.kw_state(node, kwargs, "copy", direct) not in ("absent", True) or star):
            d = "np.asarray"                           # copy=False / None / not a literal: may be the very object
        if d in T.VIEW_FUNCS or d in T.ALIAS_OR_FRESH_FUNCS:
            t = self.tmp(node, "view")
            if posv and not star:
                self.emit(COPY, t, posv[0], node)
            else:
                for v in argv:
                    self.emit(COPY, t, v, node)
            if d in T.ALIAS_OR_FRESH_FUNCS:            # np.float64(a) is a / np.float64(1.5) is new
                self.emit(COPY, t, self.fresh(node, "f", "result of %s" % d), node)
            if "out" in kwargs:
                self.write_out(node, kwargs["out"], t)
            return t
        if d in ("map", "filter") and posv and not star:
            # the function argument is applied to the elements of the iterables
            t = self.fresh(node, "c", "result of %s" % d, is_list=True)
            its = [self.item(node, v, "ci%d" % v) for v in posv[1:]]
            r = self.call_value(node, posv[0], [("pos", it) for it in its], {}, [], "function argument of %s" % d)
            for v in ([r] if d == "map" else its):
                self.emit(STORE, t, v, node)
            return t
        if d == "np.vectorize" and posv and not star:
            for k in sorted(kwargs):
                if k != "otypes":
                    return self.unknown_call(node, argv, d + " with " + k)
            return self.fnval(node, ("vectorized", posv[0]), "vectorized")
        if d in T.GETTER_FUNCS:
            return self.fnval(node, ("getter",), "getter")
        if d in T.CONTAINER_OF_ITEMS:
            t = self.fresh(node, "c", "result of %s" % d, is_list=(d != "np.array"))
            its = []
            for v in argv if d != "sorted" else posv:
                it = self.item(node, v, "ci%d" % v)
                its.append(it)
                self.emit(STORE, t, it, node)
                if d == "dict":
                    self.emit(STORE, t, self.item(node, it, "cii%d" % v), node)
            self.apply_key(node, kwargs, its)
            return t
        if d in T.CONTAINER_OF_TUPLES:
            t = self.fresh(node, "c", "result of %s" % d, is_list=True)
            tup = self.fresh(node, "tup", "tuples of %s" % d, is_list=True)
            for v in argv:
                self.emit(STORE, tup, self.item(node, v, "ci%d" % v), node)
            self.emit(STORE, t, tup, node)
            return t
        if d in T.CONTAINER_FLATTEN:
            t = self.fresh(node, "c", "result of %s" % d, is_list=True)
            for v in argv:
                self.emit(STORE, t, self.item(node, self.item(node, v, "ci%d" % v), "cii%d" % v), node)
            return t
        if d in T.CONTAINER_OF_ARGS:
            t = self.fresh(node, "c", "result of %s" % d)
            for v in argv:
                self.emit(STORE, t, v, node)
            return t
        if d in T.SELECT_FUNCS:
            t = self.tmp(node, "sel")
            its = []
            for v in argv if d == "next" else posv:
                self.emit(COPY, t, v, node)
                self.emit(ELEM, t, v, node)
                its.append(self.item(node, v, "ci%d" % v))
            self.apply_key(node, kwargs, its)
            return t
        if d == "type" and len(posv) == 1 and not star:
            return self.fnval(node, ("classof", None, None), "classof")
        if d in T.SUM_FUNCS:
            # sum(xs) / sum(xs, start): arithmetic (fresh) or concatenation — then the result holds the elements of the elements
            # of `xs` and the elements of `start`
            t = self.fresh(node, "f", "result of %s" % d)
            for v in argv:
                it = self.item(node, v, "ci%d" % v)
                self.emit(STORE, t, it, node)
                self.emit(STORE, t, self.item(node, it, "cii%d" % v), node)
            return t
        if d == "print" and ("file" in kwargs or kwstar):
            return self.unknown_call(node, argv, "print(file=…)")
        if "." in d and (d in T.FRESH_FUNCS or d in T.READONLY_FUNCS) and self.function_valued(argv):      # (builtins such as
            # callable / isinstance / str / len look at a function, they do not call it)
            return self.unknown_call(node, argv, d + " with a function-valued argument")
        if d in T.FRESH_FUNCS or d in T.READONLY_FUNCS or d.split(".")[-1].endswith(T.EXC_SUFFIXES):
            t = self.fresh(node, "f", "result of %s" % d)
            # `out` given by keyword or positionally: written, and returned
            outs = [kwargs["out"]] if "out" in kwargs else []
            i = T.OUT_POS.get(d)
            if i is not None and (len(posv) > i or star):
                outs += posv[i:] if not star else argv
            for o in outs:
                self.write_out(node, o, t)
            # `copy=False` / `copy=None` / not a literal, by keyword or positionally: the result may be the argument itself,
            # converted in place
            c = self.kw_state(node, kwargs, "copy", direct)
            j = T.COPY_POS.get(d)
            if j is not None and (len(posv) > j or star):
                lit = node.args[j] if direct and not star and j < len(getattr(node, "args", [])) else None
                c = lit.value if isinstance(lit, ast.Constant) else "unknown"
            if c not in ("absent", True):
                for v in (posv[:1] if posv and not star else argv):
                    self.emit(WRITE, v, 0, node)
                    self.emit(COPY, t, v, node)
            # overwrite_input= / inplace= …, by keyword or positionally: the inputs may be used as scratch space
            scratch = any(k in T.INPLACE_KW and self.kw_state(node, kwargs, k, direct) is not False for k in kwargs)
            j = T.INPLACE_POS.get(d)
            if j is not None and (len(posv) > j or star):
                lit = node.args[j] if direct and not star and j < len(getattr(node, "args", [])) else None
                scratch = scratch or not (isinstance(lit, ast.Constant) and lit.value is False)
            if scratch:
                for v in argv:
                    self.emit(WRITE, v, 0, node)
            return t
        if d == "getattr" and posv:
            lit = node.args[1] if direct and not star and len(getattr(node, "args", [])) > 1 else None
            if isinstance(lit, ast.Constant) and isinstance(lit.value, str):
                e = ast.copy_location(ast.Attribute(value=node.args[0], attr=lit.value, ctx=ast.Load()), node)
                t = self.tmp(node, "getattr")
                self.emit(COPY, t, self.ev_Attribute(e), node)
            else:                                      # some attribute or method of the object
                t = self.elem(node, posv[0], "getattr")
                self.emit(COPY, t, posv[0], node)
                self.prog.fv.setdefault(t, set()).add(("bound", posv[0], "<unknown attribute>", None, None))
                self.prog.fn_origin.add(t)
            for v in posv[2:]:
                self.emit(COPY, t, v, node)
            return t
        if d == "super":
            return self.const()
        return self.unknown_call(node, argv, d)

    def inline(self, callee, args, kwargs, kwstar, node, unbound=False, static=False):
        """translate the callee's body afresh for this call site (fresh variables and sites)"""
        fn = callee.node
        site_key = (self.module.name,) + pos(node) + (callee.module.name, fn.lineno, callee.bound_self if callee.bound_self is not None else -1)
        ctx = self.ctx + (site_key,)
        depth = sum(1 for c in self.ctx if c[3:6] == site_key[3:6])
        if len(ctx) > MAX_DEPTH or depth >= 1:
            return self.unknown_call(node, self.all_arg_vars(node, args, kwargs, kwstar) +
                                     ([callee.bound_self] if callee.bound_self is not None else []),
                                     "recursive/deep call of %s" % getattr(fn, "name", "<lambda>"))
        # the same callee applied to the very same argument variables yields the same constraints: reuse
        memo_key = (callee.key(), tuple(args), tuple(sorted(kwargs.items())), tuple(kwstar), unbound, static)
        memo = self.prog.__dict__.setdefault("inline_memo", {})
        if memo_key in memo and not isinstance(fn, ast.Lambda) and callee.parent is None:
            return memo[memo_key]
        fr = Frame(self.tr, self.prog, callee.module, fn, ctx, cls=callee.cls, self_cls=callee.self_cls, parent=callee.parent)
        fr.bind_params(callee, args, kwargs, kwstar, node, self, unbound=unbound, static=static)
        memo[memo_key] = fr.ret
        fr.run()
        return fr.ret

    # --- parameters
    def bind(self, name, var, node):
        self.state[name] = (var,)                     # parameters are the argument variables themselves
        self.param_bind[name] = var
        return var

    def default_value(self, expr, name=None):
        """the value a parameter takes when the call gives none.  Nested defs / lambdas: what the default expression was when
        the function was defined (`def g(col=a.T)`).  Module-level functions and methods: a constant, a function value
        (`kernel=gaussian`, `f=np.ndarray.sort`), else a module-level object shared by all calls (caller-visible)"""
        if self.parent is not None and name in self.parent.nested_defaults.get(id(self.func), {}):
            return self.parent.nested_defaults[id(self.func)][name]
        if expr is None or (isinstance(expr, ast.Name) and expr.id in ("None", "True", "False")):
            return self.const()
        if isinstance(expr, (ast.Name, ast.Attribute)):
            d = self.dotted(expr)
            if d is not None and d[0] in ("func", "class", "ext", "builtin"):
                if d[0] in ("ext", "builtin") and d[1] in T.STATE_READS:
                    return self.defvar()
                return self.static_value(d, expr)
            return self.defvar()
        if is_immutable_const(expr):
            return self.const()
        return self.defvar()          # mutable default: a module-level object shared by all calls

    def bind_entry_params(self, ep):
        a = self.func.args
        names = [p.arg for p in a.posonlyargs + a.args + a.kwonlyargs] + [x.arg for x in (a.vararg, a.kwarg) if x]
        if ep.cls is not None and ep.kind != "static" and names:
            self.selfname = names[0]
        for n in names:
            if n in T.HANDLE_PARAMS:
                h = self.handle(self.func, "param_" + n)
                self.state[n] = (h,)
                # a handle argument is optional: it may also be None
                continue
            v = self.prog.var(("param", n))
            self.prog.params.append(v)
            self.state[n] = (v,)
            self.param_bind[n] = v
        self.defvar()
        # a parameter whose default is a function (`kernel=gaussian`, `f=np.ndarray.sort`) may hold it
        pos_names = [p.arg for p in a.posonlyargs + a.args]
        for n, e in list(zip(pos_names[len(pos_names) - len(a.defaults):], a.defaults)) + \
                [(p.arg, e) for p, e in zip(a.kwonlyargs, a.kw_defaults) if e is not None]:
            if n in self.param_bind and isinstance(e, (ast.Name, ast.Attribute, ast.Lambda)):
                dv = self.ev(e) if isinstance(e, ast.Lambda) else self.default_value(e, n)
                if self.prog.fv.get(dv):
                    self.prog.fv.setdefault(self.param_bind[n], set()).update(self.prog.fv[dv])

    def bind_params(self, callee, args, kwargs, kwstar, node, caller, unbound=False, static=False):
        fn = callee.node
        a = fn.args
        names = [p.arg for p in a.posonlyargs + a.args]
        defaults = [None] * (len(names) - len(a.defaults)) + list(a.defaults)
        has_default = [False] * (len(names) - len(a.defaults)) + [True] * len(a.defaults)
        posv = [v for kind, v in args if kind == "pos"]
        starv = [caller.item(node, v, "star%d" % v) for kind, v in args if kind == "star"]
        kwv = [caller.item(node, v, "kw%d" % v) for v in kwstar]
        is_method = callee.cls is not None and isinstance(fn, ast.FunctionDef) and fn.name not in callee.cls.static \
            and (fn.name in callee.cls.methods and callee.cls.methods[fn.name] is fn or fn.name in callee.cls.getters
                 or fn.name in callee.cls.setters)
        if self.parent is not None and self.selfname is None:
            self.selfname = self.parent.selfname
        if is_method and names:
            self.selfname = names[0]
            if callee.bound_self is not None:
                self.bind(names[0], callee.bound_self, node)
            elif posv:
                self.bind(names[0], posv.pop(0), node)
            else:
                self.bind(names[0], self.defvar(), node)
            names, defaults, has_default = names[1:], defaults[1:], has_default[1:]
        messy = bool(starv or kwv)
        used_kw = set()
        for i, n in enumerate(names):
            srcs = []
            if i < len(posv) and not messy:
                srcs.append(posv[i])
            elif n in kwargs:
                srcs.append(kwargs[n]); used_kw.add(n)
            else:
                if has_default[i] or messy or True:
                    srcs.append(self.default_value(defaults[i], n) if has_default[i] else self.const())
            if messy:
                srcs += posv + starv + kwv
            if len(srcs) == 1:
                t = srcs[0]
            else:
                t = self.prog.var(("arg", self.ctx, n))
                for s in srcs:
                    self.emit(COPY, t, s, node)
            self.bind(n, t, node)
        for p, dflt in zip(a.kwonlyargs, a.kw_defaults):
            if p.arg in kwargs:
                self.bind(p.arg, kwargs[p.arg], node); used_kw.add(p.arg)
            elif not kwv:
                self.bind(p.arg, self.default_value(dflt, p.arg), node)
            else:
                t = self.prog.var(("arg", self.ctx, p.arg))
                self.emit(COPY, t, self.default_value(dflt, p.arg), node)
                for s in kwv:
                    self.emit(COPY, t, s, node)
                self.bind(p.arg, t, node)
        if a.vararg:
            t = self.fresh(fn, "vararg", "*%s" % a.vararg.arg)
            for s in posv[len(names):] + starv:
                self.emit(STORE, t, s, node)
            self.bind(a.vararg.arg, t, node)
        if a.kwarg:
            t = self.fresh(fn, "kwarg", "**%s" % a.kwarg.arg)
            for k in sorted(kwargs):
                if k not in used_kw:
                    self.emit(STORE, t, kwargs[k], node)
            for s in kwv:
                self.emit(STORE, t, s, node)
            self.bind(a.kwarg.arg, t, node)

    # --- statements
    def run(self):
        if isinstance(self.func, ast.Lambda):
            self.emit(COPY, self.ret, self.ev(self.func.body), self.func)
        else:
            self.block(self.func.body)
            self.emit(COPY, self.ret, self.const(), self.func)      # falling off the end returns None

    def block(self, stmts):
        for st in stmts:
            m = getattr(self, "st_" + type(st).__name__, None)
            if m is None:
                raise TranslatorError("unsupported statement %s at %s" % (type(st).__name__, self.org(st)))
            m(st)

    @staticmethod
    def merge(*states):
        out = {}
        for s in states:
            for k, vs in s.items():
                out.setdefault(k, set()).update(vs)
        return {k: tuple(sorted(v)) for k, v in out.items()}

    def defs_since(self, mark):
        out = {}
        for n, v in self.deflog[mark:]:
            out.setdefault(n, set()).add(v)
        return {k: tuple(sorted(v)) for k, v in out.items()}

    def st_Expr(self, st):
        self.ev(st.value)

    def st_Pass(self, st):
        pass

    st_Break = st_Continue = st_Pass

    def st_Return(self, st):
        self.emit(COPY, self.ret, self.ev(st.value), st)

    def st_Raise(self, st):
        if st.exc is not None:
            self.ev(st.exc)

    def st_Assert(self, st):
        self.ev(st.test)

    def st_Global(self, st):
        self.global_names.update(st.names)

    def st_Nonlocal(self, st):
        raise TranslatorError("nonlocal is not modelled (%s)" % self.org(st))

    def st_Import(self, st):
        for a in st.names:
            self.local_imports[a.asname or a.name.split(".")[0]] = a.name if a.asname else a.name.split(".")[0]

    def st_ImportFrom(self, st):
        for a in st.names:
            self.local_imports[a.asname or a.name] = (st.module or "") + "." + a.name

    def eval_defaults(self, fn):
        """default values of a nested def / lambda are evaluated where (and when) it is defined"""
        a = fn.args
        pos_names = [p.arg for p in a.posonlyargs + a.args]
        out = {}
        for n, e in list(zip(pos_names[len(pos_names) - len(a.defaults):], a.defaults)) + \
                [(p.arg, e) for p, e in zip(a.kwonlyargs, a.kw_defaults) if e is not None]:
            out[n] = self.ev(e)
        self.nested_defaults[id(fn)] = out

    def st_FunctionDef(self, st):
        if st.decorator_list:
            raise TranslatorError("decorator `%s` of the nested function %s is not modelled (%s)"
                                  % (ast.unparse(st.decorator_list[0])[:60], st.name, self.org(st)))
        for what, e in def_time_exprs(st):
            if what == "annotation" and runs_code(e):
                raise TranslatorError("annotation `%s` of the nested function %s runs code (%s)" % (ast.unparse(e)[:60], st.name, self.org(st)))
        self.eval_defaults(st)
        self.define(st.name, self.fnval(st, Callee(self.module, st, cls=None, self_cls=self.self_cls, parent=self), "def"), st)

    def st_Assign(self, st):
        if isinstance(st.value, ast.Constant) and isinstance(st.value.value, (int, float, complex)) \
                and not isinstance(st.value.value, bool):
            v = self.fresh(st.value, "k", "number")   # `j = 0; j += 1` rebinds a private scalar, not the shared constants
        else:
            v = self.ev(st.value)
        for t in st.targets:
            self.assign_target(t, v, st)

    def st_AnnAssign(self, st):
        if st.value is not None:
            self.assign_target(st.target, self.ev(st.value), st)

    def assign_target(self, t, val, node, tag=""):
        if isinstance(t, ast.Name):
            self.define(t.id, val, t, tag)
        elif isinstance(t, (ast.Tuple, ast.List)):
            for i, elt in enumerate(t.elts):
                if isinstance(elt, ast.Starred):
                    rest = self.fresh(elt, "rest", "starred target")
                    self.emit(STORE, rest, self.item(elt, val, "u"), node)
                    self.assign_target(elt.value, rest, node, tag + ".%d" % i)
                else:
                    self.assign_target(elt, self.item(elt, val, "u%s.%d" % (tag, i)), node, tag + ".%d" % i)
        elif isinstance(t, ast.Subscript):
            x = self.ev(t.value)
            self.ev_index(t.slice)
            self.touch_state(t.value, x, node)
            self.emit(WRITE, x, 0, node)
            self.emit(STORE, x, val, node)
        elif isinstance(t, ast.Attribute):
            x = self.ev(t.value)
            self.touch_state(t.value, x, node)
            if t.attr in T.ARRAY_META_ATTRS:          # x.flat = v, x.real = v, x.shape = s …: the array is rewritten in place
                self.emit(WRITE, x, 0, node)
                self.emit(STORE, x, val, node)
                return
            self.attr_write(t, x, node)
            self.emit(SETATTR, x, val, node)
            if self.is_self(t.value) and self.self_cls is not None:
                s = self.project.lookup_prop(self.self_cls, t.attr, "set")
                cands = [s] if s else []
            else:
                cands = [(c, c.setters[t.attr]) for m in sorted(self.project.modules)
                         for c in self.project.modules[m].classes.values() if t.attr in c.setters]
            for c, fn in cands:
                self.inline(Callee(c.module, fn, cls=c, bound_self=x, self_cls=self.self_cls if self.is_self(t.value) else c),
                            [("pos", val)], {}, [], node)
        else:
            raise TranslatorError("unsupported assignment target %s at %s" % (type(t).__name__, self.org(node)))

    def attr_write(self, t, x, node):
        """`y.attr = v` / `y.attr op= v` where `y` need not be a persim instance: only the attribute tables of persim instances
        are outside "arrays or lists".  `y.flags.writeable = b` writes `y`; an attribute no persim class defines, on anything
        but `self`, is a write of `y` (an ndarray / sparse-matrix / library-object attribute)"""
        if isinstance(t.value, ast.Attribute) and t.value.attr in T.ARRAY_META_OWNERS:
            self.emit(WRITE, self.ev(t.value.value), 0, node)
        if not self.is_self(t.value) and t.attr not in self.project.instance_attrs:
            self.emit(WRITE, x, 0, node)

    def touch_state(self, e, x, node):
        """a store / attribute assignment / deletion through `e`: if `e` is a module, class, function or library object, that
        is a write of module-level state"""
        q = self.state_object(e, x)
        if q is None and isinstance(e, ast.Attribute):      # os.environ[...] = …, C.table[k] = …: the owner of the attribute
            q = self.state_object(e.value)
        if q is not None:
            if q == "<pyplot>":
                self.emit(WGLOB, T.PYPLOT_GLOBAL, 0, node)
                self.prog.globals_written.add("<pyplot>")
            else:
                self.write_global(q, node)

    def st_AugAssign(self, st):
        val = self.ev(st.value)
        t = st.target
        res = self.fresh(st, "aug", "result of augmented assignment")
        if isinstance(t, ast.Name):
            cur = self.ev_Name(ast.copy_location(ast.Name(id=t.id, ctx=ast.Load()), t))
            self.emit(WRITE, cur, 0, st)              # in place when the name is bound to an array / list
            if not isinstance(st.value, ast.Constant):
                self.emit(STORE, cur, self.elem(st, val, "augv"), st)   # list += iterable keeps the elements
            self.define(t.id, cur, t, "aug", extra=(res,))
        elif isinstance(t, ast.Subscript):
            x = self.ev(t.value)
            self.ev_index(t.slice)
            self.touch_state(t.value, x, st)
            if isinstance(t.slice, ast.Tuple):        # a[i, j] op= v: only ndarrays take tuple indices -> a view of a's own buffer
                tv = self.tmp(st, "augview")
                self.emit(COPY, tv, x, st)
            else:
                tv = self.item(st, x, "aug")
            self.emit(WRITE, tv, 0, st)
            self.emit(WRITE, x, 0, st)
            self.emit(STORE, x, tv, st)
            self.emit(STORE, x, res, st)
        elif isinstance(t, ast.Attribute):
            x = self.ev(t.value)
            self.touch_state(t.value, x, st)
            if t.attr in T.ARRAY_META_ATTRS:          # x.real += 1
                self.emit(WRITE, x, 0, st)
            self.attr_write(t, x, st)
            tv = self.elem(st, x, "aug")
            self.emit(WRITE, tv, 0, st)
            self.emit(SETATTR, x, tv, st)
            self.emit(SETATTR, x, res, st)
        else:
            raise TranslatorError("unsupported augmented target at %s" % self.org(st))

    def st_Delete(self, st):
        for t in st.targets:
            if isinstance(t, ast.Subscript):
                x = self.ev(t.value)
                self.ev_index(t.slice)
                self.touch_state(t.value, x, st)
                self.emit(WRITE, x, 0, st)
            elif isinstance(t, ast.Attribute):
                self.touch_state(t.value, self.ev(t.value), st)

    def is_hook_stmt(self, st):
        """the statement is, WORD FOR WORD, one of the reviewed verification hooks of policy.json `verif_hooks` (guarded by a
        `_VERIF_*` name of this module whose module-level binding is the reviewed one too).  Anything else under such a test —
        another body, an `else` branch, a negated test — is translated (audit R5)"""
        names = {n.id for n in ast.walk(st.test) if isinstance(n, ast.Name)}
        if not names or not all(n in self.module.hooks and self.lookup_local(n) is None and n not in self.global_names
                                and n not in self.module.global_decls for n in names):
            return False
        text = ast.unparse(st)
        return all(text in self.module.hooks[n] for n in names)

    def st_If(self, st):
        if self.is_hook_stmt(st):
            return                                    # verification hook (PERSIM_VERIF=1 only): outside the model
        self.ev(st.test)
        s0 = dict(self.state)
        self.block(st.body)
        s1 = self.state
        self.state = dict(s0)
        self.block(st.orelse)
        self.state = self.merge(s1, self.state)

    def loop(self, st, head):
        in_state = dict(self.state)
        mark = len(self.deflog)
        for _ in range(LOOP_PASSES):
            before = dict(self.state)
            head()
            self.block(st.body)
            new = self.merge(in_state, self.defs_since(mark))
            if new == before:
                break
            self.state = new
        else:
            raise TranslatorError("the version sets of the loop at %s are not stable after %d passes" % (self.org(st), LOOP_PASSES))
        self.state = self.merge(in_state, self.defs_since(mark), self.state)
        self.block(st.orelse)

    def st_While(self, st):
        self.loop(st, lambda: self.ev(st.test))

    def st_For(self, st):
        def head():
            it = self.ev(st.iter)
            self.assign_target(st.target, self.item(st.iter, it, "it"), st)
        self.loop(st, head)

    def st_With(self, st):
        exits = []
        for it in st.items:
            v = self.ev(it.context_expr)
            # `with cm as x`: x is what `cm.__enter__()` returns — for the persim classes that define it, their method
            for c in self.project.method_index.get("__enter__", []):
                r = self.inline(Callee(c.module, c.methods["__enter__"], cls=c, bound_self=v, self_cls=c), [], {}, [], it.context_expr)
                j = self.tmp(it.context_expr, "enter%s" % c.name)
                self.emit(COPY, j, v, st)
                self.emit(COPY, j, r, st)
                v = j
            exits.append(v)
            if it.optional_vars is not None:
                self.assign_target(it.optional_vars, v, st)
        self.block(st.body)
        for v in exits:
            for c in self.project.method_index.get("__exit__", []):
                k = self.const()
                self.inline(Callee(c.module, c.methods["__exit__"], cls=c, bound_self=v, self_cls=c), [("pos", k)] * 3, {}, [], st)

    def st_Try(self, st):
        s0 = dict(self.state)
        mark = len(self.deflog)
        self.block(st.body)
        s_body = self.state
        outs = []
        for h in st.handlers:
            self.state = self.merge(s0, self.defs_since(mark), s_body)
            if h.type is not None:
                self.ev(h.type)
            if h.name:
                self.define(h.name, self.const(), h)
            self.block(h.body)
            outs.append(self.state)
        self.state = dict(s_body)
        self.block(st.orelse)
        self.state = self.merge(self.state, *outs)
        self.block(st.finalbody)


def explain(prog, sol, var, limit=14):
    """why may `var` point to OWNED?  a shortest derivation (diagnostics for the evidence / replay only)"""
    pts = sol["pts"]
    why = {}                      # fact -> (text, parent fact);  facts ("v", x): OWNED in pts x, ("o", o): OWNED in cont o
    frontier = []
    for x in prog.params:
        why[("v", x)] = ("var %d is a parameter / module-level object" % x, None); frontier.append(("v", x))
    why[("o", 0)] = ("OWNED objects reference OWNED objects", None); frontier.append(("o", 0))
    while frontier and ("v", var) not in why:
        nxt = []
        for ins in prog.instrs:
            op, a, b = ins
            if op == COPY and ("v", b) in why and ("v", a) not in why:
                why[("v", a)] = ("copy %d <- %d   [%s]" % (a, b, prog.origin[ins]), ("v", b)); nxt.append(("v", a))
            elif op == ELEM and ("v", a) not in why:
                for o in range(sol["nObj"]):
                    if (pts[b] >> o) & 1 and ("o", o) in why and (o != 0 or ("v", b) in why):
                        why[("v", a)] = ("elem %d <- %d via object %s   [%s]" % (a, b, "OWNED" if o == 0 else "site %d (%s)" % (o - 1, prog.site_desc[o - 1][:50]), prog.origin[ins]), ("o", o) if o else ("v", b))
                        nxt.append(("v", a)); break
            elif op in (STORE, SETATTR) and ("v", b) in why:
                for o in range(1, sol["nObj"]):
                    if (pts[a] >> o) & 1 and ("o", o) not in why:
                        why[("o", o)] = ("%s %d <- %d puts it into site %d (%s)   [%s]" % (OPNAMES[op], a, b, o - 1, prog.site_desc[o - 1][:50], prog.origin[ins]), ("v", b))
                        nxt.append(("o", o))
        frontier = nxt
    out, cur = [], ("v", var)
    while cur is not None and cur in why and len(out) < limit:
        out.append(why[cur][0]); cur = why[cur][1]
    return out


# ------------------------------------------------------------------------------------------------ Lean emission

LEAN_OPS = [".new %d %d", ".copy %d %d", ".store %d %d", ".elem %d %d", ".write %d", ".setattr %d %d", ".readGlobal %d",
            ".writeGlobal %d", ".rng"]


def lean_instr(ins):
    op, a, b = ins
    f = LEAN_OPS[op]
    n = f.count("%d")
    return f % ((a, b)[:n])


def lean_list(items, per_line=12, indent="   "):
    lines = []
    for i in range(0, len(items), per_line):
        lines.append(indent + ", ".join(items[i:i + per_line]))
    return "[" + (",\n".join(lines)).lstrip() + "]"


CHUNK = 160


def lean_chunks(ident, what, typ, items, per_line):
    """long list literals are split into chunks (the elaborator's recursion depth is finite)"""
    defs, names = [], []
    for k in range(0, max(len(items), 1), CHUNK):
        nm = "%s_%s_%d" % (what, ident, k // CHUNK)
        names.append(nm)
        defs.append("def %s : List %s :=\n  %s" % (nm, typ, lean_list(items[k:k + CHUNK], per_line)))
    return defs, " ++ ".join(names)



# ------------------------------------------------------------------------------------------------ generation of Generated/ApiIR*.lean

LIT_BITS = 32000                   # size of one hexadecimal literal (the elaborator is quadratic in the literal length)
NBUCKETS = 4                       # entry points of one module / class are spread over this many generated files


def shard_ident(mod, cls=None, bucket=0):
    base = "".join(p.capitalize() for p in mod.replace(".", "_").split("_"))
    return "%s%s_%d" % (base, cls or "", bucket)


def assign_shards(eps):
    """entry point -> shard identifier; depends only on the enumeration of entry points (names and order)"""
    counts, out = {}, {}
    for ep in eps:
        key = (ep.module.name, ep.cls.name if ep.cls else None)
        i = counts.get(key, 0)
        counts[key] = i + 1
        out[ep.name] = shard_ident(key[0], key[1], i % NBUCKETS)
    return out


def shard_files(root):
    """the generated Lean files for the tree under `root` (parse only; no file is written)"""
    import warnings
    with warnings.catch_warnings():
        warnings.simplefilter("ignore")
        eps = Project(root).entry_points()
    ids = sorted(set(assign_shards(eps).values()))
    return ["PersimVerif/Generated/ApiIR.lean"] + ["PersimVerif/Generated/ApiIR/%s.lean" % i for i in ids]


def pieces(masks, w, k):
    out = []
    for i in range(0, len(masks), k):
        P = 0
        for j, m in enumerate(masks[i:i + k]):
            P |= m << (j * w)
        out.append(P)
    return out


def piece_size(w):
    return max(1, LIT_BITS // max(w, 1))


def sol_protocol(sol):
    w = sol["nObj"]; k = piece_size(w)
    return "[%d,%d,[%s],[%s]]" % (w, k, ",".join(map(str, pieces(sol["pts"], w, k))), ",".join(map(str, pieces(sol["cont"], w, k))))


def load_policy():
    with open(os.path.join(HERE, "policy.json")) as f:
        pol = json.load(f)
    with open(os.path.join(HERE, "dynamic_only.json")) as f:
        pol["dynamic_only"] = json.load(f)
    # the obligations the UNCHANGED tree generates (committed; `py2ir.py --write-expected` rewrites it after a reviewed change
    # of /repo or of the policy): a name of this list that a tree no longer generates is a broken obligation, not a smaller count
    try:
        with open(os.path.join(HERE, "expected_obligations.json")) as f:
            pol["expected_obligations"] = json.load(f)["obligations"]
    except OSError:
        pol["expected_obligations"] = []
    return pol


class Result:
    """translation of one entry point"""

    def __init__(self, ep, prog, sol, policy):
        self.ep, self.prog, self.sol = ep, prog, sol
        self.name, self.ident = ep.name, ep.ident
        self.unsafe = prog.unsafe_instrs(sol)
        self.safe = not self.unsafe
        self.wf = prog.well_formed(sol)
        self.untranslatable = bool(getattr(prog, "untranslatable", False))
        ids = getattr(prog, "global_ids", {"<pyplot>": T.PYPLOT_GLOBAL})
        self.global_ids = ids
        self.reads = sorted({a for op, a, b in prog.instrs if op == RGLOB})
        self.writes = sorted({a for op, a, b in prog.instrs if op == WGLOB})
        self.uses_rng = any(op == RNG for op, a, b in prog.instrs)
        self.allow_rng = ep.name in policy.get("rng_allowed", [])
        self.allow_pyplot = ep.name in policy.get("pyplot_allowed", [])
        allowed = [T.PYPLOT_GLOBAL] if self.allow_pyplot else []
        self.allowed_globals = allowed
        self.globals_ok = set(self.reads) <= set(allowed) and set(self.writes) <= set(allowed) and (self.allow_rng or not self.uses_rng)
        self.kind = "dynamic_only" if ep.name in policy.get("dynamic_only", {}) else \
            "inplace_by_contract" if ep.name in policy.get("inplace_by_contract", {}) else "obligation"
        names = {v: k for k, v in ids.items()}
        self.classification = ("pyplot " if T.PYPLOT_GLOBAL in self.reads + self.writes else "") + ("rng " if self.uses_rng else "") + \
            " ".join("global:" + names.get(g, str(g)) for g in sorted(set(self.reads + self.writes)) if g != T.PYPLOT_GLOBAL)
        self.classification = self.classification.strip() or "pure"
        # a literal second call provably returns an equal result (Props/C19.lean `second_call_same_result`): safe, no global
        # read or written, no RNG, and no attribute table of a caller-owned object updated (methods with lazy caches are not)
        self.repeatable = (self.kind == "obligation" and self.safe and self.classification == "pure" and not allowed and not self.allow_rng
                           and not any(op == SETATTR and sol["pts"][a] & 1 for op, a, b in prog.instrs))
        # `repeat_<entry>` is in the committed list of expected obligations: it is emitted whether or not it still holds
        # (process item of audit 3: an entry point that stops being repeatable must fail, not lose its theorem)
        self.repeat_expected = self.kind == "obligation" and ("repeat_" + self.ident) in set(policy.get("expected_obligations", []))

    def obligation_names(self):
        i = self.ident
        if self.kind == "obligation":
            return ["safe_" + i, "glob_" + i, "wf_" + i] + (["repeat_" + i] if self.repeatable or self.repeat_expected else [])
        if self.kind == "inplace_by_contract":
            return ["unsafe_" + i]
        return []

    def lean(self):
        i, prog, sol = self.ident, self.prog, self.sol
        out = ["/-- `%s` (%s:%d): %d instructions, %d variables, %d allocation sites; global state: %s -/"
               % (self.name, self.ep.module.path, self.ep.line, len(prog.instrs), len(sol["pts"]), sol["nObj"] - 1, self.classification)]
        d1, _ = lean_chunks(i, "irI", "Instr", [lean_instr(x) for x in prog.instrs], 12)
        nchunks = len(d1)
        out += d1
        chunk_names = ["irI_%s_%d" % (i, k) for k in range(nchunks)]
        out.append("def ir_%s : Prog := ⟨[%s], List.flatten [%s]⟩" % (i, ", ".join(map(str, prog.params)), ", ".join(chunk_names)))
        w = sol["nObj"]
        k = piece_size(w)
        out.append("def sol_%s : SolB := ⟨%d, %d,\n  %s,\n  %s⟩" % (i, w, k, lean_list(["0x%x" % m for m in pieces(sol["pts"], w, k)], 1),
                                                                   lean_list(["0x%x" % m for m in pieces(sol["cont"], w, k)], 1)))
        if self.kind == "obligation":
            for k in range(nchunks):
                out.append("private theorem chunk_%s_%d : chunkOk sol_%s irI_%s_%d = true := by decide +kernel" % (i, k, i, i, k))
            out.append("theorem safe_%s : safe ir_%s sol_%s = true :=\n  safe_of_chunks ir_%s sol_%s [%s] rfl (by decide +kernel)\n    ⟨%s⟩"
                       % (i, i, i, i, i, ", ".join(chunk_names), ", ".join(["chunk_%s_%d" % (i, k) for k in range(nchunks)] + ["trivial"])))
            out.append("theorem glob_%s : globalsWithin ir_%s [%s] [%s] %s = true := by decide +kernel"
                       % (i, i, ", ".join(map(str, self.allowed_globals)), ", ".join(map(str, self.allowed_globals)),
                          "true" if self.allow_rng else "false"))
            out.append("theorem wf_%s : wellFormed ir_%s sol_%s = true := by decide +kernel" % (i, i, i))
            if self.repeatable or self.repeat_expected:
                # no module-level state, no RNG, no attribute update of a caller-owned object: `second_call_same_result` applies
                # (an entry point of the committed list that is no longer repeatable keeps the theorem, which then fails)
                out.append("private theorem attrs_%s : (ir_%s).instrs.all (attrsOk sol_%s) = true := by decide +kernel" % (i, i, i))
                out.append("theorem repeat_%s : pureCall ir_%s sol_%s = true ∧ globalsWithin ir_%s [] [] false = true :=\n"
                           "  ⟨pureCall_of_safe _ _ safe_%s attrs_%s, glob_%s⟩" % (i, i, i, i, i, i, i))
        elif self.kind == "inplace_by_contract":
            out.append("/-- in place by documented contract (policy.json): the analysis must flag it — the solution is a genuine "
                       "post-fixpoint of a well-formed program, and it is not safe -/")
            out.append("theorem unsafe_%s : isPostFixpoint ir_%s sol_%s = true ∧ wellFormed ir_%s sol_%s = true ∧ safe ir_%s sol_%s = false := by decide +kernel"
                       % (i, i, i, i, i, i, i))
        else:
            out.append("-- dynamic only (harness/translator/dynamic_only.json): no generated obligation; covered by the [T] sweep")
        return "\n".join(out)


def translate_all(root, policy=None):
    policy = policy or load_policy()
    project = Project(root, policy=policy)
    tr = Translator(project, policy)
    results = []
    for ep in project.entry_points():
        try:
            prog = tr.translate(ep)
        except (TranslatorError, RecursionError) as e:
            # a construct the translator does not model: the entry point gets a deliberately failing obligation
            # (conservative), and the sweep concentrates on it
            prog = Program(ep.name)
            v = prog.var(("param", "untranslatable"))
            prog.params.append(v)
            prog.emit(WRITE, v, 0, "untranslatable: %s" % e)
            prog.nvars, prog.nsites = 1, 0
            prog.untranslatable = True
            tr.unknown_calls.add("untranslatable entry point %s" % ep.name)
        results.append(Result(ep, prog, prog.solve(), policy))
    return project, tr, results


def translation_problems(project, results, policy):
    """what no per-entry obligation can show: obligations of the committed list that this tree no longer generates (an entry
    point removed, renamed, made private, moved behind a wrapper), and modules with module-level code the translator does not
    model that have no entry point of their own to fail.  Emitted as `translationProblems`, with the obligation
    `expected_obligations_present : translationProblems = []`"""
    have = {n for r in results for n in r.obligation_names()}
    out = ["missing obligation %s" % n for n in policy.get("expected_obligations", []) if n not in have]
    # entry points WITHOUT a safety obligation (dynamic only / in place by contract): the writes the analysis flags must be the
    # reviewed ones of policy.json `reviewed_unsafe_writes`, and they must not touch module-level state
    for r in results:
        if r.kind == "obligation":
            continue
        reviewed = set(policy.get("reviewed_unsafe_writes", {}).get(r.name, []))
        if r.untranslatable:
            out.append("%s (%s): %s" % (r.name, r.kind, r.unsafe[0]["origin"][:120] if r.unsafe else "untranslatable"))
            continue
        for u in r.unsafe:
            text = re.sub(r" \(inlined, depth \d+\)$", "", u["origin"].split(": ", 1)[-1])
            if text not in reviewed:
                out.append("%s (%s): write not in policy.json reviewed_unsafe_writes: %s" % (r.name, r.kind, text[:90]))
        if not r.globals_ok or not r.wf:
            out.append("%s (%s): module-level state / RNG / ill-formed: %s" % (r.name, r.kind, r.classification))
    out += list(getattr(project, "file_problems", []))
    out = sorted(set(out), key=out.index)
    with_entry = {r.ep.module.name for r in results}
    for name in sorted(project.modules):
        m = project.modules[name]
        probs = list(m.problems) + ["class %s: %s" % (c.name, p) for c in m.classes.values() for p in c.problems]
        if probs and (name not in with_entry or name.split(".")[-1] == "__init__"):
            out.append("module %s: %s" % (name, probs[0]))
        for fn in sorted(m.patched):          # a patched function that is not an entry point (private): nothing else fails for it
            if not any(r.ep.module is m and r.ep.cls is None and r.ep.node.name == fn for r in results):
                out.append("module %s: %s" % (name, m.patched[fn]))
    return out


HEADER = """/-
  GENERATED by harness/translator/py2ir.py from the source of `persim` — do not edit.
  Regenerated on every `./check.py C19` from PERSIM_ROOT (default /repo); identical on an unchanged tree.
  One IR program, one solver solution and the obligations `safe_<entry>` / `glob_<entry>` / `wf_<entry>` per public entry point.
-/
import PersimVerif.Props.C19
set_option maxRecDepth 100000
"""


def generate(root, lean_dir, policy=None):
    """regenerate lean/PersimVerif/Generated/ApiIR.lean and its shards; returns (project, translator, results)"""
    project, tr, results = translate_all(root, policy)
    gdir = os.path.join(lean_dir, "PersimVerif", "Generated")
    os.makedirs(os.path.join(gdir, "ApiIR"), exist_ok=True)
    shard_of = assign_shards([r.ep for r in results])
    by_shard = {}
    for r in results:
        by_shard.setdefault(shard_of[r.name], []).append(r)
    for sid in sorted(by_shard):
        body = [HEADER, "namespace PersimVerif.Generated.%s" % sid, "open PersimVerif.IR PersimVerif.C19", ""]
        for r in by_shard[sid]:
            body.append(r.lean())
            body.append("")
        body.append("end PersimVerif.Generated.%s" % sid)
        write_if_changed(os.path.join(gdir, "ApiIR", sid + ".lean"), "\n".join(body) + "\n")
    for f in sorted(os.listdir(os.path.join(gdir, "ApiIR"))):        # shards of entry points that no longer exist
        if f.endswith(".lean") and f[:-5] not in by_shard:
            os.remove(os.path.join(gdir, "ApiIR", f))
    for sub in ("lib/lean", "ir"):                                     # … and their stale build products
        bdir = os.path.join(lean_dir, ".lake", "build", sub, "PersimVerif", "Generated", "ApiIR")
        if os.path.isdir(bdir):
            for f in sorted(os.listdir(bdir)):
                if f.split(".")[0] not in by_shard:
                    os.remove(os.path.join(bdir, f))
    top = [HEADER.replace("import PersimVerif.Props.C19\n", "".join("import PersimVerif.Generated.ApiIR.%s\n" % sid for sid in sorted(by_shard)))]
    top.append("namespace PersimVerif.Generated\n")
    top.append("/-- entry points with a generated obligation (%d), in place by contract (%d), dynamic only (%d) -/"
               % (sum(r.kind == "obligation" for r in results), sum(r.kind == "inplace_by_contract" for r in results),
                  sum(r.kind == "dynamic_only" for r in results)))
    top.append("def entryPoints : List (String × String) := [")
    top.append(",\n".join('  ("%s", "%s")' % (r.name, r.kind) for r in results))
    top.append("]\n")
    problems = translation_problems(project, results, policy or load_policy())
    top.append("/-- obligations of the committed list harness/translator/expected_obligations.json that this tree does not generate, and "
               "modules whose module-level code the translator does not model: must be empty -/")
    top.append("def translationProblems : List String := [%s]" % ", ".join('"%s"' % p.replace("\\", "/").replace('"', "'") for p in problems))
    top.append("theorem expected_obligations_present : translationProblems = [] := by decide")
    q = lambda x: x.replace("\\", "/").replace('"', "'")
    top.append("\n/-- the ONLY names under persim/ the translator skips without looking, with the reason (harness/translator/tables.py "
               "UNPARSED_ALLOWED): every `*.py` file is parsed, `_version.py` included -/")
    top.append("def unparsedAllowed : List (String × String) := [%s]" % ", ".join('("%s", "%s")' % (q(a), q(b)) for a, b in sorted(T.UNPARSED_ALLOWED.items())))
    top.append("/-- the other files found under persim/ that are not `*.py`: not parsed because Python does not import them (a file it "
               "could import — %s — is listed in `translationProblems` instead) -/" % " ".join(T.IMPORTABLE_SUFFIXES))
    top.append("def unparsedFiles : List (String × String) := [%s]" % ", ".join('("%s", "%s")' % (q(a), q(b)) for a, b in project.unparsed))
    top.append("\nend PersimVerif.Generated")
    write_if_changed(os.path.join(gdir, "ApiIR.lean"), "\n".join(top) + "\n")
    return project, tr, results


def write_if_changed(path, text):
    try:
        with open(path) as f:
            if f.read() == text:
                return False
    except OSError:
        pass
    with open(path, "w") as f:
        f.write(text)
    return True


if __name__ == "__main__":
    import warnings
    warnings.filterwarnings("ignore", category=SyntaxWarning)
    root = sys.argv[1] if len(sys.argv) > 1 else os.environ.get("PERSIM_ROOT", "/repo")
    lean_dir = sys.argv[2] if len(sys.argv) > 2 else os.path.join(os.path.dirname(os.path.dirname(HERE)), "lean")
    if "--write-expected" in sys.argv:
        pol = load_policy()
        pol["expected_obligations"] = []
        _, _, results = translate_all("/repo", pol)
        with open(os.path.join(HERE, "expected_obligations.json"), "w") as f:
            json.dump({"_doc": "the obligations py2ir generates from the unchanged /repo (written by `py2ir.py --write-expected`, "
                               "committed, read on every run): a name a tree no longer generates is reported by the obligation "
                               "`expected_obligations_present` of Generated/ApiIR.lean",
                       "obligations": sorted(n for r in results for n in r.obligation_names())}, f, indent=1)
        sys.exit(0)
    _, tr, results = generate(root, lean_dir)
    for r in results:
        print("%-72s %-20s instrs=%4d %s %s" % (r.name, r.kind, len(r.prog.instrs), "safe" if r.safe else "UNSAFE", r.classification))
    print("unknown calls:", sorted(tr.unknown_calls))


# ------------------------------------------------------------------------------------------------ snippets (translator self-test)

def translate_snippet(src, entry, policy=None):
    """translate one function / method (`f` or `C.m`) of a stand-alone module given as text — or, for `src` a dict
    {module name: text} (a package: `__init__` is its `__init__.py`), the entry point `module.f` / `module.C.m`.
    Raises TranslatorError where the translator refuses the source."""
    sources = src if isinstance(src, dict) else {"snippet": src}
    project = Project(sources=sources, policy=policy)
    tr = Translator(project, policy or {"constants": []})
    for ep in project.entry_points():
        if (ep.name if isinstance(src, dict) else ep.qualname) == entry:
            try:
                prog = tr.translate(ep)
            except RecursionError:
                raise TranslatorError("recursion limit reached while translating %s" % entry)
            return Result(ep, prog, prog.solve(), policy or {})
    problems = [p for m in project.modules.values() for p in m.problems]
    raise TranslatorError("snippet has no entry point %s%s" % (entry, ": " + "; ".join(problems[:2]) if problems else ""))


# the reviewed hook of the hook snippets (audit R5): policy.json `verif_hooks` in small
HOOK_POLICY = {"constants": [], "verif_hooks": {"snippet": {"_VERIF_T": {
    "binding": "_VERIF_T = None", "statements": ["if _VERIF_T is not None:\n    _VERIF_T.append(len(a))"]}}},
    "decorators_reviewed": {"snippet.C": ["reviewed(version='1')"]}}
HOOK = "_VERIF_T = None\ndef f(a):\n"
NPI = "import numpy as np\n"

# audit 4 (IR-1 / IR-2) building blocks
ISUB = "class _B:\n    def __init_subclass__(cls, **kw):\n        g = cls.m\n        def w(self, a):\n            a.sort()\n            return g(self, a)\n        cls.m = w\n"
ISUB_OK = "class _B:\n    def __init_subclass__(cls, **kw):\n        super().__init_subclass__(**kw)\n"
ISUB_OK_TEXT = "def __init_subclass__(cls, **kw):\n    super().__init_subclass__(**kw)"
CSUB = "class C(_B):\n    def m(self, a):\n        return a + 1\n"
CL_B_C = {"snippet._B": {"line": "class _B", "bases": []}, "snippet.C": {"line": "class C(_B)", "bases": ["persim.snippet._B"]}}
PKG_INIT = "from ._version import __version__\nfrom .heat import *\n"
PKG_HEAT = "__all__ = ['heat']\ndef heat(a):\n    return a + 1\n"
PATCH_OTHER = "from . import heat as _h\n_o = _h.heat\ndef _w(a):\n    a.sort()\n    return _o(a)\n_h.heat = _w\ndef g(a):\n    return a\n"

SNIPPETS = [
    # (verdict expected from the checker, entry, source)
    ("bad", "f", "def f(a):\n    a.sort()\n"),
    ("bad", "f", "def f(a):\n    b = a\n    b[0] = 1\n"),
    ("bad", "f", "import numpy as np\ndef f(a):\n    b = np.asarray(a)\n    b += 1\n"),
    # /repo fc69e2e: `np.ascontiguousarray(x)` MAY BE `x` itself (an array that already is C-contiguous), or a fresh copy
    ("bad", "f", "import numpy as np\ndef f(a):\n    b = np.ascontiguousarray(a)\n    b[0] = 1\n"),
    ("good", "f", "import numpy as np\ndef f(a):\n    if not isinstance(a, list):\n        a = np.ascontiguousarray(a)\n    return a.sum()\n"),
    ("bad", "f", "def f(a):\n    l = list(a)\n    l[0][0] = 5\n"),
    ("bad", "f", "def f(a):\n    a[:, 1] -= a[:, 0]\n    return a\n"),
    ("bad", "f", "import numpy as np\ndef f(a):\n    np.fill_diagonal(a, 0)\n"),
    ("bad", "f", "def f(a):\n    b = a.T\n    b[0] = 1\n"),
    ("bad", "f", "def f(a):\n    b = a.reshape(-1)\n    b.fill(0)\n"),
    ("bad", "f", "def f(a):\n    for r in a:\n        r[0] = 1\n"),
    ("bad", "f", "def f(a):\n    x, y = a\n    x.append(1)\n"),
    ("bad", "f", "import numpy as np\ndef f(a, flag):\n    b = a if flag else np.copy(a)\n    b[0] = 1\n"),
    ("bad", "f", "import numpy as np\ndef f(a):\n    b = np.array(a, copy=False)\n    b[0] = 1\n"),
    ("bad", "f", "def g(x):\n    x[0] = 1\ndef f(a):\n    g(a)\n"),
    ("bad", "f", "def f(a):\n    d = {'k': a}\n    d['k'][0] = 1\n"),
    ("bad", "C.m", "class C:\n    def __init__(self, a):\n        self.a = a\n    def m(self):\n        self.a[0] = 1\n"),
    ("bad", "f", "import numpy as np\ndef f(a):\n    np.add(a, 1, out=a)\n"),
    ("bad", "f", "def f(a):\n    del a[0]\n"),
    ("bad", "f", "def f(a):\n    b = a[1:]\n    b[0] = 1\n"),
    ("bad", "f", "_CACHE = {}\ndef f(a):\n    _CACHE['k'] = 1\n    return _CACHE\n"),
    ("bad", "f", "def f(a):\n    a.astype(float, copy=False)[0] = 1\n"),
    ("bad", "f", "import numpy as np\ndef f(a, n):\n    b = a\n    for i in range(n):\n        b[0] = 1\n        b = np.copy(b)\n"),
    ("bad", "f", "import numpy as np\ndef f(a):\n    np.random.shuffle(a)\n"),
    ("bad", "f", "def f(a, l=[]):\n    l.append(1)\n    return l\n"),
    ("bad", "f", "import numpy as np\ndef f(a):\n    try:\n        b = np.copy(a)\n    except Exception:\n        b = a\n    b[0] = 1\n"),
    ("bad", "f", "import numpy as np\ndef f(a):\n    S = np.asarray(a)\n    S[S[:, 1] > 3, 1] = 0\n"),
    ("bad", "f", "def f(A):\n    for i in range(len(A)):\n        A[i] = list(A[i])\n    A.pop(-1)\n"),
    ("bad", "C.__mul__", "class C:\n    def __init__(self, v):\n        self.values = v\n    def __mul__(self, other):\n        values = self.values\n        values *= other\n        return C(values)\n"),
    ("bad", "f", "def f(a):\n    unknown_library_call(a)\n"),
    ("good", "f", "import numpy as np\ndef f(a):\n    a = np.array(a)\n    a[0] = 1\n    return a\n"),
    ("good", "f", "def f(a):\n    l = [list(r) for r in a]\n    l[0][0] = 5\n    return l\n"),
    ("good", "f", "import numpy as np\ndef f(a):\n    b = np.copy(a)\n    b[:, 1] -= b[:, 0]\n    return b\n"),
    ("good", "f", "def f(a):\n    return sorted(a)\n"),
    ("good", "f", "def f(a):\n    b = a + 1\n    b += 1\n    return b\n"),
    ("good", "f", "def f(a):\n    b = a[a[:, 1] > 0]\n    b[0] = 1\n    return b\n"),
    ("good", "f", "def f(a):\n    b = a.astype(float)\n    b[0] = 1\n    return b\n"),
    ("good", "f", "def f(a):\n    V = [x for x in a]\n    V.sort()\n    return V\n"),
    ("good", "f", "import copy\ndef f(a):\n    b = copy.deepcopy(a)\n    b[0][0] = 1\n    return b\n"),
    ("good", "C.m", "import numpy as np\nclass C:\n    def __init__(self, a):\n        self.a = a\n    def m(self):\n        b = np.copy(self.a)\n        b[0] = 1\n        self.b = b\n"),
    ("good", "f", "def f(a):\n    s = 0\n    for x in a:\n        s += x\n    return s\n"),
    ("good", "f", "import numpy as np\ndef g(x):\n    x = np.copy(x)\n    x[0] = 1\n    return x\ndef f(a):\n    return g(a)\n"),
    ("good", "f", "def f(A):\n    A = list(A)\n    for i in range(len(A)):\n        A[i] = list(A[i])\n    A.pop(-1)\n    return A\n"),
    ("good", "f", "import numpy as np\ndef f(a, b):\n    D = np.zeros((3, 3))\n    D[0:2, 0:2] = a\n    np.fill_diagonal(D, b)\n    return D\n"),
    # --- calls through callables the translator cannot resolve / resolves late (audit C1)
    ("bad", "f", "def f(a):\n    s = a.sort\n    s()\n"),
    ("bad", "f", "def f(a):\n    getattr(a, 'sort')()\n"),
    ("bad", "f", "def f(a, name):\n    getattr(a, name)()\n"),
    ("bad", "f", "import numpy as np\ndef f(a):\n    g = np.fill_diagonal\n    g(a, 0)\n"),
    ("bad", "f", "def f(A):\n    return list(map(lambda r: r.fill(0), A))\n"),
    ("bad", "f", "def z(r):\n    r[0] = 0\n    return r\ndef f(A):\n    return list(map(z, A))\n"),
    ("bad", "f", "def f(A):\n    return list(filter(lambda r: r.sort() is None, A))\n"),
    ("bad", "f", "import numpy as np\ndef f(A):\n    h = np.vectorize(lambda r: r.sort(), otypes=[object])\n    return h(A)\n"),
    ("bad", "f", "def f(A):\n    return sorted(A, key=lambda r: r.pop())\n"),
    ("bad", "f", "def f(A):\n    return min(A, key=lambda r: r.sort())\n"),
    ("bad", "f", "def f(a, cb):\n    return cb(a)\n"),
    ("bad", "f", "def f(a):\n    m = a.fill if len(a) else a.sort\n    m(0)\n"),
    ("bad", "f", "import functools\ndef f(a):\n    functools.partial(a.sort)()\n"),
    ("bad", "f", "def f(a):\n    unknown_library_call(lambda: a.sort())\n"),
    ("bad", "f", "def f(a):\n    unknown_library_call([a])\n"),
    ("bad", "C.m", "class C:\n    def __init__(self, a, g):\n        self.a = a\n        self.g = g\n    def m(self):\n        return self.g()\n"),
    ("bad", "f", "def f(rows):\n    apply = [r.sort for r in rows]\n    for g in apply:\n        g()\n"),
    ("good", "f", "import numpy as np\ndef f(a):\n    b = np.copy(a)\n    s = b.sort\n    s()\n    return b\n"),
    ("good", "f", "import numpy as np\ndef f(a):\n    b = np.array(a)\n    g = np.fill_diagonal\n    g(b, 0)\n    return b\n"),
    ("good", "f", "def f(A):\n    return list(map(lambda r: r[0] + 1, A))\n"),
    ("good", "f", "def f(A):\n    return list(map(list, A))\n"),
    ("good", "f", "import numpy as np\ndef f(A):\n    B = [np.copy(r) for r in A]\n    return list(map(lambda r: r.fill(0), B))\n"),
    ("good", "f", "from operator import itemgetter\ndef f(A):\n    return min(A, key=itemgetter(0))[0], sorted(A, key=lambda x: [x[0], -x[1]])\n"),
    ("good", "f", "def f(a, weight, kernel):\n    return weight(a) + kernel(a, a)\n"),
    ("good", "f", "import numpy as np\ndef f(A):\n    h = np.vectorize(lambda x: x + 1)\n    return h(A)\n"),
    # --- positional `out`, copy=False / None (audit C2)
    ("bad", "f", "import numpy as np\ndef f(a):\n    return np.clip(a, 0, 1, a)\n"),
    ("bad", "f", "import numpy as np\ndef f(a):\n    np.add(a, 1, a)\n"),
    ("bad", "f", "import numpy as np\ndef f(a):\n    np.sqrt(a, a)\n"),
    ("bad", "f", "import numpy as np\ndef f(a):\n    np.multiply(a, 2, out=(a,))\n"),
    ("bad", "f", "import numpy as np\ndef f(a):\n    b = np.add(a, 1, out=a)\n    return b\n"),
    ("bad", "f", "import numpy as np\ndef f(a):\n    return np.nan_to_num(a, copy=False)\n"),
    ("bad", "f", "import numpy as np\ndef f(a):\n    return np.nan_to_num(a, False)\n"),
    ("bad", "f", "import numpy as np\ndef f(a):\n    b = np.array(a, copy=None)\n    b[0] = 1\n"),
    ("bad", "f", "import numpy as np\ndef f(a, c):\n    b = np.array(a, copy=c)\n    b[0] = 1\n"),
    ("bad", "f", "def f(a):\n    b = a.astype(float, copy=None)\n    b[0] = 1\n"),
    ("bad", "f", "def f(a):\n    a.clip(0, 1, a)\n"),
    ("bad", "f", "def f(a):\n    a.cumsum(0, None, a)\n"),
    ("bad", "f", "import numpy as np\ndef f(a):\n    np.cumsum(a, 0, None, a)\n"),
    ("bad", "f", "import numpy as np\ndef f(a, args):\n    np.clip(*args)\n"),
    ("bad", "f", "import numpy as np\ndef f(a):\n    return np.median(a, overwrite_input=True)\n"),
    ("good", "f", "import numpy as np\ndef f(a):\n    b = np.copy(a)\n    np.clip(b, 0, 1, b)\n    np.add(b, 1, b)\n    return np.nan_to_num(b, copy=False)\n"),
    ("good", "f", "import numpy as np\ndef f(a):\n    return np.clip(a, 0, 1), np.add(a, 1), np.nan_to_num(a), np.nan_to_num(a, copy=True), np.array(a, copy=True)\n"),
    ("good", "f", "import numpy as np\ndef f(a):\n    b = np.empty_like(a)\n    np.add(a, 1, out=b)\n    b[0] = 3\n    return b\n"),
    ("good", "f", "def f(a):\n    b = a.astype(float, copy=True)\n    b[0] = 1\n    return a.clip(0, 1), a.sum(0), b\n"),
    # --- loops (audit C4): a write through the n-th alias in a chain is found however long the chain is
    ("bad", "f", "import numpy as np\ndef f(a, n):\n    b = np.copy(a)\n    c = b\n    d = c\n    e = d\n    g = e\n    for i in range(n):\n        g[0] = 1\n        g = e\n        e = d\n        d = c\n        c = b\n        b = a\n"),
    ("good", "f", "import numpy as np\ndef f(a, n):\n    b = np.copy(a)\n    c = b\n    d = c\n    for i in range(n):\n        d[0] = 1\n        d = c\n        c = b\n        b = np.copy(a)\n    return d\n"),
    # --- module-level state other than module data: class attributes, function attributes, library state (audit C3)
    ("bad", "C.m", "class C:\n    count = 0\n    def m(self, a):\n        C.count += 1\n        return C.count\n"),
    ("bad", "C.m", "class C:\n    table = {}\n    def m(self, a):\n        return C.table\n"),
    ("bad", "C.m", "class C:\n    def m(self, a):\n        type(self).seen = a\n"),
    ("bad", "C.m", "class C:\n    def m(self, a):\n        self.__class__.seen = a\n"),
    ("bad", "f", "def f(a):\n    f.calls = getattr(f, 'calls', 0) + 1\n    return f.calls\n"),
    ("bad", "f", "def f(a):\n    def g():\n        return 1\n    g.last = a\n    return g\n"),
    ("bad", "f", "import numpy as np\ndef f(a):\n    np.seterr(all='ignore')\n    return a + 1\n"),
    ("bad", "f", "import numpy as np\ndef f(a):\n    with np.errstate(all='ignore'):\n        return a / a\n"),
    ("bad", "f", "import warnings\ndef f(a):\n    warnings.simplefilter('ignore')\n    return a + 1\n"),
    ("bad", "f", "import os\ndef f(a):\n    return a + int(os.environ.get('K', '0'))\n"),
    ("bad", "f", "import os\ndef f(a):\n    os.environ['K'] = '1'\n"),
    ("bad", "f", "import time\ndef f(a):\n    return a + time.time()\n"),
    ("bad", "f", "import numpy as np\ndef f(a):\n    np.random.seed(0)\n    return a + 1\n"),
    ("bad", "f", "import numpy as np\ndef f(a):\n    np.core.cache = a\n"),
    ("bad", "f", "import matplotlib as mpl\ndef f(a):\n    mpl.rcParams['lines.linewidth'] = 2\n"),
    ("good", "C.m", "class C:\n    def m(self, a):\n        return '%s(%d)' % (self.__class__.__name__, len(a)), type(a).__name__\n"),
    ("good", "f", "import warnings\nimport numpy as np\ndef f(a):\n    if len(a) == 0:\n        warnings.warn('empty')\n    return np.inf, np.float64(1), float\n"),
    # ================= audit 3 (a snippet may carry a 4th component: the policy it is translated under; verdict "refused": the
    # translator must raise TranslatorError, which gives the entry point a failing obligation)
    # --- R1: functions that may return their argument itself (found by the dynamic table probe of c19.table_check)
    ("bad", "f", NPI + "def f(a):\n    b = np.float64(a)\n    b[0] = 1\n"),
    ("bad", "f", NPI + "def f(a):\n    b = np.int64(a)\n    b += 1\n    return b\n"),
    ("bad", "f", NPI + "def f(a):\n    np.float32(a)[:, 1] += 1.0\n"),
    ("bad", "f", NPI + "def f(a, n):\n    b = np.diff(a, n)\n    b[0] = 1\n"),
    ("good", "f", NPI + "def f(a):\n    b = np.float64(a) + 1\n    b[0] = 1\n    return b, np.float64(1.5), np.float64(a).sum()\n"),
    ("good", "f", NPI + "def f(a):\n    b = np.copy(np.float64(a))\n    b[0] = 1\n    return b\n"),
    # --- R2: methods that may return their receiver or share its buffers
    ("bad", "f", "def f(a):\n    b = a.conj()\n    b[0] = 1\n"),
    ("bad", "f", "def f(a):\n    a.conjugate()[:, 1] -= 0.5\n"),
    ("bad", "f", "def f(a):\n    b = a.conj().T\n    b += 1\n"),
    ("bad", "f", "def f(a):\n    b = a.tocoo()\n    b.data[0] = 1\n"),
    ("bad", "f", "def f(a):\n    b = a.tolil()\n    b[0, 0] = 1\n"),
    ("good", "f", "def f(a):\n    b = a.conj().copy()\n    b[0] = 1\n    return b\n"),
    ("good", "f", "def f(a):\n    b = a.tocoo().toarray()\n    b[0] = 1\n    return b\n"),
    # --- R3: assignment to an attribute that rewrites the object
    ("bad", "f", "def f(a):\n    a.flat = 0\n"),
    ("bad", "f", "def f(a):\n    a.real = 0\n"),
    ("bad", "f", NPI + "def f(a):\n    a.imag = 0.0\n    a.real = np.round(a, 3)\n"),
    ("bad", "f", "def f(a):\n    a.shape = (-1,)\n"),
    ("bad", "f", "def f(a):\n    a.flags.writeable = False\n"),
    ("bad", "f", "def f(a):\n    a.real += 1\n"),
    ("bad", "f", "def f(a):\n    a.T[0] = 1\n"),
    ("bad", "f", "def f(a):\n    a.flat[0] = 1\n"),
    ("bad", "f", "def f(a):\n    a.indices = a.indptr\n"),
    ("bad", "f", "def f(a):\n    b = a.T\n    b.flat = 0\n"),
    ("good", "f", NPI + "def f(a):\n    b = np.copy(a)\n    b.flat = 0\n    b.shape = (-1,)\n    b.real += 1\n    return b\n"),
    ("good", "C.m", "class C:\n    def __init__(self):\n        self.cache = None\n    def m(self, a):\n        self.cache = a.sum()\n        return self.cache\n"),
    ("good", "C.m", "class C:\n    def __init__(self):\n        self.cache = None\n    def m(self, other):\n        other.cache = 1\n        return other\n"),
    # --- R4: methods called through the type / a class object, mutators of operator / functools / numpy
    ("bad", "f", "def f(a):\n    list.sort(a)\n"),
    ("bad", "f", "def f(a):\n    list.reverse(a)\n"),
    ("bad", "f", "def f(a):\n    list.sort(a, key=len)\n"),
    ("bad", "f", "def f(a):\n    type(a).reverse(a)\n"),
    ("bad", "f", "def f(a):\n    a.__class__.sort(a)\n"),
    ("bad", "f", "def f(a):\n    dict.update(a, clipped=True)\n"),
    ("bad", "f", "def f(a):\n    dict.pop(a, 'k')\n"),
    ("bad", "f", "def f(a):\n    list(map(list.sort, [a]))\n"),
    ("bad", "f", "def f(a):\n    L = list\n    L.sort(a)\n"),
    ("bad", "f", NPI + "def f(a):\n    m = np\n    m.fill_diagonal(a, 0)\n"),
    ("bad", "f", "import operator\ndef f(a):\n    operator.setitem(a, 0, 1)\n"),
    ("bad", "f", "import operator\ndef f(a, b):\n    return operator.iadd(a, b)\n"),
    ("bad", "f", "import functools\ndef f(a):\n    return functools.reduce(list.__iadd__, [a, a])\n"),
    ("bad", "f", "import functools\ndef f(a):\n    return functools.reduce(lambda x, y: x.__iadd__(y), [a, a])\n"),
    ("bad", "f", NPI + "def f(a):\n    np.copyto(a, 0)\n"),
    ("bad", "f", NPI + "def f(a):\n    np.put(a, [0], 1)\n"),
    ("bad", "f", NPI + "def f(a):\n    np.put_along_axis(a, np.array([[0]]), 0.0, 0)\n"),
    ("bad", "f", NPI + "def f(a):\n    np.ndarray.fill(a, 0)\n"),
    ("bad", "f", NPI + "def f(a):\n    np.ndarray.resize(a, (1,))\n"),
    ("bad", "f", NPI + "def f(a):\n    np.ndarray.sort(a)\n"),
    ("bad", "f", NPI + "def f(a):\n    np.ndarray.itemset(a, 0, 1)\n"),
    ("bad", "f", "def f(a):\n    object.__setattr__(a, 'shape', (1,))\n"),
    ("bad", "f", "def f(a):\n    dgs = list.copy(a)\n    dgs[0][:, 1] -= dgs[0][:, 0]\n"),
    ("good", "f", NPI + "def f(a):\n    b = list(a)\n    list.sort(b)\n    c = np.copy(a)\n    np.ndarray.fill(c, 0)\n    type(c).sort(c)\n    return b, c\n"),
    ("good", "f", "def f(a):\n    return str.join(', ', [str(x) for x in a]), dict.get({}, 'k'), list.index(a, a[0])\n"),
    # --- R5: only the reviewed hook statement, word for word, is left out
    ("good", "f", HOOK + "    if _VERIF_T is not None:\n        _VERIF_T.append(len(a))\n    return a + 1\n", HOOK_POLICY),
    ("bad", "f", HOOK + "    if _VERIF_T is not None:\n        _VERIF_T.append(len(a))\n    return a + 1\n"),
    ("bad", "f", HOOK + "    if _VERIF_T is None:\n        a.sort()\n    return a + 1\n", HOOK_POLICY),
    ("bad", "f", HOOK + "    if _VERIF_T is not None:\n        a.sort()\n    return a + 1\n", HOOK_POLICY),
    ("bad", "f", HOOK + "    if _VERIF_T is not None:\n        _VERIF_T.append(len(a))\n    else:\n        a.reverse()\n    return a + 1\n", HOOK_POLICY),
    ("bad", "f", HOOK + "    if not _VERIF_T:\n        for d in a:\n            d.sort(axis=0)\n    return a + 1\n", HOOK_POLICY),
    ("bad", "f", HOOK + "    if _VERIF_T is not None:\n        _VERIF_T.append(len(a))\n        a.sort()\n    return a + 1\n", HOOK_POLICY),
    ("bad", "f", "_VERIF_T = []\ndef f(a):\n    if _VERIF_T is not None:\n        _VERIF_T.append(len(a))\n    return a + 1\n", HOOK_POLICY),
    ("bad", "f", HOOK + "    return a + len(_VERIF_T or [])\n", HOOK_POLICY),
    ("bad", "f", HOOK + "    _VERIF_T = a\n    if _VERIF_T is not None:\n        _VERIF_T.append(len(a))\n", HOOK_POLICY),
    # --- R6: decorators, module-level rebinding, conditional / repeated definitions, `__init__.py`
    ("refused", "f", "def _d(g):\n    def w(a):\n        a.sort()\n        return g(a)\n    return w\n@_d\ndef f(a):\n    return a\n"),
    ("refused", "f", "def f(a):\n    return a\n_f = f\ndef _w(a):\n    a.sort()\n    return _f(a)\nf = _w\n"),
    ("refused", "f", "def _w(g):\n    return lambda a: g(a.sort())\ndef f(a):\n    return a\nf = _w(f)\n"),
    ("refused", "f", "def f(a):\n    return a\ndef f(a):\n    a.sort()\n"),
    ("refused", "f", "import sys\nif sys.version_info > (3,):\n    def f(a):\n        a.sort()\n"),
    ("refused", "f", "f = lambda a: a.sort()\n"),
    ("refused", "g", "def g(a):\n    return a\nf = lambda a: a.sort()\n"),
    ("refused", "f", "def f(a):\n    return a\nglobals().update(f=lambda a: a.sort())\n"),
    ("refused", "f", NPI + "np.seterr(all='ignore')\ndef f(a):\n    return a + 1\n"),
    ("refused", "f", "def f(a):\n    def _d(g):\n        return g\n    @_d\n    def h(x):\n        x.sort()\n    h(a)\n"),
    ("refused", "C.m", "def _d(c):\n    return c\n@_d\nclass C:\n    def m(self, a):\n        return a\n"),
    ("refused", "C.m", "import functools\nclass C:\n    @functools.cache\n    def m(self, a):\n        return a\n"),
    ("refused", "C.m", "class C:\n    def m(self, a):\n        return a\n    def _w(self, a):\n        a.sort()\n    m = _w\n"),
    ("refused", "C.m", "class C(metaclass=type):\n    def m(self, a):\n        return a\n"),
    ("refused", "f", "class _P:\n    def __init__(self, a):\n        self.a = a\n    def go(self):\n        return self.a\n    go = property(go)\ndef f(a):\n    return _P(a).go\n"),
    ("good", "C.m", "from abc import abstractmethod\nclass C:\n    @property\n    def p(self):\n        return self._p\n    @p.setter\n    def p(self, v):\n        self._p = v\n    @staticmethod\n    def s(a):\n        return a + 1\n    @abstractmethod\n    def t(self):\n        pass\n    def m(self, a):\n        self.p = a.sum()\n        return C.s(a), self.p\n"),
    ("good", "C.m", "from lib import reviewed\n@reviewed(version='1')\nclass C:\n    def m(self, a):\n        return a + 1\n", HOOK_POLICY),
    ("refused", "C.m", "from lib import reviewed\n@reviewed(version='2')\nclass C:\n    def m(self, a):\n        return a + 1\n", HOOK_POLICY),
    ("bad", "__init__.heat", {"__init__": "from .heat import *\nfrom .heat import heat as _heat\n\n\ndef heat(a):\n    a.sort(axis=0)\n    return _heat(a)\n",
                              "heat": "__all__ = ['heat']\ndef heat(a):\n    return a + 1\n"}),
    ("refused", "heat.heat", {"__init__": "from .heat import heat\nfrom .wrap import wrap\nheat = wrap(heat)\n",
                              "heat": "def heat(a):\n    return a + 1\n", "wrap": "def wrap(g):\n    return lambda a: g(a.sort())\n"}),
    ("refused", "heat.heat", {"__init__": "from .heat import heat\nfrom .impl import _inplace as heat2\n",
                              "heat": "def heat(a):\n    return a + 1\n", "impl": "def _inplace(a):\n    a.sort()\n"}),
    ("good", "heat.heat", {"__init__": "from ._version import __version__\nfrom .heat import *\nfrom .sub import helper\n__all__ = ['helper']\n",
                           "heat": "from persim import helper\n__all__ = ['heat']\ndef heat(a):\n    return helper(a) + 1\n",
                           "sub": "import numpy as np\ndef helper(a):\n    return np.copy(a)\n", "_version": "__version__ = '1'\n"}),
    ("refused", "f", "def _install():\n    globals()['f'] = lambda a: a.sort()\ndef f(a, _p=_install()):\n    return a\n"),
    ("refused", "f", "def _install():\n    return int\ndef f(a: _install()):\n    return a\n"),
    ("refused", "C.m", "def _mk():\n    return object\nclass C(_mk()):\n    def m(self, a):\n        return a\n"),
    ("good", "f", NPI + "from typing import Optional, List\ndef f(a: Optional[List[float]], order=np.array([0.5, 1]), top: float = np.inf) -> float:\n    return a[0] + top\n"),
    # --- medium items
    ("bad", "f", "def f(a):\n    b = sum([[a]], [])\n    b[0][0] = 1\n"),
    ("bad", "f", "def f(a):\n    sum([a], [])[0][:, 1] += 1.0\n"),
    ("good", "f", "def f(a):\n    s = sum(x[0] for x in a)\n    t = sum(len(x) for x in a)\n    return s + t\n"),
    ("bad", "f", NPI + "def f(a):\n    return np.median(a, None, None, True)\n"),
    ("bad", "f", NPI + "def f(a, ow):\n    return np.median(a, 0, None, ow)\n"),
    ("bad", "f", NPI + "def f(a):\n    return np.percentile(a, 50, None, None, True)\n"),
    ("bad", "f", NPI + "def f(a):\n    return np.quantile(a, 0.5, None, None, True)\n"),
    ("good", "f", NPI + "def f(a):\n    return np.median(a, None, None, False), np.percentile(a, 50, None, None, False), np.median(a, 0)\n"),
    ("bad", "f", "def f(a):\n    a[~0][:] = 0.0\n"),
    ("bad", "f", "def f(a, k):\n    b = a[~k]\n    b[:] = 0\n"),
    ("bad", "f", "def f(a, k):\n    b = a[k == 1]\n    b[:] = 0\n"),
    ("bad", "f", "def f(dgms, normalize):\n    dgms[normalize == True][:, 1] += 1.0\n"),
    ("bad", "f", "def f(a, lo):\n    b = a[a[1:] == lo]\n    b[0] = 1\n"),
    ("bad", "f", NPI + "def f(d, x):\n    b = d[np.isfinite(x)]\n    b[0] = 1\n"),
    ("good", "f", NPI + "def f(a):\n    b = a[~np.isinf(a[:, 1])]\n    c = a[np.isfinite(a[:, 1]), :]\n    d = a[~np.any(a == np.inf, axis=1)]\n    e = a[(a[:, 1] > 0) & (a[:, 0] < 1)]\n    for x in (b, c, d, e):\n        x[0] = 1\n    return b, c, d, e\n"),
    ("bad", "f", "class _S:\n    def __init__(self, a):\n        self.a = a\n    def __enter__(self):\n        self.a[:, 1] -= self.a[:, 0]\n        return self.a\n    def __exit__(self, *e):\n        return False\ndef f(a):\n    with _S(a) as s:\n        pass\n"),
    ("bad", "f", "class _A:\n    def __init__(self, a):\n        self.a = a\n    def __add__(self, v):\n        self.a += v\n        return self\ndef f(a):\n    return (_A(a) + 1).a\n"),
    ("bad", "f", "class _A:\n    def __init__(self, a):\n        self.a = a\n    def __len__(self):\n        self.a.sort()\n        return 1\ndef f(a):\n    return len(_A(a))\n"),
    ("bad", "f", "class _A:\n    def __init__(self, a):\n        self.a = a\n    def __getitem__(self, i):\n        self.a.sort()\n        return self.a[i]\ndef f(a):\n    return _A(a)[0]\n"),
    ("bad", "f", "class S:\n    def __init__(self, a):\n        self.a = a\n    def __enter__(self):\n        return self.a\n    def __exit__(self, *e):\n        return False\ndef f(a):\n    with S(a) as s:\n        s[0] = 1\n"),
    ("good", "f", NPI + "class _A:\n    def __init__(self, a):\n        self.a = np.copy(a)\n    def go(self):\n        self.a.sort()\n        return self.a\ndef f(a):\n    return _A(a).go()\n"),
    ("good", "f", NPI + "class S:\n    def __init__(self, a):\n        self.a = np.copy(a)\n    def __enter__(self):\n        return self.a\n    def __exit__(self, *e):\n        return False\ndef f(a):\n    with S(a) as s:\n        s[0] = 1\n        return s\n"),
    ("refused", "f", "_C, _N = [], 0\ndef f(a):\n    _C.append(1)\n    return len(_C)\n"),
    ("refused", "f", "try:\n    _C = []\nexcept Exception:\n    _C = None\ndef f(a):\n    _C.append(a)\n    return len(_C)\n"),
    ("bad", "f", "from somewhere import *\ndef f(a):\n    _CALLS.append(1)\n    return a + len(_CALLS)\n"),
    ("bad", "f", "def f(a):\n    return a + _UNBOUND\n"),
    ("bad", "f", "def f(a):\n    def g(b=a.T):\n        b[0] = 1\n    g()\n"),
    ("bad", "f", "def f(a):\n    (lambda b=a.T: b.sort())()\n"),
    ("bad", "f", NPI + "def f(a):\n    def g(b=a):\n        b[0] = 1\n    a = np.copy(a)\n    g()\n"),
    ("bad", "f", NPI + "def g(x, out=np.put):\n    out(x, [0], 1)\ndef f(a):\n    g(a)\n"),
    ("bad", "f", NPI + "def f(a, kernel=np.ndarray.sort):\n    kernel(a)\n"),
    ("good", "f", NPI + "def g(x, top=np.inf, conv=np.asarray):\n    return conv(x) + top\ndef f(a):\n    def h(b=np.copy(a)):\n        b[0] = 1\n        return b\n    return g(a), h()\n"),
    ("bad", "f", "from sklearn.metrics import pairwise_distances\ndef f(a):\n    def m(u, v):\n        u.sort()\n        return 0.0\n    return pairwise_distances(a, a, metric=m)\n"),
    ("bad", "f", "import bisect\ndef f(a):\n    return bisect.bisect_left(a, 0, key=lambda r: r.sort())\n"),
    ("bad", "f", "def f(a):\n    print(1, file=a)\n"),
    ("good", "f", "def f(a, kernel=len):\n    return callable(kernel), isinstance(kernel, str), str(kernel), kernel(a)\n"),
    ("bad", "f", NPI + "def f(a):\n    np.random.shuffle(x=a)\n", {"constants": [], "rng_allowed": ["snippet.f"]}),
    ("bad", "f", "import random\ndef f(a, b):\n    random.choice([a, b])[0, 0] = 1\n", {"constants": [], "rng_allowed": ["snippet.f"]}),
    ("good", "f", "import random\n" + NPI + "def f(a, b):\n    c = np.copy(random.choice([a, b]))\n    c[0, 0] = 1\n    np.random.shuffle(c)\n    return c\n", {"constants": [], "rng_allowed": ["snippet.f"]}),
    # ================= audit 4
    # --- IR-1: a persim BASE class with a hook that acts on its subclasses (`__init_subclass__`, `__set_name__` descriptors,
    #     `__class_getitem__`, a metaclass, attribute-lookup hooks) is an unreviewed class decorator on every subclass; the `class`
    #     line with what its bases resolve to is reviewed text (policy.json `class_lines`, `base_hooks_reviewed`)
    ("refused", "C.m", ISUB + CSUB),
    ("refused", "C.m", ISUB + CSUB, {"constants": [], "class_lines": CL_B_C}),
    ("good", "C.m", ISUB_OK + CSUB, {"constants": [], "class_lines": CL_B_C, "base_hooks_reviewed": {"snippet._B": {"__init_subclass__": ISUB_OK_TEXT}}}),
    ("refused", "C.m", ISUB + CSUB, {"constants": [], "class_lines": CL_B_C, "base_hooks_reviewed": {"snippet._B": {"__init_subclass__": ISUB_OK_TEXT}}}),
    ("good", "C.m", "class _B:\n    def helper(self, a):\n        return a\n" + CSUB),
    ("good", "C.m", "class _B:\n    def helper(self, a):\n        return a\n" + CSUB, {"constants": [], "class_lines": CL_B_C}),
    ("bad", "C.m", "class _B:\n    def helper(self, a):\n        a.sort()\n        return a\nclass C(_B):\n    def m(self, a):\n        return self.helper(a)\n", {"constants": [], "class_lines": CL_B_C}),
    ("refused", "C.m", "class _B:\n    pass\nclass _B2:\n    pass\nclass C(_B2):\n    def m(self, a):\n        return a + 1\n",
     {"constants": [], "class_lines": dict(CL_B_C, **{"snippet._B2": {"line": "class _B2", "bases": []}})}),
    ("refused", "C.m", "class _B:\n    pass\nclass C(_B, object):\n    def m(self, a):\n        return a + 1\n", {"constants": [], "class_lines": CL_B_C}),
    ("refused", "C.m", "class C:\n    def m(self, a):\n        return a + 1\n", {"constants": [], "class_lines": {}}),
    ("refused", "C.m", "class _M(type):\n    pass\nclass _B(metaclass=_M):\n    pass\n" + CSUB),
    ("refused", "C.m", "class _D:\n    def __set_name__(self, owner, name):\n        owner.m = lambda s, a: a.sort()\nclass _B:\n    x = _D()\n" + CSUB),
    ("refused", "C.m", "class _B:\n    def __class_getitem__(cls, k):\n        return cls\n" + CSUB),
    ("refused", "C.m", "class _B:\n    def __getattribute__(self, n):\n        return object.__getattribute__(self, n)\n" + CSUB),
    ("refused", "C.m", "class _B:\n    def __new__(cls, *a):\n        return object.__new__(cls)\n" + CSUB),
    ("refused", "C.m", "class _A:\n    def __init_subclass__(cls, **kw):\n        cls.m = None\nclass _B(_A):\n    pass\n" + CSUB),
    ("refused", "C.m", "class C:\n    def __getattribute__(self, n):\n        return object.__getattribute__(self, n)\n    def m(self, a):\n        return a + 1\n"),
    ("good", "C.m", "from lib import Mixin\nclass C(Mixin):\n    def m(self, a):\n        return a + 1\n",
     {"constants": [], "class_lines": {"snippet.C": {"line": "class C(Mixin)", "bases": ["lib.Mixin"]}}}),
    ("refused", "C.m", "from lib2 import Mixin\nclass C(Mixin):\n    def m(self, a):\n        return a + 1\n",
     {"constants": [], "class_lines": {"snippet.C": {"line": "class C(Mixin)", "bases": ["lib.Mixin"]}}}),
    ("refused", "mod.C.m", {"__init__": "", "mix": "class Mixin:\n    def __init_subclass__(cls, **kw):\n        cls.m = lambda s, a: a.sort()\n",
                            "mod": "from .mix import Mixin\nclass C(Mixin):\n    def m(self, a):\n        return a + 1\n"},
     {"constants": [], "class_lines": {"mod.C": {"line": "class C(Mixin)", "bases": ["lib.Mixin"]}, "mix.Mixin": {"line": "class Mixin", "bases": []}}}),
    # --- IR-2: `_version.py` is parsed like every other module and must be the single statement `__version__ = "<literal>"`
    ("good", "heat.heat", {"__init__": PKG_INIT, "heat": PKG_HEAT, "_version": '__version__ = "0.3.7"\n'}),
    ("refused", "heat.heat", {"__init__": PKG_INIT, "heat": PKG_HEAT,
                              "_version": '__version__ = "0.3.7"\nfrom . import heat as _h\n_o = _h.heat\ndef _w(a):\n    a.sort()\n    return _o(a)\n_h.heat = _w\n'}),
    ("refused", "heat.heat", {"__init__": PKG_INIT, "heat": PKG_HEAT, "_version": '__version__ = "0.3.7"\n__all__ = ["__version__"]\n'}),
    ("refused", "heat.heat", {"__init__": PKG_INIT, "heat": PKG_HEAT, "_version": '__version__ = str(1)\n'}),
    ("refused", "heat.heat", {"__init__": PKG_INIT, "heat": PKG_HEAT, "_version": 'def _v():\n    return "1"\n'}),
    ("refused", "heat.heat", {"__init__": PKG_INIT, "heat": PKG_HEAT, "_version": 'import numpy as np\n__version__ = "1"\n'}),
    # --- a module-level statement of file A that assigns an attribute of file B refuses the entries of A AND the assigned target
    ("refused", "heat.heat", {"__init__": "from .heat import *\n", "heat": PKG_HEAT, "other": PATCH_OTHER, "third": "def k(a):\n    return a + 2\n"}),
    ("refused", "other.g", {"__init__": "from .heat import *\n", "heat": PKG_HEAT, "other": PATCH_OTHER, "third": "def k(a):\n    return a + 2\n"}),
    ("good", "third.k", {"__init__": "from .heat import *\n", "heat": PKG_HEAT, "other": PATCH_OTHER, "third": "def k(a):\n    return a + 2\n"}),
    ("refused", "third.k2", {"__init__": "from .heat import *\n", "heat": PKG_HEAT, "other": PATCH_OTHER,
                             "third": "from .heat import heat\ndef k2(a):\n    return heat(a)\n"}),
    ("refused", "heat.heat", {"__init__": "", "heat": PKG_HEAT, "other": "import sys\ndef _w(a):\n    a.sort()\nsetattr(sys.modules['persim.heat'], 'heat', _w)\n"}),
    ("refused", "heat.heat", {"__init__": "", "heat": PKG_HEAT, "other": "from .heat import heat as _h\ndef _w(a):\n    a.sort()\n_h.__code__ = _w.__code__\n"}),
    ("refused", "heat.heat", {"__init__": "", "heat": PKG_HEAT, "other": "import persim.heat\ndef _w(a):\n    a.sort()\npersim.heat.__dict__['heat'] = _w\n"}),
    ("refused", "mod.C.m", {"__init__": "", "mod": "class C:\n    def m(self, a):\n        return a + 1\n",
                            "other": "from .mod import C as _C\ndef _w(self, a):\n    a.sort()\n_C.m = _w\n"}),
    ("good", "heat.heat", {"__init__": "", "heat": PKG_HEAT, "other": NPI + "np.seterr(all='ignore')\ndef g(a):\n    return a\n"}),
]
