"""
mGH source translator Python -> Lean (DESIGN.md 3.2): the third engine behind py2lean.generate(), key "mgh".

Translates the functions behind `gromov_hausdorff` in persim/gromov_hausdorff.py (from `estimate` downwards) STATEMENT BY
STATEMENT into lean/PersimVerif/Generated/SrcMGH.lean and emits the obligations `src_<f>_eq_model` tying them to the
hand-written model lean/PersimVerif/Model/MGH.lean (the model of property C05), for all inputs.

Semantics of the subset (the translator's conventions):
  * every generated definition has type `Except PyErr τ` (`Lemmas/SrcLibNp.lean`): `return e` is `.ok e`; a call of another
    generated definition, a list read `l[k]` (`getItem`, `IndexError`) or write `l[k] = e` (`setItem`) is bound by
    `match … with | .error e => .error e | .ok x => …` where the statement stands, in Python's evaluation order;
  * straight-line code is SSA-renamed (`x`, `x_1`, …); every assignment is a `let`; tuples are destructured by projections;
  * integers: values that are counts, distances, lengths or indices are `Nat`; a difference `a - b` of naturals is an `Int`
    (cast where it is used) UNLESS a dominating test of the source shows `b <= a` (the `if a <= b:` / `else:` branch the
    statement stands in, the `while d > lb:` loop it stands in), in which case it is the exact natural difference; an `Int`
    reaches a place that needs a natural (an index, a `range` start, an argument declared `Nat`) only through `.toNat` of an
    expression that is visibly non-negative (`max(e, n)` with `n` natural), a `range` end may be negative (`pyRange`);
    fixed-width NumPy integer types are NOT modelled: no overflow (see `Lemmas/SrcLibNp.lean`), dtype conversions
    (`astype`, `dtype=`, `int(...)` of an integer) are the identity and are recorded in `srcConversions_<f>` WITH THEIR POSITION:
    `<path of the statement in the function> | <the statement as written> | <the conversion with its argument>` (where an `int()`
    stands decides which NumPy scalar type the arithmetic after it runs in, which the translation cannot see);
  * an in-place update (`l[k] = e`, `l[k] -= e`, `l.append(e)`) gives the ONE name `l` a new value; it is accepted only for a list
    created in the function (`list(…)`, a list display, `np.zeros`) that no other name refers to: a parameter, an alias `a = b` or a
    NumPy view would make that reading unsound and is outside the subset;
  * `None` is `Option.none`; `x is not None` in a `while`/`if` test refines `x` to its value in the body (`match … with
    | some x_1 => …`);
  * nested `def`s are closure-converted: the enclosing function's variables they read become leading parameters, passed at
    every call with their CURRENT value (Python closures read variables at call time);
  * `next(k for k in range(a, b) if c)` is `nextWhere (fun k => c) (pyRange a b)`; `try: x = next(g) / except StopIteration: H /
    else: E` is a `match` on its result (`none` = `StopIteration`), the statements that follow are translated in both arms;
  * `for x in l` is a structural recursion over `l` (`<f>_loop`) carrying the names the body re-assigns; `l.append(e)` is
    `l ++ [e]`;
  * `while c: body` is a BOUNDED iteration: `<f>_loop` recurses on a counter initialised with the bound that the translator's
    table gives for that loop (a Python expression over the variables at loop entry, printed in the docstring of the loop);
    exhausting it is `PyErr.bound`, so every obligation `… = .ok …` includes a proof that the loop terminates within the bound;
  * an `if` in tail position of a block is an if-expression whose arms continue separately; otherwise it yields the names its
    arms assign;
  * NumPy expressions are read through the IDIOM TABLE below (pattern -> library function of `Lemmas/SrcLibNp.lean`, each
    with its convention stated there) or are parameters of the generated definition (the random generator).  An expression
    that matches no entry is outside the subset.
A source outside the subset gives `def srcShape_<f> : Bool := false` and the broken obligation `srcShape_<f>_recognised`.
What is not translated is pinned as text: `srcSkeleton_<f>` (the body with the translated statements as `...`, or the whole
body for `region="pin"` targets), `srcSignature_<function>`, `srcConversions_<f>`, `srcBindings_mgh`.

What the obligations cannot see and the translator therefore REFUSES (the obligations hold up to definitional unfolding, which
absorbs a `let` that nothing reads):
  * DEAD STORES: after a function / loop / nested function is generated, every `let` and every bound result must be read by what
    follows it (`check_live`); a loop-carried name must be read by the loop itself or after it.  The table's `unread=` lists the
    stores of the unchanged source that nothing reads (printed in the generated header);
  * a name the translation resolves BY SPELLING (`int`, `len`, `np`, …, the module's functions, the nested functions) must not
    be bound anywhere in the function; a nested function is defined once, at the top level of the body; SSA versions `x_k` avoid
    every identifier of the Python function;
  * a parameter that is not modelled (`mapping_sample_size_order`) must reach the callee: passed at every call, never re-bound;
  * the argument of the recorded draw `np.random.choice(len(DY))` must be the parameter the draw's contract names;
  * a statement the table leaves untranslated (`skip`) must stand at the top level of the body (where the skeleton shows it).
"""
import ast, os, re

from .py2lean import (Shape, LEAN_RESERVED, lean_str, unparse_with_holes, strip_doc, GEN, bindings_section,
                      render_signature, signature_text, sanitize, not_translated, not_translated_comment)


def dotted(node):
    """`a.b.c` of a Name / Attribute chain, else None"""
    parts = []
    while isinstance(node, ast.Attribute):
        parts.append(node.attr)
        node = node.value
    if isinstance(node, ast.Name):
        return ".".join([node.id] + parts[::-1])
    return None


# ----------------------------------------------------------------------------- types and values

class Ty:
    """N Nat, Z Int, B Bool, Q Rat, L list, O option, T tuple (right-nested product), ? unknown (None literal), X named"""
    def __init__(self, k, *args, name=None):
        self.k, self.args, self.name = k, args, name

    def lean(self, atom=False):
        k = self.k
        if k in "NZBQ":
            return {"N": "Nat", "Z": "Int", "B": "Bool", "Q": "Rat"}[k]
        if k == "L":
            t = "List %s" % self.args[0].lean(True)
        elif k == "O":
            t = "Option %s" % self.args[0].lean(True)
        elif k == "T":
            t = " × ".join(a.lean(True) for a in self.args[:-1]) + " × " + self.args[-1].lean(self.args[-1].k != "T")
        elif k == "?":
            t = "_"
        else:
            t = self.name
        return "(%s)" % t if atom and " " in t else t

    def __eq__(self, o):
        return isinstance(o, Ty) and self.lean() == o.lean()

    def __ne__(self, o):
        return not self.__eq__(o)

    def __hash__(self):
        return hash(self.lean())


N, Z, B, Q, ANY = Ty("N"), Ty("Z"), Ty("B"), Ty("Q"), Ty("?")


def L(t):
    return Ty("L", t)


def O(t):
    return Ty("O", t)


def T(*ts):
    return Ty("T", *ts)


MAT = L(L(N))
CPX = T(N, N)            # a complex number with natural real and imaginary parts: (re, im)
DTYPE = Ty("X", name="dtype")


class V:
    """a translated value: Lean text `t` of type `ty`, precedence `p`; `lit`: integer literal (adopts the type of its context);
    `nonneg`: an Int that is visibly >= 0; `prop`: a condition that is a Prop (else Bool); `comps`: components of a tuple;
    `vec`: (base list V, fn V -> V) an elementwise expression over the entries of `base`; `src`: the Python text it came from"""
    def __init__(self, t, ty, p=100, lit=None, nonneg=False, prop=False, comps=None, vec=None):
        self.t, self.ty, self.p, self.lit, self.nonneg, self.prop, self.comps, self.vec = t, ty, p, lit, nonneg, prop, comps, vec


def paren(v, minp):
    return "(%s)" % v.t if v.p < minp else v.t


def atom(t):
    return t if re.match(r"^[\w.']+$", t) or (t[0] in "([" and t[-1] in ")]" and balanced(t)) else "(%s)" % t


def balanced(t):
    d = 0
    for i, c in enumerate(t):
        d += c in "(["
        d -= c in ")]"
        if d == 0 and i < len(t) - 1:
            return False
    return d == 0


def proj(text, i, n):
    """projection i of the right-nested n-tuple `text`"""
    if n == 1:
        return text
    return atom(text) + ".2" * i + (".1" if i < n - 1 else "")


# ----------------------------------------------------------------------------- nodes (every node denotes an `Except PyErr τ`)

class Ret:
    """`passthrough`: the recursive call / the exit tuple of a loop definition (hands the carried values on: not a READ of them
    for the dead-store check)"""
    def __init__(self, text, raw=False, passthrough=False):
        self.text, self.raw, self.passthrough = text, raw, passthrough


class Fail:
    def __init__(self, err):
        self.err = err


class Let:
    """`structural`: the value of a loop-carried name after the loop, for a name that the loop itself reads (no store of the
    source stands behind it: exempt from the dead-store check)"""
    def __init__(self, name, ty, text, body, structural=False):
        self.name, self.ty, self.text, self.body, self.structural = name, ty, text, body, structural


class Bind:
    """match scrut with | .error e => .error e | .ok var => body   (scrut: text, or (node, type text))"""
    def __init__(self, scrut, var, body):
        self.scrut, self.var, self.body = scrut, var, body


class Ite:
    def __init__(self, cond, a, b):
        self.cond, self.a, self.b = cond, a, b


class Arms:
    """match scrut with | pat_i => body_i"""
    def __init__(self, scrut, arms):
        self.scrut, self.arms = scrut, arms


def is_pure(n):
    if isinstance(n, Ret):
        return not n.raw
    if isinstance(n, Let):
        return is_pure(n.body)
    if isinstance(n, Ite):
        return is_pure(n.a) and is_pure(n.b)
    return False


def render(n, ind):
    """lines of a node in statement position"""
    if isinstance(n, Ret):
        return [ind + (n.text if n.raw else ".ok " + atom(n.text))]
    if isinstance(n, Fail):
        return [ind + ".error " + n.err]
    if isinstance(n, Let):
        return ["%slet %s : %s := %s" % (ind, n.name, n.ty, n.text)] + render(n.body, ind)
    if isinstance(n, Bind):
        if isinstance(n.scrut, str):
            head = ["%smatch %s with" % (ind, n.scrut)]
        else:
            inner = render(n.scrut[0], ind + "    ")
            inner[0] = "%smatch (%s" % (ind, inner[0].lstrip())
            inner[-1] += " : Except PyErr %s) with" % n.scrut[1]
            head = inner
        return head + ["%s| .error e => .error e" % ind, "%s| .ok %s =>" % (ind, n.var)] + render(n.body, ind)
    if isinstance(n, Ite):
        out = ["%sif %s then" % (ind, n.cond)] + render(n.a, ind + "  ")
        return out + [ind + "else"] + render(n.b, ind + "  ")
    if isinstance(n, Arms):
        out = ["%smatch %s with" % (ind, n.scrut)]
        for pat, body in n.arms:
            out += ["%s| %s =>" % (ind, pat)] + render(body, ind + "  ")
        return out
    raise Shape("internal: node")


def render_pure(n):
    """a pure node as a Lean term of the value type (no `.ok`)"""
    if isinstance(n, Ret):
        return n.text
    if isinstance(n, Let):
        return "(let %s : %s := %s; %s)" % (n.name, n.ty, n.text, render_pure(n.body))
    if isinstance(n, Ite):
        return "(if %s then %s else %s)" % (n.cond, render_pure(n.a), render_pure(n.b))
    raise Shape("internal: not pure")


def render_inline(n):
    """a node as a one-line Lean term of type `Except PyErr τ` (inside a lambda: no `match`, so that the library lemmas can
    be stated about it)"""
    if isinstance(n, Ret):
        return n.text if n.raw else ".ok %s" % atom(n.text)
    if isinstance(n, Fail):
        return ".error " + n.err
    if isinstance(n, Let):
        return "(let %s : %s := %s; %s)" % (n.name, n.ty, n.text, render_inline(n.body))
    if isinstance(n, Bind) and isinstance(n.scrut, str):
        return "(%s).bind (fun %s => %s)" % (n.scrut, n.var, render_inline(n.body))
    if isinstance(n, Ite):
        return "(if %s then %s else %s)" % (n.cond, render_inline(n.a), render_inline(n.b))
    raise Shape("a statement form that is not supported inside a lambda")


# ----------------------------------------------------------------------------- template matching (idiom table)

def tmatch(tpl, node, b):
    """does `node` have the shape of the template `tpl` (an ast; names `_A`, `_B`, … are holes, the same hole = the same text)"""
    if isinstance(tpl, ast.Name) and re.match(r"^_[A-Z]\w*$", tpl.id):
        if tpl.id in b:
            return isinstance(node, ast.AST) and ast.dump(b[tpl.id]) == ast.dump(node)
        if not isinstance(node, ast.expr):
            return False
        b[tpl.id] = node
        return True
    if type(tpl) is not type(node):
        return False
    for f in tpl._fields:
        x, y = getattr(tpl, f, None), getattr(node, f, None)
        if isinstance(x, list):
            if not isinstance(y, list) or len(x) != len(y) or not all(tmatch(a, c, b) for a, c in zip(x, y)):
                return False
        elif isinstance(x, ast.AST):
            if not isinstance(y, ast.AST) or not tmatch(x, y, b):
                return False
        elif type(x) is not type(y) or x != y:
            return False
    return True


def template(src):
    return ast.parse(src, mode="eval").body


def names_in(node):
    return {n.id for n in ast.walk(node) if isinstance(n, ast.Name)}


# ----------------------------------------------------------------------------- dead-store check on the GENERATED bindings
# The obligations hold up to definitional unfolding, so a generated `let` that nothing reads would be absorbed by them; a store
# of the source that the translation turns into such a `let` (a late `x = int(x)`, a store to a name that only untranslated text
# or Python's own machinery reads) is therefore refused, unless the table lists it (`unread=`, printed in the generated header).

TOKEN = re.compile(r"(?<![\w.'])([A-Za-z_][\w']*)")


def tokens(text):
    """identifiers that a Lean text reads (`x.1`, `l.length`: the head only)"""
    return set(TOKEN.findall(text))


def node_reads(n, passthrough=True):
    """the identifiers the node's texts mention; `passthrough=False`: without the recursive call / exit tuple of a loop"""
    if isinstance(n, Ret):
        return set() if (n.passthrough and not passthrough) else tokens(n.text)
    if isinstance(n, Fail):
        return set()
    if isinstance(n, Let):
        return tokens(n.text) | node_reads(n.body, passthrough)
    if isinstance(n, Bind):
        head = tokens(n.scrut) if isinstance(n.scrut, str) else node_reads(n.scrut[0], passthrough)
        return head | node_reads(n.body, passthrough)
    if isinstance(n, Ite):
        return tokens(n.cond) | node_reads(n.a, passthrough) | node_reads(n.b, passthrough)
    if isinstance(n, Arms):
        out = tokens(n.scrut)
        for _, body in n.arms:
            out |= node_reads(body, passthrough)
        return out
    raise Shape("internal: node")


def check_live(n, allow, where):
    """every `let` / bound result of the node is read by what follows it (names are never re-used inside one definition, see
    `Tr.fresh`, so an occurrence of the name IS a read of that binding)"""
    if isinstance(n, Let):
        if not n.structural and n.name not in allow and n.name not in node_reads(n.body):
            raise Shape("dead store: the value bound to `%s` in %s is never read by the translated code (a store that only "
                        "untranslated text could observe is outside the subset)" % (n.name, where))
        check_live(n.body, allow, where)
    elif isinstance(n, Bind):
        if not isinstance(n.scrut, str):
            check_live(n.scrut[0], allow, where)
        if n.var not in allow and n.var not in node_reads(n.body):
            raise Shape("dead store: the result bound to `%s` in %s is never read by the translated code" % (n.var, where))
        check_live(n.body, allow, where)
    elif isinstance(n, Ite):
        check_live(n.a, allow, where)
        check_live(n.b, allow, where)
    elif isinstance(n, Arms):
        for _, body in n.arms:
            check_live(body, allow, where)


def stmt_paths(body, prefix="@"):
    """id(statement) -> its position in the function: `@3` the third statement of the body (after the docstring), `@3.2` the
    second statement of its body, `.e2` of its `else`, `.h1.2` of its first handler, `.f1` of its `finally`; nested `def`s are
    entered (their docstring is not counted)"""
    out = {}

    def go(seq, pre):
        for k, st in enumerate(seq):
            path = "%s%d" % (pre, k + 1)
            out[id(st)] = path
            if isinstance(st, (ast.FunctionDef, ast.AsyncFunctionDef, ast.ClassDef)):
                go(strip_doc(st.body), path + ".")
                continue
            for field, tag in (("body", ""), ("orelse", "e"), ("finalbody", "f")):
                sub = getattr(st, field, None)
                if isinstance(sub, list) and sub and isinstance(sub[0], ast.stmt):
                    go(sub, "%s.%s" % (path, tag))
            for hk, h in enumerate(getattr(st, "handlers", []) or []):
                go(h.body, "%s.h%d." % (path, hk + 1))
    go(body, prefix)
    return out


def head_text(s):
    """a statement as one line: itself, or the header line of a compound statement"""
    return ast.unparse(s).split("\n")[0]


def bound_names(fn):
    """every name that `fn` (nested functions included) binds anywhere, by any binding form, except its own parameters"""
    out = set()
    for n in ast.walk(fn):
        if isinstance(n, ast.Name) and isinstance(n.ctx, (ast.Store, ast.Del)):
            out.add(n.id)
        elif isinstance(n, ast.arg) and not any(n is a for a in fn.args.args):
            out.add(n.arg)
        elif isinstance(n, (ast.FunctionDef, ast.AsyncFunctionDef, ast.ClassDef)) and n is not fn:
            out.add(n.name)
        elif isinstance(n, ast.ExceptHandler) and n.name:
            out.add(n.name)
        elif isinstance(n, ast.alias):
            out.add((n.asname or n.name).split(".")[0])
        elif isinstance(n, (ast.Global, ast.Nonlocal)):
            out.update(n.names)
        elif type(n).__name__ in ("MatchAs", "MatchStar") and getattr(n, "name", None):
            out.add(n.name)
        elif type(n).__name__ == "MatchMapping" and getattr(n, "rest", None):
            out.add(n.rest)
    return out


def identifiers(fn):
    """every identifier that occurs in `fn`: names, parameters, attributes, nested definitions"""
    out = set()
    for n in ast.walk(fn):
        if isinstance(n, ast.Name):
            out.add(n.id)
        elif isinstance(n, ast.arg):
            out.add(n.arg)
        elif isinstance(n, ast.Attribute):
            out.add(n.attr)
        elif isinstance(n, (ast.FunctionDef, ast.AsyncFunctionDef, ast.ClassDef)):
            out.add(n.name)
        elif isinstance(n, ast.ExceptHandler) and n.name:
            out.add(n.name)
        elif isinstance(n, ast.keyword) and n.arg:
            out.add(n.arg)
    return out


# names the translation resolves BY SPELLING (builtins, the module alias, the dtype helper): binding one of them inside a translated
# function (assignment, loop / comprehension target, nested parameter, `def`, `import`, …) is outside the subset
SPELLED = {"int", "len", "list", "min", "max", "abs", "next", "range", "np", "determine_optimal_int_type", "StopIteration", "tuple"}

# identifiers of Lemmas/SrcLibNp.lean / core Lean that generated text mentions: never handed out as the name of a binding
LIB_NAMES = {"getItem", "setItem", "pyRange", "nextWhere", "zeros2", "scatter2", "dropLastCol", "minTop", "leTop", "uniqueCounts",
             "cpxLt", "tagRows", "anyUpperLt", "colCountLt", "colSumGe", "npArgmin", "bottlenecksFrom", "deleteRow", "deleteCol",
             "npMax", "some", "none", "PyErr", "Int", "Option", "Bool", "Nat", "Rat", "List", "uniqueMaxDistributions", "bind", "ok",
             "error", "map", "zipWith", "range", "reverse", "tail", "length", "toNat", "natAbs", "isNone", "isSome"}


# ----------------------------------------------------------------------------- the translator

BIN = {ast.Add: ("+", 65), ast.Sub: ("-", 65), ast.Mult: ("*", 70)}


class Tr:
    """translator of one function body (or of a loop body / nested function inside it: `parent`)"""
    def __init__(self, unit, cfg, parent=None):
        self.unit, self.cfg, self.parent = unit, cfg, parent
        self.env = {}                        # python name -> V
        self.used = set(LEAN_RESERVED) | {"fuel", "e", "rest"} | LIB_NAMES
        self.pre = []                        # pending hoists (node -> node), outermost first
        self.facts = []                      # (lo text, hi text, names) : lo <= hi holds here
        self.captured = {}                   # python name -> (param V here, V in the parent)   [sub-translators]
        self.nested = {} if parent is None else parent.nested       # nested function name -> FunctionDef
        self.loops = 0
        self.conversions = unit.conversions
        self.owned = set()                   # python names bound to a list that this scope created (no other name refers to it)

    # --- names
    def fresh(self, py):
        base = py if py not in LEAN_RESERVED else py + "_"
        if not re.match(r"^[A-Za-z_][A-Za-z0-9_]*$", base):
            raise Shape("name %r" % py)
        if base == "_":
            base = "t"
        name, k = base, 0
        # an SSA version `x_k` is never a name that occurs as an identifier in the Python function (no capture between a
        # Python local literally called `x_1` and the translator's own versions)
        while name in self.used or (k > 0 and name in self.unit.pyidents) or self.unit.is_defname(name):
            k += 1
            name = "%s_%d" % (base, k)
        self.used.add(name)
        return name

    def binds(self, py):
        """`py` is about to be bound by the translated code: not a name the translation resolves by spelling, not a parameter
        that is not modelled"""
        if py in self.unit.spelled:
            raise Shape("`%s` is bound inside the function, but the translation resolves that name by spelling (a builtin, `np`, a "
                        "nested / module-level function)" % py)
        if py in self.unit.unmodelled:
            raise Shape("`%s` is a parameter that is not modelled (it must reach the callee unchanged): it is re-bound" % py)

    def record_conversion(self, node):
        """a dtype / int conversion read as the identity: pinned WITH its position (path of the statement in the function, the
        statement as written, the conversion with its argument)"""
        st = self.unit.cur
        if st is None or id(st) not in self.unit.paths:
            raise Shape("internal: a conversion outside a statement")
        self.conversions.append("%s | %s | %s" % (self.unit.paths[id(st)], head_text(st), ast.unparse(node)))

    def lookup(self, py):
        if py in self.env:
            return self.env[py]
        if self.parent is not None and py not in self.captured:
            pv = self.parent.lookup(py)
            if pv is not None:
                if pv.ty == DTYPE:
                    return pv
                name = self.fresh(py)
                self.captured[py] = (V(name, pv.ty), pv)
        if py in self.captured:
            return self.captured[py][0]
        return None

    # --- hoists
    def under(self, compute, then):
        mark = len(self.pre)
        v = compute()
        wraps = self.pre[mark:]
        del self.pre[mark:]
        node = then(v)
        for w in reversed(wraps):
            node = w(node)
        return node

    def bind_value(self, text, ty, hint="t"):
        var = self.fresh(hint)
        self.pre.append(lambda body, text=text, var=var: Bind(text, var, body))
        return V(var, ty)

    # --- facts  (lo <= hi known from a dominating test)
    def add_fact(self, lo, hi, strict=False):
        self.facts.append((ast.unparse(lo), ast.unparse(hi), names_in(lo) | names_in(hi)))
        if strict and isinstance(hi, ast.Name):
            self.facts.append(("1", hi.id, {hi.id}))

    def kill_facts(self, name):
        self.facts = [f for f in self.facts if name not in f[2]]

    def knows_le(self, lo, hi):
        return any(f[0] == ast.unparse(lo) and f[1] == ast.unparse(hi) for f in self.facts)

    # --- coercions
    def cast(self, v, ty):
        if v.lit is not None:
            if ty.k in "NZQ":
                return V(v.t, ty, 100, nonneg=True)
            if ty.k == "O" and ty.args[0].k in "NZQ":
                return V("some %s" % v.t, ty, 90)
            raise Shape("literal %s where %s is expected" % (v.t, ty.lean()))
        if v.ty is None:
            raise Shape("a value without a type where %s is expected" % ty.lean())
        if v.ty == ty:
            return v
        if v.ty.k == "N" and ty.k == "Z":
            return V(("(%s : Int)" if v.p >= 100 else "((%s : Nat) : Int)") % v.t, Z, 100, nonneg=True)
        if v.ty.k == "N" and ty.k == "Q":
            return V("(%s : Rat)" % v.t, Q, 100)
        if v.ty.k == "Z" and ty.k == "N":
            if not v.nonneg:
                raise Shape("an integer expression that may be negative is used where a natural number is needed: %s" % v.t)
            return V("%s.toNat" % paren(v, 100), N, 100)
        if ty.k == "O":
            if v.ty.k == "O" and v.ty.args[0] == ANY:
                return V(v.t, ty, v.p)
            if v.ty.k != "O":
                return V("some %s" % paren(self.cast(v, ty.args[0]), 100), ty, 90)
        if v.ty.k == "T" and ty.k == "T" and len(v.ty.args) == len(ty.args):
            cs = self.components(v)
            cs = [self.cast(c, t) for c, t in zip(cs, ty.args)]
            return V("(%s)" % ", ".join(c.t for c in cs), ty, 100, comps=cs)
        if v.vec is not None and ty.k == "L":
            return self.cast(self.materialise(v), ty)
        raise Shape("a value of type %s where %s is expected" % (v.ty.lean(), ty.lean()))

    def components(self, v):
        if v.ty is None or v.ty.k != "T":
            raise Shape("components of a non-tuple")
        if v.comps is not None:
            return v.comps
        n = len(v.ty.args)
        return [V(proj(v.t, i, n), t) for i, t in enumerate(v.ty.args)]

    def materialise(self, v):
        """the list an elementwise expression denotes (`map` over one array, `zipWith` over two)"""
        if v.vec is None:
            return v
        bases, fn = v.vec
        saved = set(self.used)
        xs = [V(self.fresh("xyz"[i]), b.ty.args[0], nonneg=b.ty.args[0] == N) for i, b in enumerate(bases)]
        b = fn(xs)
        self.used = saved
        binders = " ".join("(%s : %s)" % (x.t, x.ty.lean()) for x in xs)
        if len(bases) == 1:
            return V("%s.map (fun %s => %s)" % (paren(bases[0], 100), binders, b.t), L(b.ty), 90)
        if len(bases) == 2:
            return V("List.zipWith (fun %s => %s) %s %s" % (binders, b.t, paren(bases[0], 100), paren(bases[1], 100)), L(b.ty), 90)
        raise Shape("an elementwise expression over more than two arrays")

    def as_cond(self, v):
        if v.ty is None or v.ty.k != "B":
            raise Shape("not a condition")
        return v

    def as_bool(self, v):
        v = self.as_cond(v)
        return V("decide (%s)" % v.t, B, 90) if v.prop else v

    # --- expressions
    def expr(self, node):
        for tpl, handler in IDIOMS:
            b = {}
            if tmatch(tpl, node, b):
                return handler(self, b, node)
        if isinstance(node, ast.Constant):
            v = node.value
            if isinstance(v, bool):
                return V("true" if v else "false", B)
            if v is None:
                return V("none", O(ANY))
            if isinstance(v, int) and v >= 0:
                return V(str(v), None, lit=v, nonneg=True)
            if isinstance(v, float) and v == 0.5:
                return V("(1 / 2 : Rat)", Q, 100)
            raise Shape("literal %r" % (v,))
        if isinstance(node, ast.Name):
            v = self.lookup(node.id)
            if v is None:
                raise Shape("name %s is not bound in the translated code" % node.id)
            return v
        if isinstance(node, ast.Attribute) and dotted(node) == "np.inf":
            return V("none", O(ANY))                   # the start of a running minimum
        if isinstance(node, ast.Tuple):
            cs = [self.expr(e) for e in node.elts]
            cs = [self.materialise(c) if c.vec is not None else c for c in cs]
            if any(c.lit is not None or c.ty is None for c in cs):
                return V(None, None, comps=cs)
            return V("(%s)" % ", ".join(c.t for c in cs), T(*[c.ty for c in cs]), 100, comps=cs)
        if isinstance(node, ast.List) and node.elts:
            cs = [self.expr(e) for e in node.elts]
            ty = next((c.ty for c in cs if c.lit is None and c.ty is not None), None)
            if ty is None:
                raise Shape("type of the list %s" % ast.unparse(node))
            return V("[%s]" % ", ".join(self.cast(c, ty).t for c in cs), L(ty), 100)
        if isinstance(node, ast.BinOp):
            return self.arith(node, node.op, self.expr(node.left), self.expr(node.right))
        if isinstance(node, ast.UnaryOp) and isinstance(node.op, ast.Not):
            v = self.as_cond(self.expr(node.operand))
            return V("¬ %s" % paren(v, 51), B, 40, prop=True) if v.prop else V("!%s" % paren(v, 100), B, 90)
        if isinstance(node, ast.UnaryOp) and isinstance(node.op, ast.USub):
            return self.neg(self.expr(node.operand))
        if isinstance(node, ast.Compare):
            return self.compare(node)
        if isinstance(node, ast.BoolOp):
            return self.boolop(node)
        if isinstance(node, ast.Call):
            return self.call(node)
        if isinstance(node, ast.Subscript):
            return self.subscript(node)
        raise Shape("expression %s" % ast.unparse(node)[:80])

    def neg(self, v):
        if v.vec is not None:
            return V(None, None, vec=(v.vec[0], lambda xs: self.neg(v.vec[1](xs))))
        if v.lit is not None or v.ty is None or v.ty.k not in "NZ":
            raise Shape("unary minus")
        return V("-%s" % paren(self.cast(v, Z), 100), Z, 75)

    def unify(self, a, b):
        """two numeric operands at a common type"""
        if a.lit is not None and b.lit is not None:
            raise Shape("arithmetic on two literals")
        if a.lit is not None:
            a = self.cast(a, b.ty)
        if b.lit is not None:
            b = self.cast(b, a.ty)
        if a.ty is None or b.ty is None or a.ty.k not in "NZQ" or b.ty.k not in "NZQ":
            raise Shape("arithmetic / comparison on %s, %s" % (a.ty.lean() if a.ty else "?", b.ty.lean() if b.ty else "?"))
        if a.ty != b.ty:
            ty = Q if "Q" in (a.ty.k, b.ty.k) else Z
            a, b = self.cast(a, ty), self.cast(b, ty)
        return a, b

    def arith(self, node, op, a, b):
        if type(op) not in BIN:
            raise Shape("operator %s" % type(op).__name__)
        sym, pr = BIN[type(op)]
        if a.vec is not None or b.vec is not None:                # elementwise (scalars broadcast)
            ba, bb = (a.vec[0] if a.vec else []), (b.vec[0] if b.vec else [])
            if ba and bb and [x.t for x in ba] == [x.t for x in bb]:
                bases, ia, ib = ba, list(range(len(ba))), list(range(len(ba)))
            else:
                bases, ia, ib = ba + bb, list(range(len(ba))), list(range(len(ba), len(ba) + len(bb)))
            fa = (lambda xs: a.vec[1]([xs[i] for i in ia])) if a.vec else (lambda xs: a)
            fb = (lambda xs: b.vec[1]([xs[i] for i in ib])) if b.vec else (lambda xs: b)
            return V(None, None, vec=(bases, lambda xs: self.arith(None, op, fa(xs), fb(xs))))
        if isinstance(op, ast.Sub):
            if a.lit is None and b.lit is None and a.ty == N and b.ty == N and node is not None and self.knows_le(node.right, node.left):
                return V("%s - %s" % (paren(a, pr), paren(b, pr + 1)), N, pr)        # exact: `b <= a` is known here
            if a.lit is None and b.lit is not None and a.ty == N and node is not None and self.knows_le(node.right, node.left):
                return V("%s - %s" % (paren(a, pr), b.t), N, pr)
            a = self.cast(a, Q if (a.ty == Q or b.ty == Q) else Z)
            b = self.cast(b, a.ty)
            return V("%s - %s" % (paren(a, pr), paren(b, pr + 1)), a.ty, pr)
        a, b = self.unify(a, b)
        return V("%s %s %s" % (paren(a, pr), sym, paren(b, pr + 1)), a.ty, pr, nonneg=a.nonneg and b.nonneg)

    def compare(self, node):
        if len(node.ops) != 1:
            raise Shape("chained comparison")
        op, l, r = node.ops[0], node.left, node.comparators[0]
        if isinstance(op, (ast.Is, ast.IsNot)):
            if not (isinstance(r, ast.Constant) and r.value is None):
                raise Shape("`is` with something other than None")
            v = self.expr(l)
            if v.ty is None or v.ty.k != "O":
                raise Shape("`is None` on a value that is not optional")
            return V("%s.%s" % (paren(v, 100), "isNone" if isinstance(op, ast.Is) else "isSome"), B)
        a, b = self.expr(l), self.expr(r)
        if a.vec is not None or b.vec is not None:
            raise Shape("comparison of arrays outside the idiom table")
        if isinstance(op, ast.LtE) and a.ty == O(N) and b.lit is None and b.ty == N:
            return V("leTop %s %s" % (paren(a, 100), paren(b, 100)), B, 90)
        a, b = self.unify(a, b)
        if isinstance(op, (ast.Gt, ast.GtE)):
            a, b = b, a
        sym = {ast.Lt: "<", ast.Gt: "<", ast.LtE: "≤", ast.GtE: "≤", ast.Eq: "=", ast.NotEq: "≠"}.get(type(op))
        if sym is None:
            raise Shape("comparison %s" % type(op).__name__)
        return V("%s %s %s" % (paren(a, 51), sym, paren(b, 51)), B, 50, prop=True)

    def boolop(self, node):
        is_or = isinstance(node.op, ast.Or)
        vs = []
        for i, sub in enumerate(node.values):
            mark = len(self.pre)
            v = self.as_cond(self.expr(sub))
            if len(self.pre) != mark and i > 0:
                # a raising operand after the first: Python evaluates it only if the operands before do not decide
                if i != len(node.values) - 1:
                    raise Shape("a raising operand in the middle of and/or")
                wraps = self.pre[mark:]
                del self.pre[mark:]
                inner = Ret(self.as_bool(v).t)
                for w in reversed(wraps):
                    inner = w(inner)
                head = self.join(vs, is_or)
                var = self.fresh("t")
                ite = Ite(head.t, Ret("true"), inner) if is_or else Ite(head.t, inner, Ret("false"))
                self.pre.append(lambda body, ite=ite, var=var: Bind((ite, "Bool"), var, body))
                return V(var, B)
            vs.append(v)
        return self.join(vs, is_or)

    def join(self, vs, is_or):
        if len(vs) == 1:
            return vs[0]
        if all(v.prop for v in vs):
            sym, pr = ("∨", 30) if is_or else ("∧", 35)
            return V((" %s " % sym).join(paren(v, pr + 1) for v in vs), B, pr, prop=True)
        sym, pr = ("||", 30) if is_or else ("&&", 35)
        return V((" %s " % sym).join(paren(self.as_bool(v), pr + 1) for v in vs), B, pr)

    def const_int(self, node):
        if isinstance(node, ast.UnaryOp) and isinstance(node.op, ast.USub) and isinstance(node.operand, ast.Constant) \
                and type(node.operand.value) is int:
            return -node.operand.value
        if isinstance(node, ast.Constant) and type(node.value) is int:
            return node.value
        return None

    def subscript(self, node):
        s = node.slice
        v = self.expr(node.value)
        if v.vec is not None:
            v = self.materialise(v)
        if v.ty is None:
            raise Shape("subscript of %s" % ast.unparse(node.value))
        if isinstance(s, ast.Tuple) and len(s.elts) == 2 and all(isinstance(e, ast.Slice) for e in s.elts) and v.ty == MAT:
            a, b = s.elts
            if a.lower is None and a.upper is None and a.step is None and b.lower is None and self.const_int(b.upper) == -1 \
                    and b.step is None:
                return V("dropLastCol %s" % paren(v, 100), MAT, 90)
            raise Shape("slice %s" % ast.unparse(node))
        if isinstance(s, ast.Slice):
            lo, hi, st = s.lower, s.upper, s.step
            if v.ty.k == "L" and lo is None and hi is None and self.const_int(st) == -1:
                return V("%s.reverse" % paren(v, 100), v.ty, 100)
            if v.ty.k == "L" and self.const_int(lo) == 1 and hi is None and st is None:
                return V("%s.tail" % paren(v, 100), v.ty, 100)
            raise Shape("slice %s" % ast.unparse(node))
        if v.ty.k == "T":
            k = self.const_int(s)
            cs = self.components(v)
            if k is None or not 0 <= k < len(cs):
                raise Shape("tuple index %s" % ast.unparse(node))
            return cs[k]
        if v.ty.k == "L" and not isinstance(s, ast.Tuple):
            i = self.expr(s)
            if i.vec is not None:
                raise Shape("fancy indexing outside the idiom table: %s" % ast.unparse(node))
            i = self.cast(i, N)
            return self.bind_value("getItem %s %s" % (paren(v, 100), paren(i, 100)), v.ty.args[0])
        raise Shape("subscript %s" % ast.unparse(node))

    def lam(self, py, ty, body_node):
        """`fun py => <body : Except PyErr Bool>` for a generator condition (reads inside it may raise)"""
        self.binds(py)
        saved, used = self.env.get(py), set(self.used)
        name = self.fresh(py)
        self.env[py] = V(name, ty)
        try:
            node = self.under(lambda: self.as_bool(self.expr(body_node)), lambda v: Ret(v.t))
        finally:
            if saved is None:
                del self.env[py]
            else:
                self.env[py] = saved
        self.used = used
        return "fun %s => %s" % (name, render_inline(node))

    def range_list(self, node):
        """`range(a, b)` / `range(b)` as a list of naturals"""
        if not (isinstance(node, ast.Call) and dotted(node.func) == "range" and not node.keywords and len(node.args) in (1, 2)):
            raise Shape("expected range(...): %s" % ast.unparse(node)[:60])
        if len(node.args) == 1:
            b = self.expr(node.args[0])
            if b.lit is None and b.ty == N:
                return V("List.range %s" % paren(b, 100), L(N), 90)
            a = V("0", N)
        else:
            a = self.cast(self.expr(node.args[0]), N)
            b = self.expr(node.args[1])
        b = self.cast(b, Z)
        return V("pyRange %s %s" % (paren(a, 100), paren(b, 100)), L(N), 90)

    def next_of(self, node):
        """`next(k for k in range(..) if c)` -> text of type `Except PyErr (Option Nat)`; `next(g)` of a generator variable
        (a list that is consumed) -> None (handled by the caller)"""
        if not (isinstance(node, ast.Call) and dotted(node.func) == "next" and len(node.args) == 1 and not node.keywords):
            return None
        g = node.args[0]
        if not isinstance(g, ast.GeneratorExp):
            return None
        if len(g.generators) != 1:
            raise Shape("nested generator")
        c = g.generators[0]
        if c.is_async or not isinstance(c.target, ast.Name) or len(c.ifs) != 1 or not (
                isinstance(g.elt, ast.Name) and g.elt.id == c.target.id):
            raise Shape("generator outside `(k for k in range(a, b) if c)`")
        r = self.range_list(c.iter)
        return "nextWhere (%s) %s" % (self.lam(c.target.id, N, c.ifs[0]), paren(r, 100))

    def call(self, node):
        f = node.func
        name = dotted(f)
        if isinstance(f, ast.Attribute) and f.attr == "astype" and len(node.args) == 1 and not node.keywords:
            v = self.expr(f.value)                               # dtype conversion: identity (recorded as written)
            self.dtype_arg(node.args[0])
            self.record_conversion(node)
            return v
        if name == "int" and len(node.args) == 1 and not node.keywords:
            a = node.args[0]
            if isinstance(a, ast.Compare):
                c = self.as_cond(self.expr(a))
                return V("(if %s then 1 else 0)" % c.t, N, 100, nonneg=True)
            v = self.expr(a)
            if v.lit is not None or (v.ty is not None and v.ty.k in "NZ"):
                self.record_conversion(node)
                return v
            raise Shape("int(...) of %s" % ast.unparse(a))
        if name == "len" and len(node.args) == 1 and not node.keywords:
            v = self.expr(node.args[0])
            if v.vec is not None:
                v = self.materialise(v)
            if v.ty is None or v.ty.k != "L":
                raise Shape("len of a non-list")
            return V("%s.length" % paren(v, 100), N, 100, nonneg=True)
        if name == "list" and len(node.args) == 1 and not node.keywords:
            v = self.expr(node.args[0])
            if v.ty is None or v.ty.k != "L":
                raise Shape("list(...) of a non-list")
            return v
        if name == "min" and len(node.args) == 2 and not node.keywords:
            a0, b0 = self.expr(node.args[0]), self.expr(node.args[1])
            if b0.ty == O(N) and a0.lit is None and a0.ty == N:
                return V("minTop %s %s" % (paren(a0, 100), paren(b0, 100)), N, 90, nonneg=True)
        if name in ("max", "min") and len(node.args) == 2 and not node.keywords:
            a, b = self.unify(self.expr(node.args[0]), self.expr(node.args[1]))
            nn = (a.nonneg or b.nonneg) if name == "max" else (a.nonneg and b.nonneg)
            return V("%s %s %s" % (name, paren(a, 100), paren(b, 100)), a.ty, 90, nonneg=nn or a.ty == N)
        if name == "abs" and len(node.args) == 1 and not node.keywords:
            v = self.expr(node.args[0])
            if v.ty == Z:
                return V("%s.natAbs" % paren(v, 100), N, 100, nonneg=True)
            if v.ty == N:
                return v
            raise Shape("abs of %s" % ast.unparse(node.args[0]))
        if name in self.nested:
            return self.nested_call(name, node)
        if name in self.unit.targets:
            return self.target_call(name, node)
        if name in self.unit.pinned:                      # a function that is only pinned as text: its meaning is the model helper
            cfg = self.unit.pinned[name]
            fn = self.unit.fns.get(name)
            if fn is None:
                raise Shape("function %s not found" % name)
            args = self.call_args(fn, node, cfg["params"])
            return V(" ".join([cfg["model"]] + [paren(a, 100) for a in args]), cfg["ret"], 90)
        raise Shape("call of %s is not in the translator's tables" % (name or ast.unparse(f)[:40]))

    def dtype_arg(self, node):
        """a dtype expression (`optimal_int_type`, `max_d.dtype`): checked to be one, otherwise erased"""
        if isinstance(node, ast.Name):
            v = self.lookup(node.id)
            if v is not None and v.ty == DTYPE:
                return
        if isinstance(node, ast.Attribute) and node.attr == "dtype" and isinstance(node.value, ast.Name):
            v = self.lookup(node.value.id)
            if v is not None and v.ty is not None and v.ty.k in "NZ":
                return
        raise Shape("dtype expression %s" % ast.unparse(node))

    def call_args(self, fn, node, spec):
        """the arguments of a call of the Python function `fn`, by parameter name (positional and keyword), typed by `spec`
        = [(python parameter, Ty | None)]; a parameter with type None is not modelled and must be passed in the call's own
        parameter of the same name or left at its default"""
        names = [a.arg for a in fn.args.args]
        if names != [p for p, _ in spec]:
            raise Shape("parameters of %s are %s, expected %s" % (fn.name, names, [p for p, _ in spec]))
        given = dict(zip(names, node.args))
        if len(node.args) > len(names):
            raise Shape("too many arguments for %s" % fn.name)
        for kw in node.keywords:
            if kw.arg is None or kw.arg not in names or kw.arg in given:
                raise Shape("keyword argument of %s" % fn.name)
            given[kw.arg] = kw.value
        out = []
        for p, ty in spec:
            if ty is None:
                # not modelled: the callee must receive the CALLER's own parameter of that name (never re-bound: `binds`), and
                # must receive it (left out, the callee would use its default instead)
                if not (p in given and isinstance(given[p], ast.Name) and given[p].id == p and p in self.unit.unmodelled):
                    raise Shape("argument %s of %s is not modelled and must be passed through unchanged from the caller's own "
                                "parameter" % (p, fn.name))
                continue
            if p not in given:
                raise Shape("argument %s of %s is left at its default" % (p, fn.name))
            v = self.expr(given[p])
            out.append(self.cast(self.materialise(v) if v.vec is not None else v, ty))
        return out

    def target_call(self, name, node):
        cfg = self.unit.targets[name]
        fn = self.unit.fns.get(name)
        if fn is None:
            raise Shape("function %s not found" % name)
        extra = []
        occ = self.unit.call_count.get((self.cfg["lean"], name), 0)
        self.unit.call_count[(self.cfg["lean"], name)] = occ + 1
        per_call = self.cfg.get("extra_args", {}).get(name)
        if per_call is not None:                              # the recorded random draws this call receives (by occurrence)
            if occ >= len(per_call):
                raise Shape("no draw parameters in the table for call %d of %s" % (occ + 1, name))
            for pn in per_call[occ]:
                v = self.lookup(pn)
                if v is None:
                    raise Shape("draw parameter %s" % pn)
                extra.append(v)
        lst_name = self.cfg.get("draws", {}).get(name)
        if lst_name is not None:                              # one recorded `np.random.choice` draw per call, from the head of a list
            lst = self.lookup(lst_name)
            x, l1 = self.fresh("y0"), self.fresh(lst_name)
            self.pre.append(lambda body, lst=lst, x=x, l1=l1: Arms(lst.t, [("[]", Fail("PyErr.draws")), ("%s :: %s" % (x, l1), body)]))
            self.env[lst_name] = V(l1, lst.ty)
            extra.append(V(x, N, nonneg=True))
        if len(extra) != len(cfg.get("extra_params", [])):
            raise Shape("the call of %s does not supply its draw parameters" % name)
        args = self.call_args(fn, node, cfg["params"])
        text = " ".join([cfg["lean"]] + [paren(a, 100) for a in extra + args])
        return self.bind_value(text, cfg["ret"])

    def nested_call(self, name, node):
        fn = self.nested[name]
        spec = self.cfg["nested"][name]
        args = self.call_args(fn, node, spec["params"])
        cur = self.unit.cur
        caps = self.unit.nested_def(self, name)
        self.unit.cur = cur
        cvs = []
        for py, ty in caps:
            v = self.lookup(py)
            if v is None or v.ty != ty:
                raise Shape("variable %s captured by %s has another type at this call" % (py, name))
            cvs.append(v)
        text = " ".join([name] + [paren(a, 100) for a in cvs + args])
        return self.bind_value(text, spec["ret"])

    # --- in-place mutation is translated as a new value of ONE name: sound only if no other name refers to the same list
    def is_fresh(self, node):
        """does the expression create a new list / array (so that the name it is assigned to is its only owner)"""
        if isinstance(node, ast.List):
            return True
        return isinstance(node, ast.Call) and dotted(node.func) in ("list", "np.zeros")

    def note_binding(self, py, value_node):
        if isinstance(value_node, ast.Name):               # `a = b`: two names for one object (also in the enclosing scopes)
            tr = self
            while tr is not None:
                tr.owned.discard(value_node.id)
                tr.owned.discard(py)
                tr = tr.parent
        elif value_node is not None and self.is_fresh(value_node):
            self.owned.add(py)
        else:
            self.owned.discard(py)

    def check_mutable(self, py, what):
        if py not in self.owned:
            raise Shape("%s of `%s`, which is not a list created in this function (a parameter, an alias or a view): the "
                        "translation of in-place updates as new values would not be sound" % (what, py))

    # --- statements
    def let(self, py, v, k):
        self.binds(py)
        if v.vec is not None:
            v = self.materialise(v)
        if v.ty == DTYPE:
            self.env[py] = v
            return k()
        if v.ty is None or v.lit is not None:
            raise Shape("type of the value assigned to %s" % py)
        name = self.fresh(py)
        self.env[py] = V(name, v.ty, nonneg=v.nonneg or v.ty == N)
        self.kill_facts(py)
        return Let(name, v.ty.lean(), v.t, k())

    def typed(self, py, v):
        """a literal / None assigned to `py`: typed by the table (`local_types`) or by the variable's current type"""
        ty = self.cfg.get("local_types", {}).get(py)
        if ty is None and self.lookup(py) is not None:
            ty = self.lookup(py).ty
        if v.lit is not None or (v.ty is not None and v.ty.k == "O" and v.ty.args[0] == ANY):
            if ty is None:
                raise Shape("type of the literal assigned to %s" % py)
            return self.cast(v, ty)
        if ty is not None and v.vec is None and v.ty != ty and py in self.cfg.get("local_types", {}):
            return self.cast(v, ty)
        return v

    def block(self, stmts, end):
        if not stmts:
            return end()
        s, rest = stmts[0], list(stmts[1:])
        k = lambda: self.block(rest, end)      # noqa: E731
        if ast.unparse(s) in self.cfg.get("skip", ()):            # not translated: stays in the skeleton as text
            if id(s) not in self.unit.toplevel or self.parent is not None:
                # inside a translated compound statement it would vanish in that statement's `...` of the skeleton
                raise Shape("a statement that the table leaves untranslated stands inside a translated statement")
            self.unit.skipped.append(ast.unparse(s))
            return k()
        self.unit.seen.add(id(s))
        self.unit.cur = s
        if isinstance(s, ast.Expr) and isinstance(s.value, ast.Constant) and isinstance(s.value.value, str):
            return k()
        if isinstance(s, ast.FunctionDef):
            if s.name not in self.cfg.get("nested", {}):
                raise Shape("nested function %s is not in the table" % s.name)
            if self.parent is not None or id(s) not in self.unit.toplevel:
                raise Shape("nested function %s is not defined at the top level of the function body" % s.name)
            if s.name in self.nested:
                # closures are translated once, from ONE definition: a second `def` would change what later calls mean
                raise Shape("nested function %s is defined twice" % s.name)
            self.nested[s.name] = s
            return k()
        if isinstance(s, ast.Return):
            if rest:
                raise Shape("statements after return")
            if s.value is None:
                raise Shape("bare return")
            def retval():
                v = self.expr(s.value)
                if v.ty == O(N) and self.cfg["ret"] == N:          # a running minimum that started at np.inf is returned as a number
                    x = self.fresh("t")
                    self.pre.append(lambda body, v=v, x=x: Arms(v.t, [("none", Fail("PyErr.infinite")), ("some %s" % x, body)]))
                    return V(x, N, nonneg=True)
                return self.cast(v, self.cfg["ret"])
            return self.under(retval, lambda v: Ret(v.t))
        if isinstance(s, ast.Assign):
            if len(s.targets) != 1:
                raise Shape("chained assignment")
            return self.assign(s.targets[0], s.value, k, rest, end)
        if isinstance(s, ast.AugAssign):
            fake = ast.BinOp(left=copy_load(s.target), op=s.op, right=s.value)
            return self.assign(s.target, fake, k, rest, end)
        if isinstance(s, ast.Expr) and isinstance(s.value, ast.Call):
            c = s.value
            if isinstance(c.func, ast.Attribute) and c.func.attr == "append" and isinstance(c.func.value, ast.Name) \
                    and len(c.args) == 1 and not c.keywords:
                py = c.func.value.id
                self.check_mutable(py, "append")

                def val():
                    l, x = self.expr(c.func.value), self.expr(c.args[0])
                    if l.ty is None or l.ty.k != "L":
                        raise Shape("append to a non-list")
                    return V("%s ++ [%s]" % (paren(l, 66), self.cast(x, l.ty.args[0]).t), l.ty, 65)
                return self.under(val, lambda v: self.let(py, v, k))
            raise Shape("call statement %s" % ast.unparse(s)[:60])
        if isinstance(s, ast.If):
            return self.if_stmt(s, rest, end)
        if isinstance(s, ast.While):
            return self.while_stmt(s, k)
        if isinstance(s, ast.For):
            return self.for_stmt(s, k)
        if isinstance(s, ast.Try):
            return self.try_stmt(s, rest, end)
        raise Shape("statement %s at line %d" % (type(s).__name__, s.lineno))

    def assign(self, tgt, value, k, rest, end):
        if isinstance(tgt, ast.Name):
            g = self.gen_next(value)
            if g is not None:                                     # x = next(generator variable) outside try: StopIteration propagates
                return self.gen_next_stmt(tgt.id, g, None, rest, end)
            def bound(v):
                self.note_binding(tgt.id, value)
                return self.let(tgt.id, v, k)
            return self.under(lambda: self.typed(tgt.id, self.expr(value)), bound)
        if isinstance(tgt, (ast.Tuple, ast.List)) and all(isinstance(e, ast.Name) for e in tgt.elts):
            names = [e.id for e in tgt.elts]
            for n in names:
                self.owned.discard(n)

            def then(v):
                if v.comps is None and (v.ty is None or v.ty.k != "T"):
                    raise Shape("unpacking of a non-tuple")
                if v.comps is None and not re.match(r"^[\w.']+$", v.t):
                    tmp = self.fresh("t")
                    return Let(tmp, v.ty.lean(), v.t, then(V(tmp, v.ty)))
                cs = v.comps if v.comps is not None else self.components(v)
                if len(cs) != len(names):
                    raise Shape("unpacking %d values into %d names" % (len(cs), len(names)))

                def go(i):
                    if i == len(names):
                        return k()
                    if names[i] == "_":
                        return go(i + 1)
                    return self.let(names[i], self.typed(names[i], cs[i]), lambda: go(i + 1))
                return go(0)
            return self.under(lambda: self.expr(value), then)
        if isinstance(tgt, ast.Subscript) and isinstance(tgt.value, ast.Name):
            for tpl, handler in STORE_IDIOMS:
                b = {}
                if tmatch(tpl, tgt, b):
                    return self.under(lambda: handler(self, b, value), lambda v: self.let(tgt.value.id, v, k))
            py = tgt.value.id
            self.check_mutable(py, "an item assignment")
            sl = self.lookup(tgt.slice.id) if isinstance(tgt.slice, ast.Name) else None
            if sl is not None and sl.ty == T(L(N), L(Z)):            # M[(rows, cols)] = vals
                def scat():
                    m, vals = self.expr(tgt.value), self.expr(value)
                    if m.ty != MAT or vals.ty != L(N):
                        raise Shape("scatter assignment %s" % ast.unparse(tgt))
                    rows, cols = self.components(sl)
                    return self.bind_value("scatter2 %s %s %s %s" % (paren(m, 100), paren(rows, 100), paren(cols, 100), paren(vals, 100)),
                                           MAT, hint=py)
                return self.under(scat, lambda v: self.rebind(py, v, k))

            def val():
                l = self.expr(tgt.value)
                if l.ty is None or l.ty.k != "L" or isinstance(tgt.slice, (ast.Slice, ast.Tuple)):
                    raise Shape("store %s" % ast.unparse(tgt))
                x = self.expr(value)                                   # the right-hand side is evaluated first
                i = self.cast(self.expr(tgt.slice), N)
                x = self.cast(x, l.ty.args[0])
                return self.bind_value("setItem %s %s %s" % (paren(l, 100), paren(i, 100), paren(x, 100)), l.ty, hint=py)
            return self.under(val, lambda v: self.rebind(py, v, k))
        raise Shape("assignment target %s" % ast.unparse(tgt))

    def rebind(self, py, v, k):
        """`py` now stands for the already-bound variable `v`"""
        self.binds(py)
        self.env[py] = V(v.t, v.ty, nonneg=v.ty == N)
        self.kill_facts(py)
        return k()

    def if_stmt(self, s, rest, end):
        def facts(tr, test, positive):
            if isinstance(test, ast.Compare) and len(test.ops) == 1:
                op, a, b = test.ops[0], test.left, test.comparators[0]
                if isinstance(op, (ast.Gt, ast.GtE)):
                    a, b, op = b, a, (ast.Lt() if isinstance(op, ast.Gt) else ast.LtE())
                if isinstance(op, (ast.Lt, ast.LtE)):
                    if positive:
                        tr.add_fact(a, b, strict=isinstance(op, ast.Lt))
                    else:
                        tr.add_fact(b, a, strict=isinstance(op, ast.LtE))
            elif isinstance(test, ast.BoolOp) and isinstance(test.op, ast.And) and positive:
                for t in test.values:
                    facts(tr, t, True)
        tail = not rest

        owned0, owned_after = set(self.owned), []

        def branch(stmts, positive, bend):
            saved_env, saved_facts = dict(self.env), list(self.facts)
            self.owned = set(owned0)
            facts(self, s.test, positive)
            node = self.block(list(stmts), bend)
            env_after = dict(self.env)
            self.env, self.facts = saved_env, saved_facts
            owned_after.append(set(self.owned))
            return node, env_after
        if tail:                                                   # the arms continue separately
            def then(c):
                a, _ = branch(s.body, True, end)
                b, _ = branch(s.orelse, False, end)
                return Ite(c.t, a, b)
            return self.under(lambda: self.as_cond(self.expr(s.test)), then)
        # the arms fall through: the `if` yields the names they assign
        names = [n for n in assigned_names(list(s.body) + list(s.orelse)) if self.lookup(n) is not None]
        if not names:
            raise Shape("an `if` that assigns nothing visible afterwards")
        tys = [self.lookup(n).ty for n in names]

        def out_end(tr):
            def e():
                vs = [tr.cast(tr.lookup(n), t) for n, t in zip(names, tys)]
                return Ret(vs[0].t if len(vs) == 1 else "(%s)" % ", ".join(v.t for v in vs))
            return e

        def then2(c):
            a, _ = branch(s.body, True, out_end(self))
            b, _ = branch(s.orelse, False, out_end(self))
            self.owned = owned_after[0] & owned_after[1]          # a list is the one name's own only if it is on both paths
            ite = Ite(c.t, a, b)
            tty = tys[0] if len(tys) == 1 else T(*tys)
            var = self.fresh(names[0] if len(names) == 1 else "t")
            for n in names:
                self.kill_facts(n)
            if len(names) == 1:
                self.env[names[0]] = V(var, tys[0], nonneg=tys[0] == N)
                cont = self.block(rest, end)
            else:
                def go(i):
                    if i == len(names):
                        return self.block(rest, end)
                    return self.let(names[i], V(proj(var, i, len(names)), tys[i]), lambda: go(i + 1))
                cont = go(0)
            if is_pure(ite):
                return Let(var, tty.lean(), render_pure(ite), cont)
            return Bind((ite, tty.lean(True)), var, cont)
        return self.under(lambda: self.as_cond(self.expr(s.test)), then2)

    def arm(self, build):
        """translate one arm of a match from the current environment, restoring it afterwards"""
        env, facts, owned = dict(self.env), list(self.facts), set(self.owned)
        try:
            return build()
        finally:
            self.env, self.facts, self.owned = env, facts, owned

    def gen_next(self, value):
        if isinstance(value, ast.Call) and dotted(value.func) == "next" and len(value.args) == 1 and not value.keywords \
                and isinstance(value.args[0], ast.Name) and value.args[0].id in self.cfg.get("generators", ()):
            return value.args[0].id
        return None

    def gen_next_stmt(self, target, gname, handler, rest, end, orelse=()):
        """`target = next(g)` for a generator variable `g` (a list that is consumed from the front); `orelse`: the `else:` block of
        the `try`, which runs in the NON-exception arm only (audit 4: it was rendered in both arms, byte-identical to the same
        statements placed after the `try`)"""
        g = self.lookup(gname)
        if g is None or g.ty is None or g.ty.k != "L":
            raise Shape("generator variable %s" % gname)

        def empty():
            if handler is None:
                return Fail("PyErr.stopIteration")
            return self.block(list(handler) + rest, end)

        self.binds(target)

        def cons():
            x, g1 = self.fresh(target), self.fresh(gname)
            self.env[target] = V(x, g.ty.args[0], nonneg=g.ty.args[0] == N)
            self.env[gname] = V(g1, g.ty)
            self.kill_facts(target)
            return ("%s :: %s" % (x, g1), self.block(list(orelse) + rest, end))
        a = self.arm(empty)
        pat, b = self.arm(cons)
        return Arms(g.t, [("[]", a), (pat, b)])

    def try_stmt(self, s, rest, end):
        ok = (len(s.body) == 1 and isinstance(s.body[0], ast.Assign) and len(s.body[0].targets) == 1
              and isinstance(s.body[0].targets[0], ast.Name) and len(s.handlers) == 1 and not s.finalbody
              and isinstance(s.handlers[0].type, ast.Name) and s.handlers[0].type.id == "StopIteration" and s.handlers[0].name is None)
        if not ok:
            raise Shape("try statement outside `try: x = next(g) / except StopIteration: … [else: …]`")
        self.unit.seen.add(id(s.body[0]))
        self.unit.cur = s.body[0]
        tgt, value = s.body[0].targets[0].id, s.body[0].value
        g = self.gen_next(value)
        if g is not None:
            return self.gen_next_stmt(tgt, g, list(s.handlers[0].body), rest, end, orelse=list(s.orelse))
        text = self.next_of(value)
        if text is None:
            raise Shape("try around something other than next(...)")

        self.binds(tgt)

        def some():
            x = self.fresh(tgt)
            self.env[tgt] = V(x, N, nonneg=True)
            self.kill_facts(tgt)
            return x, self.block(list(s.orelse) + rest, end)
        a = self.arm(lambda: self.block(list(s.handlers[0].body) + rest, end))
        x, b = self.arm(some)
        return Arms(text, [(".error e", Ret(".error e", raw=True)), (".ok none", a), (".ok (some %s)" % x, b)])

    def sub(self, carried):
        """a translator for a loop body: the carried names are parameters of the loop definition, every other name of this
        scope that the body reads is captured (a leading parameter)"""
        t = Tr(self.unit, self.cfg, parent=self)
        t.loops = self.loops
        for py in carried:
            v = self.lookup(py)
            t.env[py] = V(t.fresh(py), v.ty, nonneg=v.ty == N)
        t.owned = {py for py in carried if py in self.owned}
        t.owned_in = set(t.owned)
        return t

    def drawn_in(self, stmts):
        """the draw lists that calls inside `stmts` consume"""
        out = []
        for st in stmts:
            for n in ast.walk(st):
                if isinstance(n, ast.Call) and dotted(n.func) in self.cfg.get("draws", {}):
                    l = self.cfg["draws"][dotted(n.func)]
                    if l not in out:
                        out.append(l)
        return out

    def loop_name(self):
        self.loops += 1
        root = self
        while root.parent is not None:
            root.parent.loops = max(root.parent.loops, self.loops)
            root = root.parent
        return "%s_loop%s" % (self.cfg["lean"], "" if self.loops == 1 else "_%d" % self.loops)

    def finish_loop(self, name, t, carried, head_binders, alts, call_head, k, doc, nodes, params):
        """emit the loop definition and continue after the loop"""
        allow = set(self.cfg.get("unread", ()))
        live = set()
        for n in nodes:
            check_live(n, allow, "the loop `%s`" % name)
            live |= node_reads(n, passthrough=False)
        in_loop = [p in live for p in params]         # is the carried value read by the loop itself (not just handed on)
        self.owned -= {py for py in getattr(t, "owned_in", ()) if py not in t.owned}       # aliased inside the loop
        tys = [self.lookup(py).ty for py in carried]
        caps = [(py, t.captured[py]) for py in self.unit.order(t.captured)]
        cap_b = " ".join("(%s : %s)" % (pv.t, pv.ty.lean()) for _, (pv, _) in caps)
        rty = tys[0].lean(True) if len(tys) == 1 else "(%s)" % T(*tys).lean()
        sig = "%s → %s → Except PyErr %s" % (head_binders, " → ".join(ty.lean(True) for ty in tys), rty)
        text = "/-- %s -/\ndef %s%s : %s\n%s" % (doc, name, (" " + cap_b) if cap_b else "", sig, "\n".join(alts))
        self.unit.aux.append(text)
        cap_args = [paren(outer, 100) for _, (_, outer) in caps]
        args = [paren(self.lookup(py), 100) for py in carried]
        call = " ".join([name] + cap_args + [call_head] + args)
        var = self.fresh("r")

        def go(i):
            if i == len(carried):
                return k()
            node = self.let(carried[i], V(proj(var, i, len(carried)), tys[i]), lambda: go(i + 1))
            if isinstance(node, Let) and in_loop[i]:
                node.structural = True                 # read inside the loop: its value after the loop need not be
            return node
        node = go(0)
        if len(carried) > 1 and var not in node_reads(node):
            raise Shape("internal: the result of the loop %s is not read" % name)
        return Bind(call, var, node)

    def recursive_call(self, t, name, head, carried):
        def end():
            caps = " ".join(t.captured[py][0].t for py in self.unit.order(t.captured))
            tys = [self.lookup(py).ty for py in carried]
            vs = [t.cast(t.lookup(py), ty) for py, ty in zip(carried, tys)]
            return Ret(" ".join([name] + ([caps] if caps else []) + [head] + [paren(v, 100) for v in vs]), raw=True, passthrough=True)
        return end

    def while_stmt(self, s, k):
        if s.orelse:
            raise Shape("while … else")
        bounds = self.cfg.get("while_bounds", [])
        idx = self.unit.while_count.get(self.cfg["lean"], 0)
        self.unit.while_count[self.cfg["lean"]] = idx + 1
        if idx >= len(bounds):
            raise Shape("no iteration bound in the table for this while loop")
        bound = self.cast(self.expr(template(bounds[idx])), N)
        carried = self.unit.order([n for n in assigned_names(s.body) + self.drawn_in(s.body) if self.lookup(n) is not None])
        name = self.loop_name()
        t = self.sub(carried)
        t.loops = self.loops
        # the test: `x is not None` conjuncts refine x in the body, the rest is a Boolean guard
        conj = list(s.test.values) if isinstance(s.test, ast.BoolOp) and isinstance(s.test.op, ast.And) else [s.test]
        refine, others = [], []
        for c in conj:
            if isinstance(c, ast.Compare) and len(c.ops) == 1 and isinstance(c.ops[0], ast.IsNot) and isinstance(c.left, ast.Name) \
                    and isinstance(c.comparators[0], ast.Constant) and c.comparators[0].value is None:
                refine.append(c.left.id)
            else:
                others.append(c)
        params = [t.lookup(py).t for py in carried]
        exit_ = Ret(params[0] if len(params) == 1 else "(%s)" % ", ".join(params), passthrough=True)
        pats = []
        opts = [t.lookup(py) for py in refine]
        for py, o in zip(refine, opts):
            if o.ty is None or o.ty.k != "O":
                raise Shape("`%s is not None` on a value that is not optional" % py)
        test = None if not others else (others[0] if len(others) == 1 else ast.BoolOp(op=ast.And(), values=others))

        def body_node(bound_case):
            env0, facts0 = dict(t.env), list(t.facts)
            names = []
            for py, o in zip(refine, opts):
                x = t.fresh(py)
                names.append(x)
                t.env[py] = V(x, o.ty.args[0], nonneg=o.ty.args[0] == N)
            def inner():
                if bound_case:
                    return Fail("PyErr.bound")
                for c in conj:
                    facts_of(t, c)
                return t.block(list(s.body), self.recursive_call(t, name, "fuel", carried))
            if others:
                node = t.under(lambda: t.as_cond(t.expr(test)), lambda c: Ite(c.t, inner(), exit_))
            else:
                node = inner()
            t.env, t.facts = env0, facts0
            if refine:
                node = Arms(", ".join(o.t for o in opts),
                            [(", ".join("some " + x for x in names), node), (", ".join("_" for _ in names), exit_)])
            return node
        alts, nodes = [], []
        for head, bc in (("0", True), ("fuel + 1", False)):
            mark = len(self.conversions)
            nodes.append(body_node(bc))
            if bc:
                del self.conversions[mark:]            # the test is translated once per alternative: its conversions are recorded once
            lines = render(nodes[-1], "    ")
            alts.append("  | %s =>\n%s" % (", ".join([head] + params), "\n".join(lines)))
        doc = ("the loop `while %s` of `%s`, at most `fuel` rounds (the table's bound: `%s`)"
               % (ast.unparse(s.test), self.cfg["func"], bounds[idx]))
        return self.finish_loop(name, t, carried, "Nat", alts, paren(bound, 100), k, doc, [nodes[1]], params)

    def for_stmt(self, s, k):
        if s.orelse or not isinstance(s.target, ast.Name):
            raise Shape("for loop outside `for x in l`")
        it = self.expr(s.iter)
        if it.vec is not None:
            it = self.materialise(it)
        if it.ty is None or it.ty.k != "L":
            raise Shape("for over something that is not a list")
        if names_in(s.iter) & set(assigned_names(s.body)):
            raise Shape("the list a `for` loop iterates over is changed in its body")
        carried = self.unit.order([n for n in assigned_names(s.body) if self.lookup(n) is not None and n != s.target.id])
        name = self.loop_name()
        t = self.sub(carried)
        t.loops = self.loops
        self.binds(s.target.id)
        params = [t.lookup(py).t for py in carried]
        x = t.fresh(s.target.id)
        exit_ = Ret(params[0] if len(params) == 1 else "(%s)" % ", ".join(params), passthrough=True)
        t.env[s.target.id] = V(x, it.ty.args[0], nonneg=it.ty.args[0] == N)
        body = t.block(list(s.body), self.recursive_call(t, name, "rest", carried))
        alts = ["  | %s =>\n%s" % (", ".join(["[]"] + params), "\n".join(render(exit_, "    "))),
                "  | %s =>\n%s" % (", ".join(["%s :: rest" % x] + params), "\n".join(render(body, "    ")))]
        doc = "the loop `for %s in %s` of `%s`" % (s.target.id, ast.unparse(s.iter), self.cfg["func"])
        return self.finish_loop(name, t, carried, it.ty.lean(True), alts, paren(it, 100), k, doc, [body], params)


def facts_of(tr, test):
    if isinstance(test, ast.Compare) and len(test.ops) == 1:
        op, a, b = test.ops[0], test.left, test.comparators[0]
        if isinstance(op, (ast.Gt, ast.GtE)):
            a, b, op = b, a, (ast.Lt() if isinstance(op, ast.Gt) else ast.LtE())
        if isinstance(op, (ast.Lt, ast.LtE)):
            tr.add_fact(a, b, strict=isinstance(op, ast.Lt))


def copy_load(node):
    n = ast.parse(ast.unparse(node), mode="eval").body
    return n


def assigned_names(stmts):
    """names (re)bound by the statements, in order of first occurrence (nested function bodies are not entered)"""
    out = []

    def add(n):
        if n not in out and n != "_":
            out.append(n)

    def tgt(t):
        if isinstance(t, ast.Name):
            add(t.id)
        elif isinstance(t, (ast.Tuple, ast.List)):
            for e in t.elts:
                tgt(e)
        elif isinstance(t, ast.Subscript):
            tgt(t.value)

    def visit(seq):
        for s in seq:
            if isinstance(s, ast.Assign):
                for t in s.targets:
                    tgt(t)
                g = s.value
                if isinstance(g, ast.Call) and dotted(g.func) == "next" and g.args and isinstance(g.args[0], ast.Name):
                    add(g.args[0].id)                       # next(g) advances the generator variable
            elif isinstance(s, ast.AugAssign):
                tgt(s.target)
            elif isinstance(s, ast.Expr) and isinstance(s.value, ast.Call) and isinstance(s.value.func, ast.Attribute) \
                    and s.value.func.attr == "append" and isinstance(s.value.func.value, ast.Name):
                add(s.value.func.value.id)
            elif isinstance(s, (ast.If, ast.While)):
                visit(s.body)
                visit(s.orelse)
            elif isinstance(s, ast.For):
                tgt(s.target)
                visit(s.body)
                visit(s.orelse)
            elif isinstance(s, ast.Try):
                visit(s.body)
                for h in s.handlers:
                    visit(h.body)
                visit(s.orelse)
                visit(s.finalbody)
    visit(stmts)
    return out


# ----------------------------------------------------------------------------- one Python file

class Unit:
    def __init__(self, src, tree):
        self.src, self.tree = src, tree
        self.fns = {n.name: n for n in tree.body if isinstance(n, ast.FunctionDef)}
        self.targets = {c["func"]: c for c in TARGETS if c.get("region", "function") == "function"}
        self.pinned = {c["func"]: c for c in TARGETS if c.get("region") == "pin" and c.get("model")}
        self.aux, self.conversions, self.seen, self.while_count, self.nested_caps, self.draws_used = [], [], set(), {}, {}, []
        self.scope, self.call_count = [], {}
        self.cur, self.paths, self.toplevel, self.pyidents, self.spelled, self.unmodelled, self.param_lean = None, {}, set(), set(), set(), set(), {}

    def order(self, names):
        return sorted(names, key=lambda n: self.scope.index(n) if n in self.scope else len(self.scope))

    def is_defname(self, name):
        """is `name` the name of a generated definition (a function, a nested function, a loop) or of a model helper that
        generated text calls: never the name of a binding"""
        fs = {c["lean"] for c in TARGETS} | {c["model"] for c in TARGETS if c.get("model")} | {n for c in TARGETS for n in c.get("nested", {})}
        return name in fs or any(re.match(r"^%s_loop(_\d+)?$" % re.escape(f), name) for f in fs)

    def nested_def(self, caller, name):
        """translate the nested function `name` (once), closure-converted; -> [(captured python name, type)]"""
        if name in self.nested_caps:
            return self.nested_caps[name]
        fn = caller.nested[name]
        spec = caller.cfg["nested"][name]
        cfg = dict(caller.cfg, lean=name, ret=spec["ret"], local_types=spec.get("local_types", {}))
        t = Tr(self, cfg, parent=caller)
        a = fn.args
        if a.vararg or a.kwarg or a.kwonlyargs or a.posonlyargs or a.defaults or fn.decorator_list:
            raise Shape("signature of the nested function %s" % name)
        if [x.arg for x in a.args] != [p for p, _ in spec["params"]]:
            raise Shape("parameters of %s are %s" % (name, [x.arg for x in a.args]))
        binders = []
        for py, ty in spec["params"]:
            lean = t.fresh(py)
            t.env[py] = V(lean, ty, nonneg=ty == N)
            binders.append((lean, ty))
        node = t.block(strip_doc(fn.body), no_end(name))
        check_live(node, set(spec.get("unread", ())), "the nested function `%s`" % name)
        caps = [(py, t.captured[py][0]) for py in self.order(t.captured)]
        sig = " ".join("(%s : %s)" % (v.t, v.ty.lean()) for _, v in caps) + " " + group_binders(binders)
        self.aux.append("/-- the nested function `%s` of `%s`; the variables of the enclosing function that it reads are its leading "
                        "parameters -/\ndef %s %s : Except PyErr %s :=\n%s"
                        % (name, caller.cfg["func"], name, sig.strip(), spec["ret"].lean(True), "\n".join(render(node, "  "))))
        self.nested_caps[name] = [(py, v.ty) for py, v in caps]
        return self.nested_caps[name]

    def translate(self, cfg):
        """-> dict(defs, skeleton, conversions)"""
        fn = self.fns.get(cfg["func"])
        if fn is None:
            raise Shape("function %s not found" % cfg["func"])
        body = strip_doc(fn.body)
        if cfg.get("region") == "pin":
            return {"defs": [], "skeleton": ast.unparse(ast.Module(body=body, type_ignores=[])), "conversions": []}
        a = fn.args
        if a.vararg or a.kwarg or a.kwonlyargs or a.posonlyargs or fn.decorator_list:
            raise Shape("signature of %s is outside the subset" % fn.name)
        if [x.arg for x in a.args] != [p for p, _ in cfg["params"]]:
            raise Shape("parameters of %s are %s, expected %s" % (fn.name, [x.arg for x in a.args], [p for p, _ in cfg["params"]]))
        self.aux, self.conversions, self.seen, self.nested_caps, self.draws_used = [], [], set(), {}, []
        self.call_count, self.skipped, self.param_lean = {}, [], {}
        self.scope = [x.arg for x in a.args] + [n for n, _ in cfg.get("extra_params", [])] + assigned_names(body)
        # --- what the whole function (nested functions included) binds and mentions
        self.cur, self.paths, self.toplevel = None, stmt_paths(body), {id(st) for st in body}
        self.pyidents = identifiers(fn)
        self.unmodelled = {p for p, ty in cfg["params"] if ty is None}
        self.spelled = SPELLED | set(self.targets) | set(self.pinned) | set(cfg.get("nested", {}))
        inner = [n for n in ast.walk(fn) if isinstance(n, (ast.FunctionDef, ast.AsyncFunctionDef, ast.ClassDef, ast.Lambda)) and n is not fn]
        for n in inner:
            if not isinstance(n, ast.FunctionDef) or id(n) not in self.toplevel or n.name not in cfg.get("nested", {}):
                raise Shape("a nested definition other than the table's nested functions at the top level of the body: line %d" % n.lineno)
        if len({n.name for n in inner}) != len(inner):
            raise Shape("a nested function is defined twice")
        clash = sorted((bound_names(fn) - {n.name for n in inner}) & (self.spelled | self.unmodelled))
        if clash:
            raise Shape("the function binds %s, which the translation resolves by spelling or passes on unmodelled" % ", ".join(clash))
        t = Tr(self, cfg)
        binders = []
        for lean, ty in cfg.get("extra_params", []):
            t.used.add(lean)
            t.env[lean] = V(lean, ty)
            binders.append((lean, ty))
        for py, ty in cfg["params"]:
            if ty is None:
                continue
            lean = t.fresh(py)
            t.env[py] = V(lean, ty, nonneg=ty == N)
            binders.append((lean, ty))
            self.param_lean[py] = lean
        node = t.block(body, no_end(fn.name))
        if t.pre:
            raise Shape("internal: pending hoists")
        check_live(node, set(cfg.get("unread", ())), "`%s`" % fn.name)
        if set(cfg.get("nested", {})) != set(self.nested_caps):
            raise Shape("a nested function of the table is never called")
        if sorted(self.skipped) != sorted(cfg.get("skip", ())):
            raise Shape("the statements that the table leaves untranslated were not all found")
        defs = list(self.aux)
        defs.append("def %s %s : Except PyErr %s :=\n%s" % (cfg["lean"], group_binders(binders), cfg["ret"].lean(True),
                                                             "\n".join(render(node, "  "))))
        holes = {id(s) for s in body if id(s) in self.seen}
        return {"defs": defs, "skeleton": unparse_with_holes(body, holes, collapse=True), "conversions": list(self.conversions)}


def no_end(name):
    def end():
        raise Shape("a path through %s ends without `return`" % name)
    return end


def group_binders(binders):
    groups = []
    for name, ty in binders:
        if groups and groups[-1][1] == ty:
            groups[-1][0].append(name)
        else:
            groups.append(([name], ty))
    return " ".join("(%s : %s)" % (" ".join(ns), ty.lean()) for ns, ty in groups)


IDIOMS = []          # (template ast, handler(tr, bindings, node) -> V)
STORE_IDIOMS = []    # (template ast of the target, handler(tr, bindings, value node) -> V of the updated array)
IDIOM_DOC = []       # (python pattern, lean, meaning)  for the generated header


def idiom(pattern, lean, meaning):
    def deco(fn):
        IDIOMS.append((template(pattern), fn))
        IDIOM_DOC.append((pattern, lean, meaning))
        return fn
    return deco


def _arg(tr, node, ty):
    v = tr.expr(node)
    if v.vec is not None:
        v = tr.materialise(v)
    return tr.cast(v, ty)


@idiom("np.unique(_M + 1j * np.arange(len(_M))[:, None], return_counts=True)", "uniqueCounts cpxLt (tagRows M)",
       "the distinct complex numbers `M[r][c] + r·j` as pairs (real, imaginary) in NumPy's order, with their numbers of occurrences")
def _unique_tagged(tr, b, node):
    m = _arg(tr, b["_M"], MAT)
    return V("uniqueCounts cpxLt (tagRows %s)" % paren(m, 100), T(L(CPX), L(N)), 90)


@idiom("determine_optimal_int_type(_A)", "(erased)", "a dtype: only used in `astype` / `dtype=` positions, which are the identity "
       "(its `ValueError` beyond int64 is not modelled)")
def _dtype(tr, b, node):
    _arg(tr, b["_A"], N)
    tr.record_conversion(node)
    return V("()", DTYPE)


@idiom("np.zeros((_A, _B), dtype=_T)", "zeros2 A B", "the A×B matrix of zeros of an integer dtype")
def _zeros(tr, b, node):
    a, c = _arg(tr, b["_A"], N), _arg(tr, b["_B"], N)
    tr.dtype_arg(b["_T"])
    tr.record_conversion(node)
    return V("zeros2 %s %s" % (paren(a, 100), paren(c, 100)), MAT, 90)


@idiom("np.any(_K[np.triu_indices_from(_K, 1)] < _D)", "anyUpperLt K d", "is some entry strictly above the diagonal `< d`")
def _any_upper(tr, b, node):
    k, d = _arg(tr, b["_K"], MAT), _arg(tr, b["_D"], N)
    return V("anyUpperLt %s %s" % (paren(k, 100), paren(d, 100)), B, 90)


@idiom("np.sum(_K < _D, axis=0)", "colCountLt K d", "per column, the number of entries `< d`")
def _col_count(tr, b, node):
    k, d = _arg(tr, b["_K"], MAT), _arg(tr, b["_D"], N)
    c = V("colCountLt %s %s" % (paren(k, 100), paren(d, 100)), L(N), 90)
    return V(None, None, vec=([c], lambda xs: xs[0]))


@idiom("np.sum(np.ma.masked_less(_K, _D), axis=0).data", "colSumGe K d", "per column, the sum of the entries `≥ d` (masked sum; 0 for a "
       "fully masked column)")
def _col_sum(tr, b, node):
    k, d = _arg(tr, b["_K"], MAT), _arg(tr, b["_D"], N)
    c = V("colSumGe %s %s" % (paren(k, 100), paren(d, 100)), L(N), 90)
    return V(None, None, vec=([c], lambda xs: xs[0]))


@idiom("np.argmin(_V)", "npArgmin v", "index of the FIRST minimum of a 1-D array (`ValueError` when empty)")
def _argmin(tr, b, node):
    v = tr.expr(b["_V"])
    v = tr.materialise(v) if v.vec is not None else v
    if v.ty not in (L(Z), L(N)):
        raise Shape("np.argmin of %s" % ast.unparse(b["_V"]))
    return tr.bind_value("npArgmin %s" % paren(v, 100), N)


@idiom("np.max(np.abs(_DX[_X, _XS] - _DY[:, _YS]), axis=1)", "bottlenecksFrom DX DY x xs ys",
       "for every row r of DY the largest |DX[x][xs[c]] - DY[r][ys[c]]| over the positions c")
def _bottlenecks(tr, b, node):
    dx, dy = _arg(tr, b["_DX"], MAT), _arg(tr, b["_DY"], MAT)
    x, xs, ys = _arg(tr, b["_X"], N), _arg(tr, b["_XS"], L(N)), _arg(tr, b["_YS"], L(N))
    return tr.bind_value("bottlenecksFrom %s" % " ".join(paren(v, 100) for v in (dx, dy, x, xs, ys)), L(N))


@idiom("np.random.choice(len(_D))", "(parameter)", "a draw of the random generator: the parameter `y0` of the generated definition "
       "(contract: `y0 < len(D)`)")
def _choice(tr, b, node):
    p = tr.cfg.get("draw_param")
    if p is None or tr.unit.draws_used:
        raise Shape("np.random.choice: the table names no parameter for this draw (or a second draw)")
    tr.unit.draws_used.append(ast.unparse(node))
    # the contract of the parameter (`y0 < len(DY)`, hypothesis of the obligation) names the range: the argument must BE that
    # parameter of the function (by value: its binder, not re-bound), at the top level of the function
    rng = tr.cfg.get("draw_range")
    d = _arg(tr, b["_D"], MAT)
    if tr.parent is not None or rng is None or not (isinstance(b["_D"], ast.Name) and b["_D"].id == rng) \
            or d.t != tr.unit.param_lean.get(rng):
        raise Shape("np.random.choice(len(%s)): the table's contract for the draw is `%s < len(%s)` of the function's own parameter"
                    % (ast.unparse(b["_D"]), p, rng))
    return tr.lookup(p)


@idiom("np.delete(_K, _R, axis=0)", "deleteRow K r", "the array without row `r` (`IndexError` out of range)")
def _delete_row(tr, b, node):
    k, r = _arg(tr, b["_K"], MAT), _arg(tr, b["_R"], N)
    return tr.bind_value("deleteRow %s %s" % (paren(k, 100), paren(r, 100)), MAT)


@idiom("np.delete(_K, _R, axis=1)", "deleteCol K r", "the array without column `r` (`IndexError` out of range)")
def _delete_col(tr, b, node):
    k, r = _arg(tr, b["_K"], MAT), _arg(tr, b["_R"], N)
    return tr.bind_value("deleteCol %s %s" % (paren(k, 100), paren(r, 100)), MAT)


@idiom("np.max(_A)", "npMax A", "the largest entry of a 2-D array (`ValueError` when it has no entries)")
def _npmax(tr, b, node):
    a = _arg(tr, b["_A"], MAT)
    return tr.bind_value("npMax %s" % paren(a, 100), N)


@idiom("np.imag(_U)", "U.map (·.2)", "imaginary parts of a vector of complex numbers")
def _imag(tr, b, node):
    u = _arg(tr, b["_U"], L(CPX))
    return V(None, None, vec=([u], lambda zs: V("%s.2" % zs[0].t, N, 100, nonneg=True)))


@idiom("np.real(_U)", "U.map (·.1)", "real parts of a vector of complex numbers")
def _real(tr, b, node):
    u = _arg(tr, b["_U"], L(CPX))
    return V(None, None, vec=([u], lambda zs: V("%s.1" % zs[0].t, N, 100, nonneg=True)))


# ----------------------------------------------------------------------------- targets (fixed; reviewed against Model/MGH.lean)

KEY = "mgh"
PYFILE = "persim/gromov_hausdorff.py"
FILES = {KEY: (PYFILE, "SrcMGH.lean", "PersimVerif.Src.gromov_hausdorff_mgh",
               "PersimVerif.Model.MGH\nimport PersimVerif.Lemmas.SrcBridgeMGH", "C05",
               "PersimVerif.MGH PersimVerif.SrcNp PersimVerif.SrcBridge.MGH")}
BRIDGES = ["PersimVerif/Lemmas/SrcLibNp.lean", "PersimVerif/Lemmas/SrcBridgeMGH.lean"]

from .py2lean_mgh_proofs import OBLIGATIONS  # noqa: E402   (statements and proof scripts, per target)

TARGETS = []

# ---- check_assignment_feasibility (with the nested next_i_and_j, next_j)  ->  checkAssignmentFeasibility
TARGETS.append(dict(
    func="check_assignment_feasibility", lean="check_assignment_feasibility",
    params=[("v_distribution", L(N)), ("u_distribution", L(N)), ("d", N)], ret=B,
    nested={"next_i_and_j": dict(params=[("min_i", N), ("min_j", N)], ret=T(O(N), O(N)), local_types={"i": O(N), "j": O(N)}),
            "next_j": dict(params=[("i", N), ("min_j", N)], ret=O(N), local_types={"j": O(N)})},
    while_bounds=["len(reversed_v_distribution) + len(reversed_u_distribution) + 1"],
    skeleton="...", conversions=["@1 | d = int(d) | int(d)"],
    obligations=OBLIGATIONS["check_assignment_feasibility"],
    examples=['/-- the generated definition evaluated (non-vacuity of `1 ≤ d`; window `d = 1` fails, `d = 2` succeeds) -/\nexample : check_assignment_feasibility [0, 2, 1] [1, 1, 1] 1 = .ok false ∧\n    check_assignment_feasibility [0, 2, 1] [1, 1, 1] 2 = .ok true := by decide +kernel']))

# ---- represent_distance_matrix_rows_as_distributions  ->  rowsAsDistributions
TARGETS.append(dict(
    func="represent_distance_matrix_rows_as_distributions", lean="represent_distance_matrix_rows_as_distributions",
    params=[("DX", MAT), ("max_d", N)], ret=MAT, skeleton="...",
    conversions=["@2 | optimal_int_type = determine_optimal_int_type(len(DX)) | determine_optimal_int_type(len(DX))",
                 "@3 | DX_rows_distributons = np.zeros((len(DX), int(max_d) + 1), dtype=optimal_int_type) | int(max_d)",
                 "@3 | DX_rows_distributons = np.zeros((len(DX), int(max_d) + 1), dtype=optimal_int_type) | "
                 "np.zeros((len(DX), int(max_d) + 1), dtype=optimal_int_type)",
                 "@4 | distance_frequencies_index_pairs = (np.imag(unique_distances).astype(optimal_int_type), "
                 "max_d - np.real(unique_distances).astype(max_d.dtype)) | np.imag(unique_distances).astype(optimal_int_type)",
                 "@4 | distance_frequencies_index_pairs = (np.imag(unique_distances).astype(optimal_int_type), "
                 "max_d - np.real(unique_distances).astype(max_d.dtype)) | np.real(unique_distances).astype(max_d.dtype)"],
    obligations=OBLIGATIONS["represent_distance_matrix_rows_as_distributions"],
    examples=['/-- the path on 5 vertices: entries `≤ 4`, and the generated definition evaluated -/\nexample : (∀ row ∈ [[0, 1, 2, 3, 4], [1, 0, 1, 2, 3], [2, 1, 0, 1, 2], [3, 2, 1, 0, 1], [4, 3, 2, 1, 0]], ∀ x ∈ row, x ≤ 4) ∧\n    represent_distance_matrix_rows_as_distributions [[0, 1, 2, 3, 4], [1, 0, 1, 2, 3], [2, 1, 0, 1, 2], [3, 2, 1, 0, 1], [4, 3, 2, 1, 0]] 4 =\n      .ok [[1, 1, 1, 1], [0, 1, 1, 2], [0, 0, 2, 2], [0, 1, 1, 2], [1, 1, 1, 1]] := by decide +kernel']))

# ---- find_largest_size_bounded_curvature  ->  largestBoundedCurvature exactMul
TARGETS.append(dict(
    func="find_largest_size_bounded_curvature", lean="find_largest_size_bounded_curvature",
    params=[("DX", MAT), ("diam_X", N), ("d", N)], ret=MAT, skeleton="...",
    conversions=["@2.1 | K_rows_sortkeys = -np.sum(K < d, axis=0) * (len(K) * int(diam_X)) + np.sum(np.ma.masked_less(K, d), axis=0).data "
                 "| int(diam_X)"],
    while_bounds=["len(DX)"],
    obligations=OBLIGATIONS["find_largest_size_bounded_curvature"],
    examples=['/-- the path on 5 vertices is square; its largest 2-bounded curvature found by the loop keeps the two end points -/\nexample : Sq [[0, 1, 2, 3, 4], [1, 0, 1, 2, 3], [2, 1, 0, 1, 2], [3, 2, 1, 0, 1], [4, 3, 2, 1, 0]] ∧\n    find_largest_size_bounded_curvature [[0, 1, 2, 3, 4], [1, 0, 1, 2, 3], [2, 1, 0, 1, 2], [3, 2, 1, 0, 1], [4, 3, 2, 1, 0]] 4 2 = .ok [[0, 4], [4, 0]] := by decide +kernel']))

# ---- find_unique_max_distributions: pinned as text; its meaning in the callers is the model's uniqueMaxDistributions
FUMD_TEXT = (
    "pairwise_distribution_differences = np.cumsum(distributions - distributions[:, None, :], axis=2)\n"
    "pairwise_distribution_less_thans = np.logical_and(np.all(pairwise_distribution_differences >= 0, axis=2), "
    "np.any(pairwise_distribution_differences > 0, axis=2))\n"
    "distributions_are_max = ~np.any(pairwise_distribution_less_thans, axis=1)\ntry:\n"
    "    unique_max_distributions = np.unique(distributions[distributions_are_max], axis=0)\nexcept AttributeError:\n"
    "    unique_max_distributions = np.vstack({tuple(distribution) for distribution in distributions[distributions_are_max]})\n"
    "return unique_max_distributions")
TARGETS.append(dict(
    func="find_unique_max_distributions", lean="find_unique_max_distributions", region="pin", model="uniqueMaxDistributions",
    params=[("distributions", MAT)], ret=MAT, skeleton=FUMD_TEXT))

# ---- confirm_lb_using_bounded_curvature_row  ->  confirmRow
TARGETS.append(dict(
    func="confirm_lb_using_bounded_curvature_row", lean="confirm_lb_using_bounded_curvature_row",
    params=[("d", N), ("K", MAT), ("DY", MAT), ("max_diam", N)], ret=B, skeleton="...", local_types={"i": N, "j": N},
    while_bounds=["len(K_max_rows_distance_distributions)", "len(DY_rows_distance_distributions)"],
    obligations=OBLIGATIONS["confirm_lb_using_bounded_curvature_row"]))

# ---- confirm_lb_using_bounded_curvature  ->  confirmLb
TARGETS.append(dict(
    func="confirm_lb_using_bounded_curvature", lean="confirm_lb_using_bounded_curvature",
    params=[("d", N), ("K", MAT), ("DY", MAT), ("max_diam", N)], ret=B, skeleton="...",
    obligations=OBLIGATIONS["confirm_lb_using_bounded_curvature"]))

# ---- find_lb  ->  findLb exactMul exactMul
TARGETS.append(dict(
    func="find_lb", lean="find_lb", params=[("DX", MAT), ("DY", MAT)], ret=N, skeleton="...", while_bounds=["d"],
    obligations=OBLIGATIONS.get("find_lb", []),
    examples=["/-- path against star on 5 vertices: the hypotheses hold and the generated definition evaluates to `2` (the model's value) -/\nexample : Sq [[0, 1, 2, 3, 4], [1, 0, 1, 2, 3], [2, 1, 0, 1, 2], [3, 2, 1, 0, 1], [4, 3, 2, 1, 0]] ∧ Sq [[0, 1, 1, 1, 1], [1, 0, 2, 2, 2], [1, 2, 0, 2, 2], [1, 2, 2, 0, 2], [1, 2, 2, 2, 0]] ∧\n    find_lb [[0, 1, 2, 3, 4], [1, 0, 1, 2, 3], [2, 1, 0, 1, 2], [3, 2, 1, 0, 1], [4, 3, 2, 1, 0]] [[0, 1, 1, 1, 1], [1, 0, 2, 2, 2], [1, 2, 0, 2, 2], [1, 2, 2, 0, 2], [1, 2, 2, 2, 0]] = .ok 2 := by decide +kernel"]))

# ---- construct_mapping  ->  constructMapping (the first image `np.random.choice(len(DY))` is the parameter y0)
TARGETS.append(dict(
    func="construct_mapping", lean="construct_mapping", params=[("DX", MAT), ("DY", MAT), ("pi", L(N))], ret=T(L(N), N),
    extra_params=[("y0", N)], draw_param="y0", draw_range="DY", local_types={"distortion": N}, skeleton="...",
    obligations=OBLIGATIONS.get("construct_mapping", []),
    examples=['/-- path into star with the permutation `[2, 0, 1, 4, 3]` and first image `1` -/\nexample : construct_mapping 1 [[0, 1, 2, 3, 4], [1, 0, 1, 2, 3], [2, 1, 0, 1, 2], [3, 2, 1, 0, 1], [4, 3, 2, 1, 0]] [[0, 1, 1, 1, 1], [1, 0, 2, 2, 2], [1, 2, 0, 2, 2], [1, 2, 2, 0, 2], [1, 2, 2, 2, 0]] [2, 0, 1, 4, 3] = .ok ([1, 2, 0, 1, 1], 2) := by decide +kernel']))

# ---- find_ub_of_min_distortion  ->  findUbOfMinDistortion (the lazy generator of permutations and the first images are parameters)
TARGETS.append(dict(
    func="find_ub_of_min_distortion", lean="find_ub_of_min_distortion",
    params=[("DX", MAT), ("DY", MAT), ("mapping_sample_size_order", None), ("goal_distortion", N)], ret=N,
    extra_params=[("permutations_generator", L(L(N))), ("y0s", L(N))], generators=("permutations_generator",),
    draws={"construct_mapping": "y0s"}, local_types={"ub_of_min_distortion": O(N)},
    unread=["mapped_xs_images"],       # `mapped_xs_images, distortion = construct_mapping(DX, DY, pi)`: only the distortion is used
    skip=["n_mappings_to_sample = int(np.ceil(np.prod(np.array([len(DX), np.log(len(DX) + 1)]) ** mapping_sample_size_order)))",
          "permutations_generator = (np.random.permutation(len(DX)) for _ in range(n_mappings_to_sample))"],
    while_bounds=["len(permutations_generator) + 1"],
    skeleton="n_mappings_to_sample = int(np.ceil(np.prod(np.array([len(DX), np.log(len(DX) + 1)]) ** mapping_sample_size_order)))\n"
             "permutations_generator = (np.random.permutation(len(DX)) for _ in range(n_mappings_to_sample))\n...",
    obligations=OBLIGATIONS.get("find_ub_of_min_distortion", [])))

# ---- find_ub  ->  findUb (one list of permutations and of first images per direction)
DRAW4 = [("permsXY", L(L(N))), ("y0sXY", L(N)), ("permsYX", L(L(N))), ("y0sYX", L(N))]
TARGETS.append(dict(
    func="find_ub", lean="find_ub",
    params=[("DX", MAT), ("DY", MAT), ("mapping_sample_size_order", None), ("double_lb", N)], ret=N, extra_params=DRAW4,
    extra_args={"find_ub_of_min_distortion": [["permsXY", "y0sXY"], ["permsYX", "y0sYX"]]}, skeleton="...",
    obligations=OBLIGATIONS.get("find_ub", [])))

# ---- estimate  ->  estimate exactMul exactMul (the dtype guards at its entry are pinned as text)
EST_SKIP = ["if not np.issubdtype(DX.dtype, np.integer) or not np.issubdtype(DY.dtype, np.integer):\n"
            "    raise ValueError('non-integer metrics are not yet supported')",
            "if np.issubdtype(DX.dtype, np.uint):\n    DX = cast_distance_matrix_to_optimal_int_type(DX)",
            "if np.issubdtype(DY.dtype, np.uint):\n    DY = cast_distance_matrix_to_optimal_int_type(DY)"]
TARGETS.append(dict(
    func="estimate", lean="estimate", params=[("DX", MAT), ("DY", MAT), ("mapping_sample_size_order", None)], ret=T(Q, Q),
    extra_params=DRAW4, extra_args={"find_ub": [["permsXY", "y0sXY", "permsYX", "y0sYX"]]}, skip=EST_SKIP,
    skeleton="\n".join(EST_SKIP) + "\n...",
    obligations=OBLIGATIONS.get("estimate", []),
    examples=['/-- path against star with two recorded permutations for X→Y and one for Y→X: the draws meet `DrawsOk`, and the generated\n    definition evaluates to `(1, 1)` (lower bound `2/2`, upper bound `2/2`) -/\nexample : DrawsOk [[0, 1, 2, 3, 4], [1, 0, 1, 2, 3], [2, 1, 0, 1, 2], [3, 2, 1, 0, 1], [4, 3, 2, 1, 0]] [[0, 1, 1, 1, 1], [1, 0, 2, 2, 2], [1, 2, 0, 2, 2], [1, 2, 2, 0, 2], [1, 2, 2, 2, 0]] [[2, 0, 1, 4, 3], [0, 1, 2, 3, 4]] [1, 0] ∧\n    estimate [[2, 0, 1, 4, 3], [0, 1, 2, 3, 4]] [1, 0] [[4, 3, 2, 1, 0]] [2] [[0, 1, 2, 3, 4], [1, 0, 1, 2, 3], [2, 1, 0, 1, 2], [3, 2, 1, 0, 1], [4, 3, 2, 1, 0]] [[0, 1, 1, 1, 1], [1, 0, 2, 2, 2], [1, 2, 0, 2, 2], [1, 2, 2, 0, 2], [1, 2, 2, 2, 0]] = .ok (1, 1) := by decide +kernel']))


BINDINGS = {KEY: [
    ('AttributeError', 'builtin'),
    ('DEFAULT_MAPPING_SAMPLE_SIZE_ORDER', 'assign: DEFAULT_MAPPING_SAMPLE_SIZE_ORDER = np.array([0.5, 1])'),
    ('StopIteration', 'builtin'),
    ('ValueError', 'builtin'),
    ('abs', 'builtin'),
    ('cast_distance_matrix_to_optimal_int_type', 'def cast_distance_matrix_to_optimal_int_type'),
    ('check_assignment_feasibility', 'def check_assignment_feasibility'),
    ('confirm_lb_using_bounded_curvature', 'def confirm_lb_using_bounded_curvature'),
    ('confirm_lb_using_bounded_curvature_row', 'def confirm_lb_using_bounded_curvature_row'),
    ('construct_mapping', 'def construct_mapping'),
    ('determine_optimal_int_type', 'def determine_optimal_int_type'),
    ('estimate', 'def estimate'),
    ('find_largest_size_bounded_curvature', 'def find_largest_size_bounded_curvature'),
    ('find_lb', 'def find_lb'),
    ('find_ub', 'def find_ub'),
    ('find_ub_of_min_distortion', 'def find_ub_of_min_distortion'),
    ('find_unique_max_distributions', 'def find_unique_max_distributions'),
    ('int', 'builtin'),
    ('len', 'builtin'),
    ('list', 'builtin'),
    ('max', 'builtin'),
    ('min', 'builtin'),
    ('next', 'builtin'),
    ('np', 'import numpy as np'),
    ('range', 'builtin'),
    ('represent_distance_matrix_rows_as_distributions', 'def represent_distance_matrix_rows_as_distributions'),
    ('tuple', 'builtin'),
]}
SIGNATURES = {
    'check_assignment_feasibility': 'def check_assignment_feasibility(v_distribution, u_distribution, d)',
    'represent_distance_matrix_rows_as_distributions': 'def represent_distance_matrix_rows_as_distributions(DX, max_d)',
    'find_largest_size_bounded_curvature': 'def find_largest_size_bounded_curvature(DX, diam_X, d)',
    'find_unique_max_distributions': 'def find_unique_max_distributions(distributions)',
    'confirm_lb_using_bounded_curvature_row': 'def confirm_lb_using_bounded_curvature_row(d, K, DY, max_diam)',
    'confirm_lb_using_bounded_curvature': 'def confirm_lb_using_bounded_curvature(d, K, DY, max_diam)',
    'find_lb': 'def find_lb(DX, DY)',
    'construct_mapping': 'def construct_mapping(DX, DY, pi)',
    'find_ub_of_min_distortion': 'def find_ub_of_min_distortion(DX, DY, mapping_sample_size_order=DEFAULT_MAPPING_SAMPLE_SIZE_ORDER, goal_distortion=0)',
    'find_ub': 'def find_ub(DX, DY, mapping_sample_size_order=DEFAULT_MAPPING_SAMPLE_SIZE_ORDER, double_lb=0)',
    'estimate': 'def estimate(DX, DY, mapping_sample_size_order=DEFAULT_MAPPING_SAMPLE_SIZE_ORDER)',
}


# ----------------------------------------------------------------------------- output

HEADER = (
    "import %s\n"
    "/-!\n"
    "GENERATED by harness/translator/py2lean.py (mGH engine py2lean_mgh.py) from %s — do not edit;\n"
    "rewritten on every run (%s `pre_build`).\n\n"
    "Each `def` below is the Python source translated STATEMENT BY STATEMENT (`ast`); each `src_…_eq_model` is the obligation\n"
    "that, for ALL inputs satisfying the stated hypotheses, it raises nothing, terminates, and returns the value of the hand-written\n"
    "model definition of %s.  An edit of the translated lines changes the generated definition (unless it\n"
    "is a renaming of locals) and the obligation (case analysis / induction with the lemmas of Lemmas/SrcBridgeMGH.lean; the proof\n"
    "scripts are fixed in the translator's table) then no longer checks (DESIGN.md 3.2/3.3).  What is not translated is pinned as\n"
    "TEXT (`ast.unparse`): `srcSkeleton_<f>` (the body with the translated statements as `...`; the whole body for the functions\n"
    "that are only pinned), `srcSignature_<function>`, `srcConversions_<f>` (dtype / int conversions read as the identity, as\n"
    "written, with their position), `srcBindings_mgh` (every module-level binding of every name the functions use).\n\n"
    "Conventions of the translation (the translator's semantics of its Python subset):\n"
    "  * every definition has type `Except PyErr τ`: `return e` is `.ok e`; a call of a generated definition, a list read `l[k]`\n"
    "    (`getItem`: `IndexError`), a list write `l[k] = e` (`setItem`) is `match … with | .error e => .error e | .ok x => …` where\n"
    "    the statement stands, in Python's evaluation order; inside a lambda the same is written with `Except.bind`;\n"
    "  * straight-line code is SSA-renamed (`x`, `x_1`, …), every assignment is a `let`; tuples are read by projections;\n"
    "  * counts, distances, lengths, indices are `Nat`; a difference of naturals is an `Int` UNLESS a dominating test of the\n"
    "    source (`if a <= b:` / its `else:`, `while d > lb:`) shows it non-negative, then it is the exact natural difference;\n"
    "    an `Int` is used as a natural only through `.toNat` of a visibly non-negative expression (`max(e, n)`, `n` natural); the\n"
    "    end of a `range` may be negative (`pyRange`).  Fixed-width NumPy integers are NOT modelled (no overflow: the code sizes\n"
    "    them with `determine_optimal_int_type`, tied in Generated/SrcGraph.lean, and converts scalars with `int(...)`): `astype`,\n"
    "    `dtype=`, `int(n)` are the identity and are recorded in `srcConversions_<f>`, each WITH ITS POSITION (`<path of the statement\n"
    "    in the function: @3.1 = first statement of the body of the third> | <the statement as written> | <the conversion>`): moving\n"
    "    an `int(...)` changes the pin;\n"
    "  * an in-place update `l[k] = e`, `l[k] -= e`, `l.append(e)` gives the ONE name `l` a new value; it is accepted only for a list\n"
    "    created in the function (`list(…)`, a list display, `np.zeros`) to which no other name refers (no parameter, alias or view);\n"
    "  * `None` is `none`; `x is not None` in a `while` test refines `x` to its value in the body;\n"
    "  * nested `def`s are closure-converted: the enclosing function's variables they read are leading parameters, passed with their\n"
    "    current value at every call;\n"
    "  * `next(k for k in range(a, b) if c)` is `nextWhere (fun k => c) (pyRange a b)`; `try: x = next(g) / except StopIteration: …\n"
    "    / else: …` is a `match` on its result, the statements after it are translated in both arms; a generator VARIABLE is the\n"
    "    list of what it will yield (`next` takes the head);\n"
    "  * `for x in l` is a structural recursion over `l` (`<f>_loop`) carrying the re-assigned names; `l.append(e)` is `l ++ [e]`;\n"
    "  * `while c` is a BOUNDED iteration: `<f>_loop` recurses on a counter initialised with the bound the translator's table gives\n"
    "    for that loop (printed in the loop's docstring); exhausting it is `PyErr.bound`, so `… = .ok …` includes termination\n"
    "    within the bound;\n"
    "  * an `if` that ends its block is an if-expression whose arms continue separately, otherwise it yields the names its arms assign;\n"
    "  * library calls: TABLE ENTRIES (definitions of Lemmas/SrcLibNp.lean, conventions stated there): %s.\n"
    "    PARAMETERS with a contract: %s.\n"
    "REFUSED (the obligations hold up to definitional unfolding, which would absorb them): a DEAD STORE -- a generated `let` / bound\n"
    "result / loop-carried value that nothing of the generated code reads (allow-list of the stores of the reviewed source that\n"
    "nothing reads: %s); binding a name the translation resolves by spelling (`int`, `len`, `np`, a function of the module, a nested\n"
    "function) or a parameter that is not modelled; a second `def` of a nested function, or one that is not at the top level of the\n"
    "body; a call that does not pass the caller's own `mapping_sample_size_order` on; `np.random.choice(len(D))` with `D` other than\n"
    "the parameter the draw's contract names; an untranslated (`skip`) statement inside a translated one.\n"
    "A source outside the subset gives `def srcShape_<f> : Bool := false`, and `srcShape_<f>_recognised` fails.\n"
    "-/\n"
    "set_option linter.unusedVariables false\n"
    "set_option linter.unusedSectionVars false\n"
    "set_option linter.unusedSimpArgs false\n\n"
    "namespace %s\nopen %s\n")

TABLE_NOTE = ("`l[k]` (`getItem`), `l[k] = e` (`setItem`), `range` (`pyRange`), `next` of a generator expression (`nextWhere`), `len`, `max`,\n"
              "    `min`, `abs`, `int`, `list`, `l[::-1]` (`reverse`), `l[1:]` (`tail`), `M[(rows, cols)] = vals` (`scatter2`), `M[:, :-1]` (`dropLastCol`),\n"
              "    `x.astype(t)` (identity), `np.inf` as the start of a running minimum (`none`, `minTop`, `leTop`), `0.5 * n` (`Rat`),\n"
              "    and the NumPy idioms "
              + ";\n    ".join("`%s` ↦ `%s`" % (p, l) for p, l, _ in IDIOM_DOC))
PARAM_NOTE = ("the NumPy random generator -- `np.random.choice(len(DY))` in `construct_mapping` is its parameter `y0`; the lazy\n"
              "    `permutations_generator` of `find_ub_of_min_distortion` is the list `permutations_generator` of what it yields (how many: the float\n"
              "    computation of `n_mappings_to_sample`, pinned as text) and `y0s` the first images, one per `construct_mapping` call; `find_ub` /\n"
              "    `estimate` receive one such pair per direction; contract `DrawsOk` (Lemmas/SrcBridgeMGH.lean) -- and `find_unique_max_distributions`,\n"
              "    which is only pinned as text and stands for the model's `uniqueMaxDistributions` in its caller")


def UNREAD_NOTE():
    items = ["`%s` in `%s`" % (n, c["func"]) for c in TARGETS for n in c.get("unread", ())]
    items += ["`%s` in `%s` of `%s`" % (n, k, c["func"]) for c in TARGETS for k, sp in c.get("nested", {}).items() for n in sp.get("unread", ())]
    return ", ".join(items) or "(none)"


def render_file(key, root):
    py, out, ns, imports, prop, opens = FILES[key]
    model = imports.split("\nimport ")[0]
    o = [HEADER % (imports, py, prop, model.replace("PersimVerif.", "PersimVerif/").replace(".", "/") + ".lean",
                   TABLE_NOTE, PARAM_NOTE, UNREAD_NOTE(), ns, opens)]
    info = {"source": py, "output": "/".join([GEN.replace(os.sep, "/"), out]), "functions": {}}
    err0, unit, tree = None, None, None
    try:
        src = open(os.path.join(root, py)).read()
        tree = ast.parse(src)
        unit = Unit(src, tree)
    except (OSError, SyntaxError) as e:
        err0 = "%s: %s" % (type(e).__name__, e)
    fl = [(c["func"], unit.fns.get(c["func"]) if unit else None, None) for c in TARGETS]
    o.append(bindings_section(key, tree, fl, BINDINGS.get(key), err0, info))
    for cfg in TARGETS:
        f = cfg["lean"]
        pin = cfg.get("region") == "pin"
        o.append("/-! ### `%s`  (from `%s` of %s%s) -/" % (f, cfg["func"], py, ", pinned as text only" if pin else ""))
        o.append("section\n")
        err, res = err0, None
        if err is None:
            try:
                res = unit.translate(cfg)
            except Shape as e:
                err = "Shape: %s" % e
            except Exception as e:               # anything else the source makes the translator do: outside the subset
                err = "%s: %s" % (type(e).__name__, e)
        if err is not None:
            o.append("/-- the translator could not read the source: %s -/" % err.replace("-/", "- /").replace("/-", "/ -").replace("\n", " "))
            o.append("def srcShape_%s : Bool := false" % f)
            o.append("theorem srcShape_%s_recognised : srcShape_%s = true := by decide\n" % (f, f))
            o.append("end\n")
            info["functions"][f] = {"error": err}
            continue
        names = []
        if not pin:
            o.append("def srcShape_%s : Bool := true" % f)
            o.append("theorem srcShape_%s_recognised : srcShape_%s = true := by decide\n" % (f, f))
            names.append("srcShape_%s_recognised" % f)
        for d in res["defs"]:
            o.append(d + "\n")
        for name, binders, stmt, proof, doc in cfg.get("obligations", []):
            o.append("/-- %s -/" % doc)
            o.append("theorem %s%s :\n    %s := %s\n" % (name, (" " + binders) if binders else "", stmt, proof))
            names.append(name)
        for ex in cfg.get("examples", []):
            o.append(ex + "\n")
        o.append("/-- the body of the function, as `ast.unparse` prints it (nothing of it is translated) -/" if pin else
                 "/-- the body of the function with the translated statements as `...`, as `ast.unparse` prints it -/")
        o.append("def srcSkeleton_%s : String :=\n  %s" % (f, lean_str(res["skeleton"] or "")))
        o.append("theorem src_%s_skeleton : srcSkeleton_%s =\n  %s := rfl\n" % (f, f, lean_str(cfg.get("skeleton", ""))))
        names.append("src_%s_skeleton" % f)
        o.append(render_signature(cfg["func"], signature_text(unit.fns[cfg["func"]]), SIGNATURES.get(cfg["func"], "")))
        names.append("src_%s_signature" % sanitize(cfg["func"]))
        if res["conversions"] or cfg.get("conversions"):
            o.append("/-- the integer / dtype conversions of `%s` that the translation reads as the identity (no fixed-width overflow), "
                     "as written -/" % cfg["func"])
            o.append("def srcConversions_%s : List String :=\n  [%s]" % (f, ", ".join(lean_str(t) for t in res["conversions"])))
            o.append("theorem src_%s_conversions : srcConversions_%s =\n  [%s] := rfl\n" % (
                f, f, ", ".join(lean_str(t) for t in cfg.get("conversions", []))))
            names.append("src_%s_conversions" % f)
        o.append("end\n")
        info["functions"][f] = {"obligations": names}
    if tree is not None:
        nt = {py: not_translated(py, tree, _base.all_target_functions(py))}
        info["not_translated"] = nt
        o.append(not_translated_comment(sorted(nt.items())))
    o.append("end %s\n" % ns)
    return "\n".join(o), info


# ----------------------------------------------------------------------------- registration with py2lean (dispatch by key)

def functions_note():
    tr = [c["func"] for c in TARGETS if c.get("region") != "pin"]
    pins = [c["func"] for c in TARGETS if c.get("region") == "pin"]
    return tr, pins


def trusted_note(key):
    return ("harness/translator/py2lean.py + py2lean_mgh.py (statement-level ast translation of the mGH functions of %s into "
            "Generated/%s, proved equal to the hand-written model for all inputs on every run; its TARGETS table -- parameter types, "
            "iteration bounds of the `while` loops, obligation statements and proof scripts, the reviewed texts of signatures / "
            "skeletons / conversions / bindings -- its stated conventions -- everything is `Except PyErr`, naturals vs integers by "
            "dominating tests, no fixed-width overflow, closure conversion of nested functions, `while` as bounded iteration whose "
            "bound the obligation proves sufficient -- its idiom table and Lemmas/SrcLibNp.lean are trusted)" % FILES[key][:2])


def manifest_note(key):
    tr, pins = functions_note()
    return ("Source translator (mGH engine): these functions of %s are re-translated from the source text into Lean on every run "
            "(Generated/%s), statement by statement (reads/writes of lists and calls as `Except`, nested functions closure-converted, "
            "`for` as structural recursion, `while` as bounded iteration), and proved, for all inputs under the stated hypotheses, to "
            "raise nothing, to terminate within the bound and to return the value of the hand-written model definitions: %s; pinned as "
            "text only: %s; an edit of the translated lines breaks a generated obligation and triggers the failing-input search, except "
            "a renaming of locals.  Conversions read as the identity (each with the position and text of the statement it stands in), "
            "signatures and module-level bindings are pinned as text "
            "(src_<f>_conversions, src_<f>_signature, src_<f>_skeleton, src_mgh_bindings); a store that no translated code reads, a "
            "re-bound name that is resolved by spelling, a second definition of a nested function and a dropped or re-bound "
            "`mapping_sample_size_order` are refused.  Not tied by the translator: the callers, "
            "dynamic rebinding, NumPy behind the idiom table (trusted: the translator's conventions, its tables and "
            "Lemmas/SrcLibNp.lean)." % (FILES[key][0], FILES[key][1], ", ".join(tr) or "(none)", ", ".join(pins) or "(none)"))


_base = None


def register(base):
    """make key "mgh" known to py2lean: FILES, the render dispatch, the helper functions of the harness modules"""
    global _base
    if getattr(base, "_mgh_registered", False):
        return
    base._mgh_registered = True
    _base = base
    for k, v in FILES.items():
        base.FILES[k] = v[:5]
    base.py2lean_stmt.BRIDGES[KEY] = list(BRIDGES)
    inner = {n: getattr(base, n) for n in ("render_file", "trusted_note", "manifest_note", "all_target_functions")}

    def render(key, root):
        return render_file(key, root) if key in FILES else inner["render_file"](key, root)

    def tnote(key):
        return trusted_note(key) if key in FILES else inner["trusted_note"](key)

    def mnote(key):
        return manifest_note(key) if key in FILES else inner["manifest_note"](key)

    def targets(path):
        return inner["all_target_functions"](path) + ([c["func"] for c in TARGETS] if path == PYFILE else [])
    base.render_file, base.trusted_note, base.manifest_note, base.all_target_functions = render, tnote, mnote, targets


from . import py2lean as _b  # noqa: E402
if hasattr(_b, "py2lean_stmt") and hasattr(_b, "generate"):
    register(_b)


def expected_tables(root="/repo"):
    """Python source of BINDINGS / SIGNATURES / skeleton / conversions texts as the tree at `root` has them -- for a maintainer
    who has REVIEWED a change of /repo and re-baselines the tables (`python -m harness.translator.py2lean_mgh [root]`)"""
    text, _ = render_file(KEY, root)

    def un(t):
        return re.sub(r"\\x([0-9a-f]{2})", lambda m: chr(int(m.group(1), 16)), t).replace("\\n", "\n").replace('\\"', '"').replace("\\\\", "\\")
    out = ["BINDINGS = {KEY: ["]
    m = re.search(r"def srcBindings_%s : List \(String × String\) :=\n  \[(.*?)\]\ntheorem" % KEY, text, re.S)
    for n, t in re.findall(r'\("((?:[^"\\]|\\.)*)", "((?:[^"\\]|\\.)*)"\)', m.group(1) if m else ""):
        out.append("    (%r, %r)," % (un(n), un(t)))
    out.append("]}")
    out.append("SIGNATURES = {")
    for c in TARGETS:
        m = re.search(r"def srcSignature_%s : String :=\n  \"((?:[^\"\\]|\\.)*)\"\n" % sanitize(c["func"]), text)
        if m:
            out.append("    %r: %r," % (c["func"], un(m.group(1))))
    out.append("}")
    for c in TARGETS:
        m = re.search(r"def srcSkeleton_%s : String :=\n  \"((?:[^\"\\]|\\.)*)\"\n" % c["lean"], text)
        out.append("# skeleton of %s:\n%r" % (c["lean"], un(m.group(1)) if m else None))
        m = re.search(r"def srcConversions_%s : List String :=\n  \[(.*?)\]\n" % c["lean"], text)
        if m:
            out.append("# conversions of %s: %r" % (c["lean"], [un(x) for x in re.findall(r'"((?:[^"\\]|\\.)*)"', m.group(1))]))
    return "\n".join(out)


if __name__ == "__main__":
    import sys
    from harness.translator import py2lean_mgh as _me          # the registered instance of this module
    print(_me.expected_tables(sys.argv[1] if len(sys.argv) > 1 else os.environ.get("PERSIM_ROOT", "/repo")))
