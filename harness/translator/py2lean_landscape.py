"""
Source translator for the landscape arithmetic, the norm entry points and the grid tools (DESIGN.md 3.2), the engine behind the
keys `plexact`, `plgrid`, `plnorm`, `plvec`, `pltransform` of py2lean.generate().

Targets (persim/landscapes/*.py -> lean/PersimVerif/Generated/SrcPL*.lean):
  * plexact  (C09)  exact.py `PersLandscapeExact.__neg__ / __add__ / __sub__ / __mul__ / __rmul__ / __truediv__ / __getitem__`,
                    auxiliary.py `union_crit_pairs`                                             -> Model/PLArith.lean (`Exact.*`)
  * plgrid   (C09)  base.py `PersLandscape.__add__ / __mul__ / __truediv__` (the guards reached through `super()`),
                    approximate.py `PersLandscapeApprox.__add__ / __neg__ / __sub__ / __mul__ / __rmul__ / __truediv__ /
                    __getitem__`, tools.py `snap_pl`, `lc_approx`, `average_approx`             -> Model/PLArith.lean (`Grid.*`, `snapPl`, …)
  * plnorm   (C10)  base.py `PersLandscape.p_norm`, auxiliary.py `_p_norm` (around its segment region, which py2lean.py
                    translates), exact.py `p_norm / sup_norm`, approximate.py `p_norm / sup_norm / values_to_pairs`
                                                                                               -> Model/PNorm.lean
  * plvec    (C08)  tools.py `vectorize`                                                        -> Model/Approx.lean (`vectorize`)
  * pltransform (C08, C18)  transformer.py `PersistenceLandscaper.transform`                    -> Model/Transformers.lean (`ltransform`)
The functions are read with `ast` and translated STATEMENT BY STATEMENT into Lean definitions over the models' own core classes
(no Mathlib).  Every generated definition is proved equal (a) to the reviewed Lean text of the same shape (`Ref.*` of
Lemmas/SrcBridgeLandscape*.lean, `src_<def>_eq_ref`, by `rfl`) and through it (b) to the hand-written model
(`src_<def>_eq_model`, hand-written lemmas of the same files), for ALL inputs under the hypotheses printed in the obligation.

Semantics of the subset (the translator's conventions):
  * straight-line code is SSA-renamed (`x`, `x_1`, ...), every assignment is a `let`; within one generated definition no binder
    is handed out twice, and a binder the translator makes up (an SSA version `x_k`, a hoisted `t`, the variable `a_b` of a tuple
    target) is never an identifier of the Python function (a local SPELLED `self_1` cannot be captured by the second version of
    `self`), nor a Lean name the generated text uses;
  * DEAD STORES are refused: every `let`, every bound value of a raising call must be read below its binding (what nothing reads
    is what `rfl` absorbs); an expression statement that leaves no trace in the translation (evaluated and discarded) is refused;
  * mutable values (lists / arrays, landscape objects) are translated as VALUES, WITHOUT ALIASING: `y = x`, `a, b = p` on an
    existing pair, a display `[x, …]` / `for y in [x]` of a mutable `x` that is already stored (a name, an attribute, an
    element) are outside the subset; the in-place `acc.append(e)` is accepted only on a name that OWNS its value (bound by an
    assignment of this function to a value made there, not stored elsewhere since; the carried name of a loop inherits this);
    `x += e` only on numbers (on an array it works in place); `X.compute_landscape()` works in place by the convention below;
  * a definition that can raise has type `Except Err τ`: `return e` is `.ok e`, `raise` is `.error` of the error value that the
    translator's table gives for the TEXT of the raise statement, a call of a raising definition is
    `match … with | .error e => .error e | .ok t => …` where the statement stands (arguments left to right); raising builtins are
    guards at the place of the statement: `l[k]` (IndexError), `min/max(l, key=…)` and `np.max` of nothing (ValueError),
    `xs, ys = zip(*depth)` of an empty depth (ValueError), arithmetic on a Python value that is not a number (`Scalar.val?`,
    TypeError).  FLOAT DIVISION IS TOTAL (`x / 0` is whatever `/` of the carrier gives): where Python raises ZeroDivisionError
    is a hypothesis of the obligation (`_p_norm`: no vertical segment, `p != 0`); `if other == 0.0: raise` is translated;
  * an `if c: raise …` / `if c: return …` takes the rest of the function into its `else`; `if x is None: x = e` on an optional
    parameter is the `match` on it, after which `x` has the value type (both branches joined in one `Except` value);
  * a landscape OBJECT is a record of the attributes the translated code reads (`SrcLib.Landscape.ExactObj / GridObj`; for the
    transformer the model's state record `LState`, `self.start` / `self.stop` through their pinned getters).
    `X.compute_landscape()` is the library's LAZY computation (`ExactObj/GridObj.compute_landscape sweep|ramp X`: nothing
    when the landscape is stored, else what the method computes from `X.dgms` -- the parameter `sweep` / `ramp`; the early
    exits are pinned where `compute_landscape` is translated) and rebinds `X`.  A constructor call with exactly the keywords
    `hom_deg, critical_pairs` / `start, stop, num_steps, hom_deg, values` is `ExactObj.new` / `GridObj.new` (the pinned
    `__init__`: ValueError when nothing is passed, ValueError for `start > stop`); any other keyword set is outside the subset.
    Arithmetic methods return the new object only (the receiver's only writes are those of `compute_landscape()`); the methods
    `p_norm`, `sup_norm`, `values_to_pairs`, whose callers read the receiver afterwards, return `(receiver, value)`;
  * operators dispatch on the class of the translated method: `self + x` is `__add__`, `-x` is `__neg__`, `self * c` is
    `__mul__`, `c * self` with a number `c` is `__rmul__` (float.__mul__ gives NotImplemented), `self.__m__(x)` is the call;
    `super().m(…)` is the generated definition of the base-class method, with the subclass's `compute_landscape` / `sup_norm`
    as its function parameters (dynamic dispatch); `for funct in pl` on a grid landscape is the legacy sequence protocol
    through `__getitem__`: `pl.compute_landscape()`, then the rows of `pl.values`;
  * `for x in L` is `L.foldl` / `L.foldlM` of its own definition `<f>_round` (parameters: the names the body only reads, then
    the one name it re-assigns, then the loop variable; a loop variable that is bound before the loop is outside the subset, one
    that is not is unbound behind the loop); `zip(l, l[1:])` is `consecutive l`, `itertools.zip_longest(L, M)` is
    `zipLongest L M` and the `if a is None / elif b is None / else` on its element the match on the three shapes;
    `acc.append(e)` is `acc ++ [e]`; a list comprehension is `List.map` (`List.mapM` of `<f>_elem` when its element can raise);
    a tuple target `for a, b in l` is one variable `a_b` with `a = a_b.1`, `b = a_b.2`;
  * NumPy: `np.array(x)` / `np.array(x, dtype=…)` / `list(x)` on a list are the identity ON THE VALUE (each is pinned with the
    function it stands in, the call as written -- argument included -- and the Lean type of its argument: `src_<key>_conversions`);
    `zip` / `zip_longest` / `chain.from_iterable` give ITERATORS: they are list values only as the iterable of a loop /
    comprehension or directly under `list(…)` (not under `np.array`, not assigned, not passed on); unary `+` is not translated
    (TypeError on anything but a number); a 2-list `[a, b]` and a 2-tuple `(a, b)` are both a pair, which one is written is
    pinned (`src_<key>_displays`); a 1-D array is `List α`, a 2-D array the list of its rows; `c * row` is `row.map (c * ·)`, `A + B`
    on 2-D arrays is the model's entrywise `matAdd`; `np.abs` is `PNorm.absA` entrywise; `np.max(A)` is `npMax` of the
    flattened array; `np.linspace` and one evaluation of `np.interp` are the function parameters `linspace`, `interp`
    (`np.interp(G, xp, fp)` is `interpEach interp G xp fp`); `np.sum(np.array(C) * np.array(P))` on a list of landscapes is
    `npSumProducts` (broadcast, `p.__rmul__(c)` entry by entry, then `+` from the first on); `x ** y` is the parameter `pow`;
    `itertools.chain.from_iterable(L)` is `L.flatten`; `isinstance(x, numbers.Real)` / `x == 0.0` on any Python value are
    `Scalar.isReal` / `Scalar.eqZero`; `itemgetter(k)` / `attrgetter("a")` are the projections;
  * numeric literals: `1.0` is `1`, `-1` is `(-1 : α)`; `len(l)` in float arithmetic is cast; `a > b` is written `b < a`;
  * the body of the inner loop of `_p_norm` is the region that py2lean.py translates (`p_norm_segment` of
    Generated/SrcPNorm.lean, tied to `segTerm` there): it stands here as ONE statement `result += p_norm_segment …`.
What is not translated is pinned as text: signatures, module- and class-level bindings of the names used (per Python file), the
`raise` statements (their texts select the error values), conversions, displays, the two `__init__` bodies, the property getters,
EVERY binding of the class bodies of the classes whose instances are handled as objects (`src_<key>_class_bodies`: an added
`__iter__` / `__len__` / `__array__` / `__bool__` / `__eq__` / `__radd__` / property changes what iteration, `np.array(…)`, an
operator, an attribute read on an instance does).
"""
import ast
import os
import re

from .py2lean import (Shape, LEAN_RESERVED, lean_str, strip_doc, GEN, bindings_section, signature_text,
                      sanitize, not_translated, not_translated_comment)
from .py2lean import dotted as _dotted


def dotted(n):
    """`a.b.c` of a Name / Attribute chain, else None"""
    try:
        return _dotted(n)
    except Shape:
        return None

# ----------------------------------------------------------------------------- types


def L(t):
    return ("L", t)


def X(a, b):
    return ("X", a, b)


def O(t):
    return ("O", t)


P = X("A", "A")
LA, LP = L("A"), L(P)
LLA, LLP = L(LA), L(LP)
SEG = X(P, P)
BASE_TY = {"A": "α", "N": "Nat", "Z": "Int", "B": "Bool", "U": "Unit", "SC": "Scalar α", "EO": "ExactObj α β", "GO": "GridObj α β",
           "LS": "LState α", "SIGMA": "σ", "RHO": "ρ", "NU": "ν", "DELTA": "δ"}
OBJ = ("EO", "GO", "SIGMA")


def lty(t, top=True):
    """Lean text of a type"""
    if isinstance(t, str):
        s = BASE_TY[t]
    elif t[0] == "L":
        s = "List " + lty(t[1], False)
    elif t[0] == "O":
        s = "Option " + lty(t[1], False)
    elif t[0] == "X":
        s = "%s × %s" % (lty(t[1], False), lty(t[2], False))
    elif t[0] == "TH":
        s = "These %s %s" % (lty(t[1], False), lty(t[2], False))
    elif t[0] == "E":
        s = "Except Err " + lty(t[1], False)
    else:
        raise Shape("internal: type %r" % (t,))
    return s if top or " " not in s else "(%s)" % s


class V:
    """a translated expression: Lean text, type, atomic?; `fl`: a numeric literal written as a float (`1.0`)"""
    def __init__(self, t, ty, atom=False, fl=False):
        self.t, self.ty, self.atom, self.fl = t, ty, atom, fl


def is_simple(t):
    return all(ch.isalnum() or ch in "_.'₁₂" for ch in t) and not t[:1] == "."


def arg(t):
    """a Lean text as a function argument"""
    if is_simple(t):
        return t
    if t[0] in "([⟨" and matching_close(t) == len(t) - 1:
        return t
    return "(%s)" % t


def matching_close(t):
    depth = 0
    for i, ch in enumerate(t):
        depth += ch in "([⟨"
        depth -= ch in ")]⟩"
        if depth == 0:
            return i
    return -1


# ----------------------------------------------------------------------------- IR

class Ret:
    def __init__(self, text):
        self.text = text


class Fail:
    def __init__(self, err):
        self.err = err


class Tail:
    """a final expression that already has the result type"""
    def __init__(self, text):
        self.text = text


class Let:
    def __init__(self, name, ty, text, body):
        self.name, self.ty, self.text, self.body = name, ty, text, body


class BindExc:
    def __init__(self, text, pat, body):
        self.text, self.pat, self.body = text, pat, body


class BindOpt:
    def __init__(self, text, err, pat, body):
        self.text, self.err, self.pat, self.body = text, err, pat, body


class Ite:
    def __init__(self, cond, a, b):
        self.cond, self.a, self.b = cond, a, b


class MatchThese:
    def __init__(self, scrut, right, left, both):
        self.scrut, self.right, self.left, self.both = scrut, right, left, both      # (names, body)


class MatchOpt:
    """`match x with | some p => <some> | none => <none>` (the `some` branch first: it is one line)"""
    def __init__(self, scrut, pat, some, none):
        self.scrut, self.pat, self.some, self.none = scrut, pat, some, none


class Join:
    """`let name : Except Err T := <inner>` / `match name with | .error e => .error e | .ok pat => body`; or, when the inner
    node cannot raise, `let pat : T := <inner>` / body"""
    def __init__(self, name, ty, inner, pat, body):
        self.name, self.ty, self.inner, self.pat, self.body = name, ty, inner, pat, body


def can_fail(n):
    if isinstance(n, (Fail, BindExc, BindOpt, Tail)):
        return True
    if isinstance(n, Let):
        return can_fail(n.body)
    if isinstance(n, Ite):
        return can_fail(n.a) or can_fail(n.b)
    if isinstance(n, MatchThese):
        return any(can_fail(b) for _, b in (n.right, n.left, n.both))
    if isinstance(n, MatchOpt):
        return can_fail(n.some) or can_fail(n.none)
    if isinstance(n, Join):
        return can_fail(n.inner) or can_fail(n.body)
    return False


def has_match(n):
    if isinstance(n, (BindExc, BindOpt, MatchThese, MatchOpt)):
        return True
    if isinstance(n, Let):
        return has_match(n.body)
    if isinstance(n, Ite):
        return has_match(n.a) or has_match(n.b)
    if isinstance(n, Join):
        return True
    return False


def render(n, ind, raising):
    """Lean lines of a node; `raising`: the enclosing definition has type `Except Err τ` (returns are `.ok …`)"""
    if isinstance(n, Ret):
        return [ind + ((".ok " + arg(n.text)) if raising else n.text)]
    if isinstance(n, Fail):
        return [ind + ".error " + n.err]
    if isinstance(n, Tail):
        return [ind + n.text]
    if isinstance(n, Let):
        return [ind + "let %s : %s := %s" % (n.name, n.ty, n.text)] + render(n.body, ind, raising)
    if isinstance(n, BindExc):
        if isinstance(n.body, Ret) and n.body.text == n.pat and raising:
            return [ind + n.text]                                   # `match x with | .error e => .error e | .ok t => .ok t` is `x`
        return [ind + "match %s with" % n.text, ind + "| .error e => .error e", ind + "| .ok %s =>" % n.pat] \
            + render(n.body, ind, raising)
    if isinstance(n, BindOpt):
        return [ind + "match %s with" % n.text, ind + "| none => .error %s" % n.err, ind + "| some %s =>" % n.pat] \
            + render(n.body, ind, raising)
    if isinstance(n, Ite):
        out = [ind + "if %s then" % n.cond] + render(n.a, ind + "  ", raising)
        b = n.b
        while isinstance(b, Ite):
            out += [ind + "else if %s then" % b.cond] + render(b.a, ind + "  ", raising)
            b = b.b
        return out + [ind + "else"] + render(b, ind + "  ", raising)
    if isinstance(n, MatchThese):
        out = [ind + "match %s with" % n.scrut]
        for pat, (names, body) in ((".right %s", n.right), (".left %s", n.left), (".both %s %s", n.both)):
            if pat[1] != "b" and has_match(body):
                raise Shape("a branch of the zip_longest test other than the last contains a raising statement")
            out += [ind + "| " + pat % tuple(names) + " =>"] + render(body, ind + "  ", raising)
        return out
    if isinstance(n, MatchOpt):
        some = render(n.some, "", raising)
        if len(some) != 1:
            raise Shape("internal: the `is not None` branch is not one line")
        return [ind + "match %s with" % n.scrut, ind + "| some %s => %s" % (n.pat, some[0]), ind + "| none =>"] \
            + render(n.none, ind + "  ", raising)
    if isinstance(n, Join):
        if can_fail(n.inner):
            return [ind + "let %s : Except Err %s :=" % (n.name, arg(n.ty))] + render(n.inner, ind + "  ", True) \
                + [ind + "match %s with" % n.name, ind + "| .error e => .error e", ind + "| .ok %s =>" % n.pat] \
                + render(n.body, ind, raising)
        return [ind + "let %s : %s :=" % (n.pat, n.ty)] + render(n.inner, ind + "  ", False) + render(n.body, ind, raising)
    raise Shape("internal: IR node %r" % (n,))


# ----------------------------------------------------------------------------- dead bindings

_IDENT = re.compile(r"(?<![\w.'])[A-Za-z_][\w']*")


def idents(text):
    """identifiers a Lean text mentions (field names behind a `.` are not)"""
    return set(_IDENT.findall(text))


def node_idents(n):
    """every identifier mentioned in an IR subtree (binders are unique per definition: a binder is mentioned below its binding
    iff it is read)"""
    if isinstance(n, (Ret, Tail)):
        return idents(n.text)
    if isinstance(n, Fail):
        return idents(n.err)
    if isinstance(n, Let):
        return idents(n.text) | node_idents(n.body)
    if isinstance(n, (BindExc, BindOpt)):
        return idents(n.text) | node_idents(n.body)
    if isinstance(n, Ite):
        return idents(n.cond) | node_idents(n.a) | node_idents(n.b)
    if isinstance(n, MatchThese):
        return idents(n.scrut) | node_idents(n.right[1]) | node_idents(n.left[1]) | node_idents(n.both[1])
    if isinstance(n, MatchOpt):
        return idents(n.scrut) | node_idents(n.some) | node_idents(n.none)
    if isinstance(n, Join):
        return node_idents(n.inner) | node_idents(n.body)
    raise Shape("internal: IR node %r" % (n,))


def check_live(n, where, allow=()):
    """DEAD STORES: a `let` / a bound result of the generated definition `where` that nothing below it reads is refused (`rfl`
    would absorb it: zeta).  `allow`: the reviewed binder names of the target's `dead_ok`, printed in the header"""
    def need(names, body, what):
        live = node_idents(body)
        for nm in names:
            if nm != "_" and nm not in live and nm not in allow:
                raise Shape("dead store: `%s` (%s) of `%s` is never read" % (nm, what, where))
    if isinstance(n, Let):
        need(idents(n.name), n.body, "let … := %s" % n.text[:60])
        check_live(n.body, where, allow)
    elif isinstance(n, (BindExc, BindOpt)):
        need(idents(n.pat), n.body, "value of %s" % n.text[:60])
        check_live(n.body, where, allow)
    elif isinstance(n, Ite):
        check_live(n.a, where, allow)
        check_live(n.b, where, allow)
    elif isinstance(n, MatchThese):
        for _, b in (n.right, n.left, n.both):
            check_live(b, where, allow)
    elif isinstance(n, MatchOpt):
        check_live(n.some, where, allow)
        check_live(n.none, where, allow)
    elif isinstance(n, Join):
        need(idents(n.pat), n.body, "value of an `if … is None`")
        check_live(n.inner, where, allow)
        check_live(n.body, where, allow)


# ----------------------------------------------------------------------------- the translator

RESERVED = set(LEAN_RESERVED) | {"e", "it", "v", "q", "r", "some", "none", "id", "sweep", "ramp", "interp", "linspace", "pow", "expm1",
                                 "log", "compute_landscape", "sup_norm", "approx", "values", "flatten", "Err",
                                 # names of Lemmas/SrcLibLandscape.lean / the models that the generated text uses
                                 "ExactObj", "GridObj", "LState", "These", "Scalar", "zipLongest", "consecutive", "pyGet", "interpEach",
                                 "npMax", "npSumProducts", "matAdd", "pyMinBy", "pyMaxBy", "absA", "Option", "Int", "Unit", "Bool", "not",
                                 "ok", "error", "left", "right", "both", "map", "mapM", "foldl", "foldlM", "length", "isEmpty"}
# (the names of the generated definitions are added below, behind TARGETS)
FP_TY = {"sweep": "List β → List (List (α × α))", "ramp": "List β → α → α → Nat → List (List α)", "interp": "List (α × α) → α → α",
         "linspace": "α → α → Nat → List α", "pow": "α → α → α", "expm1": "α → α", "log": "α → α",
         "compute_landscape": "σ → σ", "sup_norm": "σ → Except Err (σ × α)",
         "approx": "List δ → Option α → Option α → Int → Int → ρ", "values": "ρ → ν", "flatten": "ν → ν"}
# the attributes of the objects: python attribute -> (Lean field, type)
ATTRS = {
    "EO": {"hom_deg": ("hom_deg", "N"), "critical_pairs": ("critical_pairs", LLP)},
    "GO": {"hom_deg": ("hom_deg", "N"), "start": ("start", "A"), "stop": ("stop", "A"), "num_steps": ("num_steps", "N"),
           "values": ("values", LLA)},
    "LS": {"hom_deg": ("homDeg", "Z"), "start": ("start", O("A")), "stop": ("stop", O("A")), "num_steps": ("numSteps", "Z"),
           "flatten": ("flatten", "B")},
}
COMPUTE = {"EO": "ExactObj.compute_landscape sweep", "GO": "GridObj.compute_landscape ramp", "SIGMA": "compute_landscape"}
COMPUTE_FP = {"EO": "sweep", "GO": "ramp", "SIGMA": "compute_landscape"}


def is_mutable(ty):
    """types whose Python values are mutable objects that the translation treats as VALUES: lists / arrays, object records"""
    return (isinstance(ty, tuple) and ty[0] == "L") or ty in ("EO", "GO", "LS", "SIGMA", "RHO", "NU")


def is_ref(n):
    """an expression that evaluates to an EXISTING object: a name, an attribute, an element"""
    return isinstance(n, (ast.Name, ast.Attribute)) or (isinstance(n, ast.Subscript) and not isinstance(n.slice, ast.Slice))


ITER_FUNCS = ("zip", "itertools.zip_longest", "itertools.chain.from_iterable")
SPELLED = {"np", "itertools", "numbers", "list", "zip", "len", "min", "max", "isinstance", "itemgetter", "attrgetter", "super"}


def const_num(n):
    """the integer a numeric constant denotes (`1`, `1.0`, `-1`), else None"""
    if isinstance(n, ast.UnaryOp) and isinstance(n.op, ast.USub):
        v = const_num(n.operand)
        return None if v is None else -v
    if isinstance(n, ast.Constant) and not isinstance(n.value, bool) and isinstance(n.value, (int, float)) and n.value == int(n.value):
        return int(n.value)
    return None


def float_lit(n):
    """a numeric constant written as a float (`1.0`, `-2.0`): where Python needs an int (an index, a count) it raises"""
    if isinstance(n, ast.UnaryOp) and isinstance(n.op, (ast.USub, ast.UAdd)):
        return float_lit(n.operand)
    return isinstance(n, ast.Constant) and isinstance(n.value, float)


def is_none(n):
    return isinstance(n, ast.Constant) and n.value is None


def target_names(t):
    """flat list of the names of an assignment / loop target, or None"""
    if isinstance(t, ast.Name):
        return [t.id]
    if isinstance(t, (ast.Tuple, ast.List)):
        out = []
        for e in t.elts:
            s = target_names(e)
            if s is None:
                return None
            out += s
        return out
    return None


class Tr:
    def __init__(self, cfg, ctx, kind="function"):
        self.cfg, self.ctx, self.kind = cfg, ctx, kind           # ctx: shared per generated file (functions, emitted definitions, …)
        self.env, self.count, self.pre = {}, {}, []
        self.used = set()                                        # Lean binders handed out in this definition
        self.owned = set()                                       # Python names that own their (mutable) value: see `assign`
        self.iter_node = None                                    # the iterable of the loop / comprehension being translated
        self.used_f = []                                         # function parameters this definition uses
        self.outer = None                                        # the enclosing translator of a loop body / comprehension element
        self.reads = []                                          # names of the enclosing definition this body reads
        self.read_names = {}                                     # python name -> (Lean binder name, type) of such a parameter

    # -- names
    def fresh(self, py, synthetic=False):
        """a Lean binder for the Python name `py` (`synthetic`: for a value the translator introduces itself).  NAME CAPTURE: within
        one generated definition no binder is handed out twice, and a binder the translator makes up (an SSA version `x_k`, a
        hoisted `t`, the variable `a_b` of a tuple target) is never an identifier of the Python function: a local spelled `self_1`
        cannot be captured by the second version of `self`"""
        own = py if py.isidentifier() else None
        base = py if py.isidentifier() else (sanitize(py) or "v")
        if base in RESERVED:
            base += "_"
        pyid = self.ctx.get("pyidents", ())
        k = self.count.get(base, 0)
        while True:
            cand = base if k == 0 else "%s_%d" % (base, k)
            k += 1
            if cand in self.used:
                continue
            if cand in pyid and (synthetic or cand != own):
                continue
            break
        self.count[base] = k
        self.used.add(cand)
        return cand

    def not_spelled(self, py):
        # names that the translation resolves by SPELLING (module-level bindings, pinned as text) may not be bound locally
        if py in SPELLED or py in self.cfg.get("ctors", ()) or py in self.ctx.get("funcs", ()):
            raise Shape("the local name `%s` shadows a name that the translation resolves by its spelling" % py)

    def bind(self, py, ty):
        self.not_spelled(py)
        nm = self.fresh(py)
        self.env[py] = (nm, ty)
        return nm

    def fp(self, name):
        if name not in self.cfg["fparams"]:
            raise Shape("`%s` is not a function parameter of the definition of %s" % (name, self.cfg["lean"]))
        if name not in self.used_f:
            self.used_f.append(name)
        if self.outer is not None:
            self.outer.fp(name)
        return name

    def lookup(self, py, node=None):
        if py not in self.env:
            if self.outer is not None and py in self.outer.env_all():
                nm, ty = self.outer.lookup(py, node)
                if py not in self.reads:
                    self.reads.append(py)
                self.env[py] = (self.fresh(py), ty)             # a parameter of the round / element definition, named like the source
                self.read_names[py] = self.env[py]
                return self.env[py]
            raise Shape("`%s` is read where it is not bound%s" % (py, " (line %d)" % node.lineno if node is not None else ""))
        return self.env[py]

    def err(self, kind):
        e = self.cfg["errors"].get(kind)
        if e is None:
            raise Shape("a builtin that raises %s is used, and the table of %s has no error value for it" % (kind, self.cfg["lean"]))
        return e

    def hoist_exc(self, text, ty, base="t"):
        nm = self.fresh(base, synthetic=True)
        self.pre.append(("exc", nm, text, None))
        return V(nm, ty, True)

    def hoist_opt(self, text, err, ty, base="t"):
        nm = self.fresh(base, synthetic=True)
        self.pre.append(("opt", nm, text, err))
        return V(nm, ty, True)

    def take_pre(self):
        p, self.pre = self.pre, []
        return p

    @staticmethod
    def with_pre(pre, node):
        for kind, pat, text, err in reversed(pre):
            node = BindExc(text, pat, node) if kind == "exc" else BindOpt(text, err, pat, node) if kind == "opt" \
                else Let(pat, err, text, node)
        return node

    # -- coercions
    def to_A(self, v, node=None):
        """a value as an operand of float arithmetic"""
        if v.ty == "A":
            return v
        if v.ty == "NUM":
            return V(v.t, "A", v.atom)
        if v.ty == "N":
            return V("(%s : α)" % v.t, "A", True)
        if v.ty == "SC":
            return self.hoist_exc("Scalar.val? %s %s" % (self.err("TypeError"), arg(v.t)), "A")
        raise Shape("`%s` is not a number" % (ast.unparse(node) if node is not None else v.t))

    def coerce(self, v, ty, node=None):
        if v.ty == ty:
            return v
        if v.ty == "NUM" and ty in ("A", "N", "Z"):
            if v.fl and ty != "A":
                raise Shape("the float literal `%s` where an integer is needed" % (ast.unparse(node) if node is not None else v.t))
            return V(v.t if not v.t.startswith("(-") or ty == "A" else v.t, ty, v.atom)
        if ty == "A" and v.ty in ("N", "SC"):
            return self.to_A(v, node)
        if ty == "SC" and v.ty in ("A", "NUM"):
            return V("Scalar.num %s" % arg(v.t), "SC")
        if ty == L("SC") and v.ty == LA:
            return V("%s.map Scalar.num" % arg(v.t), ty)
        if isinstance(ty, tuple) and ty[0] == "O" and v.ty == ty[1]:
            return V("some %s" % arg(v.t), ty)
        if v.ty == "EMPTY" and isinstance(ty, tuple) and ty[0] == "L":
            return V("[]", ty, True)
        raise Shape("`%s` has type %s where %s is needed" % (ast.unparse(node) if node is not None else v.t,
                                                              v.ty if isinstance(v.ty, str) and v.ty not in BASE_TY else lty(v.ty) if v.ty not in ("NUM", "EMPTY") else v.ty, lty(ty)))

    # -- expressions
    def expr(self, n, want=None):
        v = self.expr0(n, want)
        if want is not None:
            v = self.coerce(v, want, n)
        return v

    def expr0(self, n, want=None):
        if isinstance(n, ast.Constant):
            k = const_num(n)
            if k is None:
                raise Shape("constant `%s` is outside the subset" % ast.unparse(n))
            return V(str(k), "NUM", True, fl=float_lit(n))
        if isinstance(n, ast.Name):
            nm, ty = self.lookup(n.id, n)
            return V(nm, ty, True)
        if isinstance(n, ast.Attribute):
            return self.attribute(n)
        if isinstance(n, ast.UnaryOp):
            return self.unary(n, want)
        if isinstance(n, ast.BinOp):
            return self.binop(n, want)
        if isinstance(n, ast.Subscript):
            return self.subscript(n)
        if isinstance(n, ast.Call):
            return self.call(n, want)
        if isinstance(n, ast.ListComp):
            return self.listcomp(n, want)
        if isinstance(n, (ast.List, ast.Tuple)):
            if not n.elts:
                if isinstance(n, ast.Tuple):
                    raise Shape("the empty tuple `()` is outside the subset")
                return V("[]", "EMPTY", True)
            if len(n.elts) == 2:                                  # a pair `[a, -b]` / `(a, other * b)`
                a, b = self.expr(n.elts[0]), self.expr(n.elts[1])
                for x, nd in ((a, n.elts[0]), (b, n.elts[1])):
                    if is_mutable(x.ty) and is_ref(nd):
                        raise Shape("aliasing: the display `%s` stores `%s`, a mutable value that is already stored elsewhere"
                                    % (ast.unparse(n), ast.unparse(nd)))
                # a 2-list and a 2-tuple are both read as a pair: which one is written is pinned (`src_<key>_displays`)
                self.ctx["displays"].append("%s: %s" % (self.ctx.get("cur_func", "?"), ast.unparse(n)))
                if a.ty in ("A", "NUM") and b.ty in ("A", "NUM"):
                    return V("(%s, %s)" % (a.t, b.t), P, True)
                return V("(%s, %s)" % (a.t, b.t), X(a.ty, b.ty), True)
            raise Shape("list / tuple display `%s` is outside the subset" % ast.unparse(n))
        raise Shape("expression `%s` is outside the subset" % ast.unparse(n))

    def attribute(self, n):
        d = dotted(n)
        if isinstance(n.value, ast.Name) and n.value.id in self.env_all():
            nm, ty = self.lookup(n.value.id, n)
            if ty == "RHO" and n.attr == "values":
                return V("%s %s" % (self.fp("values"), nm), "NU")
            tab = ATTRS.get(ty)
            if tab is None or n.attr not in tab:
                raise Shape("attribute `%s` of a value of type %s is outside the subset" % (n.attr, ty if isinstance(ty, str) else lty(ty)))
            if ty == "LS" and n.attr in ("start", "stop"):
                self.ctx["getters"].add(n.attr)
            f, fty = tab[n.attr]
            return V("%s.%s" % (nm, f), fty, True)
        if isinstance(n.value, (ast.Call, ast.Subscript, ast.Attribute)) and not (d and d.split(".")[0] in ("np", "itertools", "numbers")):
            v = self.expr(n.value)
            tab = ATTRS.get(v.ty)
            if tab is None or n.attr not in tab:
                raise Shape("attribute `%s` of `%s` is outside the subset" % (n.attr, ast.unparse(n.value)))
            f, fty = tab[n.attr]
            return V("%s.%s" % (arg(v.t), f), fty, True)
        raise Shape("`%s` is outside the subset" % ast.unparse(n))

    def env_all(self):
        return set(self.env) | (self.outer.env_all() if self.outer is not None else set())

    def unary(self, n, want):
        if isinstance(n.op, ast.USub):
            k = const_num(n)
            if k is not None:
                if k < 0 and want in ("N", "Z") and float_lit(n):
                    raise Shape("the float literal `%s` where an integer is needed" % ast.unparse(n))
                return V("(%d : α)" % k, "A", True) if k < 0 else V(str(k), "NUM", True, fl=float_lit(n))
            v = self.expr(n.operand)
            if v.ty in ("A", "NUM", "SC", "N"):
                v = self.to_A(v, n.operand)
                return V("-%s" % arg(v.t), "A")
            if v.ty in ("EO", "GO"):
                return self.method_call(v, "__neg__", [], n)
            raise Shape("`%s`: negation of a value of type %s" % (ast.unparse(n), lty(v.ty)))
        # unary `+` is NOT read as the identity: on a landscape object, a list, an arbitrary operand it raises TypeError
        raise Shape("operator in `%s` is outside the subset" % ast.unparse(n))

    def binop(self, n, want):
        op = n.op
        # np.sum(np.array(C) * np.array(P)) is handled in `call`; here plain arithmetic, elementwise forms and the class operators
        a, b = self.expr(n.left), self.expr(n.right)
        if a.ty in ("EO", "GO"):
            m = {ast.Add: "__add__", ast.Sub: "__sub__", ast.Mult: "__mul__", ast.Div: "__truediv__"}.get(type(op))
            if m is None:
                raise Shape("operator in `%s` is outside the subset" % ast.unparse(n))
            return self.method_call(a, m, [(b, n.right)], n)
        if b.ty in ("EO", "GO"):
            if not isinstance(op, ast.Mult) or a.ty not in ("A", "NUM", "N"):
                raise Shape("`%s`: only a number times a landscape is `__rmul__`" % ast.unparse(n))
            return self.method_call(b, "__rmul__", [(a, n.left)], n)
        sym = {ast.Add: "+", ast.Sub: "-", ast.Mult: "*", ast.Div: "/"}.get(type(op))
        if isinstance(op, ast.Pow):
            x, y = self.to_A(a, n.left), self.to_A(b, n.right)
            return V("%s %s %s" % (self.fp("pow"), arg(x.t), arg(y.t)), "A")
        if sym is None:
            raise Shape("operator in `%s` is outside the subset" % ast.unparse(n))
        if a.ty == LLA and b.ty == LLA and sym == "+":
            return V("matAdd %s %s" % (arg(a.t), arg(b.t)), LLA)
        if b.ty == LA and a.ty in ("A", "NUM", "SC", "N") and sym == "*":
            c = self.to_A(a, n.left)
            return V("%s.map fun v => %s * v" % (arg(b.t), arg(c.t)), LA)
        if a.ty in ("N", "NUM") and b.ty in ("N", "NUM") and not (isinstance(op, ast.Div)) and "A" != want and not (a.fl or b.fl) \
                and not (a.ty == "NUM" and b.ty == "NUM"):
            return V("%s %s %s" % (arg(a.t), sym, arg(b.t)), "N")
        floaty = isinstance(n.left, ast.Constant) and isinstance(n.left.value, float) or \
            isinstance(n.right, ast.Constant) and isinstance(n.right.value, float)
        if a.ty == "NUM" and b.ty == "NUM" and not floaty and want != "A":
            raise Shape("integer arithmetic on constants in `%s`" % ast.unparse(n))
        x, y = self.to_A(a, n.left), self.to_A(b, n.right)
        return V("%s %s %s" % (arg(x.t), sym, arg(y.t)), "A")

    def subscript(self, n):
        v = self.expr(n.value)
        k = const_num(n.slice)
        if float_lit(n.slice):
            raise Shape("`%s`: the index is written as a float" % ast.unparse(n))
        if isinstance(v.ty, tuple) and v.ty[0] == "X" and k in (0, 1):
            return V("%s.%d" % (arg(v.t), k + 1), v.ty[k + 1], True)
        if isinstance(v.ty, tuple) and v.ty[0] == "L":
            if k is not None:
                key = str(k) if k >= 0 else "(%d)" % k
            else:
                kv = self.expr(n.slice)
                if kv.ty != "Z":
                    raise Shape("`%s`: the index is not an integer (slices are outside the subset)" % ast.unparse(n))
                key = kv.t
            return self.hoist_opt("pyGet? %s %s" % (arg(v.t), key), self.err("IndexError"), v.ty[1])
        raise Shape("subscript `%s` is outside the subset" % ast.unparse(n))

    # -- calls
    def kwargs(self, n, names, what):
        """positional and keyword arguments of a call bound to the parameter names `names` (all must be given)"""
        if any(isinstance(a, ast.Starred) for a in n.args) or any(k.arg is None for k in n.keywords):
            raise Shape("`*args` / `**kwargs` in the call of %s" % what)
        if len(n.args) > len(names):
            raise Shape("too many arguments in the call of %s" % what)
        got = dict(zip(names, n.args))
        for k in n.keywords:
            if k.arg not in names or k.arg in got:
                raise Shape("argument `%s` in the call of %s" % (k.arg, what))
            got[k.arg] = k.value
        missing = [a for a in names if a not in got]
        if missing:
            raise Shape("the call of %s does not pass %s (defaults are outside the subset)" % (what, ", ".join(missing)))
        # evaluation order: as written (positional first, then keywords in source order)
        order = list(n.args) + [k.value for k in n.keywords]
        return got, order

    def eval_args(self, n, params, what):
        """-> Lean texts of the arguments, in parameter order, evaluated in source order"""
        names = [p for p, _ in params]
        got, order = self.kwargs(n, names, what)
        tys = dict(params)
        vals = {}
        for node in order:
            nm = next(a for a in names if got[a] is node)
            vals[nm] = self.expr(node, tys[nm])
        return [arg(vals[a].t) for a in names]

    def key_fn(self, node, elem_ty):
        """`itemgetter(k)` / `attrgetter("a")` as a Lean function on the element type"""
        if isinstance(node, ast.Call) and isinstance(node.func, ast.Name) and len(node.args) == 1 and not node.keywords:
            if node.func.id == "itemgetter":
                k = None if float_lit(node.args[0]) else const_num(node.args[0])
                if isinstance(elem_ty, tuple) and elem_ty[0] == "X" and k in (0, 1):
                    return "fun (it : %s) => it.%d" % (lty(elem_ty), k + 1), elem_ty[k + 1], lambda t: "%s.%d" % (t, k + 1)
            if node.func.id == "attrgetter" and isinstance(node.args[0], ast.Constant) and isinstance(node.args[0].value, str):
                a = node.args[0].value
                tab = ATTRS.get(elem_ty, {})
                if a in tab:
                    return "fun (it : %s) => it.%s" % (lty(elem_ty), tab[a][0]), tab[a][1], None
        raise Shape("key function `%s` is outside the subset" % ast.unparse(node))

    def call(self, n, want):
        d = dotted(n.func) if isinstance(n.func, (ast.Name, ast.Attribute)) else None
        f = n.func
        # method calls on a value: `X.m(…)`, `super().m(…)`, `(e).flatten()`
        if isinstance(f, ast.Attribute):
            if isinstance(f.value, ast.Call) and isinstance(f.value.func, ast.Name) and f.value.func.id == "super" \
                    and not f.value.args and not f.value.keywords:
                return self.super_call(f.attr, n)
            if isinstance(f.value, ast.Name) and f.value.id in self.env_all():
                recv = self.expr(f.value)
                if recv.ty in OBJ:
                    if f.attr == "compute_landscape":
                        raise Shape("`%s` is only translated as a statement" % ast.unparse(n))
                    return self.method_call(recv, f.attr, [(self.expr(a), a) for a in n.args], n, keywords=n.keywords, recv_py=f.value.id)
            if f.attr == "flatten" and not n.args and not n.keywords and self.cfg.get("flatten_param"):
                v = self.expr(f.value)
                if v.ty == "NU":
                    return V("%s %s" % (self.fp("flatten"), arg(v.t)), "NU")
        if d in ("np.array", "np.asarray", "list"):
            if len(n.args) != 1 or any(k.arg != "dtype" for k in n.keywords):
                raise Shape("`%s` is outside the subset" % ast.unparse(n))
            inner = n.args[0]
            if isinstance(inner, ast.Call) and dotted(inner.func) in ITER_FUNCS:
                if d != "list" or n.keywords:
                    raise Shape("`%s`: an iterator is made a list by `list(…)` only (`np.array` of an iterator is a 0-d object array)"
                                % ast.unparse(n))
                v = self.iter_value(inner)
            else:
                v = self.expr(inner, want if (isinstance(want, tuple) and want[0] == "L") else None)
            if not (isinstance(v.ty, tuple) and v.ty[0] == "L") and v.ty != "EMPTY":
                raise Shape("`%s`: the argument is not a list / array" % ast.unparse(n))
            # read as the identity on the VALUE: pinned with the function it stands in, its full text, the type of its argument
            self.ctx["conversions"].append("%s: %s : %s" % (self.ctx.get("cur_func", "?"), ast.unparse(n),
                                                            lty(v.ty) if v.ty != "EMPTY" else "[]"))
            return V(v.t, v.ty, v.atom)
        if d == "np.linspace":
            a = self.eval_args(n, [("start", "A"), ("stop", "A"), ("num", "N")], "np.linspace")
            return V("%s %s" % (self.fp("linspace"), " ".join(a)), LA)
        if d == "np.interp":
            a = self.eval_args(n, [("x", LA), ("xp", LA), ("fp", LA)], "np.interp")
            return V("interpEach %s %s" % (self.fp("interp"), " ".join(a)), LA)
        if d == "np.abs":
            if len(n.args) != 1 or n.keywords:
                raise Shape("`%s` is outside the subset" % ast.unparse(n))
            v = self.expr(n.args[0])
            ab = self.cfg["calls"].get("np.abs")
            if ab is None:
                raise Shape("`np.abs` has no Lean name in the table of %s" % self.cfg["lean"])
            if v.ty in ("A", "NUM", "SC", "N"):
                return V("%s %s" % (ab, arg(self.to_A(v, n.args[0]).t)), "A")
            if v.ty == LP:
                return V("%s.map fun q => (%s q.1, %s q.2)" % (arg(v.t), ab, ab), LP)
            if v.ty == LLA:
                return V("%s.map fun r => r.map fun v => %s v" % (arg(v.t), ab), LLA)
            raise Shape("`np.abs` of a value of type %s" % lty(v.ty))
        if d == "np.max":
            if len(n.args) != 1 or n.keywords:
                raise Shape("`%s` is outside the subset" % ast.unparse(n))
            v = self.expr(n.args[0], LLA)
            return self.hoist_opt("npMax %s.flatten" % arg(v.t), self.err("ValueError(empty)"), "A")
        if d == "np.sum":
            return self.np_sum(n)
        if d in ("min", "max"):
            if len(n.args) != 1 or [k.arg for k in n.keywords] != ["key"]:
                raise Shape("`%s` is outside the subset (min / max of one sequence with key=)" % ast.unparse(n))
            v = self.expr(n.args[0])
            if not (isinstance(v.ty, tuple) and v.ty[0] == "L"):
                raise Shape("`%s`: the argument is not a list" % ast.unparse(n))
            key, _, _ = self.key_fn(n.keywords[0].value, v.ty[1])
            return self.hoist_opt("%s (%s) %s" % ("pyMinBy" if d == "min" else "pyMaxBy", key, arg(v.t)),
                                  self.err("ValueError(empty)"), v.ty[1])
        if d == "len":
            if len(n.args) != 1 or n.keywords:
                raise Shape("`%s` is outside the subset" % ast.unparse(n))
            v = self.expr(n.args[0])
            if not (isinstance(v.ty, tuple) and v.ty[0] == "L"):
                raise Shape("`len` of a value of type %s" % lty(v.ty))
            return V("%s.length" % arg(v.t), "N", True)
        if d == "isinstance":
            if len(n.args) == 2 and dotted(n.args[1]) == "numbers.Real":
                v = self.expr(n.args[0])
                if v.ty == "SC":
                    return V("Scalar.isReal %s" % arg(v.t), "B")
            raise Shape("type test `%s` is outside the subset (only isinstance(x, numbers.Real) on a scalar operand)" % ast.unparse(n))
        if d in ITER_FUNCS:
            # an iterator (consumed once, no `len`, no indexing) is a list value only where it is consumed at once
            if self.iter_node is not n:
                raise Shape("`%s`: an iterator that is not wrapped in `list(…)` is only translated as the iterable of a loop / "
                            "comprehension" % ast.unparse(n))
            return self.iter_value(n)
        if d in self.cfg["ctors"]:
            return self.ctor_call(d, n)
        if d in self.ctx["funcs"]:
            return self.func_call(d, n)
        raise Shape("call `%s` is outside the subset" % ast.unparse(n))

    def iter_value(self, n):
        """`zip(a, b)`, `itertools.zip_longest(a, b)`, `itertools.chain.from_iterable(x)` as list values"""
        d = dotted(n.func)
        if n.keywords:
            raise Shape("`%s` is outside the subset" % ast.unparse(n))
        if d == "itertools.chain.from_iterable" and len(n.args) == 1:
            v = self.expr(n.args[0])
            if isinstance(v.ty, tuple) and v.ty[0] == "L" and isinstance(v.ty[1], tuple) and v.ty[1][0] == "L":
                return V("%s.flatten" % arg(v.t), v.ty[1], True)
        if d == "zip" and len(n.args) == 2 and not any(isinstance(a, ast.Starred) for a in n.args):
            a = self.expr(n.args[0])
            b1 = n.args[1]
            if isinstance(b1, ast.Subscript) and isinstance(b1.slice, ast.Slice) and const_num(b1.slice.lower) == 1 \
                    and b1.slice.upper is None and b1.slice.step is None and ast.unparse(b1.value) == ast.unparse(n.args[0]):
                if isinstance(a.ty, tuple) and a.ty[0] == "L":
                    return V("consecutive %s" % arg(a.t), L(X(a.ty[1], a.ty[1])))
            b = self.expr(b1)
            if all(isinstance(x.ty, tuple) and x.ty[0] == "L" for x in (a, b)):
                return V("%s.zip %s" % (arg(a.t), arg(b.t)), L(X(a.ty[1], b.ty[1])))
        if d == "itertools.zip_longest" and len(n.args) == 2:
            a, b = self.expr(n.args[0]), self.expr(n.args[1])
            if all(isinstance(x.ty, tuple) and x.ty[0] == "L" for x in (a, b)):
                return V("zipLongest %s %s" % (arg(a.t), arg(b.t)), L(("TH", a.ty[1], b.ty[1])))
        raise Shape("`%s` is outside the subset" % ast.unparse(n))

    def np_sum(self, n):
        """the idiom `np.sum(np.array(C) * np.array(P))`"""
        ok = len(n.args) == 1 and not n.keywords and isinstance(n.args[0], ast.BinOp) and isinstance(n.args[0].op, ast.Mult)
        if ok:
            l, r = n.args[0].left, n.args[0].right
            ok = all(isinstance(x, ast.Call) and dotted(x.func) == "np.array" and len(x.args) == 1 and not x.keywords for x in (l, r))
        if not ok:
            raise Shape("`%s` is outside the subset (only np.sum(np.array(C) * np.array(P)))" % ast.unparse(n))
        c, p = self.expr(l.args[0], L("SC")), self.expr(r.args[0])
        if p.ty != L("GO"):
            raise Shape("`%s`: the second factor is not a list of grid landscapes" % ast.unparse(n))
        rm, ad = self.ctx["methods"].get(("GO", "__rmul__")), self.ctx["methods"].get(("GO", "__add__"))
        if rm is None or ad is None:
            raise Shape("internal: __rmul__ / __add__ are not translated in this file")
        for q in rm["fparams"] + ad["fparams"]:
            self.fp(q)
        text = "npSumProducts %s %s %s %s %s %s" % (
            self.err("broadcast"), self.err("notLandscape"), arg(" ".join([rm["lean"]] + rm["fparams"])),
            arg(" ".join([ad["lean"]] + ad["fparams"])), arg(c.t), arg(p.t))
        return self.hoist_exc(text, "GO")

    def ctor_call(self, d, n):
        spec = self.cfg["ctors"][d]
        if n.args:
            raise Shape("positional arguments in the constructor call `%s`" % ast.unparse(n))
        kws = [k.arg for k in n.keywords]
        if sorted(kws) != sorted(p for p, _ in spec["params"]):
            raise Shape("the constructor call `%s` passes %s; the translator reads %s only with exactly the keywords %s"
                        % (ast.unparse(n)[:80], sorted(kws), d, sorted(p for p, _ in spec["params"])))
        a = self.eval_args(n, spec["params"], d)
        for q in spec.get("fparams", []):
            self.fp(q)
        text = spec["lean"] % tuple(a) if "%s" in spec["lean"] else "%s %s" % (spec["lean"], " ".join(a))
        if spec.get("raising", True):
            return self.hoist_exc(text, spec["ret"])
        return V(text, spec["ret"])

    def func_call(self, d, n):
        spec = self.ctx["funcs"][d]
        a = self.eval_args(n, spec["params"], d)
        for q in spec["fparams"]:
            self.fp(q)
        text = " ".join([spec["lean"]] + spec["fparams"] + a)
        if spec["raising"]:
            return self.hoist_exc(text, spec["ret"])
        return V(text, spec["ret"])

    def method_call(self, recv, m, args, node, keywords=(), recv_py=None):
        spec = self.ctx["methods"].get((recv.ty, m))
        if spec is None:
            raise Shape("`%s`: the method %s of %s has no translation in this file" % (ast.unparse(node)[:80], m, lty(recv.ty)))
        params = spec["params"]
        if keywords:
            names = [p for p, _ in params]
            got = dict(zip(names, [a for a, _ in args]))
            for k in keywords:
                if k.arg not in names or k.arg in got:
                    raise Shape("argument `%s` in the call of %s" % (k.arg, m))
                got[k.arg] = self.expr(k.value)
            if len(got) != len(names):
                raise Shape("the call `%s` does not pass every parameter" % ast.unparse(node))
            vals = [(got[a], None) for a in names]
        else:
            vals = list(args)
        if len(vals) != len(params):
            raise Shape("`%s`: %d arguments for %s" % (ast.unparse(node)[:80], len(vals), m))
        texts = [arg(self.coerce(v, ty, nd).t) for (v, nd), (_, ty) in zip(vals, params)]
        for q in spec["fparams"]:
            self.fp(q)
        text = " ".join([spec["lean"]] + spec["fparams"] + [arg(recv.t)] + texts)
        ret = X(recv.ty, spec["ret"]) if spec["threads"] else spec["ret"]
        v = self.hoist_exc(text, ret) if spec["raising"] else V(text, ret)
        if spec["threads"]:
            if not v.atom:                                       # bind the pair once
                nm = self.fresh("t", synthetic=True)
                self.pre.append(("let", nm, v.t, lty(ret)))
                v = V(nm, ret, True)
            if recv_py is None:
                raise Shape("`%s`: a method that returns its receiver is called on an expression" % ast.unparse(node)[:80])
            self.pre.append(("let", self.bind(recv_py, recv.ty), "%s.1" % v.t, lty(recv.ty)))
            return V("%s.2" % v.t, spec["ret"], True)
        return v

    def super_call(self, m, n):
        spec = self.ctx["methods"].get(("BASE", m))
        cls = self.cfg.get("cls")
        if spec is None or cls is None:
            raise Shape("`%s`: the base-class method has no translation in this file" % ast.unparse(n)[:80])
        recv = self.expr(ast.Name(id="self", ctx=ast.Load()))
        names = [p for p, _ in spec["params"]]
        got, order = self.kwargs(n, names, "super().%s" % m)
        tys = dict(spec["params"])
        texts = [arg(self.expr(got[a], tys[a]).t) for a in names]
        virt = []
        for vname in spec.get("virtuals", []):
            if vname == "compute_landscape":
                self.fp(COMPUTE_FP[cls])
                virt.append(arg(COMPUTE[cls]))
            else:
                ms = self.ctx["methods"].get((cls, vname))
                if ms is None:
                    raise Shape("`%s`: the method %s that the base class calls on self is not translated in this file" % (ast.unparse(n)[:60], vname))
                for q in ms["fparams"]:
                    self.fp(q)
                virt.append(arg(" ".join([ms["lean"]] + ms["fparams"])))
        for q in spec["fparams"]:
            if q not in spec.get("virtuals", []):
                self.fp(q)
        text = " ".join([spec["lean"]] + virt + [arg(recv.t)] + texts)
        ret = X(recv.ty, spec["ret"]) if spec["threads"] else spec["ret"]
        v = self.hoist_exc(text, ret) if spec["raising"] else V(text, ret)
        if spec["threads"]:
            self.pre.append(("let", self.bind("self", recv.ty), "%s.1" % v.t, lty(recv.ty)))
            return V("%s.2" % v.t, spec["ret"], True)
        return v

    # -- comprehensions
    def listcomp(self, n, want):
        if len(n.generators) != 1 or n.generators[0].ifs or n.generators[0].is_async:
            raise Shape("comprehension `%s` is outside the subset" % ast.unparse(n)[:80])
        g = n.generators[0]
        self.iter_node = g.iter
        src = self.expr(g.iter)
        self.iter_node = None
        if not (isinstance(src.ty, tuple) and src.ty[0] == "L"):
            raise Shape("comprehension over `%s`, which is not a list" % ast.unparse(g.iter))
        ety = src.ty[1]
        names = target_names(g.target)
        if names is None:
            raise Shape("comprehension target `%s`" % ast.unparse(g.target))
        sub = Tr(self.cfg, self.ctx, "elem")
        sub.outer, sub.count, sub.used = self, dict(self.count), set(self.used)
        if isinstance(g.target, ast.Name):
            var = "_" if names[0] == "_" else sub.bind(names[0], ety)
        else:
            if not (isinstance(ety, tuple) and ety[0] == "X" and len(names) == 2):
                raise Shape("comprehension target `%s` on elements of type %s" % (ast.unparse(g.target), lty(ety)))
            var = sub.fresh("_".join(names), synthetic=True)
            for nm_ in names:
                self.not_spelled(nm_)
            sub.env[names[0]], sub.env[names[1]] = ("%s.1" % var, ety[1]), ("%s.2" % var, ety[2])
        wanted = want[1] if isinstance(want, tuple) and want[0] == "L" else None
        elt = sub.expr(n.elt, wanted) if wanted in ("SC",) else sub.expr(n.elt)
        if elt.ty == "NUM":
            elt = sub.to_A(elt)
        pre = sub.take_pre()
        if not pre:
            for py in sub.reads:
                self.lookup(py)
            # names of the enclosing definition are in scope of the lambda: use their current Lean names
            text = elt.t
            for py in sub.reads:
                inner, outer = sub.env[py][0], self.lookup(py)[0]
                if inner != outer:
                    text = replace_ident(text, inner, outer)
            return V("%s.map fun %s => %s" % (arg(src.t), var, text), L(elt.ty))
        # the element can raise: its own definition, `mapM`
        if any(k == "let" for k, *_ in pre):
            raise Shape("a method that returns its receiver is called inside a comprehension")
        name = "%s_elem" % self.cfg["lean"]
        reads = sorted(sub.reads, key=lambda py: list(self.env_all_ordered()).index(py))
        binders = " ".join("(%s : %s)" % (sub.read_names[py][0], lty(sub.read_names[py][1])) for py in reads)
        node = Tr.with_pre(pre, Ret(elt.t))
        check_live(node, name, self.cfg.get("dead_ok", ()))
        fps = [q for q in self.cfg["fparams"] if q in sub.used_f]
        fb = " ".join("(%s : %s)" % (q, FP_TY[q]) for q in fps)
        self.ctx["defs"].append((name, "/-- the element `%s` of the comprehension of `%s` -/\ndef %s %s(%s : %s) :\n    Except Err %s :=\n%s"
                                 % (ast.unparse(n.elt), self.cfg["func"], name, (fb + " " if fb else "") + (binders + " " if binders else ""),
                                    var, lty(ety), lty(elt.ty, False), "\n".join(render(node, "  ", True)))))
        call = " ".join([name] + fps + [self.lookup(py)[0] for py in reads])
        return self.hoist_exc("%s.mapM %s" % (arg(src.t), arg(call)), L(elt.ty))

    def env_all_ordered(self):
        out = list(self.outer.env_all_ordered()) if self.outer is not None else []
        return out + [k for k in self.env if k not in out]


def replace_ident(text, old, new):
    import re
    return re.sub(r"(?<![\w.])%s(?![\w'])" % re.escape(old), new, text)


# ----------------------------------------------------------------------------- statements

class StTr(Tr):
    """statement level: blocks, loops, the definition of one function"""

    def ret_value(self, v):
        """what `return v` returns in this definition"""
        cfg = self.cfg
        if cfg.get("threads") and self.kind == "function":
            return "(%s, %s)" % (self.lookup("self")[0], v.t)
        return v.t

    def block(self, stmts):
        if not stmts:
            return self.fall_off()
        s, rest = stmts[0], stmts[1:]
        if isinstance(s, ast.Pass):
            return self.block(rest)
        if isinstance(s, ast.Return):
            if any(not isinstance(x, ast.Pass) for x in rest):
                raise Shape("statements after `return` (line %d)" % s.lineno)
            return self.ret(s)
        if isinstance(s, ast.Raise):
            return Fail(self.raise_err(s))
        if isinstance(s, ast.Assign):
            return self.assign(s, rest)
        if isinstance(s, ast.AugAssign):
            return self.augassign(s, rest)
        if isinstance(s, ast.Expr):
            return self.expr_stmt(s, rest)
        if isinstance(s, ast.If):
            return self.if_stmt(s, rest)
        if isinstance(s, ast.For):
            return self.for_stmt(s, rest)
        raise Shape("statement `%s` is outside the subset" % ast.unparse(s).split("\n")[0])

    def fall_off(self):
        """the end of the function body (`return None`) / of a loop body (the carried value)"""
        if self.kind == "round":
            return Ret(self.lookup(self.carried)[0])
        rt = self.cfg["ret"]
        if rt == "U":
            return Ret(self.ret_value(V("()", "U", True)))
        if isinstance(rt, tuple) and rt[0] == "O":
            return Ret(self.ret_value(V("none", rt, True)))
        raise Shape("a path through %s ends without `return`" % self.cfg["func"])

    def raise_err(self, s):
        text = ast.unparse(s)
        self.ctx["raises"].append(text)
        e = self.cfg["raises"].get(text)
        if e is None:
            raise Shape("`%s` has no error value in the translator's table (the reviewed texts are %s)" % (text, sorted(self.cfg["raises"])))
        return e

    def ret(self, s):
        if self.kind == "round":
            raise Shape("`return` inside a loop")
        if s.value is None or is_none(s.value):
            return self.fall_off()
        rt = self.cfg["ret"]
        v = self.expr(s.value)
        if isinstance(rt, tuple) and rt[0] == "O" and v.ty == rt[1]:
            v = V("some %s" % arg(v.t), rt)
        v = self.coerce(v, rt, s.value)
        return Tr.with_pre(self.take_pre(), Ret(self.ret_value(v)))

    def bind_value(self, py, v):
        ty = v.ty
        if ty == "NUM":
            ty = self.cfg.get("local_types", {}).get(py, "A")
            v = self.coerce(v, ty)
        if ty == "EMPTY":
            ty = self.cfg.get("local_types", {}).get(py)
            if ty is None:
                raise Shape("the element type of the empty list `%s` is not in the table" % py)
            v = V("[]", ty, True)
        nm = self.bind(py, ty)
        return nm, lty(ty), v.t

    def assign(self, s, rest):
        if len(s.targets) != 1:
            raise Shape("chained assignment `%s`" % ast.unparse(s))
        t = s.targets[0]
        if isinstance(t, ast.Name):
            v = self.expr(s.value)
            # ALIASING: mutable values are translated as VALUES; `y = x` makes one object reachable under two names
            if is_mutable(v.ty) and is_ref(s.value):
                raise Shape("aliasing: `%s` gives a second name to a mutable value (a list / array / landscape object); values are "
                            "translated without aliasing" % ast.unparse(s))
            pre = self.take_pre()
            nm, ty, text = self.bind_value(t.id, v)
            self.owned.add(t.id)                   # bound to a value that this statement made: in-place operations are allowed
            return Tr.with_pre(pre, Let(nm, ty, text, self.block(rest)))
        if isinstance(t, (ast.Tuple, ast.List)) and len(t.elts) == 2 and all(isinstance(e, ast.Name) for e in t.elts):
            a, b = t.elts[0].id, t.elts[1].id
            val = s.value
            # xs, ys = zip(*depth)
            if isinstance(val, ast.Call) and dotted(val.func) == "zip" and len(val.args) == 1 and isinstance(val.args[0], ast.Starred) \
                    and not val.keywords:
                d = self.expr(val.args[0].value)
                if d.ty != LP:
                    raise Shape("`%s`: only a list of pairs can be unzipped" % ast.unparse(s))
                pre = self.take_pre()
                na, nb = self.bind(a, LA), self.bind(b, LA)
                body = Let(na, lty(LA), "%s.map fun q => q.1" % arg(d.t), Let(nb, lty(LA), "%s.map fun q => q.2" % arg(d.t), self.block(rest)))
                return Tr.with_pre(pre, Ite("%s.isEmpty" % arg(d.t), Fail(self.err("ValueError(unpack)")), body))
            v = self.expr(val)
            if not (isinstance(v.ty, tuple) and v.ty[0] == "X"):
                raise Shape("`%s`: the value is not a pair" % ast.unparse(s))
            if is_ref(val) and (is_mutable(v.ty[1]) or is_mutable(v.ty[2])):
                raise Shape("aliasing: `%s` gives second names to mutable values" % ast.unparse(s))
            self.owned -= {a, b}
            pre = self.take_pre()
            if v.atom:
                tn, wrap = v.t, (lambda x: x)
            else:
                tn = self.fresh("t", synthetic=True)
                wrap = (lambda x, tn=tn, v=v: Let(tn, lty(v.ty), v.t, x))
            na = self.bind(a, v.ty[1])
            nb = self.bind(b, v.ty[2])
            return Tr.with_pre(pre, wrap(Let(na, lty(v.ty[1]), "%s.1" % tn, Let(nb, lty(v.ty[2]), "%s.2" % tn, self.block(rest)))))
        raise Shape("assignment target `%s` is outside the subset" % ast.unparse(t))

    def augassign(self, s, rest):
        if not isinstance(s.target, ast.Name):
            raise Shape("`%s` is outside the subset" % ast.unparse(s))
        v = self.expr(ast.BinOp(left=ast.Name(id=s.target.id, ctx=ast.Load()), op=s.op, right=s.value))
        if v.ty not in ("A", "N", "Z", "NUM") or self.lookup(s.target.id)[1] not in ("A", "N", "Z"):
            raise Shape("`%s`: an augmented assignment is only translated on numbers (on an array it works in place)" % ast.unparse(s))
        pre = self.take_pre()
        nm, ty, text = self.bind_value(s.target.id, v)
        return Tr.with_pre(pre, Let(nm, ty, text, self.block(rest)))

    def expr_stmt(self, s, rest):
        c = s.value
        if isinstance(c, ast.Call) and isinstance(c.func, ast.Attribute) and isinstance(c.func.value, ast.Name):
            obj, m = c.func.value.id, c.func.attr
            if m == "compute_landscape" and obj in self.env_all() and not c.args and not c.keywords:
                nm, ty = self.lookup(obj, c)
                if ty not in COMPUTE:
                    raise Shape("`%s`: not a landscape object" % ast.unparse(s))
                self.fp(COMPUTE_FP[ty])
                if self.outer is not None and obj not in self.env:
                    raise Shape("internal: compute_landscape on a name of the enclosing definition inside a loop")
                new = self.bind(obj, ty)
                return Let(new, lty(ty), "%s %s" % (COMPUTE[ty], nm), self.block(rest))
            if m == "append" and obj in self.env_all() and len(c.args) == 1 and not c.keywords:
                nm, ty = self.lookup(obj, c)
                if not (isinstance(ty, tuple) and ty[0] == "L"):
                    raise Shape("`%s`: append to a value of type %s" % (ast.unparse(s), lty(ty)))
                if obj not in self.owned:
                    raise Shape("aliasing: `%s` works in place on `%s`, which does not own its value (it is not bound by an assignment "
                                "of this function to a value made there, or it has been stored elsewhere since)" % (ast.unparse(s), obj))
                v = self.expr(c.args[0], ty[1])
                if isinstance(c.args[0], ast.Name):
                    self.owned.discard(c.args[0].id)                 # stored in the list now: no longer its only owner
                elif is_mutable(v.ty) and is_ref(c.args[0]):
                    raise Shape("aliasing: `%s` stores a mutable value that is already stored elsewhere" % ast.unparse(s))
                pre = self.take_pre()
                nm, ty = self.lookup(obj, c)
                new = self.bind(obj, ty)
                return Tr.with_pre(pre, Let(new, lty(ty), "%s ++ [%s]" % (nm, v.t), self.block(rest)))
        if isinstance(c, ast.Call):
            v = self.expr(c)                      # a call for its effect: guards / the receiver; the value is dropped
            pre = self.take_pre()
            if pre and pre[-1][0] == "exc" and pre[-1][1] == v.t:
                pre[-1] = ("exc", "_", pre[-1][2], None)
            if not pre:
                raise Shape("the statement `%s` leaves no trace in the translation (evaluated and discarded)" % ast.unparse(s))
            return Tr.with_pre(pre, self.block(rest))
        raise Shape("expression statement `%s` is outside the subset" % ast.unparse(s))

    # -- conditions
    def cond(self, test):
        """-> (Lean text, 'prop' | 'bool')"""
        if isinstance(test, ast.BoolOp):
            parts = [self.cond(v) for v in test.values]
            sym = " ∨ " if isinstance(test.op, ast.Or) else " ∧ "
            return sym.join(("(%s)" % t if isinstance(v, (ast.BoolOp,)) or (isinstance(v, ast.Compare) and len(v.ops) > 1) else t)
                            for (t, _), v in zip(parts, test.values)), "prop"
        if isinstance(test, ast.UnaryOp) and isinstance(test.op, ast.Not):
            t, k = self.cond(test.operand)
            return ("!(%s)" % t, "bool") if k == "bool" else ("¬ (%s)" % t, "prop")
        if isinstance(test, ast.Compare):
            items = [test.left] + list(test.comparators)
            out = []
            for a, op, b in zip(items, test.ops, items[1:]):
                out.append(self.compare(a, op, b))
            return " ∧ ".join(out), ("prop" if len(out) > 1 or not out[0].startswith("Scalar.eqZero") else "bool")
        v = self.expr(test)
        if v.ty == "B":
            return v.t, "bool"
        raise Shape("condition `%s` is outside the subset (truthiness of a value of type %s)" % (ast.unparse(test), lty(v.ty) if v.ty not in ("NUM", "EMPTY") else v.ty))

    def compare(self, a, op, b):
        va, vb = self.expr(a), self.expr(b)
        if self.pre:
            raise Shape("a raising expression inside a condition")
        if va.ty == "SC" and const_num(b) == 0 and isinstance(op, ast.Eq):
            return "Scalar.eqZero %s" % arg(va.t)
        if va.ty in ("N", "Z") or vb.ty in ("N", "Z"):
            ty = va.ty if va.ty in ("N", "Z") else vb.ty
            va, vb = self.coerce(va, ty, a), self.coerce(vb, ty, b)
            beq = False
        else:
            va, vb = self.to_A(va, a), self.to_A(vb, b)
            beq = self.cfg.get("beq", False)
        if self.pre:
            raise Shape("a value that is not a number inside a condition")
        x, y = va.t, vb.t
        if isinstance(op, ast.Eq):
            return "%s == %s" % (x, y) if beq else "%s = %s" % (x, y)
        if isinstance(op, ast.NotEq):
            return "!(%s == %s)" % (x, y) if beq else "%s ≠ %s" % (x, y)
        if isinstance(op, ast.Lt):
            return "%s < %s" % (x, y)
        if isinstance(op, ast.Gt):
            return "%s < %s" % (y, x)
        if isinstance(op, ast.LtE):
            return "%s ≤ %s" % (x, y)
        if isinstance(op, ast.GtE):
            return "%s ≤ %s" % (y, x)
        raise Shape("comparison `%s` is outside the subset" % ast.unparse(ast.Compare(left=a, ops=[op], comparators=[b])))

    @staticmethod
    def terminal(stmts):
        """does the block always leave the function (raise / return)?"""
        return bool(stmts) and isinstance(stmts[-1], (ast.Raise, ast.Return))

    def if_stmt(self, s, rest):
        t = s.test
        # `if x is None: x = e` on an optional parameter
        if isinstance(t, ast.Compare) and len(t.ops) == 1 and isinstance(t.ops[0], ast.Is) and is_none(t.comparators[0]) \
                and isinstance(t.left, ast.Name):
            x = t.left.id
            nm, ty = self.lookup(x, t)
            if isinstance(ty, tuple) and ty[0] == "O" and not s.orelse and len(s.body) == 1 and isinstance(s.body[0], ast.Assign) \
                    and len(s.body[0].targets) == 1 and isinstance(s.body[0].targets[0], ast.Name) and s.body[0].targets[0].id == x:
                inner_ty = ty[1]
                jn = self.fresh(x)
                saved = dict(self.env)
                v = self.expr(s.body[0].value, inner_ty)
                pre = self.take_pre()
                self.env = saved
                vn = self.fresh(x)
                none = Tr.with_pre(pre, Let(vn, lty(inner_ty), v.t, Ret(vn)))
                if not pre:
                    none = Ret(v.t)
                some = Ret(vn)
                out = self.bind(x, inner_ty)
                return Join(jn, lty(inner_ty), MatchOpt(nm, vn, some, none), out, self.block(rest))
            raise Shape("`%s`: a None test is only translated as `if x is None: x = e` on an optional parameter" % ast.unparse(t))
        c, _ = self.cond(t)
        if self.terminal(s.body) and not s.orelse:
            saved, cnt = dict(self.env), None
            a = self.block(s.body)
            self.env = saved
            return Ite(c, a, self.block(rest))
        if s.orelse and self.terminal(s.body) and self.terminal(s.orelse) and not [x for x in rest if not isinstance(x, ast.Pass)]:
            saved = dict(self.env)
            a = self.block(s.body)
            self.env = dict(saved)
            b = self.block(s.orelse)
            return Ite(c, a, b)
        raise Shape("`if %s` is outside the subset (a branch that falls through and assigns)" % ast.unparse(t))

    # -- loops
    def for_stmt(self, s, rest):
        if s.orelse:
            raise Shape("`for … else`")
        # the iterable
        it = s.iter
        pre_lets = []
        if isinstance(it, ast.Name) and it.id in self.env_all() and self.lookup(it.id)[1] == "GO":
            nm, ty = self.lookup(it.id)
            self.fp(COMPUTE_FP["GO"])
            new = self.bind(it.id, "GO")
            pre_lets.append((new, lty("GO"), "%s %s" % (COMPUTE["GO"], nm)))
            src = V("%s.values" % new, LLA, True)
        else:
            self.iter_node = it
            src = self.expr(it)
            self.iter_node = None
        if self.pre:
            raise Shape("a raising expression as the iterable of a loop")
        if not (isinstance(src.ty, tuple) and src.ty[0] == "L"):
            raise Shape("loop over `%s`, which is not a list" % ast.unparse(it))
        ety = src.ty[1]
        # the carried name: the one name of the enclosing definition that the body re-assigns
        assigned = []
        for st in ast.walk(ast.Module(body=s.body, type_ignores=[])):
            tg = []
            if isinstance(st, ast.Assign):
                tg = [n for t in st.targets for n in (target_names(t) or [])]
            elif isinstance(st, ast.AugAssign) and isinstance(st.target, ast.Name):
                tg = [st.target.id]
            elif isinstance(st, ast.For):
                tg = target_names(st.target) or []
            elif isinstance(st, ast.Expr) and isinstance(st.value, ast.Call) and isinstance(st.value.func, ast.Attribute) \
                    and st.value.func.attr == "append" and isinstance(st.value.func.value, ast.Name):
                tg = [st.value.func.value.id]
            for n in tg:
                if n not in assigned:
                    assigned.append(n)
        carried = [n for n in assigned if n in self.env_all()]
        if len(carried) != 1:
            raise Shape("the loop `for %s in …` re-assigns %s of the enclosing definition (exactly one name is carried)" % (ast.unparse(s.target), carried))
        carried = carried[0]
        cnm, cty = self.lookup(carried)
        self.ctx["loopno"][0] += 1
        k = self.ctx["loopno"][0]
        rname = "%s_round%s" % (self.cfg["lean"], "" if k == 1 else "_%d" % k)
        sub = StTr(self.cfg, self.ctx, "round")
        sub.outer, sub.carried = self, carried
        if carried in self.owned:
            sub.owned.add(carried)
        names = target_names(s.target)
        if names is None:
            raise Shape("loop target `%s`" % ast.unparse(s.target))
        # the loop variables live in the round definition only: in Python they keep their last value behind the loop, so a variable
        # that is a name of the enclosing definition (read behind the loop it would be the OLD value here) is outside the subset;
        # a variable that is not is unbound behind the loop (a read there is refused)
        for n in names:
            self.not_spelled(n)
            if n != "_" and n in self.env_all():
                raise Shape("the loop variable `%s` of `for %s in …` is a name that is bound before the loop" % (n, ast.unparse(s.target)))
        if len(set(names)) != len(names) or carried in names:
            raise Shape("loop target `%s`" % ast.unparse(s.target))
        sub.env[carried] = (sub.fresh(carried), cty)
        carried_binder = sub.env[carried][0]
        var = sub.fresh("_".join(names), synthetic=len(names) > 1)
        body_stmts = list(s.body)
        lets = []
        if isinstance(s.target, ast.Name):
            sub.env[names[0]] = (var, ety)
        elif isinstance(ety, tuple) and ety[0] == "TH" and len(names) == 2:
            pass                                         # bound by the match on the three shapes
        else:
            def destruct(t, text, ty):
                if isinstance(t, ast.Name):
                    nm = sub.bind(t.id, ty)
                    lets.append((nm, lty(ty), text))
                    return
                if not (isinstance(ty, tuple) and ty[0] == "X" and len(t.elts) == 2):
                    raise Shape("loop target `%s` on elements of type %s" % (ast.unparse(s.target), lty(ety)))
                destruct(t.elts[0], text + ".1", ty[1])
                destruct(t.elts[1], text + ".2", ty[2])
            destruct(s.target, var, ety)
        region = self.cfg.get("region_body")
        if region is not None and region["loop_var"] == names:
            node = sub.region_statement(s, region)
        elif isinstance(ety, tuple) and ety[0] == "TH":
            node = sub.these_body(s, var, names, ety)
        else:
            node = sub.block(body_stmts)
        for nm, ty, text in reversed(lets):
            node = Let(nm, ty, text, node)
        raising = can_fail(node)
        check_live(node, rname, self.cfg.get("dead_ok", ()))
        reads = sorted([py for py in sub.reads if py != carried], key=lambda py: self.env_all_ordered().index(py))
        fps = [q for q in self.cfg["fparams"] if q in sub.used_f]
        binders = ["(%s : %s)" % (q, FP_TY[q]) for q in fps] + ["(%s : %s)" % (sub.read_names[py][0], lty(sub.read_names[py][1])) for py in reads] \
            + ["(%s : %s)" % (carried_binder, lty(cty)), "(%s : %s)" % (var, lty(ety))]
        res = ("Except Err %s" % lty(cty, False)) if raising else lty(cty)
        self.ctx["defs"].append((rname, "/-- one round of `for %s in %s` of `%s` -/\ndef %s %s :\n    %s :=\n%s"
                                 % (ast.unparse(s.target), ast.unparse(s.iter), self.cfg["func"], rname, " ".join(binders), res,
                                    "\n".join(render(node, "  ", raising)))))
        call = " ".join([rname] + fps + [self.lookup(py)[0] for py in reads])
        cnm, cty = self.lookup(carried)
        new = self.bind(carried, cty)
        if raising:
            out = BindExc("%s.foldlM %s %s" % (arg(src.t), arg(call), cnm), new, self.block(rest))
        else:
            out = Let(new, lty(cty), "%s.foldl %s %s" % (arg(src.t), arg(call), cnm), self.block(rest))
        for nm, ty, text in reversed(pre_lets):
            out = Let(nm, ty, text, out)
        return out

    def these_body(self, s, var, names, ety):
        """`if a is None: … elif b is None: … else: …` on the element `(a, b)` of `zip_longest`"""
        a, b = names
        body = [x for x in s.body if not isinstance(x, ast.Pass)]

        def none_test(t, nm):
            return isinstance(t, ast.Compare) and len(t.ops) == 1 and isinstance(t.ops[0], ast.Is) and is_none(t.comparators[0]) \
                and isinstance(t.left, ast.Name) and t.left.id == nm
        ok = len(body) == 1 and isinstance(body[0], ast.If) and none_test(body[0].test, a) and len(body[0].orelse) == 1 \
            and isinstance(body[0].orelse[0], ast.If) and none_test(body[0].orelse[0].test, b) and body[0].orelse[0].orelse
        if not ok:
            raise Shape("the body of the loop over zip_longest is not `if %s is None: … elif %s is None: … else: …`" % (a, b))
        i1, i2 = body[0], body[0].orelse[0]
        saved, cnt, usd = dict(self.env), dict(self.count), set(self.used)
        out = []
        for stmts, bound in ((i1.body, [(b, ety[2])]), (i2.body, [(a, ety[1])]), (i2.orelse, [(a, ety[1]), (b, ety[2])])):
            self.env, self.count, self.used = dict(saved), dict(cnt), set(usd)         # three arms of one `match`: separate scopes
            nms = [self.bind(py, ty) for py, ty in bound]
            out.append((nms, self.block(stmts)))
        self.env = saved
        return MatchThese(var, out[0], out[1], out[2])

    def region_statement(self, s, region):
        """the body of the inner loop of `_p_norm` is the region translated by py2lean.py: one statement `result += <segment>`"""
        from . import py2lean as _base
        cfgs = [c for c in _base.TARGETS if c["file"] == region["key"] and c["lean"] == region["lean"]]
        fn = self.ctx["fn_nodes"].get(self.cfg["func"])
        if not cfgs or fn is None:
            raise Shape("internal: region %s" % region["lean"])
        reg = _base.find_region(cfgs[0], fn)
        stmts = reg[0] if isinstance(reg, tuple) else reg
        if [id(x) for x in stmts] != [id(x) for x in s.body]:
            raise Shape("the body of `for %s in …` is not exactly the region `%s` that py2lean.py translates" % (ast.unparse(s.target), region["lean"]))
        for q in region["fparams"]:
            self.fp(q)
        args = [self.lookup(py)[0] for py in region["args"]]
        cnm, cty = self.lookup(self.carried)
        new = self.bind(self.carried, cty)
        return Let(new, lty(cty), "%s + %s" % (cnm, " ".join([region["lean"]] + region["fparams"] + args)), Ret(new))


# ----------------------------------------------------------------------------- one target

def find_function(tree, qual):
    """(FunctionDef | None, ClassDef | None) of `f` / `Class.m` (plain methods; the abstract methods of the base class too)"""
    if "." not in qual:
        for n in tree.body:
            if isinstance(n, ast.FunctionDef) and n.name == qual:
                return n, None
        return None, None
    cls, name = qual.split(".")
    for n in tree.body:
        if isinstance(n, ast.ClassDef) and n.name == cls:
            for m in n.body:
                if isinstance(m, ast.FunctionDef) and m.name == name and \
                        all(isinstance(d, ast.Name) and d.id == "abstractmethod" for d in m.decorator_list):
                    return m, n
            return None, n
    return None, None


def py_identifiers(fn):
    """every identifier of the Python function: names, parameters, keyword names, attribute names"""
    out = set()
    for n in ast.walk(fn):
        if isinstance(n, ast.Name):
            out.add(n.id)
        elif isinstance(n, ast.arg):
            out.add(n.arg)
        elif isinstance(n, (ast.FunctionDef, ast.ClassDef)):
            out.add(n.name)
        elif isinstance(n, (ast.Global, ast.Nonlocal)):
            out.update(n.names)
        elif isinstance(n, ast.Attribute) and isinstance(n.value, ast.Name):
            out.add("%s_%s" % (n.value.id, n.attr))
    return out


def translate(fn, cfg, ctx):
    """-> list of (name, Lean definition text): the loop / element definitions first"""
    a = fn.args
    if a.vararg or a.kwarg or a.kwonlyargs or a.posonlyargs:
        raise Shape("signature of %s is outside the subset" % fn.name)
    names = [x.arg for x in a.args]
    if names != list(cfg["params"]):
        raise Shape("parameters of %s are %s, the translator's table has %s" % (fn.name, names, list(cfg["params"])))
    ctx["pyidents"] = py_identifiers(fn)
    ctx["cur_func"] = cfg["func"]
    tr = StTr(cfg, ctx)
    ctx["loopno"] = [0]
    n0 = len(ctx["defs"])
    binders = ["(%s : %s)" % (q, FP_TY[q]) for q in cfg["fparams"]]
    for py in names:
        nm = tr.bind(py, cfg["params"][py])
        binders.append("(%s : %s)" % (nm, lty(cfg["params"][py])))
    node = tr.block(strip_doc(fn.body))
    if tr.pre:
        raise Shape("internal: pending guards")
    check_live(node, cfg["lean"], cfg.get("dead_ok", ()))
    raising = can_fail(node)
    if raising != cfg["raising"]:
        raise Shape("%s %s raise; the translator's table says it %s" % (cfg["func"], "can" if raising else "cannot",
                                                                       "cannot" if raising else "can"))
    rt = cfg["ret"]
    if cfg.get("threads"):
        rt = X(cfg["params"]["self"], rt)
    res = ("Except Err %s" % lty(rt, False)) if raising else lty(rt)
    defs = list(ctx["defs"][n0:])
    del ctx["defs"][n0:]
    defs.append((cfg["lean"], "/-- %s -/\ndef %s %s%s :\n    %s :=\n%s" % (cfg["doc"], cfg["lean"], cfg.get("extra_binders", ""), " ".join(binders), res,
                                                                     "\n".join(render(node, "  ", raising)))))
    return defs


# ----------------------------------------------------------------------------- targets (fixed; reviewed against the models)

PLA_VARS = ("{α β : Type} [Add α] [Sub α] [Mul α] [Div α] [Neg α] [Zero α] [One α] [LT α] [DecidableLT α]\n"
            "  [LE α] [DecidableLE α] [Max α] [Min α] [DecidableEq α] [NatCast α]")
PN_VARS = ("{α β : Type} [Add α] [Sub α] [Mul α] [Div α] [Neg α] [Zero α] [One α] [LT α] [DecidableLT α]\n"
           "  [BEq α] [OfNat α 2] [Max α]")
APX_VARS = ("{α β : Type} [Add α] [Sub α] [Mul α] [Div α] [Neg α] [Zero α] [NatCast α] [LT α]\n"
            "  [DecidableLT α] [LE α] [DecidableLE α] [Max α] [Min α] [DecidableEq α]")
BRX, BRG, BRN, BRV, BRT = ("PersimVerif.SrcBridge.LandscapeExact", "PersimVerif.SrcBridge.LandscapeGrid", "PersimVerif.SrcBridge.LandscapeNorm",
                           "PersimVerif.SrcBridge.LandscapeVec", "PersimVerif.SrcBridge.LandscapeTransform")
SW = "(sweep : List β → List (List (α × α)))"
RP = "(ramp : List β → α → α → Nat → List (List α))"
EO_, GO_ = "ExactObj α β", "GridObj α β"
CE = "ExactObj.compute_landscape sweep"
CG = "GridObj.compute_landscape ramp"
D = "List (α × α)"

EX = "persim/landscapes/exact.py"
AUX = "persim/landscapes/auxiliary.py"
BASE = "persim/landscapes/base.py"
APXPY = "persim/landscapes/approximate.py"
TOOLS = "persim/landscapes/tools.py"
TRF = "persim/landscapes/transformer.py"


def T(common, **kw):
    d = dict(common)
    d.update(kw)
    d.setdefault("fparams", [])
    d.setdefault("threads", False)
    return d


# ---- plexact
PLEXACT = dict(
    file="plexact", errors={"IndexError": "Err.indexError"}, calls={},
    raises={"raise ValueError('homological degrees must match')": "Err.homDeg",
            "raise ValueError('Cannot divide by zero')": "Err.divZero"},
    ctors={"PersLandscapeExact": dict(lean="ExactObj.new Err.bothEmpty", params=[("hom_deg", "N"), ("critical_pairs", LLP)], ret="EO")},
    local_types={"result_pairs": LLP})


def eqref(name, binders, lhs, rhs, doc="the generated definition is the reviewed Lean text of the same shape"):
    return ("src_%s_eq_ref" % name, binders, "%s =\n      %s" % (lhs, rhs), "rfl", doc)


def MODEL_E(x):
    return "%s.toModel (%s %s)" % (BRX, CE, x)


def MODEL_G(x):
    return "%s.toModel (%s %s)" % (BRG, CG, x)


UCP_MODEL = ("if hasEmptyDepth (%s A).critical_pairs (%s B).critical_pairs\n      then .error Err.indexError\n"
             "      else .ok (unionCritPairs (%s A).critical_pairs (%s B).critical_pairs)" % (CE, CE, CE, CE))

TARGETS = [
    T(PLEXACT, pyfile=AUX, func="union_crit_pairs", lean="union_crit_pairs", cls=None, params={"A": "EO", "B": "EO"}, ret=LLP,
      raising=True, fparams=["sweep"], doc="`auxiliary.union_crit_pairs(A, B)`",
      obligations=[
          eqref("union_crit_pairs_round", "(result_pairs : List (List (α × α))) (a_b : These (List (α × α)) (List (α × α)))",
                "union_crit_pairs_round result_pairs a_b",
                "%s.Ref.union_crit_pairs_round pos_to_slope_interp slope_to_pos_interp sum_slopes result_pairs a_b" % BRX,
                "one round of the loop over `zip_longest` is the reviewed Lean text (with the generated `pos_to_slope_interp`, "
                "`slope_to_pos_interp`, `sum_slopes` of Generated/SrcPLArith.lean)"),
          eqref("union_crit_pairs", SW + " (A B : %s)" % EO_, "union_crit_pairs sweep A B",
                "%s.Ref.union_crit_pairs union_crit_pairs_round sweep A B" % BRX),
          ("src_union_crit_pairs_eq_model", SW + " (A B : %s)" % EO_, "union_crit_pairs sweep A B =\n      " + UCP_MODEL,
           "by\n  rw [src_union_crit_pairs_eq_ref]\n"
           "  have hr : (union_crit_pairs_round : List (List (α × α)) → These (List (α × α)) (List (α × α)) → Except Err (List (List (α × α)))) =\n"
           "      %s.Ref.union_crit_pairs_round pos_to_slope_interp slope_to_pos_interp sum_slopes := by\n"
           "    funext r ab; exact src_union_crit_pairs_round_eq_ref r ab\n"
           "  rw [hr]\n"
           "  exact %s.union_crit_pairs_eq_model _ _ _ (fun l hl => src_pos_to_slope_interp_eq_model l hl) src_pos_to_slope_interp_empty\n"
           "    (fun l hl => src_slope_to_pos_interp_eq_model l hl) src_sum_slopes_eq_model sweep A B" % (BRX, BRX),
           "**`union_crit_pairs` on any two landscape objects** (computed or lazy): IndexError exactly when a depth present in both "
           "operands is empty (`hasEmptyDepth`), else the model's `unionCritPairs` of the computed critical pairs -- through the "
           "translated `pos_to_slope_interp`, `sum_slopes`, `slope_to_pos_interp` (Generated/SrcPLArith.lean)")]),
    T(PLEXACT, pyfile=EX, func="PersLandscapeExact.__neg__", lean="exact_neg", cls="EO", params={"self": "EO"}, ret="EO", raising=True,
      fparams=["sweep"], doc="`PersLandscapeExact.__neg__`",
      obligations=[
          eqref("exact_neg", SW + " (self : %s)" % EO_, "exact_neg sweep self", "%s.Ref.exact_neg sweep self" % BRX),
          ("src_exact_neg_eq_model", SW + " (self : %s)" % EO_,
           "exact_neg sweep self = (Exact.neg (%s)).map %s.ofModel" % (MODEL_E("self"), BRX),
           "by\n  rw [src_exact_neg_eq_ref]; exact %s.exact_neg_eq_model sweep self" % BRX,
           "`-self` is the model's `Exact.neg` of the computed landscape (the constructor's ValueError on an empty landscape included)")]),
    T(PLEXACT, pyfile=EX, func="PersLandscapeExact.__add__", lean="exact_add", cls="EO", params={"self": "EO", "other": "EO"}, ret="EO",
      raising=True, fparams=["sweep"], doc="`PersLandscapeExact.__add__`",
      obligations=[
          eqref("exact_add", SW + " (self other : %s)" % EO_, "exact_add sweep self other",
                "%s.Ref.exact_add (union_crit_pairs sweep) self other" % BRX),
          ("src_exact_add_eq_model", SW + " (self other : %s)" % EO_,
           "exact_add sweep self other =\n      (Exact.add (%s) (%s)).map %s.ofModel" % (MODEL_E("self"), MODEL_E("other"), BRX),
           "by\n  rw [src_exact_add_eq_ref]\n  exact %s.exact_add_eq_model _ sweep (src_union_crit_pairs_eq_model sweep) self other" % BRX,
           "`self + other` is the model's `Exact.add`: the degree check first (ValueError), IndexError on an empty depth, the "
           "constructor on `union_crit_pairs`")]),
    T(PLEXACT, pyfile=EX, func="PersLandscapeExact.__sub__", lean="exact_sub", cls="EO", params={"self": "EO", "other": "EO"}, ret="EO",
      raising=True, fparams=["sweep"], doc="`PersLandscapeExact.__sub__`",
      obligations=[
          eqref("exact_sub", SW + " (self other : %s)" % EO_, "exact_sub sweep self other",
                "%s.Ref.exact_sub (exact_neg sweep) (exact_add sweep) self other" % BRX),
          ("src_exact_sub_eq_model", SW + " (self other : %s)" % EO_,
           "exact_sub sweep self other =\n      (Exact.sub (%s) (%s)).map %s.ofModel" % (MODEL_E("self"), MODEL_E("other"), BRX),
           "by\n  rw [src_exact_sub_eq_ref]\n"
           "  exact %s.exact_sub_eq_model _ _ sweep (src_exact_neg_eq_model sweep) (src_exact_add_eq_model sweep) self other" % BRX,
           "`self - other` is `self + -other` with the negation evaluated first: the model's `Exact.sub`")]),
    T(PLEXACT, pyfile=EX, func="PersLandscapeExact.__mul__", lean="exact_mul", cls="EO", params={"self": "EO", "other": "A"}, ret="EO",
      raising=True, fparams=["sweep"], doc="`PersLandscapeExact.__mul__` by a number `other`",
      obligations=[
          eqref("exact_mul", SW + " (self : %s) (other : α)" % EO_, "exact_mul sweep self other", "%s.Ref.exact_mul sweep self other" % BRX),
          ("src_exact_mul_eq_model", SW + " (self : %s) (c : α)" % EO_,
           "exact_mul sweep self c = (Exact.smul c (%s)).map %s.ofModel" % (MODEL_E("self"), BRX),
           "by\n  rw [src_exact_mul_eq_ref]; exact %s.exact_mul_eq_model sweep self c" % BRX,
           "`self * c` for a number `c` is the model's `Exact.smul` (a non-number operand is outside the typed translation: "
           "`Exact.mul` answers it, tied by the sampled correspondence only)")]),
    T(PLEXACT, pyfile=EX, func="PersLandscapeExact.__rmul__", lean="exact_rmul", cls="EO", params={"self": "EO", "other": "A"}, ret="EO",
      raising=True, fparams=["sweep"], doc="`PersLandscapeExact.__rmul__`",
      obligations=[
          eqref("exact_rmul", SW + " (self : %s) (other : α)" % EO_, "exact_rmul sweep self other",
                "%s.Ref.exact_rmul (exact_mul sweep) self other" % BRX),
          ("src_exact_rmul_eq_model", SW + " (self : %s) (c : α)" % EO_,
           "exact_rmul sweep self c = (Exact.smul c (%s)).map %s.ofModel" % (MODEL_E("self"), BRX),
           "by\n  rw [src_exact_rmul_eq_ref]; exact %s.exact_rmul_eq_model _ sweep (src_exact_mul_eq_model sweep) self c" % BRX,
           "`c * self` is `self.__mul__(c)`")]),
    T(PLEXACT, pyfile=EX, func="PersLandscapeExact.__truediv__", lean="exact_truediv", cls="EO", params={"self": "EO", "other": "A"},
      ret="EO", raising=True, fparams=["sweep"], doc="`PersLandscapeExact.__truediv__` by a number `other`",
      obligations=[
          eqref("exact_truediv", SW + " (self : %s) (other : α)" % EO_, "exact_truediv sweep self other",
                "%s.Ref.exact_truediv (exact_mul sweep) self other" % BRX),
          ("src_exact_truediv_eq_model", SW + " (self : %s) (c : α)" % EO_,
           "exact_truediv sweep self c = (Exact.sdiv (%s) c).map %s.ofModel" % (MODEL_E("self"), BRX),
           "by\n  rw [src_exact_truediv_eq_ref]; exact %s.exact_truediv_eq_model _ sweep (src_exact_mul_eq_model sweep) self c" % BRX,
           "`self / c`: ValueError for `c == 0.0`, else `self * (1.0 / c)`: the model's `Exact.sdiv`")]),
    T(PLEXACT, pyfile=EX, func="PersLandscapeExact.__getitem__", lean="exact_getitem", cls="EO", params={"self": "EO", "key": "Z"}, ret=LP,
      raising=True, fparams=["sweep"], doc="`PersLandscapeExact.__getitem__` with an integer key (slices are outside the subset)",
      obligations=[
          eqref("exact_getitem", SW + " (self : %s) (key : Int)" % EO_, "exact_getitem sweep self key", "%s.Ref.exact_getitem sweep self key" % BRX),
          ("src_exact_getitem_eq_model", SW + " (self : %s) (key : Int)" % EO_,
           "exact_getitem sweep self key =\n      match pyGet? (%s self).critical_pairs key with\n      | none => .error Err.indexError\n"
           "      | some d => .ok d" % CE,
           "by\n  rw [src_exact_getitem_eq_ref]; exact %s.exact_getitem_eq_model sweep self key" % BRX,
           "`self[key]`: depth `key` (Python indexing) of the computed landscape, IndexError beyond (no model definition of its own)")]),
]

# ---- plgrid
PLGRID = dict(
    file="plgrid", calls={},
    errors={"IndexError": "Err.indexError", "TypeError": "Err.typeError", "ValueError(empty)": "Err.emptyList", "broadcast": "Err.shape",
            "notLandscape": "Err.notLandscape"},
    raises={"raise ValueError('Persistence landscapes must be of same homological degree')": "Err.homDeg",
            "raise TypeError('Can only multiply persistence landscapesby real numbers')": "Err.typeError",
            "raise ValueError('Cannot divide by zero')": "Err.divZero",
            "raise ValueError('Start values of grids do not coincide')": "Err.start",
            "raise ValueError('Stop values of grids do not coincide')": "Err.stop",
            "raise ValueError('Number of steps of grids do not coincide')": "Err.numSteps"},
    ctors={"PersLandscapeApprox": dict(lean="GridObj.new Err.bothEmpty Err.startGtStop",
                                       params=[("hom_deg", "N"), ("start", "A"), ("stop", "A"), ("num_steps", "N"), ("values", LLA)], ret="GO")},
    local_types={"k": L("GO"), "snapped_landscape": LLA})
GB = RP + " (self other : %s)" % GO_
GS = RP + " (self : %s) (other : Scalar α)" % GO_
OPT3 = "(start stop : Option α) (num_steps : Option Nat)"
SNAP_ARGS = "(fun pts x => interp x pts) linspace ramp"


def gmodel(op, args):
    return "(%s %s).map %s.ofModel" % (op, args, BRG)


TARGETS += [
    T(PLGRID, pyfile=BASE, func="PersLandscape.__add__", lean="base_add", cls="GO", params={"self": "GO", "other": "GO"}, ret="U", raising=True,
      doc="`PersLandscape.__add__` (base.py): the degree check reached through `super().__add__(other)`",
      obligations=[eqref("base_add", "(self other : %s)" % GO_, "base_add self other", "%s.Ref.base_add self other" % BRG),
                   ("src_base_add_eq_model", "(self other : %s)" % GO_,
                    "base_add self other = if self.hom_deg ≠ other.hom_deg then .error Err.homDeg else .ok ()",
                    "by\n  rw [src_base_add_eq_ref]; exact %s.base_add_eq self other" % BRG,
                    "ValueError exactly when the degrees differ: the first test of `Grid.add`")]),
    T(PLGRID, pyfile=BASE, func="PersLandscape.__mul__", lean="base_mul", cls="GO", params={"self": "GO", "other": "SC"}, ret="U", raising=True,
      doc="`PersLandscape.__mul__` (base.py): the type check `isinstance(other, numbers.Real)`",
      obligations=[eqref("base_mul", "(self : %s) (other : Scalar α)" % GO_, "base_mul self other", "%s.Ref.base_mul self other" % BRG),
                   ("src_base_mul_eq_model", "(self : %s) (s : Scalar α)" % GO_,
                    "base_mul self s = match s with | .num _ => .ok () | .other => .error Err.typeError",
                    "by\n  rw [src_base_mul_eq_ref]; exact %s.base_mul_eq self s" % BRG,
                    "TypeError exactly for an operand that is not a real number: the `.other` case of `Grid.mul`")]),
    T(PLGRID, pyfile=BASE, func="PersLandscape.__truediv__", lean="base_truediv", cls="GO", params={"self": "GO", "other": "SC"}, ret="U",
      raising=True, doc="`PersLandscape.__truediv__` (base.py): the zero check `other == 0.0`",
      obligations=[eqref("base_truediv", "(self : %s) (other : Scalar α)" % GO_, "base_truediv self other", "%s.Ref.base_truediv self other" % BRG),
                   ("src_base_truediv_eq_model", "(self : %s) (s : Scalar α)" % GO_,
                    "base_truediv self s = match s with\n      | .num c => if c = 0 then .error Err.divZero else .ok ()\n      | .other => .ok ()",
                    "by\n  rw [src_base_truediv_eq_ref]; exact %s.base_truediv_eq self s" % BRG,
                    "ValueError exactly for the number 0 (`\"a\" == 0.0` is False): the zero test of `Grid.sdiv`")]),
    T(PLGRID, pyfile=APXPY, func="PersLandscapeApprox.__add__", lean="grid_add", cls="GO", params={"self": "GO", "other": "GO"}, ret="GO",
      raising=True, fparams=["ramp"], doc="`PersLandscapeApprox.__add__`",
      obligations=[eqref("grid_add", GB, "grid_add ramp self other", "%s.Ref.grid_add base_add union_vals ramp self other" % BRG),
                   ("src_grid_add_eq_model", GB, "grid_add ramp self other =\n      " + gmodel("Grid.add", "(%s) (%s)" % (MODEL_G("self"), MODEL_G("other"))),
                    "by\n  rw [src_grid_add_eq_ref]\n"
                    "  exact %s.grid_add_eq_model _ _ src_base_add_eq_ref src_union_vals_eq_model ramp self other" % BRG,
                    "`self + other` is the model's `Grid.add` of the two computed landscapes: degree, start, stop, number of steps "
                    "checked in this order, the depths padded by the translated `union_vals` (Generated/SrcPLArith.lean), the "
                    "entrywise sum, the constructor")]),
    T(PLGRID, pyfile=APXPY, func="PersLandscapeApprox.__neg__", lean="grid_neg", cls="GO", params={"self": "GO"}, ret="GO", raising=True,
      fparams=["ramp"], doc="`PersLandscapeApprox.__neg__`",
      obligations=[eqref("grid_neg", RP + " (self : %s)" % GO_, "grid_neg ramp self", "%s.Ref.grid_neg ramp self" % BRG),
                   ("src_grid_neg_eq_model", RP + " (self : %s)" % GO_, "grid_neg ramp self = " + gmodel("Grid.neg", "(%s)" % MODEL_G("self")),
                    "by\n  rw [src_grid_neg_eq_ref]; exact %s.grid_neg_eq_model ramp self" % BRG,
                    "`-self`: every row times `-1`, same grid and degree: the model's `Grid.neg`")]),
    T(PLGRID, pyfile=APXPY, func="PersLandscapeApprox.__sub__", lean="grid_sub", cls="GO", params={"self": "GO", "other": "GO"}, ret="GO",
      raising=True, fparams=["ramp"], doc="`PersLandscapeApprox.__sub__`",
      obligations=[eqref("grid_sub", GB, "grid_sub ramp self other", "%s.Ref.grid_sub (grid_neg ramp) (grid_add ramp) self other" % BRG),
                   ("src_grid_sub_eq_model", GB, "grid_sub ramp self other =\n      " + gmodel("Grid.sub", "(%s) (%s)" % (MODEL_G("self"), MODEL_G("other"))),
                    "by\n  rw [src_grid_sub_eq_ref]\n"
                    "  exact %s.grid_sub_eq_model _ _ ramp (src_grid_neg_eq_model ramp) (src_grid_add_eq_model ramp) self other" % BRG,
                    "`self - other` is `self + -other`: the model's `Grid.sub`")]),
    T(PLGRID, pyfile=APXPY, func="PersLandscapeApprox.__mul__", lean="grid_mul", cls="GO", params={"self": "GO", "other": "SC"}, ret="GO",
      raising=True, fparams=["ramp"], doc="`PersLandscapeApprox.__mul__` by any Python value `other`",
      obligations=[eqref("grid_mul_elem", "(other : Scalar α) (depth_array : List α)", "grid_mul_elem other depth_array",
                         "%s.Ref.grid_mul_elem other depth_array" % BRG, "the element `other * depth_array` is the reviewed Lean text"),
                   eqref("grid_mul", GS, "grid_mul ramp self other", "%s.Ref.grid_mul base_mul grid_mul_elem ramp self other" % BRG),
                   ("src_grid_mul_eq_model", RP + " (self : %s) (s : Scalar α)" % GO_, "grid_mul ramp self s = " + gmodel("Grid.mul", "(%s) s" % MODEL_G("self")),
                    "by\n  rw [src_grid_mul_eq_ref]\n"
                    "  exact %s.grid_mul_eq_model _ _ src_base_mul_eq_ref src_grid_mul_elem_eq_ref ramp self s" % BRG,
                    "`self * other` is the model's `Grid.mul`: TypeError for a non-number (before anything is computed), else every "
                    "row times the number")]),
    T(PLGRID, pyfile=APXPY, func="PersLandscapeApprox.__rmul__", lean="grid_rmul", cls="GO", params={"self": "GO", "other": "SC"}, ret="GO",
      raising=True, fparams=["ramp"], doc="`PersLandscapeApprox.__rmul__`",
      obligations=[eqref("grid_rmul", GS, "grid_rmul ramp self other", "%s.Ref.grid_rmul (grid_mul ramp) self other" % BRG),
                   ("src_grid_rmul_eq_model", RP + " (self : %s) (s : Scalar α)" % GO_, "grid_rmul ramp self s = " + gmodel("Grid.mul", "(%s) s" % MODEL_G("self")),
                    "by\n  rw [src_grid_rmul_eq_ref]; exact %s.grid_rmul_eq_model _ ramp (src_grid_mul_eq_model ramp) self s" % BRG,
                    "`other * self` is `self.__mul__(other)`")]),
    T(PLGRID, pyfile=APXPY, func="PersLandscapeApprox.__truediv__", lean="grid_truediv", cls="GO", params={"self": "GO", "other": "SC"},
      ret="GO", raising=True, fparams=["ramp"], doc="`PersLandscapeApprox.__truediv__` by any Python value `other`",
      obligations=[eqref("grid_truediv", GS, "grid_truediv ramp self other", "%s.Ref.grid_truediv base_truediv (grid_rmul ramp) self other" % BRG),
                   ("src_grid_truediv_eq_model", RP + " (self : %s) (s : Scalar α)" % GO_, "grid_truediv ramp self s = " + gmodel("Grid.div", "(%s) s" % MODEL_G("self")),
                    "by\n  rw [src_grid_truediv_eq_ref]\n"
                    "  exact %s.grid_truediv_eq_model _ _ ramp src_base_truediv_eq_ref (src_grid_rmul_eq_model ramp) self s" % BRG,
                    "`self / other` is the model's `Grid.div`: ValueError for 0, TypeError for a non-number (`1.0 / other`), else "
                    "`(1.0 / other) * self` through `__rmul__`")]),
    T(PLGRID, pyfile=APXPY, func="PersLandscapeApprox.__getitem__", lean="grid_getitem", cls="GO", params={"self": "GO", "key": "Z"}, ret=LA,
      raising=True, fparams=["ramp"], doc="`PersLandscapeApprox.__getitem__` with an integer key (slices are outside the subset)",
      obligations=[eqref("grid_getitem", RP + " (self : %s) (key : Int)" % GO_, "grid_getitem ramp self key", "%s.Ref.grid_getitem ramp self key" % BRG),
                   ("src_grid_getitem_eq_model", RP + " (self : %s) (key : Int)" % GO_,
                    "grid_getitem ramp self key =\n      match pyGet? (%s self).values key with\n      | none => .error Err.indexError\n"
                    "      | some d => .ok d" % CG,
                    "by\n  rw [src_grid_getitem_eq_ref]; exact %s.grid_getitem_eq_model ramp self key" % BRG,
                    "`self[key]`: row `key` of the computed values, IndexError beyond -- what `for funct in pl` iterates over "
                    "(the legacy sequence protocol)")]),
    T(PLGRID, pyfile=TOOLS, func="snap_pl", lean="snap_pl", cls=None,
      params={"pls": L("GO"), "start": O("A"), "stop": O("A"), "num_steps": O("N")}, ret=L("GO"), raising=True,
      fparams=["interp", "linspace", "ramp"], doc="`tools.snap_pl(pls, start, stop, num_steps)`",
      obligations=[
          eqref("snap_pl_round_2", "(interp : List (α × α) → α → α) (linspace : α → α → Nat → List α) (grid : List α) (pl : %s)\n"
                "    (snapped_landscape : List (List α)) (funct : List α)" % GO_,
                "snap_pl_round_2 interp linspace grid pl snapped_landscape funct",
                "%s.Ref.snap_pl_round_2 interp linspace grid pl snapped_landscape funct" % BRG, "one round of `for funct in pl`"),
          eqref("snap_pl_round", "(interp : List (α × α) → α → α) (linspace : α → α → Nat → List α) " + RP + "\n"
                "    (start stop : α) (num_steps : Nat) (grid : List α) (k : List (%s)) (pl : %s)" % (GO_, GO_),
                "snap_pl_round interp linspace ramp start stop num_steps grid k pl",
                "%s.Ref.snap_pl_round (snap_pl_round_2 interp linspace) ramp start stop num_steps grid k pl" % BRG, "one round of `for pl in pls`"),
          eqref("snap_pl", "(interp : List (α × α) → α → α) (linspace : α → α → Nat → List α) " + RP + "\n    (pls : List (%s)) " % GO_ + OPT3,
                "snap_pl interp linspace ramp pls start stop num_steps",
                "%s.Ref.snap_pl (snap_pl_round interp linspace ramp) linspace pls start stop num_steps" % BRG),
          ("src_snap_pl_eq_model", RP + " (pls : List (%s)) " % GO_ + OPT3,
           "snap_pl %s pls start stop num_steps =\n      (snapPl (%s.operands ramp pls) start stop num_steps).map (List.map %s.ofModel)" % (SNAP_ARGS, BRG, BRG),
           "by\n  rw [src_snap_pl_eq_ref]\n"
           "  have h2 : (snap_pl_round_2 (fun pts x => interp x pts) linspace : List α → %s → List (List α) → List α → List (List α)) =\n"
           "      %s.Ref.snap_pl_round_2 (fun pts x => interp x pts) linspace := by\n"
           "    funext g p s f; exact src_snap_pl_round_2_eq_ref _ _ g p s f\n"
           "  have h1 : (snap_pl_round %s : α → α → Nat → List α → List (%s) → %s → Except Err (List (%s))) =\n"
           "      %s.Ref.snap_pl_round (%s.Ref.snap_pl_round_2 (fun pts x => interp x pts) linspace) ramp := by\n"
           "    funext S E N g k p; rw [src_snap_pl_round_eq_ref, h2]\n"
           "  rw [h1]\n  exact %s.snap_pl_eq_model ramp pls start stop num_steps"
           % (GO_, BRG, SNAP_ARGS, GO_, GO_, GO_, BRG, BRG, BRG),
           "**`snap_pl` with `np.linspace` / `np.interp` read as the model's `linspace` / `interp`** is the model's `snapPl` on the "
           "computed operands, for every list of landscapes and every combination of given / defaulted grid parameters (`min` / "
           "`max` of an empty list: ValueError)")]),
    T(PLGRID, pyfile=TOOLS, func="lc_approx", lean="lc_approx", cls=None,
      params={"landscapes": L("GO"), "coeffs": L("SC"), "start": O("A"), "stop": O("A"), "num_steps": O("N")}, ret="GO", raising=True,
      fparams=["interp", "linspace", "ramp"], doc="`tools.lc_approx(landscapes, coeffs, start, stop, num_steps)`",
      obligations=[
          eqref("lc_approx", "(interp : List (α × α) → α → α) (linspace : α → α → Nat → List α) " + RP + "\n"
                "    (landscapes : List (%s)) (coeffs : List (Scalar α)) " % GO_ + OPT3,
                "lc_approx interp linspace ramp landscapes coeffs start stop num_steps",
                "%s.Ref.lc_approx (snap_pl interp linspace ramp) (grid_rmul ramp) (grid_add ramp) landscapes coeffs start stop num_steps" % BRG),
          ("src_lc_approx_eq_model", RP + " (landscapes : List (%s)) (coeffs : List (Scalar α)) " % GO_ + OPT3,
           "lc_approx %s landscapes coeffs start stop num_steps =\n"
           "      (lcApprox (%s.operands ramp landscapes) coeffs start stop num_steps).map %s.ofModel" % (SNAP_ARGS, BRG, BRG),
           "by\n  rw [src_lc_approx_eq_ref]\n"
           "  exact %s.lc_approx_eq_model ramp _ _ _ (src_snap_pl_eq_model ramp) (src_grid_rmul_eq_model ramp) (src_grid_add_eq_model ramp)\n"
           "    landscapes coeffs start stop num_steps" % BRG,
           "`lc_approx` is the model's `lcApprox`: `snap_pl`, NumPy's broadcast of the coefficient against the landscape array, "
           "`c * p` through `__rmul__`, `np.sum` through `__add__` from the first product on")]),
    T(PLGRID, pyfile=TOOLS, func="average_approx", lean="average_approx", cls=None,
      params={"landscapes": L("GO"), "start": O("A"), "stop": O("A"), "num_steps": O("N")}, ret="GO", raising=True,
      fparams=["interp", "linspace", "ramp"], doc="`tools.average_approx(landscapes, start, stop, num_steps)`",
      obligations=[
          eqref("average_approx", "(interp : List (α × α) → α → α) (linspace : α → α → Nat → List α) " + RP + "\n"
                "    (landscapes : List (%s)) " % GO_ + OPT3,
                "average_approx interp linspace ramp landscapes start stop num_steps",
                "%s.Ref.average_approx (lc_approx interp linspace ramp) landscapes start stop num_steps" % BRG),
          ("src_average_approx_eq_model", RP + " (landscapes : List (%s)) " % GO_ + OPT3,
           "average_approx %s landscapes start stop num_steps =\n"
           "      (averageApprox (%s.operands ramp landscapes) start stop num_steps).map %s.ofModel" % (SNAP_ARGS, BRG, BRG),
           "by\n  rw [src_average_approx_eq_ref]\n"
           "  exact %s.average_approx_eq_model ramp _ (src_lc_approx_eq_model ramp) landscapes start stop num_steps" % BRG,
           "`average_approx` is `lc_approx` with every coefficient `1.0 / len(landscapes)`: the model's `averageApprox`")]),
]

# ---- plnorm
PLNORM = dict(
    file="plnorm", calls={"np.abs": "absA"}, beq=True,
    errors={"ValueError(empty)": "Err.valueError"},
    raises={'raise ValueError(f"p can\'t be negative, but {p} was passed")': "Err.valueError"},
    ctors={}, local_types={"result": "A"})
PW = "(pow : α → α → α) (expm1 log : α → α)"
PNGEN = ("pNormGen (fun r => pow r (1 / p)) (fun x => pow x p) (fun x => pow x (p + 1))\n"
         "        (fun r => -(expm1 ((p + 1) * log r))) (p + 1)")
PNMETH = ("pNormMethod (fun r => pow r (1 / p)) (fun x => pow x p) (fun x => pow x (p + 1))\n"
          "        (fun r => -(expm1 ((p + 1) * log r))) p")
LIN = "(linspace : α → α → Nat → List α)"
V2P = "valuesToPairs (linspace (%s self).start (%s self).stop (%s self).num_steps) (%s self).values" % (CG, CG, CG, CG)
HSEG = "(fun p x0 y0 x1 y1 => PersimVerif.Src.landscapes_auxiliary.src_p_norm_segment_eq_model pow expm1 log p x0 y0 x1 y1)"
PN_ROUNDS = ("  have h2 : (_p_norm_round_2 pow expm1 log : α → α → (α × α) × (α × α) → α) =\n"
             "      %s.Ref._p_norm_round_2 (p_norm_segment pow expm1 log) := by\n"
             "    funext p r s; exact src__p_norm_round_2_eq_ref pow expm1 log p r s\n"
             "  have h1 : (_p_norm_round pow expm1 log : α → α → List (α × α) → α) =\n"
             "      %s.Ref._p_norm_round (%s.Ref._p_norm_round_2 (p_norm_segment pow expm1 log)) := by\n"
             "    funext p r l; rw [src__p_norm_round_eq_ref, h2]\n" % (BRN, BRN, BRN))

TARGETS += [
    T(PLNORM, pyfile=AUX, func="_p_norm", lean="_p_norm", cls=None, params={"p": "A", "critical_pairs": LLP}, ret="A", raising=False,
      fparams=["pow", "expm1", "log"],
      region_body=dict(key="pnorm", lean="p_norm_segment", loop_var=["x0", "y0", "x1", "y1"], fparams=["pow", "expm1", "log"],
                       args=["p", "x0", "y0", "x1", "y1"]),
      doc="`auxiliary._p_norm(p, critical_pairs)` around its segment region (`p_norm_segment` of Generated/SrcPNorm.lean)",
      obligations=[
          eqref("_p_norm_round_2", PW + " (p result : α) (x0_y0_x1_y1 : (α × α) × (α × α))",
                "_p_norm_round_2 pow expm1 log p result x0_y0_x1_y1",
                "%s.Ref._p_norm_round_2 (p_norm_segment pow expm1 log) p result x0_y0_x1_y1" % BRN,
                "one round of the loop over the segments: the translated region of Generated/SrcPNorm.lean added to `result`"),
          eqref("_p_norm_round", PW + " (p result : α) (l : List (α × α))", "_p_norm_round pow expm1 log p result l",
                "%s.Ref._p_norm_round (_p_norm_round_2 pow expm1 log) p result l" % BRN, "one round of the loop over the depths"),
          eqref("_p_norm", PW + " (p : α) (critical_pairs : List (List (α × α)))", "_p_norm pow expm1 log p critical_pairs",
                "%s.Ref._p_norm (_p_norm_round pow expm1 log) pow p critical_pairs" % BRN),
          ("src__p_norm_eq_model", PW + " (p : α) (cps : List (List (α × α)))",
           "_p_norm pow expm1 log p cps =\n      %s cps" % PNGEN,
           "by\n  rw [src__p_norm_eq_ref]\n" + PN_ROUNDS +
           "  rw [h1]\n  exact %s.p_norm_eq_model _ pow expm1 log %s p cps" % (BRN, HSEG),
           "**the whole of `_p_norm`** for every `p` and every list of depths: `result = 0.0`, the two nested loops adding the "
           "translated segment term in the model's order, the final `** (1.0 / p)`: the model's `pNormGen` with the powers, "
           "`expm1`, `log` the source writes (division total: see the header)")]),
    T(PLNORM, pyfile=BASE, func="PersLandscape.p_norm", lean="base_p_norm", cls="SIGMA", params={"self": "SIGMA", "p": "A"}, ret=O("A"),
      raising=True, threads=True, fparams=["compute_landscape", "sup_norm"], extra_binders="{σ : Type} ",
      doc="`PersLandscape.p_norm` (base.py), reached through `super().p_norm(p=p)`; `compute_landscape` / `sup_norm`: the subclass's methods",
      obligations=[
          eqref("base_p_norm", "{σ : Type} (compute_landscape : σ → σ) (sup_norm : σ → Except Err (σ × α)) (self : σ) (p : α)",
                "base_p_norm compute_landscape sup_norm self p", "%s.Ref.base_p_norm compute_landscape sup_norm self p" % BRN),
          ("src_base_p_norm_eq_model", "{σ : Type} (compute_landscape : σ → σ) (sup_norm : σ → Except Err (σ × α)) (self : σ) (p : α)",
           "base_p_norm compute_landscape sup_norm self p =\n      match checkP p with\n      | .reject => .error Err.valueError\n"
           "      | .sup => (sup_norm (compute_landscape self)).map fun t => (t.1, some t.2)\n"
           "      | .norm => .ok (compute_landscape self, none)",
           "by\n  rw [src_base_p_norm_eq_ref]; exact %s.base_p_norm_eq_model compute_landscape sup_norm self p" % BRN,
           "the validation is the model's `checkP`: ValueError for `p < -1` or `-1 < p < 0` BEFORE anything is computed, then the "
           "lazy `compute_landscape()`, then `sup_norm()` exactly for `p == -1`")]),
    T(PLNORM, pyfile=EX, func="PersLandscapeExact.sup_norm", lean="exact_sup_norm", cls="EO", params={"self": "EO"}, ret="A", raising=True,
      threads=True, fparams=["sweep"], local_types={"cvals": LP}, doc="`PersLandscapeExact.sup_norm`",
      obligations=[
          eqref("exact_sup_norm", SW + " (self : %s)" % EO_, "exact_sup_norm sweep self", "%s.Ref.exact_sup_norm sweep self" % BRN),
          ("src_exact_sup_norm_eq_model", SW + " (self : %s)" % EO_,
           "exact_sup_norm sweep self =\n      (supNormExact (%s self).critical_pairs).map fun m => (%s self, m)" % (CE, CE),
           "by\n  rw [src_exact_sup_norm_eq_ref]; exact %s.exact_sup_norm_eq_model sweep self" % BRN,
           "the lazy computation, then the largest `|y|` over the chained critical points (`max(…, key=itemgetter(1))[1]`): the "
           "model's `supNormExact`, ValueError on no point")]),
    T(PLNORM, pyfile=EX, func="PersLandscapeExact.p_norm", lean="exact_p_norm", cls="EO", params={"self": "EO", "p": "A"}, ret="A",
      raising=True, threads=True, fparams=["pow", "expm1", "log", "sweep"], doc="`PersLandscapeExact.p_norm`",
      obligations=[
          eqref("exact_p_norm", PW + " " + SW + " (self : %s) (p : α)" % EO_, "exact_p_norm pow expm1 log sweep self p",
                "%s.Ref.exact_p_norm (base_p_norm (%s) (exact_sup_norm sweep)) (_p_norm pow expm1 log) self p" % (BRN, CE)),
          ("src_exact_p_norm_eq", PW + " " + SW + " (self : %s) (p : α)" % EO_,
           "exact_p_norm pow expm1 log sweep self p =\n      match checkP p with\n      | .reject => .error Err.valueError\n"
           "      | .sup => (supNormExact (%s self).critical_pairs).map fun _ =>\n"
           "          (%s self, _p_norm pow expm1 log p (%s self).critical_pairs)\n"
           "      | .norm => .ok (%s self, _p_norm pow expm1 log p (%s self).critical_pairs)" % (CE, CE, CE, CE, CE),
           "by\n  rw [src_exact_p_norm_eq_ref]\n"
           "  exact %s.exact_p_norm_eq sweep _ _ (exact_sup_norm sweep) (fun o p => src_base_p_norm_eq_ref _ _ o p)\n"
           "    (src_exact_sup_norm_eq_model sweep) self p" % BRN,
           "every `p`, every object: validation, lazy computation, for `p == -1` the `sup_norm()` whose value is DISCARDED (its "
           "ValueError is not), then `_p_norm` on the computed critical pairs")]
      + [("src_exact_p_norm_eq_model", PW + " " + SW + " (self : %s) (p : α) (hsup : checkP p ≠ .sup)\n"
          "    (hv : hasVerticalSeg (%s self).critical_pairs = false) (h0 : (p == 0) = false)" % (EO_, CE),
          "(exact_p_norm pow expm1 log sweep self p).map (·.2) =\n      %s (%s self).critical_pairs" % (PNMETH, CE),
          "by\n  rw [src_exact_p_norm_eq_ref]\n"
          "  exact %s.exact_p_norm_eq_model sweep pow expm1 log _ _ (exact_sup_norm sweep) (fun o p => src_base_p_norm_eq_ref _ _ o p)\n"
          "    (src_exact_sup_norm_eq_model sweep) (src__p_norm_eq_model pow expm1 log) self p hsup hv h0" % BRN,
          "**C10's model**: under its guards (`p` is not the sup-norm code -1; no vertical segment and `p != 0`, where Python raises "
          "ZeroDivisionError) the value is `pNormMethod` of the computed critical pairs")]),
    T(PLNORM, pyfile=APXPY, func="PersLandscapeApprox.values_to_pairs", lean="values_to_pairs", cls="GO", params={"self": "GO"}, ret=LLP,
      raising=False, threads=True, fparams=["linspace", "ramp"], local_types={"result": LLP},
      doc="`PersLandscapeApprox.values_to_pairs`",
      obligations=[
          eqref("values_to_pairs_round", "(grid_values : List α) (result : List (List (α × α))) (vals : List α)",
                "values_to_pairs_round grid_values result vals", "%s.Ref.values_to_pairs_round grid_values result vals" % BRN,
                "one round of `for vals in self.values`"),
          eqref("values_to_pairs", LIN + " " + RP + " (self : %s)" % GO_, "values_to_pairs linspace ramp self",
                "%s.Ref.values_to_pairs values_to_pairs_round linspace ramp self" % BRN),
          ("src_values_to_pairs_eq_model", LIN + " " + RP + " (self : %s)" % GO_,
           "values_to_pairs linspace ramp self =\n      (%s self, %s)" % (CG, V2P),
           "by\n  rw [src_values_to_pairs_eq_ref]\n"
           "  have hr : (values_to_pairs_round : List α → List (List (α × α)) → List α → List (List (α × α))) = %s.Ref.values_to_pairs_round := by\n"
           "    funext g r v; exact src_values_to_pairs_round_eq_ref g r v\n"
           "  rw [hr]; exact %s.values_to_pairs_eq_model linspace ramp self" % (BRN, BRN),
           "the lazy computation, then every row zipped with the grid `np.linspace(start, stop, num_steps)`: the model's `valuesToPairs`")]),
    T(PLNORM, pyfile=APXPY, func="PersLandscapeApprox.sup_norm", lean="grid_sup_norm", cls="GO", params={"self": "GO"}, ret="A", raising=True,
      threads=True, fparams=["ramp"], doc="`PersLandscapeApprox.sup_norm`",
      obligations=[
          eqref("grid_sup_norm", RP + " (self : %s)" % GO_, "grid_sup_norm ramp self", "%s.Ref.grid_sup_norm ramp self" % BRN),
          ("src_grid_sup_norm_eq_model", RP + " (self : %s)" % GO_,
           "grid_sup_norm ramp self =\n      (supNormApprox (%s self).values).map fun m => (%s self, m)" % (CG, CG),
           "by\n  rw [src_grid_sup_norm_eq_ref]; exact %s.grid_sup_norm_eq_model ramp self" % BRN,
           "the lazy computation (/repo fix 8fead93), then `np.max(np.abs(values))`: the model's `supNormApprox`")]),
    T(PLNORM, pyfile=APXPY, func="PersLandscapeApprox.p_norm", lean="grid_p_norm", cls="GO", params={"self": "GO", "p": "A"}, ret="A",
      raising=True, threads=True, fparams=["pow", "expm1", "log", "linspace", "ramp"], doc="`PersLandscapeApprox.p_norm`",
      obligations=[
          eqref("grid_p_norm", PW + " " + LIN + " " + RP + " (self : %s) (p : α)" % GO_, "grid_p_norm pow expm1 log linspace ramp self p",
                "%s.Ref.grid_p_norm (base_p_norm (%s) (grid_sup_norm ramp)) (values_to_pairs linspace ramp)\n"
                "        (_p_norm pow expm1 log) self p" % (BRN, CG)),
          ("src_grid_p_norm_eq", PW + " " + LIN + " " + RP + " (self : %s) (p : α)" % GO_,
           "grid_p_norm pow expm1 log linspace ramp self p =\n"
           "      let o := %s self\n"
           "      let N := _p_norm pow expm1 log p (valuesToPairs (linspace o.start o.stop o.num_steps) o.values)\n"
           "      match checkP p with\n      | .reject => .error Err.valueError\n"
           "      | .sup => (supNormApprox o.values).map fun _ => (o, N)\n      | .norm => .ok (o, N)" % CG,
           "by\n  rw [src_grid_p_norm_eq_ref]\n"
           "  exact %s.grid_p_norm_eq ramp linspace _ _ (grid_sup_norm ramp) _ (fun o p => src_base_p_norm_eq_ref _ _ o p)\n"
           "    (src_grid_sup_norm_eq_model ramp) (src_values_to_pairs_eq_model linspace ramp) self p" % BRN,
           "every `p`, every object: validation, lazy computation, the discarded `sup_norm()` for `p == -1`, then `_p_norm` on "
           "`values_to_pairs()`"),
          ("src_grid_p_norm_eq_model", PW + " " + LIN + " " + RP + " (self : %s) (p : α) (hsup : checkP p ≠ .sup)\n"
           "    (hv : hasVerticalSeg (%s) = false) (h0 : (p == 0) = false)" % (GO_, V2P),
           "(grid_p_norm pow expm1 log linspace ramp self p).map (·.2) =\n      %s\n        (%s)" % (PNMETH, V2P),
           "by\n  rw [src_grid_p_norm_eq_ref]\n"
           "  exact %s.grid_p_norm_eq_model ramp linspace pow expm1 log _ _ (grid_sup_norm ramp) _ (fun o p => src_base_p_norm_eq_ref _ _ o p)\n"
           "    (src_grid_sup_norm_eq_model ramp) (src_values_to_pairs_eq_model linspace ramp) (src__p_norm_eq_model pow expm1 log)\n"
           "    self p hsup hv h0" % BRN,
           "**C10's model**: under its guards the value is `pNormMethod` on the model's `valuesToPairs` of the computed values")]),
]

# ---- plvec
PLVEC = dict(
    file="plvec", calls={},
    errors={"IndexError": "Err.noDepths", "ValueError(empty)": "Err.emptyDepth", "ValueError(unpack)": "Err.emptyDepth"},
    raises={}, local_types={"result": LLA},
    ctors={"PersLandscapeApprox": dict(lean="GridObj.new Err.noSteps Err.startAfterStop",
                                       params=[("hom_deg", "N"), ("start", "A"), ("stop", "A"), ("num_steps", "N"), ("values", LLA)], ret="GO")})
VB = "(interp : List (α × α) → α → α) " + SW + " (l : %s) (start stop : Option α) (n : Nat)" % EO_
TARGETS += [
    T(PLVEC, pyfile=TOOLS, func="vectorize", lean="vectorize", cls=None,
      params={"l": "EO", "start": O("A"), "stop": O("A"), "num_steps": "N"}, ret="GO", raising=True,
      fparams=["interp", "linspace", "sweep"], doc="`tools.vectorize(l, start, stop, num_steps)`",
      obligations=[
          eqref("vectorize_round", "(interp : List (α × α) → α → α) (grid : List α) (result : List (List α)) (depth : List (α × α))",
                "vectorize_round interp grid result depth", "%s.Ref.vectorize_round interp grid result depth" % BRV,
                "one round of `for depth in l.critical_pairs`"),
          eqref("vectorize", "(interp : List (α × α) → α → α) (linspace : α → α → Nat → List α) " + SW + "\n"
                "    (l : %s) (start stop : Option α) (num_steps : Nat)" % EO_,
                "vectorize interp linspace sweep l start stop num_steps",
                "%s.Ref.vectorize (vectorize_round interp) linspace sweep l start stop num_steps" % BRV),
          ("src_vectorize_eq_model", VB + "\n    (hne : (%s l).critical_pairs ≠ [])" % CE.replace("self", "l"),
           "(vectorize interp linspace sweep l start stop n).map (fun (g : %s) => g.values) =\n"
           "      PersimVerif.Approx.vectorize interp (%s l).critical_pairs start stop n" % (GO_, CE),
           "by\n  rw [src_vectorize_eq_ref]\n"
           "  have hr : (vectorize_round interp : List α → List (List α) → List (α × α) → Except Err (List (List α))) =\n"
           "      %s.Ref.vectorize_round interp := by\n    funext g r d; exact src_vectorize_round_eq_ref interp g r d\n"
           "  rw [hr]; exact %s.vectorize_eq_model interp sweep l start stop n hne" % (BRV, BRV),
           "**C08's model**: on a landscape with at least one depth (computed or lazy), for every optional `start` / `stop` and "
           "every `num_steps`, with `np.linspace` the model's `linspace`, the values of the landscape `vectorize` returns are the "
           "model's `Approx.vectorize` (the same errors in the same order: empty first depth, an empty depth, `num_steps = 0`, "
           "`start > stop`)"),
          ("src_vectorize_no_depths", VB + "\n    (h0 : (%s l).critical_pairs = [])" % CE,
           "vectorize interp linspace sweep l start stop n =\n"
           "      if start.isNone || stop.isNone then .error Err.noDepths else .error Err.noSteps",
           "by\n  rw [src_vectorize_eq_ref]\n"
           "  have hr : (vectorize_round interp : List α → List (List α) → List (α × α) → Except Err (List (List α))) =\n"
           "      %s.Ref.vectorize_round interp := by\n    funext g r d; exact src_vectorize_round_eq_ref interp g r d\n"
           "  rw [hr]; exact %s.vectorize_no_depths interp sweep l start stop n h0" % (BRV, BRV),
           "a landscape with NO depth: IndexError (`critical_pairs[0]`) when a bound has to be computed; with both bounds given the "
           "constructor's ValueError (the model answers `noDepths` in both cases)")]),
]

# ---- pltransform
PLTRANSFORM = dict(
    file="pltransform", calls={}, errors={}, raises={}, flatten_param=True,
    ctors={"PersLandscapeApprox": dict(lean="approx", fparams=["approx"], raising=False, ret="RHO",
                                       params=[("dgms", L("DELTA")), ("start", O("A")), ("stop", O("A")), ("num_steps", "Z"), ("hom_deg", "Z")])})
TARGETS += [
    T(PLTRANSFORM, pyfile=TRF, func="PersistenceLandscaper.transform", lean="transform", cls="LS",
      params={"self": "LS", "X": L("DELTA"), "y": "U"}, ret="NU", raising=False, fparams=["approx", "values", "flatten"],
      doc="`PersistenceLandscaper.transform(X)` on the state record `self` (`y` is ignored)",
      obligations=[
          eqref("transform", "{α δ ρ ν : Type} (approx : List δ → Option α → Option α → Int → Int → ρ) (values : ρ → ν) (flatten : ν → ν)\n"
                "    (self : LState α) (X : List δ) (y : Unit)", "transform approx values flatten self X y",
                "%s.Ref.transform approx values flatten self X" % BRT),
          ("src_transform_eq_model", "{α ρ ν : Type} (approx : List (PersimVerif.Imager.Dgm α) → Option α → Option α → Int → Int → ρ)\n"
           "    (values : ρ → ν) (flatten : ν → ν) (self : LState α) (X : List (PersimVerif.Imager.Dgm α))",
           "transform approx values flatten self X () =\n      ltransform (fun X s e n h => values (approx X s e n h)) flatten self X",
           "by\n  rw [src_transform_eq_ref]; exact %s.transform_eq_model approx values flatten self X" % BRT,
           "**the model of C08 / C18**: for every state (fitted or not, bounds fixed or learnt) and every input the translated method "
           "is `Transformers.ltransform`: the constructor call `PersLandscapeApprox(dgms=X, start=self.start, stop=self.stop, "
           "num_steps=self.num_steps, hom_deg=self.hom_deg)` (parameter `approx`; its model is `Approx.persLandscapeApprox`), its "
           "`values`, flattened iff `self.flatten`")]),
]

RESERVED |= {c["lean"] for c in TARGETS} | {"union_vals", "pos_to_slope_interp", "slope_to_pos_interp", "sum_slopes", "p_norm_segment"}

# ----------------------------------------------------------------------------- text pins (reviewed)

APPROX_INIT_TEXT = (
    "super().__init__(dgms=dgms, hom_deg=hom_deg)\n"
    "if not dgms and values.size == 0:\n    raise ValueError('dgms and values cannot both be emtpy')\n"
    "if dgms:\n    self.dgms = dgms[self.hom_deg]\n    self.dgms = self.dgms[~np.any(self.dgms == np.inf, axis=1)]\n"
    "    if start is None:\n        start = min(self.dgms, key=itemgetter(0))[0]\n"
    "    if stop is None:\n        stop = max(self.dgms, key=itemgetter(1))[1]\n"
    "elif values.size > 0:\n    self.dgms = dgms\n"
    "    if start is None:\n        raise ValueError('start parameter must be passed if values are passed')\n"
    "    if stop is None:\n        raise ValueError('stop parameter must be passed if values are passed')\n"
    "    if start > stop:\n        raise ValueError('start must be less than or equal to stop')\n"
    "self.start = start\nself.stop = stop\nself.values = values\nself.max_depth = len(self.values)\nself.num_steps = num_steps\n"
    "if compute:\n    self.compute_landscape()")
EXACT_INIT_TEXT = (
    "super().__init__(dgms=dgms, hom_deg=hom_deg)\nself.critical_pairs = critical_pairs\n"
    "if dgms:\n    self.dgms = np.asarray(dgms[self.hom_deg], dtype=float)\nelse:\n    self.dgms = dgms\n"
    "if not dgms and (not critical_pairs):\n    raise ValueError('dgms and critical_pairs cannot both be empty')\n"
    "self.max_depth = len(self.critical_pairs)\nif compute:\n    self.compute_landscape()")
BASE_INIT_TEXT = (
    "if not isinstance(hom_deg, int):\n    raise TypeError('hom_deg must be an integer')\n"
    "if hom_deg < 0:\n    raise ValueError('hom_deg must be positive')\n"
    "if not isinstance(dgms, (list, tuple, np.ndarray)):\n    raise TypeError('dgms must be a list, tuple, or numpy array')\n"
    "self.hom_deg = hom_deg")
# key -> [(python file, qualified function, lean label, reviewed body text, why)]
SKELETON_PINS = {
    "plexact": [(EX, "PersLandscapeExact.__init__", "exact_init", EXACT_INIT_TEXT,
                 "the constructor call with `hom_deg=`, `critical_pairs=` is read as `ExactObj.new`"),
                (BASE, "PersLandscape.__init__", "base_init", BASE_INIT_TEXT, "reached through `super().__init__`")],
    "plgrid": [(APXPY, "PersLandscapeApprox.__init__", "approx_init", APPROX_INIT_TEXT,
                "the constructor call with `start=`, `stop=`, `num_steps=`, `hom_deg=`, `values=` is read as `GridObj.new`"),
               (BASE, "PersLandscape.__init__", "base_init", BASE_INIT_TEXT, "reached through `super().__init__`")],
    "plvec": [(APXPY, "PersLandscapeApprox.__init__", "approx_init", APPROX_INIT_TEXT,
               "the constructor call with `start=`, `stop=`, `num_steps=`, `hom_deg=`, `values=` is read as `GridObj.new`")],
    "plnorm": [], "pltransform": [],
}
# `<function>: <the call as written> : <Lean type of its argument>`, in the order the translated functions of the file meet them
CONVERSIONS = {
    "plexact": ["union_crit_pairs: list(itertools.zip_longest(A.critical_pairs, B.critical_pairs)) : List (These (List (α × α)) (List (α × α)))"],
    "plgrid": ["PersLandscapeApprox.__neg__: np.array([-1 * depth_array for depth_array in self.values]) : List (List α)",
               "PersLandscapeApprox.__mul__: np.array([other * depth_array for depth_array in self.values]) : List (List α)",
               "snap_pl: np.array(np.interp(grid, np.linspace(pl.start, pl.stop, pl.num_steps), funct)) : List α",
               "snap_pl: np.array(snapped_landscape) : List (List α)"],
    "plnorm": ["PersLandscapeExact.sup_norm: list(itertools.chain.from_iterable(self.critical_pairs)) : List (α × α)",
               "PersLandscapeApprox.values_to_pairs: list(np.linspace(self.start, self.stop, self.num_steps)) : List α",
               "PersLandscapeApprox.values_to_pairs: list(zip(grid_values, vals)) : List (α × α)",
               "PersLandscapeApprox.values_to_pairs: np.array(result) : List (List (α × α))"],
    "plvec": ["vectorize: np.array(result) : List (List α)"],
    "pltransform": [],
}
# `<function>: <display as written>`: the 2-lists / 2-tuples read as pairs
DISPLAYS = {}          # filled below (py2lean_landscape_tables.py)
# key -> [(python file, class)]: the classes whose instances the translated code handles as objects (attribute reads, method calls,
# operators, iteration, `np.array(list of them)`): EVERY binding of their class bodies is pinned (`src_<key>_class_bodies`)
OBJECT_CLASSES = {
    "plexact": [(EX, "PersLandscapeExact"), (BASE, "PersLandscape")],
    "plgrid": [(APXPY, "PersLandscapeApprox"), (BASE, "PersLandscape")],
    "plnorm": [(EX, "PersLandscapeExact"), (APXPY, "PersLandscapeApprox"), (BASE, "PersLandscape")],
    "plvec": [(EX, "PersLandscapeExact"), (APXPY, "PersLandscapeApprox"), (BASE, "PersLandscape")],
    "pltransform": [(TRF, "PersistenceLandscaper")],
}
CLASS_BODIES = {}      # filled below (py2lean_landscape_tables.py)
GETTERS = {"pltransform": [("start", "return self._start"), ("stop", "return self._stop")]}
BINDINGS = {}          # filled below (reviewed against /repo)
SIGNATURES = {}        # filled below

# callees that are generated in ANOTHER file (their obligations are cited in the proofs)
EXTERNAL_FUNCS = {
    "plexact": {"pos_to_slope_interp": dict(lean="pos_to_slope_interp", fparams=[], params=[("l", LP)], ret=LP, raising=True),
                "slope_to_pos_interp": dict(lean="slope_to_pos_interp", fparams=[], params=[("l", LP)], ret=LP, raising=True),
                "sum_slopes": dict(lean="sum_slopes", fparams=[], params=[("a", LP), ("b", LP)], ret=LP, raising=False)},
    "plgrid": {"union_vals": dict(lean="union_vals", fparams=[], params=[("A", LLA), ("B", LLA)], ret=X(LLA, LLA), raising=False)},
    "plnorm": {}, "plvec": {}, "pltransform": {},
}
EXTERNAL_METHODS = {
    "plnorm": {("SIGMA", "sup_norm"): dict(lean="sup_norm", lean_fp="sup_norm", fparams=[], params=[], ret="A", raising=True, threads=True)},
}
VIRTUALS = {"PersLandscape.p_norm": ["compute_landscape", "sup_norm"]}

FILES = {
    # key: (python source, generated Lean file, Lean namespace, imports, property, opened namespaces, variables)
    "plexact": (EX, "SrcPLExact.lean", "PersimVerif.Src.landscapes_exact_arith",
                "PersimVerif.Model.PLArith\nimport PersimVerif.Lemmas.SrcLibLandscape\nimport PersimVerif.Lemmas.SrcBridgeLandscapeExact\n"
                "import PersimVerif.Generated.SrcPLArith", "C09",
                "PersimVerif.PLArith PersimVerif.SrcLib PersimVerif.SrcLib.Landscape PersimVerif.Src.landscapes_auxiliary_arith", PLA_VARS),
    "plgrid": (APXPY, "SrcPLGrid.lean", "PersimVerif.Src.landscapes_grid_arith",
               "PersimVerif.Model.PLArith\nimport PersimVerif.Lemmas.SrcLibLandscape\nimport PersimVerif.Lemmas.SrcBridgeLandscapeGrid\n"
               "import PersimVerif.Generated.SrcPLArith", "C09",
               "PersimVerif.PLArith PersimVerif.SrcLib PersimVerif.SrcLib.Landscape PersimVerif.Src.landscapes_auxiliary_arith", PLA_VARS),
    "plnorm": (AUX, "SrcPLNorm.lean", "PersimVerif.Src.landscapes_norms",
               "PersimVerif.Model.PNorm\nimport PersimVerif.Lemmas.SrcLibLandscape\nimport PersimVerif.Lemmas.SrcBridgeLandscapeNorm\n"
               "import PersimVerif.Generated.SrcPNorm", "C10",
               "PersimVerif.PNorm PersimVerif.SrcLib PersimVerif.SrcLib.Landscape PersimVerif.Src.landscapes_auxiliary", PN_VARS),
    "plvec": (TOOLS, "SrcPLVec.lean", "PersimVerif.Src.landscapes_vectorize",
              "PersimVerif.Model.Approx\nimport PersimVerif.Lemmas.SrcLibLandscape\nimport PersimVerif.Lemmas.SrcBridgeLandscapeVec", "C08",
              "PersimVerif.Approx PersimVerif.SrcLib PersimVerif.SrcLib.Landscape", APX_VARS),
    "pltransform": (TRF, "SrcPLTransform.lean", "PersimVerif.Src.landscapes_transform",
                    "PersimVerif.Model.Transformers\nimport PersimVerif.Lemmas.SrcBridgeLandscapeTransform", "C08",
                    "PersimVerif.Transformers", "{α δ ρ ν : Type}"),
}
BRIDGES = {
    "plexact": ["PersimVerif/Lemmas/SrcLibLandscape.lean", "PersimVerif/Lemmas/SrcBridgeLandscapeExact.lean"],
    "plgrid": ["PersimVerif/Lemmas/SrcLibLandscape.lean", "PersimVerif/Lemmas/SrcBridgeLandscapeGrid.lean"],
    "plnorm": ["PersimVerif/Lemmas/SrcLibLandscape.lean", "PersimVerif/Lemmas/SrcBridgeLandscapeNorm.lean"],
    "plvec": ["PersimVerif/Lemmas/SrcLibLandscape.lean", "PersimVerif/Lemmas/SrcBridgeLandscapeVec.lean"],
    "pltransform": ["PersimVerif/Lemmas/SrcBridgeLandscapeTransform.lean"],
}
# generated files of OTHER keys that a file of this engine imports (a harness module must regenerate them too)
IMPORTED_KEYS = {"plexact": ["plarith"], "plgrid": ["plarith"], "plnorm": ["pnorm"], "plvec": [], "pltransform": []}
WHAT = {
    "plexact": "PersLandscapeExact.__neg__ / __add__ / __sub__ / __mul__ / __rmul__ / __truediv__ / __getitem__ and auxiliary.union_crit_pairs",
    "plgrid": "the guards PersLandscape.__add__ / __mul__ / __truediv__ of base.py, PersLandscapeApprox.__add__ / __neg__ / __sub__ / __mul__ / "
              "__rmul__ / __truediv__ / __getitem__, tools.snap_pl / lc_approx / average_approx",
    "plnorm": "PersLandscape.p_norm of base.py, auxiliary._p_norm around its segment region, PersLandscapeExact.p_norm / sup_norm, "
              "PersLandscapeApprox.p_norm / sup_norm / values_to_pairs",
    "plvec": "tools.vectorize",
    "pltransform": "PersistenceLandscaper.transform",
}
MODELS = {
    "plexact": "Exact.neg / add / sub / smul / sdiv, unionCritPairs / hasEmptyDepth of Model/PLArith.lean",
    "plgrid": "Grid.add / neg / sub / mul / div, snapPl, lcApprox, averageApprox of Model/PLArith.lean",
    "plnorm": "checkP, pNormGen, supNormExact, supNormApprox, valuesToPairs, pNormMethod of Model/PNorm.lean",
    "plvec": "Approx.vectorize of Model/Approx.lean",
    "pltransform": "Transformers.ltransform of Model/Transformers.lean",
}


# ----------------------------------------------------------------------------- notes for the harness modules

def trusted_note(key):
    """the entry a harness module adds to its TRUSTED list"""
    return ("harness/translator/py2lean.py + py2lean_landscape.py (statement-level ast translation of %s into Generated/%s, proved equal on "
            "every run to the reviewed Lean text `Ref.*` of %s and through it to the hand-written models %s; its stated conventions -- SSA, "
            "`Except` for what can raise with the error value selected by the text of the `raise`, float division total with "
            "ZeroDivisionError as a hypothesis, a landscape object as the record of the attributes read, `compute_landscape()` as the "
            "library's lazy computation with the sweep / ramp computation a parameter, the keyword constructor calls as `ExactObj.new` / "
            "`GridObj.new`, operators and `super()` resolved on the class of the translated method, loops as `foldl` / `foldlM` of their "
            "own definitions, np.linspace / np.interp as parameters, the NumPy idioms of its header, names resolved by spelling with "
            "their bindings pinned as text -- its tables (types, error values, callee maps, obligation statements and proof scripts, "
            "the reviewed texts) and Lemmas/SrcLibLandscape.lean are trusted)" % (WHAT[key], FILES[key][1], BRIDGES[key][-1], MODELS[key]))


def manifest_note(key):
    """sentence appended to MANIFEST['note'] of a property that uses `key`"""
    names = []
    for c in TARGETS:
        if c["file"] == key:
            names += [o[0] for o in c["obligations"] if o[0].endswith("_eq_model") or o[0].endswith("_eq") or o[0].endswith("_no_depths")]
    return ("Source translator (landscape engine, key `%s`): %s are re-translated from the source text into Lean on every run "
            "(Generated/%s), statement by statement, and proved EQUAL for all inputs (computed or lazy `compute=False` objects alike: the "
            "model's operand is the object after `compute_landscape()`) to %s: %s; each via `src_<def>_eq_ref` (generated = reviewed Lean "
            "text of the same shape, by rfl) and the hand-written lemmas of %s.  An edit of a translated line breaks the obligation of the "
            "definition it lands in (or `srcShape_<f>_recognised` when it leaves the subset) and triggers the failing-input search, "
            "except a renaming of locals or a rewrite the `let`s absorb.  Pinned as text: signatures, module- and class-level bindings "
            "per Python file, conversions read as the identity, the `__init__` bodies behind the constructor calls, property getters; the "
            "texts of the `raise` statements select the error values (a changed text leaves the subset).  Not tied by this translator: "
            "float rounding, `np.linspace` / `np.interp` themselves (parameters with the model's contract), non-number operands of the "
            "exact class, slices in `__getitem__`, `compute_landscape` itself (Generated/SrcSweep.lean, SrcApprox.lean) "
            "(trusted: the translator's stated conventions, its tables, Lemmas/SrcLibLandscape.lean)."
            % (key, WHAT[key], FILES[key][1], MODELS[key], ", ".join(names), BRIDGES[key][-1]))


# ----------------------------------------------------------------------------- output

def header(key):
    py, out, ns, imports, prop, opens, variables = FILES[key]
    doc = __doc__.strip().split("\n")
    conv = "\n".join(doc[doc.index("Semantics of the subset (the translator's conventions):"):])
    return (
        "import %s\n"
        "/-!\n"
        "GENERATED by harness/translator/py2lean.py (landscape engine py2lean_landscape.py, key `%s`) from persim/landscapes — do not edit;\n"
        "rewritten on every run (`pre_build` of %s).\n\n"
        "%s, translated STATEMENT BY STATEMENT (`ast`).\n"
        "Obligations:\n"
        "  * `src_<def>_eq_ref`: every generated definition equals the reviewed Lean text of the same shape in\n"
        "    %s (`Ref.*`) by `rfl`, so an edit of a translated line -- other than a renaming of\n"
        "    locals or a rewrite the `let`s absorb -- breaks the obligation of the definition it lands in;\n"
        "  * `src_<def>_eq_model` (`src_<def>_eq`): the generated definition EQUALS the hand-written model (%s)\n"
        "    for all inputs under the hypotheses printed in the statement;\n"
        "  * text pins: `src_…_signature`, `src_<key>_<file>_bindings`, `src_<key>_conversions`, `src_<key>_displays`,\n"
        "    `src_<key>_class_bodies`, `src_<f>_skeleton`, `src_<key>_getters`.\n\n"
        "%s\n"
        "Reviewed allow-list of dead stores (`dead_ok`, per translated function): %s.\n"
        "A source outside the subset gives `def srcShape_<f> : Bool := false`, and `srcShape_<f>_recognised` fails.\n"
        "-/\n"
        "set_option linter.unusedVariables false\n"
        "set_option linter.unusedSectionVars false\n"
        "set_option linter.unusedSimpArgs false\n"
        "set_option linter.constructorNameAsVariable false\n\n"
        "namespace %s\nopen %s\n" % (imports, key, {"plexact": "C09", "plgrid": "C09", "plnorm": "C10", "plvec": "C08", "pltransform": "C08, C18"}[key],
                                     WHAT[key], BRIDGES[key][-1].split("/")[-1], MODELS[key], conv,
                                     ", ".join("%s: %s" % (c["lean"], list(c["dead_ok"])) for c in TARGETS if c["file"] == key and c.get("dead_ok"))
                                     or "empty", ns, opens))


def render_sig(func, text, expected):
    s = sanitize(func)
    return ("/-- decorators and `def` line of `%s` (defaults and annotations as `ast.unparse` prints them) -/\n"
            "def srcSignature_%s : String :=\n  %s\n"
            "theorem src_%s_signature : srcSignature_%s =\n  %s := rfl\n" % (func, s, lean_str(text), s, s, lean_str(expected)))


def getter_texts(cls, props):
    out = []
    for m in cls.body:
        if isinstance(m, ast.FunctionDef) and m.name in props \
                and any(isinstance(d, ast.Name) and d.id == "property" for d in m.decorator_list):
            out.append((m.name, ast.unparse(ast.Module(body=strip_doc(m.body), type_ignores=[]))))
    return out


def find_any(tree, qual):
    """like find_function, decorators allowed (for text pins)"""
    if "." not in qual:
        return find_function(tree, qual)
    cls, name = qual.split(".")
    for n in tree.body:
        if isinstance(n, ast.ClassDef) and n.name == cls:
            for m in n.body:
                if isinstance(m, ast.FunctionDef) and m.name == name:
                    return m, n
            return None, n
    return None, None


def stem(path):
    return os.path.basename(path)[:-3]


def pair_list(es):
    return "[" + ",\n   ".join("(%s, %s)" % (lean_str(a), lean_str(b)) for a, b in es) + "]"


def class_bodies(key, root, trees):
    """[(name, text)]: for every class of OBJECT_CLASSES[key] its `class` line and every binding of its body, in source order"""
    from .py2lean import scope_bindings
    out = []
    for p, cname in OBJECT_CLASSES.get(key, []):
        tree = trees.get(p)
        if tree is None:
            try:
                tree = ast.parse(open(os.path.join(root, p)).read())
            except (OSError, SyntaxError) as e:
                out.append(("class " + cname, "%s: %s" % (type(e).__name__, e)))
                continue
        cls = [n for n in tree.body if isinstance(n, ast.ClassDef) and n.name == cname]
        if len(cls) != 1:
            out.append(("class " + cname, "%d class statements of that name in %s" % (len(cls), p)))
            continue
        c = cls[0]
        head = "".join("@%s " % ast.unparse(d) for d in c.decorator_list) + "class %s(%s)" % (
            c.name, ", ".join([ast.unparse(b) for b in c.bases] + ["%s=%s" % (k.arg, ast.unparse(k.value)) for k in c.keywords]))
        out.append(("class " + cname, head))
        for n, t in scope_bindings(c.body):
            out.append(("%s.%s" % (cname, n), t))
    return out


def render_file(key, root):
    from . import py2lean as _base
    py, out, ns, imports, prop, opens, variables = FILES[key]
    o = [header(key)]
    info = {"source": "persim/landscapes", "output": "/".join([GEN.replace(os.sep, "/"), out]), "functions": {}}
    cfgs = [c for c in TARGETS if c["file"] == key]
    pins = SKELETON_PINS.get(key, [])
    pyfiles = []
    for p in [c["pyfile"] for c in cfgs] + [p for p, *_ in pins]:
        if p not in pyfiles:
            pyfiles.append(p)
    trees, errs = {}, {}
    for p in pyfiles:
        try:
            trees[p] = ast.parse(open(os.path.join(root, p)).read())
        except (OSError, SyntaxError) as e:
            errs[p] = "%s: %s" % (type(e).__name__, e)
    found = {}
    for c in cfgs:
        found[c["func"]] = find_function(trees[c["pyfile"]], c["func"]) if c["pyfile"] in trees else (None, None)
    pinned = {}
    for p, q, lab, text, why in pins:
        pinned[(p, q)] = find_any(trees[p], q) if p in trees else (None, None)
    # bindings, per Python file
    for p in pyfiles:
        fl = [(c["func"], found[c["func"]][0], found[c["func"]][1]) for c in cfgs if c["pyfile"] == p] \
            + [(q, pinned[(pp, q)][0], pinned[(pp, q)][1]) for pp, q, *_ in pins if pp == p]
        bk = "%s_%s" % (key, stem(p))
        o.append(bindings_section(bk, trees.get(p), fl, BINDINGS.get(bk), errs.get(p), info))
    # the callee tables of this file
    ctx = {"defs": [], "loopno": [0], "conversions": [], "displays": [], "raises": [], "getters": set(),
           "funcs": dict(EXTERNAL_FUNCS.get(key, {})), "methods": dict(EXTERNAL_METHODS.get(key, {})),
           "fn_nodes": {c["func"]: found[c["func"]][0] for c in cfgs if found[c["func"]][0] is not None}}
    for c in cfgs:
        spec = dict(lean=c["lean"], fparams=list(c["fparams"]), ret=c["ret"], raising=c["raising"], threads=c["threads"],
                    params=[(p_, t_) for p_, t_ in c["params"].items() if p_ != "self"], virtuals=VIRTUALS.get(c["func"], []))
        if "." in c["func"]:
            cname, m = c["func"].split(".")
            ctx["methods"][("BASE" if cname == "PersLandscape" else c["cls"], m)] = spec
        else:
            ctx["funcs"][c["func"]] = spec
    for c in cfgs:
        f = c["lean"]
        o.append("/-! ### `%s`  (from `%s` of %s) -/" % (f, c["func"], c["pyfile"]))
        o.append("section")
        o.append("variable " + variables + "\n")
        fn = found[c["func"]][0]
        err, defs = errs.get(c["pyfile"]), None
        if err is None and fn is None:
            err = "Shape: function %s not found (or decorated)" % c["func"]
        if err is None:
            try:
                defs = translate(fn, c, ctx)
            except Shape as e:
                err = "Shape: %s" % e
            except Exception as e:                       # anything else the source makes the translator do: outside the subset
                err = "%s: %s" % (type(e).__name__, e)
        if err is not None:
            o.append("/-- the translator could not read the source: %s -/" % err.replace("-/", "- /").replace("/-", "/ -").replace("\n", " "))
            o.append("def srcShape_%s : Bool := false" % f)
            o.append("theorem srcShape_%s_recognised : srcShape_%s = true := by decide\n" % (f, f))
            o.append("end\n")
            info["functions"][f] = {"error": err}
            del ctx["defs"][:]
            continue
        o.append("def srcShape_%s : Bool := true" % f)
        o.append("theorem srcShape_%s_recognised : srcShape_%s = true := by decide\n" % (f, f))
        for _, d in defs:
            o.append(d + "\n")
        names = ["srcShape_%s_recognised" % f]
        for name, binders, stmt, proof, doc in c["obligations"]:
            o.append("/-- %s -/" % doc)
            o.append("theorem %s%s :\n    %s := %s\n" % (name, (" " + binders) if binders else "", stmt, proof))
            names.append(name)
        o.append(render_sig(c["func"], signature_text(fn), SIGNATURES.get((key, c["func"]), "")))
        names.append("src_%s_signature" % sanitize(c["func"]))
        o.append("end\n")
        info["functions"][f] = {"obligations": names}
    # text pins
    o.append("/-! ### text pins -/\n")
    names = []
    def strs(ts):
        return "[" + ",\n   ".join(lean_str(t) for t in ts) + "]"
    o.append("/-- the array / list constructions that the translation reads as the identity on the value: the function each stands in, "
             "the call AS WRITTEN (argument included), the Lean type of its argument; in the order the translated functions of this "
             "file meet them -/")
    o.append("def srcConversions_%s : List String :=\n  %s" % (key, strs(ctx["conversions"])))
    o.append("theorem src_%s_conversions : srcConversions_%s =\n  %s := rfl\n" % (key, key, strs(CONVERSIONS.get(key, []))))
    names.append("src_%s_conversions" % key)
    o.append("/-- the 2-lists `[a, b]` and 2-tuples `(a, b)` that the translation reads as pairs, as written, with the function each "
             "stands in (a list and a tuple are different Python values with the same translation) -/")
    o.append("def srcDisplays_%s : List String :=\n  %s" % (key, strs(ctx["displays"])))
    o.append("theorem src_%s_displays : srcDisplays_%s =\n  %s := rfl\n" % (key, key, strs(DISPLAYS.get(key, []))))
    names.append("src_%s_displays" % key)
    o.append("/-- every binding in the class bodies of the classes whose instances the translated code handles as objects (a "
             "`__iter__`, `__len__`, `__array__`, `__bool__`, `__eq__`, `__radd__`, a property named like an attribute … added to one of "
             "them changes what iteration, `np.array(…)`, an operator, an attribute read on an instance does) -/")
    o.append("def srcClassBodies_%s : List (String × String) :=\n  %s" % (key, pair_list(class_bodies(key, root, trees))))
    o.append("theorem src_%s_class_bodies : srcClassBodies_%s =\n  %s := rfl\n" % (key, key, pair_list(CLASS_BODIES.get(key, []))))
    names.append("src_%s_class_bodies" % key)
    for p, q, lab, text, why in pins:
        fn = pinned[(p, q)][0]
        body = ast.unparse(ast.Module(body=strip_doc(fn.body), type_ignores=[])) if fn is not None else "(not found)"
        o.append("/-- the body of `%s` (%s), as `ast.unparse` prints it (nothing of it is translated: %s) -/" % (q, p, why))
        o.append("def srcSkeleton_%s : String :=\n  %s" % (lab, lean_str(body)))
        o.append("theorem src_%s_skeleton : srcSkeleton_%s =\n  %s := rfl\n" % (lab, lab, lean_str(text)))
        names.append("src_%s_skeleton" % lab)
        if fn is not None:
            o.append(render_sig(q, signature_text(fn), SIGNATURES.get((key, q), "")))
            names.append("src_%s_signature" % sanitize(q))
    if key in GETTERS:
        cls = next((cl for _, cl in found.values() if cl is not None), None)
        got = getter_texts(cls, [g for g, _ in GETTERS[key]]) if cls is not None else [("(class not found)", "")]

        def lst(es):
            return "[" + ",\n   ".join("(%s, %s)" % (lean_str(a), lean_str(b)) for a, b in es) + "]"
        o.append("/-- the getters of the properties the translated method reads, as `ast.unparse` prints their bodies -/")
        o.append("def srcGetters_%s : List (String × String) :=\n  %s" % (key, lst(got)))
        o.append("theorem src_%s_getters : srcGetters_%s =\n  %s := rfl\n" % (key, key, lst(GETTERS[key])))
        names.append("src_%s_getters" % key)
    info["functions"]["pins"] = {"obligations": names}
    nt = {}
    for p in pyfiles:
        if p in trees:
            nt[p] = not_translated(p, trees[p], _base.all_target_functions(p))
    if nt:
        info["not_translated"] = nt
        o.append(not_translated_comment(sorted(nt.items())))
    o.append("end %s\n" % ns)
    return "\n".join(o), info


def expected_tables(root):
    """Python source of BINDINGS / SIGNATURES as the tree at `root` has them -- for a maintainer who has REVIEWED a change
    (`python -m harness.translator.py2lean_landscape --expected [root]`); never called by the checks"""
    import re
    b, sg, dp, cb = {}, {}, {}, {}

    def un(t):
        return re.sub(r"\\x([0-9a-f]{2})", lambda m: chr(int(m.group(1), 16)), t).replace("\\n", "\n").replace('\\"', '"').replace("\\\\", "\\")
    for key in FILES:
        text, _ = render_file(key, root)
        for m in re.finditer(r"def srcBindings_(\w+) : List \(String × String\) :=\n  \[(.*?)\]\ntheorem", text, re.S):
            b[m.group(1)] = [(un(n), un(t)) for n, t in re.findall(r'\("((?:[^"\\]|\\.)*)", "((?:[^"\\]|\\.)*)"\)', m.group(2))]
        funcs = [c["func"] for c in TARGETS if c["file"] == key] + [q for _, q, *_ in SKELETON_PINS.get(key, [])]
        for f in funcs:
            m = re.search(r"def srcSignature_%s : String :=\n  \"((?:[^\"\\]|\\.)*)\"\n" % sanitize(f), text)
            if m:
                sg[(key, f)] = un(m.group(1))
        m = re.search(r"def srcDisplays_%s : List String :=\n  \[(.*?)\]\ntheorem" % key, text, re.S)
        dp[key] = [un(t) for t in re.findall(r'"((?:[^"\\]|\\.)*)"', m.group(1))] if m else []
        m = re.search(r"def srcClassBodies_%s : List \(String × String\) :=\n  \[(.*?)\]\ntheorem" % key, text, re.S)
        cb[key] = [(un(n), un(t)) for n, t in re.findall(r'\("((?:[^"\\]|\\.)*)", "((?:[^"\\]|\\.)*)"\)', m.group(1))] if m else []
    return b, sg, dp, cb


def target_functions(path):
    """qualified names of the functions of the Python file `path` that this engine translates or pins (for py2lean.all_target_functions)"""
    out = [c["func"] for c in TARGETS if c["pyfile"] == path]
    for pins in SKELETON_PINS.values():
        out += [q for p, q, *_ in pins if p == path and q not in out]
    return out


try:                                                     # the reviewed texts of the bindings and signatures
    from .py2lean_landscape_tables import BINDINGS as _B, SIGNATURES as _S
    BINDINGS.update(_B)
    SIGNATURES.update(_S)
    from .py2lean_landscape_tables import DISPLAYS as _D, CLASS_BODIES as _C
    DISPLAYS.update(_D)
    CLASS_BODIES.update(_C)
except ImportError:
    pass


if __name__ == "__main__":
    import sys
    if "--expected" in sys.argv:
        args = [a for a in sys.argv[1:] if a != "--expected"]
        b, sg, dp, cb = expected_tables(args[0] if args else os.environ.get("PERSIM_ROOT", "/repo"))
        print("# reviewed texts of the landscape engine (py2lean_landscape.py): module- and class-level bindings per Python file, signatures")
        print("BINDINGS = {")
        for k, es in b.items():
            print("    %r: [" % k)
            for n, t in es:
                print("        (%r, %r)," % (n, t))
            print("    ],")
        print("}\nSIGNATURES = {")
        for k, t in sg.items():
            print("    %r: %r," % (k, t))
        print("}\nDISPLAYS = {")
        for k, ts in dp.items():
            print("    %r: [" % k)
            for t in ts:
                print("        %r," % t)
            print("    ],")
        print("}\nCLASS_BODIES = {")
        for k, es in cb.items():
            print("    %r: [" % k)
            for n, t in es:
                print("        (%r, %r)," % (n, t))
            print("    ],")
        print("}")
