"""
Source translator for what `persim.bottleneck` / `persim.wasserstein` do with the augmented matrix (DESIGN.md 3.2), the fourth
engine behind py2lean.generate().

Targets (keys of FILES):
  bottleneck_search   persim/bottleneck.py  -> lean/PersimVerif/Generated/SrcBottleneckSearch.lean
      `bn_preamble`  the top-level statements up to and including the last `if` in front of `D = np.zeros(...)` (conversion to
                 float arrays, `M = min(S.shape[0], S.size)`, the finite-death filter with its warning, the `[[0, 0]]` substitution)
                                                                                       = Bottleneck.filterFinite / withPlaceholder
      `bisect`   the statements behind the last block assignment `D[...] = ...` up to and including the top-level `while`
                 ("Step 2": sorted distinct entries, the bisection with the Hopcroft-Karp oracle)       = Bottleneck.searchLoop
      `bn_rows`  the body of the top-level `if return_matching:` in front of its `return` (the extraction loop) = Bottleneck.extractRows
  wasserstein_assign  persim/wasserstein.py -> lean/PersimVerif/Generated/SrcWassersteinAssign.lean
      `ws_preamble`  the same statements of `wasserstein`                               = Wasserstein.finitePart / warned / orPlaceholder
      `assign`   the statements behind the last block assignment `D[...] = ...` up to the top-level `if matching:`
                 (`linear_sum_assignment`, `np.sum(D[matchi, matchj])`)                                  = pairs.mapM lookup / optSum
      `ws_rows`  the body of `if matching:` in front of its `return` (the vectorised extraction)         = Wasserstein.rowsOf
The statements are read with `ast` and translated STATEMENT BY STATEMENT into Lean definitions over the models' own core classes
(no Mathlib in the generated file).  Each generated definition is proved equal (a) to a reviewed Lean text of the same shape
(`PersimVerif.SrcBridge.Matching.Ref.*`, `src_<def>_eq_ref`; `rfl`, or an induction on the fuel / the iterated list whose steps
are `rfl`) and through it (b) to the hand-written model (`src_bisect_eq_model`, `src_bn_rows_eq_model`, `src_ws_value_eq_model`,
`src_ws_rows_eq_model`, …: for EVERY oracle / solver and EVERY matrix; the inductions are in Lemmas/SrcBridgeMatching.lean).

Semantics of the subset (the translator's conventions):
  * straight-line code is SSA-renamed (`x`, `x_1`, ...), every assignment is a `let`; every SSA version has its own type (the
    loop variable `i`, an index, is a `Nat`; after `i = -1` it is an `Int`); a name the translator makes up -- a later version
    `x_k`, a guard `v`, a flag `warn<k>`, `c1` / `c2`, a name changed by the alias table or by a `_` suffix (`fuel`, `range`,
    `rest`, `r`, `p`: binders of the generated text) -- that is spelled like ANY identifier of the Python function is refused (no
    capture between a Python local and an SSA name);
  * NO DEAD STORES: every generated binding (`let`, a component of a pattern, a parameter of a loop definition) has to be read
    behind it; a source statement whose value nothing reads is outside the subset (`rfl` would absorb the `let`, while in Python
    the stored value may live on -- in a later region, the pinned `return`, the next iteration);
  * the function is a CHAIN of regions (preamble -> matrix region of the statement-level engine -> the statements behind the
    matrix -> the body of `if <flag>:`) and pinned statements; a region hands on exactly its declared OUTPUTS (the results of its
    definition; the matrix region: the matrix): a region -- the matrix region included -- that (re)binds, in any way (assignment,
    tuple / starred / walrus / loop target, `append`, subscript store, `import`, `def`, …), a name that is not one of its outputs
    and that anything behind it reads (a parameter of a later region, a global name a later region calls, a name loaded by the
    matrix region or by a pinned statement: `M`, `N`, `matching`, `return_matching`, `bdist`, `matchdist`, …) is refused;
  * lists, the row array, the dict `graph`, the arrays are VALUES, so a second name for one (`y = x`) is outside the subset (an
    in-place update through one name would be an update of the other in Python); `y = x` is read as a copy for ints, floats,
    Booleans and the oracle's dict only (no statement of the subset updates those in place);
  * every definition returns `Option`: `none` = the source does not produce a value there -- it raises (`l[i]` / `l[-1]` out of
    range, a key missing from a dict, NumPy shapes that do not fit: the guards `match … with | none => none | some v => …` stand
    where the statement stands), or a fuelled loop runs out of fuel.  `none` is never a value: an equality with the model's `some`
    says the source terminates normally;
  * the external solvers are PARAMETERS: `HopcroftKarp(g).maximum_matching()` is `oracle g` (`oracle : Graph → Matching`),
    `optimize.linear_sum_assignment(D)` is `lsa D` (`lsa : Mat α → List (Nat × Nat)`, the list `zip(row_ind, col_ind)`; the tuple
    assignment `matchi, matchj = …` takes its two components `.unzip`); their contracts are hypotheses of the models' theorems, not
    of these equalities;
  * values: a matrix entry is `Ext α` (bottleneck; `Ext.top` = `np.inf`) / `Option α` (wasserstein; `none` = `np.inf`); Python
    ints that are lengths / indices are `Nat`, a negative literal is an `Int`, a `Nat` that meets an `Int` is cast; a 1-D array or
    a list is a `List`; the row `[i, j, d]` is the triple `((i : Int), (j : Int), d)`; a `(k, 3)` array is the list of its rows;
  * bottleneck's `D` is its entry function `D : Nat → Nat → Ext α` (`D[i, j]` is `D i j`; as in the model an index outside the
    matrix is not an exception: every `j` comes from a `range(D.shape[1])` loop or from the oracle's matching) and `D.shape[0]`,
    `D.shape[1]` are `M + N` -- the shape `np.zeros((M + N, M + N))` is enforced by the matrix region (Generated/SrcBottleneck.lean);
    `D.flatten()` is the model helper `entries (M + N) D`, `np.sort(np.unique(l))` is `sortUnique l`;
    wasserstein's `D` is the model's `Mat α` (a list of rows); `D[a, b]` with two index arrays is `SrcLib.Matching.fancy`
    (`lookup` pair by pair; `none` = IndexError / arrays that do not pair up), `np.sum` is the model's `optSum`;
  * dicts: a dict that the function fills key by key (`graph`), with keys `'{}'.format(i)` for indices `i`, is the list of its
    values (`g['{}'.format(i)] = e` is `SrcLib.Matching.dictPut g i e`: appends for the next key, overwrites an old one, `none`
    otherwise); a dict that is only ever replaced as a whole (`matching`) is of the oracle's kind;
    a set built by a comprehension over a `range` is the increasing list of its members; the oracle's two-way dict (`'i' -> j` and
    `j -> 'i'`) is the list of its pairs `(i, j)` (`Matching`): `len(res)` is `2 * res.length`, `res['{}'.format(i)]` is
    `res.lookup i` (`none` = KeyError), `{}` is `[]`;
  * `len(l)` is `l.length`, and so is `l.size` for a 1-D array of entries (`ds`; a Python list has no `.size`);  `l[-1]` is `l.getLast?`, `l[k]` is `l[k]?`;  `l[0:k]` is `l.take k`, `l[k:]` / `l[k::]` is
    `l.drop k`;  `int(a / b)` for a `Nat` `a` and a positive literal `b` is `a / b` (floor division of naturals: what the float
    quotient truncates to below 2^53), and so is `a // b`;  `bisect_left(range(n), x)` is `SrcLib.Matching.bisectLeftRange n x` (CPython's loop);
  * `while c:` is a recursion on a fuel argument that counts executions of the body: the test is evaluated first, a false test
    returns the live names, a true test with fuel 0 is `none`; the fuel passed at loop entry is `len(ds) + 1` for the list `ds`
    named in the table;  `for i in range(n)` is a structural recursion over `List.range n`;  `continue` and falling off the body
    are the recursive call;  a loop definition takes the names its body only reads as leading parameters, then the names it
    re-assigns that are read again (carried), and returns those of them that are read after the loop;
  * an `if` that is the last statement of its block, or has a `continue` inside, takes the statements behind it into both
    branches; any other `if` is an if-expression yielding the names its branches assign;
  * `a > b` is written `b < a`, `a >= b` is `b ≤ a`, `a < b` on matrix entries (which carry `≤` only) is `¬ b ≤ a`, `and` is `∧`;
    `l.append(x)` is `l ++ [x]`;
  * the vectorised NumPy statements on the `(k, 3)` array `ret` are read row by row: `np.zeros((k, 3))` is `k` rows `(0, 0, 0)`,
    `ret[:, 0:2] = np.array(p)` / `ret[:, 2] = v` are `SrcLib.Matching.setCols01` / `setCol2` (`none` = the shapes differ),
    `ret[<mask>, c] = e` is `ret.map fun r => if <mask at r> then <r with column c := e> else r`, `ret[<mask>, :]` is
    `ret.filter`; in a mask `ret[:, c]` is the column `c` of the row (`r.1`, `r.2.1`, `r.2.2`); `np.array(l)` of a list of index pairs is `l` (a fresh
    `(k, 2)` array with the same rows; accepted only as the WHOLE right side of an assignment, whose text is pinned:
    `src_<f>_conversions`); `[(i, j) for i, j in zip(a, b)]` is `(a.zip b).map fun (i, j) => (i, j)`.
  * the preamble: an input diagram is the list of its rows `(birth, death)` with `death : Option α` (`none` = a non-finite death;
    further columns are ignored, as in the model); `S = np.array(x, dtype=float)` is `S := x` (the models are dtype-free; accepted only as
    a whole assignment to a name, and the STATEMENT texts are pinned: `src_<f>_conversions`); `S.shape[0]` is `S.length`; `S.size` is `c * S.length` for the number `c` of columns of the
    array, a PARAMETER of the definition (`c1`, `c2`; the equalities with the model hold for `c ≥ 1`: an empty 1-D array has size 0
    as well); `min(a, b)` is `min`; `S[np.isfinite(S[:, 1]), :]` is `S.filter fun p => p.2.isSome`; `np.array([[0, 0]])` is
    `[(0, some 0)]`; the k-th statement `warnings.warn(<message>)` sets the flag `warn<k>`, `false` at entry (the message texts are
    pinned: `src_<f>_warnings`; a `warnings.warn` in any other region is outside the subset); the arrays `S`, `T` handed on to the matrix region have finite deaths only
    (`SrcBridge.Matching.lift` of the model's point lists).
What is not translated is pinned as text: `srcSkeleton_<function>` (the function with every translated statement -- of this
engine and of the matrix region -- replaced by `...`: what is left is the `if return_matching:` / `if matching:` header and the
`return` statements), `srcSignature_…`, `srcBindings_<key>`; the matrix region between the preamble and Step 2 is translated in
Generated/SrcBottleneck.lean / SrcWasserstein.lean (`src_aug_entry_eq_model`).
"""
import ast
import os
import re

from .py2lean import (Shape, LEAN_RESERVED, lean_str, strip_doc, GEN, bindings_section, render_signature, signature_text,
                      sanitize, not_translated, not_translated_comment)
from .py2lean_sweep import (E, par, Ret, Fail, Tail, Let, MatchOpt, Ite, MatchFuel, Join, tup, render)

# ----------------------------------------------------------------------------- types

TN, TZ, TB, TX = "N", "Z", "B", "X"
ROW, TW, MATRIX, MAT, ORACLE, LSA = ("row",), ("twoway",), ("matrix",), ("mat",), ("oracle",), ("lsa",)


def Lst(t):
    return ("list", t)


def Pair(a, b):
    return ("pair", a, b)


# types whose values no statement of the subset updates in place (Python ints / floats / bools; the oracle's dict, which is only
# ever replaced as a whole): `y = x` is a copy of the VALUE for them
ALIAS_OK = (TN, TZ, TB, TX, TW)


def is_list(t):
    return isinstance(t, tuple) and t[0] == "list"


def Dgm(cols):
    """a diagram array whose deaths may be non-finite; `cols`: the name of the parameter that stands for its number of columns
    (None: not known, `.size` cannot be read)"""
    return ("dgm", cols)


def is_dgm(t):
    return isinstance(t, tuple) and t[0] == "dgm"


def norm_ty(t):
    return ("dgm",) if is_dgm(t) else t


def lean_ty(t, cfg):
    if t == TN:
        return "Nat"
    if t == TZ:
        return "Int"
    if t == TB:
        return "Bool"
    if t == TX:
        return cfg["entry_ty"]
    if t == ROW:
        return "Int × Int × " + cfg["entry_ty"]
    if t == TW:
        return "Matching"
    if t == MATRIX:
        return "Nat → Nat → " + cfg["entry_ty"]
    if t == MAT:
        return "Mat α"
    if t == ORACLE:
        return "Graph → Matching"
    if t == LSA:
        return "Mat α → List (Nat × Nat)"
    if is_dgm(t):
        return "List (α × Option α)"
    if t is None or (isinstance(t, tuple) and any(x is None for x in t[1:])):
        raise Shape("a type could not be inferred: %r" % (t,))
    if t[0] == "list":
        return "List " + ty_atom(t[1], cfg)
    if t[0] == "pair":
        return "%s × %s" % (ty_atom(t[1], cfg), lean_ty(t[2], cfg))
    raise Shape("internal: type %r" % (t,))


def ty_atom(t, cfg):
    s = lean_ty(t, cfg)
    return "(%s)" % s if " " in s else s


def tuple_ty(ts, cfg):
    if len(ts) == 1:
        return ty_atom(ts[0], cfg)

    def part(t, last):
        x = lean_ty(t, cfg)
        return "(%s)" % x if not last and (" × " in x or "→" in x) else x
    return "(%s)" % " × ".join(part(t, i == len(ts) - 1) for i, t in enumerate(ts))


# ----------------------------------------------------------------------------- reads / writes / liveness

def expr_reads(n, cfg):
    """names an expression loads (comprehension variables excluded); a read of a matrix reads the names of its shape"""
    out = []

    def go(x, bound):
        if isinstance(x, ast.Name):
            if isinstance(x.ctx, ast.Load) and x.id not in bound and x.id not in out:
                out.append(x.id)
                for s in cfg.get("shape", {}).get(x.id, ()):
                    if s not in out:
                        out.append(s)
            return
        if isinstance(x, (ast.ListComp, ast.GeneratorExp, ast.SetComp)):
            b = set(bound)
            for g in x.generators:
                go(g.iter, b)
                b |= {t.id for t in ast.walk(g.target) if isinstance(t, ast.Name)}
                for c in g.ifs:
                    go(c, b)
            go(x.elt, b)
            return
        for c in ast.iter_child_nodes(x):
            go(c, bound)
    go(n, set())
    return out


def target_names(t):
    if isinstance(t, ast.Name):
        return [t.id]
    if isinstance(t, (ast.Tuple, ast.List)):
        return [n for e in t.elts for n in target_names(e)]
    if isinstance(t, ast.Subscript):
        b = t
        while isinstance(b, ast.Subscript):
            b = b.value
        return target_names(b)
    raise Shape("assignment target outside the subset: %s" % ast.unparse(t))


def stmt_parts(s):
    """(expressions evaluated, names then written, nested blocks) of one statement"""
    if isinstance(s, (ast.Pass, ast.Continue)):
        return [], [], []
    if isinstance(s, ast.Assign):
        w = [n for t in s.targets for n in target_names(t)]
        return [s.value] + [t for t in s.targets if isinstance(t, ast.Subscript)], w, []
    if isinstance(s, ast.Expr):
        w = []
        c = s.value
        if isinstance(c, ast.Call) and isinstance(c.func, ast.Attribute) and c.func.attr == "append" and isinstance(c.func.value, ast.Name):
            w.append(c.func.value.id)
        if getattr(s, "_warn_flag", None):          # `warnings.warn(..)`: sets the flag of its call site (see `mark_warnings`)
            return [], [s._warn_flag], []
        return [s.value], w, []
    if isinstance(s, ast.If):
        return [s.test], [], [s.body, s.orelse]
    if isinstance(s, ast.While):
        return [s.test], [], [s.body]
    if isinstance(s, ast.For):
        return [s.iter], [], [s.body]
    raise Shape("statement outside the subset: %s" % ast.unparse(s).split("\n")[0])


def assigned(stmts):
    out = []
    for s in stmts:
        ex, w, blocks = stmt_parts(s)
        if isinstance(s, ast.For):
            w = w + target_names(s.target)
        for n in w:
            if n not in out:
                out.append(n)
        for b in blocks:
            for n in assigned(b):
                if n not in out:
                    out.append(n)
    return out


def block_reads(stmts, cfg):
    out = []
    for s in stmts:
        ex, w, blocks = stmt_parts(s)
        for e in ex:
            for n in expr_reads(e, cfg):
                if n not in out:
                    out.append(n)
        for b in blocks:
            for n in block_reads(b, cfg):
                if n not in out:
                    out.append(n)
    return out


def first_use(items, name, cfg):
    """'read' if, running through the scan items, `name` may be read before it is certainly re-written; 'write' if it is
    certainly written first; None if neither happens"""
    for kind, x in items:
        if kind == "read":
            if name in x:
                return "read"
        elif kind == "expr":
            if name in expr_reads(x, cfg):
                return "read"
        elif kind == "stmts":
            for s in x:
                r = stmt_use(s, name, cfg)
                if r:
                    return r
    return None


def stmt_use(s, name, cfg):
    ex, w, blocks = stmt_parts(s)
    for e in ex:
        if name in expr_reads(e, cfg):
            return "read"
    if name in w:
        return "write"
    if isinstance(s, ast.If):
        a, b = first_use([("stmts", s.body)], name, cfg), first_use([("stmts", s.orelse)], name, cfg)
        if a == "read" or b == "read":
            return "read"
        return "write" if a == "write" and b == "write" else None
    if isinstance(s, ast.For):
        if name in target_names(s.target):
            return None
        return "read" if first_use([("stmts", s.body)], name, cfg) == "read" else None
    if isinstance(s, ast.While):
        return "read" if first_use([("stmts", s.body)], name, cfg) == "read" else None
    return None


def is_warn(s):
    return isinstance(s, ast.Expr) and isinstance(s.value, ast.Call) and dotted(s.value.func) == "warnings.warn" \
        and len(s.value.args) == 1 and not s.value.keywords


def mark_warnings(stmts):
    """the `warnings.warn(<message>)` statements of a region in source order: the k-th one sets the flag `warn<k>`;
    -> [(flag, message text)]"""
    out = []
    for st in stmts:
        for x in ast.walk(st):
            if isinstance(x, ast.stmt) and is_warn(x):
                x._warn_flag = "warn%d" % (len(out) + 1)
                out.append((x._warn_flag, ast.unparse(x.value.args[0])))
    return out


def has_escape(stmts):
    for s in stmts:
        if isinstance(s, (ast.Continue, ast.Break, ast.Return)):
            return True
        if isinstance(s, ast.If) and (has_escape(s.body) or has_escape(s.orelse)):
            return True
    return False


def const_int(n):
    """the int value of a literal `k` / `-k`, else None"""
    if isinstance(n, ast.Constant) and isinstance(n.value, int) and not isinstance(n.value, bool):
        return n.value
    if isinstance(n, ast.UnaryOp) and isinstance(n.op, ast.USub):
        v = const_int(n.operand)
        return None if v is None else -v
    return None


def dotted(n):
    if isinstance(n, ast.Name):
        return n.id
    if isinstance(n, ast.Attribute):
        b = dotted(n.value)
        return None if b is None else b + "." + n.attr
    return None


# names the generated text binds itself (loop definitions, the row / point lambdas): a Python name of that spelling gets a `_`
BINDER_NAMES = ("fuel", "range", "rest", "r", "p")


def function_idents(fn):
    """every identifier that occurs in the Python function: names, parameters, attribute and keyword names, nested definitions,
    imports, `global` / `nonlocal` / `except … as` names"""
    out = set()
    for x in ast.walk(fn):
        if isinstance(x, ast.Name):
            out.add(x.id)
        elif isinstance(x, ast.arg):
            out.add(x.arg)
        elif isinstance(x, ast.Attribute):
            out.add(x.attr)
        elif isinstance(x, ast.keyword) and x.arg:
            out.add(x.arg)
        elif isinstance(x, (ast.FunctionDef, ast.AsyncFunctionDef, ast.ClassDef)):
            out.add(x.name)
        elif isinstance(x, ast.alias):
            out.update((x.asname or x.name).split("."))
        elif isinstance(x, (ast.Global, ast.Nonlocal)):
            out.update(x.names)
        elif isinstance(x, ast.ExceptHandler) and x.name:
            out.add(x.name)
        else:
            for f in ("name", "rest"):                       # match patterns (`case … as name`, `*rest`, `**rest`)
                v = getattr(x, f, None)
                if isinstance(x, ast.pattern) and isinstance(v, str):
                    out.add(v)
    return out


def all_stores(stmts):
    """every name that ANY construct in `stmts` (re)binds or deletes, or whose value it stores into through a subscript / an
    attribute -- for statements this engine does not translate itself (conservative: comprehension variables count)"""
    out = set()
    for st in stmts:
        for x in ast.walk(st):
            if isinstance(x, ast.Name) and isinstance(x.ctx, (ast.Store, ast.Del)):
                out.add(x.id)
            elif isinstance(x, (ast.Subscript, ast.Attribute)) and isinstance(x.ctx, (ast.Store, ast.Del)):
                b = x
                while isinstance(b, (ast.Subscript, ast.Attribute)):
                    b = b.value
                if isinstance(b, ast.Name):
                    out.add(b.id)
            elif isinstance(x, (ast.FunctionDef, ast.AsyncFunctionDef, ast.ClassDef)):
                out.add(x.name)
            elif isinstance(x, ast.alias):
                out.add((x.asname or x.name).split(".")[0])
            elif isinstance(x, (ast.Global, ast.Nonlocal)):
                out.update(x.names)
            elif isinstance(x, ast.ExceptHandler) and x.name:
                out.add(x.name)
            elif isinstance(x, ast.pattern):
                for f in ("name", "rest"):
                    if isinstance(getattr(x, f, None), str):
                        out.add(getattr(x, f))
    return out


def all_loads(stmts):
    out = set()
    for st in stmts:
        for x in ast.walk(st):
            if isinstance(x, ast.Name) and isinstance(x.ctx, ast.Load):
                out.add(x.id)
    return out


# ----------------------------------------------------------------------------- liveness of the GENERATED bindings

_TOK = re.compile(r"(?<![\w.'])[A-Za-z_][\w']*")


def _toks(text):
    """the identifiers a Lean text mentions (field / namespace components behind a `.` are not names of binders)"""
    return set(_TOK.findall(text))


def live(n, what):
    """the names the IR `n` reads.  Shape if it binds a name that nothing behind the binding reads: a store the definitional
    unfolding (`rfl`, zeta) would absorb -- in Python the stored value may live on (a later region, the pinned `return`, the
    next iteration), so such a source is outside the subset, not a harmless rewrite"""
    if isinstance(n, Ret):
        return set().union(*[_toks(v) for v in n.vals]) if n.vals else set()
    if isinstance(n, Fail):
        return set()
    if isinstance(n, Tail):
        return _toks(n.text)
    if isinstance(n, MatchFuel):
        return live(n.body, what) | {"fuel"}
    if isinstance(n, Ite):
        return _toks(n.cond) | live(n.a, what) | live(n.b, what)
    if isinstance(n, (Let, MatchOpt, Join)):
        u = live(n.body, what)
        pats = _TOK.findall(n.pat)
        dead = [x for x in pats if x not in u]
        if dead:
            raise Shape("%s: the value bound to `%s` is never read (a dead store: the definitional unfolding would absorb it)"
                        % (what, "`, `".join(dead)))
        return (u - set(pats)) | (live(n.inner, what) if isinstance(n, Join) else _toks(n.text))
    raise Shape("internal: IR node %r" % (n,))


# ----------------------------------------------------------------------------- the translator: expressions

class Tr:
    def __init__(self, cfg, top=None, defname=None):
        self.cfg = cfg
        self.top = top or self                  # shared: emitted loop definitions, marks, loop counters
        if top is None:
            self.defs, self.translated, self.nfor, self.nwhile, self.conversions = [], set(), [0], [0], []
            self.idents = set()                 # every identifier of the Python function (set by `translate`)
        self.cur, self.rhs = None, None         # the assignment being translated and its right side
        self.defname = defname
        self.env, self.vt, self.count, self.pre = {}, {}, {}, []
        self.on_continue = None

    # -- names
    def fresh(self, py, synthetic=False):
        """a Lean name for a (new version of a) Python name.  The first version of `x` is `x` itself; every OTHER name this hands
        out -- a later SSA version `x_k`, a name changed by the alias table / `sanitize` / a `_` suffix, a name of the translator's
        own (`synthetic`: guards `v`, warning flags, column counts) -- must not occur as an identifier anywhere in the Python
        function: otherwise a Python local of that spelling and the translator's name would be one Lean binder (name capture)"""
        base = sanitize(self.cfg.get("alias", {}).get(py, py)) or "v"
        if base in LEAN_RESERVED or base in BINDER_NAMES:
            base += "_"
        k = self.count.get(base, 0)
        self.count[base] = k + 1
        nm = base if k == 0 else "%s_%d" % (base, k)
        if nm in self.top.idents and (synthetic or nm != py):
            raise Shape("the translator's name `%s` (a version of `%s`) is an identifier of the function" % (nm, py))
        return nm

    def bind(self, py, ty, lean=None, synthetic=False):
        nm = lean or self.fresh(py, synthetic)
        self.env[py] = nm
        self.vt[nm] = ty
        return nm

    def ty(self, py):
        return self.vt.get(self.env.get(py))

    def lty(self, t):
        return lean_ty(t, self.cfg)

    def take_pre(self):
        p, self.pre = self.pre, []
        return p

    @staticmethod
    def with_pre(pre, node):
        for name, text in reversed(pre):
            node = MatchOpt(text, name, node)
        return node

    def hoist(self, text, ty, base="v"):
        nm = self.fresh(base, synthetic=True)
        self.pre.append((nm, text))
        return E(nm, ty)

    # -- expressions
    def to_int(self, e):
        if e.ty == TZ:
            return e
        if e.ty == TN:
            return E("(%s : Int)" % e.t, TZ)
        raise Shape("an int is needed: %s" % e.t)

    def shape_expr(self, name):
        sh = self.cfg.get("shape", {}).get(name)
        if sh is None:
            raise Shape("the shape of `%s` is not known" % name)
        for s in sh:
            if s not in self.env or self.ty(s) != TN:
                raise Shape("`%s`, a dimension of `%s`, is not bound to an int" % (s, name))
        return E(" + ".join(self.env[s] for s in sh), TN, 65)

    def key_index(self, k):
        """`'{}'.format(i)` -> the index `i`"""
        if isinstance(k, ast.Call) and isinstance(k.func, ast.Attribute) and k.func.attr == "format" and isinstance(k.func.value, ast.Constant) \
                and k.func.value.value == "{}" and len(k.args) == 1 and not k.keywords:
            i = self.expr(k.args[0])
            if i.ty != TN:
                raise Shape("the key `%s` is not made from an index" % ast.unparse(k))
            return i
        raise Shape("dict key outside the subset: %s" % ast.unparse(k))

    def expr(self, n, expect=None):
        if isinstance(n, ast.Constant):
            if isinstance(n.value, bool) or not isinstance(n.value, int):
                raise Shape("constant outside the subset: %r" % (n.value,))
            if expect == TZ:
                return E("(%d : Int)" % n.value, TZ)
            return E(str(n.value), TN)
        if isinstance(n, ast.Name):
            if n.id not in self.env:
                raise Shape("`%s` is read where it is not bound on every path (line %d)" % (n.id, n.lineno))
            e = E(self.env[n.id], self.ty(n.id))
            return self.to_int(e) if expect == TZ and e.ty == TN else e
        if isinstance(n, ast.UnaryOp) and isinstance(n.op, ast.USub):
            v = const_int(n)
            if v is None:
                raise Shape("negation outside the subset: %s" % ast.unparse(n))
            return E("(%d : Int)" % v, TZ)
        if isinstance(n, ast.BinOp):
            ops = {ast.Add: ("+", 65), ast.Mult: ("*", 70), ast.FloorDiv: ("/", 70)}
            if type(n.op) not in ops:
                raise Shape("operator outside the subset: %s" % ast.unparse(n))
            sym, p = ops[type(n.op)]
            a, b = self.expr(n.left, expect), self.expr(n.right, expect)
            if TZ in (a.ty, b.ty):
                a, b = self.to_int(a), self.to_int(b)
            if a.ty != b.ty or a.ty not in (TN, TZ) or (sym == "/" and (a.ty != TN or (const_int(n.right) or 0) <= 0)):
                raise Shape("arithmetic outside the subset: %s" % ast.unparse(n))
            return E("%s %s %s" % (par(a, p), sym, par(b, p + 1)), a.ty, p)
        if isinstance(n, ast.Compare):
            return self.compare(n)
        if isinstance(n, ast.BoolOp):
            if not isinstance(n.op, ast.And):
                raise Shape("`or` is outside the subset: %s" % ast.unparse(n))
            vs = []
            for i, v in enumerate(n.values):
                k = len(self.pre)
                vs.append(self.expr(v))
                if i > 0 and len(self.pre) > k:
                    raise Shape("a short-circuited operand can raise: %s" % ast.unparse(n))
                if vs[-1].cond is None:
                    raise Shape("operand of `and` is not a condition: %s" % ast.unparse(n))
            allb = all(v.cond == "bool" for v in vs)
            sym = "&&" if allb else "∧"
            return E((" %s " % sym).join(par(v, 36) for v in vs), TB, 35, "bool" if allb else "prop")
        if isinstance(n, ast.Subscript):
            return self.subscript(n)
        if isinstance(n, ast.Attribute):
            if n.attr == "size":
                v = self.expr(n.value)
                if is_dgm(v.ty):
                    if v.ty[1] is None or v.ty[1] not in self.env:
                        raise Shape(".size of an array whose number of columns is not a parameter: %s" % ast.unparse(n))
                    return E("%s * %s.length" % (self.env[v.ty[1]], par(v, 100)), TN, 70)
                if v.ty != Lst(TX):                     # the lists of entries are the 1-D ndarrays of the subset (`np.sort(np.unique(·))`,
                    raise Shape(".size of a value that is not a 1-D array of entries (a Python list has no `.size`): %s"   # its slices,
                                % ast.unparse(n))           # `D[a, b]`); a list of rows / pairs / indices may be a Python list
                return E("%s.length" % par(v, 100), TN)
            raise Shape("attribute outside the subset: %s" % ast.unparse(n))
        if isinstance(n, ast.Call):
            return self.call(n, expect)
        if isinstance(n, ast.SetComp):
            return self.setcomp(n)
        if isinstance(n, ast.ListComp):
            return self.listcomp(n)
        if isinstance(n, ast.List):
            if expect == ROW and len(n.elts) == 3:
                a, b, c = self.to_int(self.expr(n.elts[0])), self.to_int(self.expr(n.elts[1])), self.expr(n.elts[2])
                if c.ty != TX:
                    raise Shape("third entry of a row is not a matrix entry: %s" % ast.unparse(n))
                return E("(%s, %s, %s)" % (a.t, b.t, c.t), ROW)
            raise Shape("list literal outside the subset: %s" % ast.unparse(n))
        if isinstance(n, ast.Tuple) and len(n.elts) == 2:
            a, b = self.expr(n.elts[0]), self.expr(n.elts[1])
            return E("(%s, %s)" % (a.t, b.t), Pair(a.ty, b.ty))
        raise Shape("expression outside the subset: %s" % ast.unparse(n))

    def compare(self, n):
        if len(n.ops) != 1:
            raise Shape("chained comparison: %s" % ast.unparse(n))
        op, a, b = n.ops[0], self.expr(n.left), self.expr(n.comparators[0])
        if TZ in (a.ty, b.ty):
            a, b = self.to_int(a), self.to_int(b)
        if a.ty != b.ty or a.ty not in (TN, TZ, TX):
            raise Shape("comparison outside the subset: %s" % ast.unparse(n))
        if isinstance(op, (ast.Eq, ast.NotEq)):
            if a.ty == TN:
                return E("%s %s %s" % (par(a, 51), "=" if isinstance(op, ast.Eq) else "≠", par(b, 51)), TB, 50, "prop")
            if a.ty == TZ:
                return E("%s %s %s" % (par(a, 51), "==" if isinstance(op, ast.Eq) else "!=", par(b, 51)), TB, 50, "bool")
            raise Shape("equality of matrix entries: %s" % ast.unparse(n))
        table = {ast.Lt: ("<", False), ast.Gt: ("<", True), ast.LtE: ("≤", False), ast.GtE: ("≤", True)}
        if type(op) not in table:
            raise Shape("comparison outside the subset: %s" % ast.unparse(n))
        sym, swap = table[type(op)]
        if swap:
            a, b = b, a
        if a.ty == TX and sym == "<":               # the models' entries carry `≤` only
            return E("¬ %s ≤ %s" % (par(b, 51), par(a, 51)), TB, 40, "prop")
        return E("%s %s %s" % (par(a, 51), sym, par(b, 51)), TB, 50, "prop")

    def as_bool(self, c):
        if c.cond is None:
            raise Shape("not a condition: %s" % c.t)
        return c.t if c.cond == "bool" else "decide (%s)" % c.t

    def subscript(self, n):
        k = n.slice
        # D.shape[0] / D.shape[1]
        if isinstance(n.value, ast.Attribute) and n.value.attr == "shape" and isinstance(n.value.value, ast.Name):
            if is_dgm(self.ty(n.value.value.id)) and const_int(k) == 0:
                return E("%s.length" % self.env[n.value.value.id], TN)
            if const_int(k) not in (0, 1):
                raise Shape("shape index: %s" % ast.unparse(n))
            if self.ty(n.value.value.id) != MATRIX:
                raise Shape(".shape of a value that is not the square matrix: %s" % ast.unparse(n))
            return self.shape_expr(n.value.value.id)
        v = self.expr(n.value)
        if is_dgm(v.ty):
            # S[np.isfinite(S[:, 1]), :]
            full = lambda x: isinstance(x, ast.Slice) and x.lower is None and x.upper is None and x.step is None   # noqa: E731
            ok = isinstance(k, ast.Tuple) and len(k.elts) == 2 and full(k.elts[1]) and isinstance(k.elts[0], ast.Call) \
                and dotted(k.elts[0].func) == "np.isfinite" and len(k.elts[0].args) == 1 and not k.elts[0].keywords
            if ok:
                c = k.elts[0].args[0]
                ok = isinstance(c, ast.Subscript) and ast.unparse(c.value) == ast.unparse(n.value) and isinstance(c.slice, ast.Tuple) \
                    and len(c.slice.elts) == 2 and full(c.slice.elts[0]) and const_int(c.slice.elts[1]) == 1
            if not ok:
                raise Shape("subscript of a diagram outside `S[np.isfinite(S[:, 1]), :]`: %s" % ast.unparse(n))
            return E("%s.filter fun p => p.2.isSome" % par(v, 100), v.ty, 10)
        if v.ty == ROW or (is_list(v.ty) and v.ty[1] == ROW and isinstance(k, ast.Tuple)):
            return self.row_subscript(n, v)
        if is_list(v.ty):
            if isinstance(k, ast.Slice):
                if k.step is not None and not (isinstance(k.step, ast.Constant) and k.step.value is None):
                    raise Shape("slice with a step: %s" % ast.unparse(n))
                if k.upper is None and k.lower is not None:
                    lo = self.expr(k.lower)
                    if lo.ty != TN:
                        raise Shape("slice bound is not an index: %s" % ast.unparse(n))
                    return E("%s.drop %s" % (par(v, 100), par(lo, 100)), v.ty, 90)
                if k.upper is not None and (k.lower is None or const_int(k.lower) == 0):
                    hi = self.expr(k.upper)
                    if hi.ty != TN:
                        raise Shape("slice bound is not an index: %s" % ast.unparse(n))
                    return E("%s.take %s" % (par(v, 100), par(hi, 100)), v.ty, 90)
                raise Shape("slice outside the subset: %s" % ast.unparse(n))
            if const_int(k) == -1:
                return self.hoist("%s.getLast?" % par(v, 100), v.ty[1])
            i = self.expr(k)
            if i.ty != TN:
                raise Shape("list index is not an index: %s" % ast.unparse(n))
            return self.hoist("%s[%s]?" % (par(v, 100), i.t), v.ty[1])
        if v.ty == MATRIX:
            if not (isinstance(k, ast.Tuple) and len(k.elts) == 2):
                raise Shape("matrix subscript: %s" % ast.unparse(n))
            i, j = self.expr(k.elts[0]), self.expr(k.elts[1])
            if (i.ty, j.ty) != (TN, TN):
                raise Shape("matrix subscript with non-indices: %s" % ast.unparse(n))
            return E("%s %s %s" % (v.t, par(i, 100), par(j, 100)), TX, 90)
        if v.ty == MAT:
            if not (isinstance(k, ast.Tuple) and len(k.elts) == 2):
                raise Shape("matrix subscript: %s" % ast.unparse(n))
            i, j = self.expr(k.elts[0]), self.expr(k.elts[1])
            if (i.ty, j.ty) != (Lst(TN), Lst(TN)):
                raise Shape("matrix subscript outside `D[index array, index array]`: %s" % ast.unparse(n))
            return self.hoist("fancy %s %s %s" % (v.t, par(i, 100), par(j, 100)), Lst(TX))
        if v.ty == TW:
            i = self.key_index(k)
            return self.hoist("%s.lookup %s" % (par(v, 100), par(i, 100)), TN)
        raise Shape("subscript outside the subset: %s" % ast.unparse(n))

    # -- the (k, 3) array `ret`, row by row
    ROWCOL = {0: ("%s.1", TZ), 1: ("%s.2.1", TZ), 2: ("%s.2.2", TX)}

    def row_subscript(self, n, v):
        """`ret[:, c]` inside a mask (the variable of the enclosing row lambda), `ret[<mask>, :]` (a filter)"""
        k = n.slice
        full = lambda s: isinstance(s, ast.Slice) and s.lower is None and s.upper is None and s.step is None   # noqa: E731
        if not (isinstance(k, ast.Tuple) and len(k.elts) == 2):
            raise Shape("subscript of the row array: %s" % ast.unparse(n))
        if full(k.elts[0]) and const_int(k.elts[1]) in (0, 1, 2):
            if getattr(self, "rowvar", None) is None or self.rowvar[0] != v.t:
                raise Shape("a column of `%s` outside a mask of `%s`: %s" % (v.t, v.t, ast.unparse(n)))
            fmt, t = self.ROWCOL[const_int(k.elts[1])]
            return E(fmt % self.rowvar[1], t)
        if full(k.elts[1]):
            return E("%s.filter fun r => %s" % (par(v, 100), self.as_bool(self.mask(v, k.elts[0]))), v.ty, 10)
        raise Shape("subscript of the row array: %s" % ast.unparse(n))

    def mask(self, v, node):
        """a Boolean mask over the rows of `v`, as a Bool in the row variable `r`"""
        saved, k = getattr(self, "rowvar", None), len(self.pre)
        self.rowvar = (v.t, "r")
        try:
            c = self.expr(node)
            if len(self.pre) > k:
                raise Shape("a mask can raise: %s" % ast.unparse(node))
            return c
        finally:
            self.rowvar = saved

    def call(self, n, expect):
        f, name = n.func, dotted(n.func)
        plain = not n.keywords
        if name == "len" and len(n.args) == 1 and plain:
            v = self.expr(n.args[0])
            if is_list(v.ty):
                return E("%s.length" % par(v, 100), TN)
            if v.ty == TW:
                return E("2 * %s.length" % par(v, 100), TN, 70)
            raise Shape("len of a value that is neither a list nor the oracle's dict")
        if name == "int" and len(n.args) == 1 and plain and isinstance(n.args[0], ast.BinOp) and isinstance(n.args[0].op, ast.Div):
            a, b = self.expr(n.args[0].left), const_int(n.args[0].right)
            if a.ty != TN or b is None or b <= 0:
                raise Shape("int(a / b) outside `int(<length> / <positive literal>)`: %s" % ast.unparse(n))
            return E("%s / %d" % (par(a, 70), b), TN, 70)
        if name == "bisect_left" and len(n.args) == 2 and plain:
            r = n.args[0]
            if not (isinstance(r, ast.Call) and dotted(r.func) == "range" and len(r.args) == 1 and not r.keywords):
                raise Shape("bisect_left on something that is not `range(n)`: %s" % ast.unparse(n))
            a, x = self.expr(r.args[0]), self.expr(n.args[1])
            if (a.ty, x.ty) != (TN, TN):
                raise Shape("bisect_left(range(n), x) with non-indices: %s" % ast.unparse(n))
            return E("bisectLeftRange %s %s" % (par(a, 100), par(x, 100)), TN, 90)
        if name == "np.sort" and len(n.args) == 1 and plain and isinstance(n.args[0], ast.Call) and dotted(n.args[0].func) == "np.unique" \
                and len(n.args[0].args) == 1 and not n.args[0].keywords:
            v = self.expr(n.args[0].args[0])
            if v.ty != Lst(TX):
                raise Shape("np.sort(np.unique(·)) of something that is not a list of entries")
            return E("sortUnique %s" % par(v, 100), v.ty, 90)
        if isinstance(f, ast.Attribute) and f.attr == "flatten" and not n.args and plain and isinstance(f.value, ast.Name) \
                and self.ty(f.value.id) == MATRIX:
            return E("entries %s %s" % (par(self.shape_expr(f.value.id), 100), self.env[f.value.id]), Lst(TX), 90)
        oc = self.cfg.get("oracle_call")
        if oc and isinstance(f, ast.Attribute) and f.attr == oc[1] and not n.args and plain and isinstance(f.value, ast.Call) \
                and dotted(f.value.func) == oc[0] and len(f.value.args) == 1 and not f.value.keywords:
            g = self.expr(f.value.args[0])
            if g.ty != Lst(Lst(TN)):
                raise Shape("the oracle is called on something that is not the graph dict")
            return E("%s %s" % (self.env[oc[0]], par(g, 100)), TW, 90)
        lc = self.cfg.get("lsa_call")
        if lc and name == lc and len(n.args) == 1 and plain:
            d = self.expr(n.args[0])
            if d.ty != MAT:
                raise Shape("the solver is called on something that is not the matrix")
            return E("%s %s" % (self.env[lc.split(".")[0]], par(d, 100)), Lst(Pair(TN, TN)), 90)
        if name == "np.sum" and len(n.args) == 1 and plain:
            v = self.expr(n.args[0])
            if v.ty != Lst(TX):
                raise Shape("np.sum of something that is not a list of entries")
            return E("optSum %s" % par(v, 100), TX, 90)
        if name == "np.zeros" and len(n.args) == 1 and plain and isinstance(n.args[0], ast.Tuple) and len(n.args[0].elts) == 2 \
                and const_int(n.args[0].elts[1]) == 3:
            k = self.expr(n.args[0].elts[0])
            if k.ty != TN:
                raise Shape("np.zeros((k, 3)) with a non-int k")
            return E("List.replicate %s ((0 : Int), (0 : Int), %s)" % (par(k, 100), self.cfg["zero_entry"]), Lst(ROW), 90)
        if name == "np.array" and len(n.args) == 1 and plain:
            a0 = n.args[0]
            if isinstance(a0, ast.List) and len(a0.elts) == 1 and isinstance(a0.elts[0], ast.List) and len(a0.elts[0].elts) == 2 \
                    and [const_int(x) for x in a0.elts[0].elts] == [0, 0]:
                return E("[(0, some 0)]", Dgm(None))                       # np.array([[0, 0]])
            # `np.array(l)` of a list of index pairs (a fresh (k, 2) array with the same rows): read as `l`, only as the WHOLE
            # right side of an assignment, whose text is pinned
            v = self.expr(a0)
            if n is not self.rhs or v.ty != Lst(Pair(TN, TN)):
                raise Shape("np.array(x) outside `<target> = np.array(<list of index pairs>)`: %s" % ast.unparse(n))
            self.top.conversions.append(ast.unparse(self.cur))
            return v
        if name == "np.array" and len(n.args) == 1 and [(k.arg, ast.unparse(k.value)) for k in n.keywords] == [("dtype", "float")]:
            v = self.expr(n.args[0])
            if not is_dgm(v.ty):
                raise Shape("np.array(x, dtype=float) of something that is not a diagram: %s" % ast.unparse(n))
            if n is not self.rhs or not isinstance(self.cur.targets[0], ast.Name):
                raise Shape("np.array(x, dtype=float) outside `<name> = np.array(<diagram>, dtype=float)`: %s" % ast.unparse(n))
            self.top.conversions.append(ast.unparse(self.cur))             # read as the identity; the statement is pinned as text
            return v
        if name == "min" and len(n.args) == 2 and plain:
            a, b = self.expr(n.args[0]), self.expr(n.args[1])
            if (a.ty, b.ty) != (TN, TN):
                raise Shape("min of non-ints: %s" % ast.unparse(n))
            return E("min %s %s" % (par(a, 100), par(b, 100)), TN, 90)
        raise Shape("call outside the subset: %s" % ast.unparse(n))

    def lam(self, names_types, body_fn):
        """translate under local binders (comprehension variables), restoring the environment"""
        saved_env, saved_vt, k = dict(self.env), dict(self.vt), len(self.pre)
        try:
            nms = [self.bind(py, t) for py, t in names_types]
            r = body_fn(nms)
            if len(self.pre) > k:
                raise Shape("the body of a comprehension can raise")
            return r
        finally:
            self.env, self.vt = saved_env, saved_vt

    def range_arg(self, it):
        if not (isinstance(it, ast.Call) and dotted(it.func) == "range" and len(it.args) == 1 and not it.keywords):
            raise Shape("iteration over something that is not `range(n)`: %s" % ast.unparse(it))
        a = self.expr(it.args[0])
        if a.ty != TN:
            raise Shape("range of a non-int")
        return a

    def setcomp(self, n):
        if len(n.generators) != 1 or len(n.generators[0].ifs) != 1 or not isinstance(n.generators[0].target, ast.Name) \
                or not (isinstance(n.elt, ast.Name) and n.elt.id == n.generators[0].target.id):
            raise Shape("set comprehension outside `{j for j in range(n) if c}`: %s" % ast.unparse(n))
        g = n.generators[0]
        a = self.range_arg(g.iter)
        body = self.lam([(g.target.id, TN)], lambda nms: "fun %s => %s" % (nms[0], self.as_bool(self.expr(g.ifs[0]))))
        return E("(List.range %s).filter %s" % (par(a, 100), body), Lst(TN), 10)

    def listcomp(self, n):
        g = n.generators[0] if len(n.generators) == 1 else None
        ok = g is not None and not g.ifs and isinstance(g.target, ast.Tuple) and len(g.target.elts) == 2 \
            and all(isinstance(e, ast.Name) for e in g.target.elts) and isinstance(g.iter, ast.Call) and dotted(g.iter.func) == "zip" \
            and len(g.iter.args) == 2 and not g.iter.keywords
        if not ok:
            raise Shape("comprehension outside `[e for i, j in zip(a, b)]`: %s" % ast.unparse(n))
        a, b = self.expr(g.iter.args[0]), self.expr(g.iter.args[1])
        if not (is_list(a.ty) and is_list(b.ty)):
            raise Shape("zip of non-lists")
        out = []

        def f(nms):
            e = self.expr(n.elt)
            out.append(e.ty)
            return "fun (%s, %s) => %s" % (nms[0], nms[1], e.t)
        body = self.lam([(g.target.elts[0].id, a.ty[1]), (g.target.elts[1].id, b.ty[1])], f)
        return E("(%s.zip %s).map %s" % (par(a, 100), par(b, 100), body), Lst(out[0]), 10)

    # -- statements
    def block(self, stmts, k, cont):
        if not stmts:
            return k()
        s, rest = stmts[0], stmts[1:]
        return self.stmt(s, lambda: self.block(rest, k, cont), [("stmts", rest)] + cont, last=not rest)

    def stmt(self, s, kk, after, last):
        self.top.translated.add(id(s))
        if isinstance(s, ast.Pass):
            return kk()
        if isinstance(s, ast.Continue):
            if self.on_continue is None:
                raise Shape("continue outside a loop")
            return self.on_continue()
        if isinstance(s, ast.Assign):
            if len(s.targets) != 1:
                raise Shape("chained assignment")
            self.cur, self.rhs = s, s.value
            return self.assign(s, s.targets[0], s.value, kk)
        if isinstance(s, ast.Expr) and getattr(s, "_warn_flag", None):
            return Let(self.bind(s._warn_flag, TB, synthetic=True), "true", kk())
        if isinstance(s, ast.Expr):
            c = s.value
            if isinstance(c, ast.Call) and isinstance(c.func, ast.Attribute) and c.func.attr == "append" and isinstance(c.func.value, ast.Name) \
                    and len(c.args) == 1 and not c.keywords:
                v = self.expr(c.func.value)
                if not is_list(v.ty):
                    raise Shape("append on a non-list")
                x = self.expr(c.args[0], v.ty[1])
                if x.ty != v.ty[1]:
                    raise Shape("append of a value of another type: %s" % ast.unparse(s))
                pre = self.take_pre()
                nm = self.bind(c.func.value.id, v.ty)
                return self.with_pre(pre, Let(nm, "%s ++ [%s]" % (par(v, 66), x.t), kk()))
            raise Shape("expression statement outside the subset: %s" % ast.unparse(s))
        if isinstance(s, ast.If):
            return self.if_stmt(s, kk, after, last)
        if isinstance(s, ast.While):
            return self.while_stmt(s, kk, after)
        if isinstance(s, ast.For):
            return self.for_stmt(s, kk, after)
        raise Shape("statement outside the subset: %s" % ast.unparse(s).split("\n")[0])

    def assign(self, s, t, v, kk):
        if isinstance(t, ast.Name):
            if isinstance(v, ast.Dict) and not v.keys:
                return Let(self.bind(t.id, self.empty_kind(t.id, "dict")), "[]", kk())
            if isinstance(v, ast.List) and not v.elts:
                return Let(self.bind(t.id, self.empty_kind(t.id, "list")), "[]", kk())
            e = self.expr(v)
            if isinstance(v, ast.Name) and e.ty not in ALIAS_OK:
                # lists, the row array, the dict `graph`, arrays: VALUES here, objects in Python -- `y = x` would make an in-place
                # update through one name (`append`, `ret[...] = ...`, `g[k] = e`) an update of the other as well
                raise Shape("`%s` gives a second name to a mutable value (aliasing is not modelled)" % ast.unparse(s))
            pre = self.take_pre()
            return self.with_pre(pre, Let(self.bind(t.id, e.ty), e.t, kk()))
        if isinstance(t, ast.Tuple) and len(t.elts) == 2 and all(isinstance(x, ast.Name) for x in t.elts):
            e = self.expr(v)
            pre = self.take_pre()
            if not (is_list(e.ty) and isinstance(e.ty[1], tuple) and e.ty[1][0] == "pair"):
                raise Shape("unpacking outside `a, b = <solver call>`: %s" % ast.unparse(s))
            n1 = self.bind(t.elts[0].id, Lst(e.ty[1][1]))
            n2 = self.bind(t.elts[1].id, Lst(e.ty[1][2]))
            return self.with_pre(pre, Let(n1, "%s.unzip.1" % par(e, 100), Let(n2, "%s.unzip.2" % par(e, 100), kk())))
        if isinstance(t, ast.Subscript) and isinstance(t.value, ast.Name):
            base = self.expr(t.value)
            if base.ty == Lst(Lst(TN)) and self.empty_kind(t.value.id, "dict") == base.ty:
                i = self.key_index(t.slice)
                e = self.expr(v)
                if e.ty != base.ty[1]:
                    raise Shape("dict value of another type: %s" % ast.unparse(s))
                pre = self.take_pre()
                new = self.fresh(t.value.id)
                node = MatchOpt("dictPut %s %s %s" % (base.t, par(i, 100), par(e, 100)), new, None)
                self.bind(t.value.id, base.ty, lean=new)
                node.body = kk()
                return self.with_pre(pre, node)
            if base.ty == Lst(ROW):
                return self.row_assign(s, t, base, v, kk)
        raise Shape("assignment outside the subset: %s" % ast.unparse(s).split("\n")[0])

    def empty_kind(self, name, kind):
        """the representation of a name that is bound to `{}` / `[]`, read off its other uses in the function: a dict that the
        function fills key by key (`x[k] = v` somewhere) is the list of its values (sets of indices); a dict that is only ever
        replaced as a whole is of the oracle's kind (`{}` stands for "no matching yet"); a list to which 3-lists are appended
        is a list of rows"""
        scope = getattr(self.top, "scope", [])
        if kind == "dict":
            for st in scope:
                if isinstance(st, ast.Assign) and any(isinstance(x, ast.Subscript) and isinstance(x.value, ast.Name) and x.value.id == name
                                                      for x in st.targets):
                    return Lst(Lst(TN))
            return TW
        for st in scope:
            c = st.value if isinstance(st, ast.Expr) else None
            if isinstance(c, ast.Call) and isinstance(c.func, ast.Attribute) and c.func.attr == "append" and isinstance(c.func.value, ast.Name) \
                    and c.func.value.id == name and len(c.args) == 1 and isinstance(c.args[0], ast.List) and len(c.args[0].elts) == 3:
                return Lst(ROW)
        raise Shape("`%s = []`: the element type cannot be read off an `append([i, j, d])`" % name)

    def row_assign(self, s, t, base, v, kk):
        k = t.slice
        full = lambda x: isinstance(x, ast.Slice) and x.lower is None and x.upper is None and x.step is None   # noqa: E731
        if not (isinstance(k, ast.Tuple) and len(k.elts) == 2):
            raise Shape("assignment into the row array: %s" % ast.unparse(s))
        r0, c0 = k.elts
        if full(r0):
            # ret[:, 0:2] = pairs      ret[:, 2] = entries
            if isinstance(c0, ast.Slice) and const_int(c0.lower) == 0 and const_int(c0.upper) == 2 and c0.step is None:
                e = self.expr(v)
                if e.ty != Lst(Pair(TN, TN)):
                    raise Shape("`%s`: the right side is not a list of index pairs" % ast.unparse(s))
                fn = "setCols01"
            elif const_int(c0) == 2:
                e = self.expr(v)
                if e.ty != Lst(TX):
                    raise Shape("`%s`: the right side is not a list of entries" % ast.unparse(s))
                fn = "setCol2"
            else:
                raise Shape("column assignment outside the subset: %s" % ast.unparse(s))
            pre = self.take_pre()
            new = self.fresh(t.value.id)
            node = MatchOpt("%s %s %s" % (fn, base.t, par(e, 100)), new, None)
            self.bind(t.value.id, base.ty, lean=new)
            node.body = kk()
            return self.with_pre(pre, node)
        # ret[<mask>, c] = <int literal>
        c, val = const_int(c0), const_int(v)
        if c not in (0, 1) or val is None:
            raise Shape("masked assignment outside `ret[<mask>, 0 or 1] = <int literal>`: %s" % ast.unparse(s))
        m = self.mask(base, r0)
        if m.cond is None:
            raise Shape("mask is not a condition: %s" % ast.unparse(r0))
        upd = "((%d : Int), r.2.1, r.2.2)" % val if c == 0 else "(r.1, (%d : Int), r.2.2)" % val
        nm = self.bind(t.value.id, base.ty)
        return Let(nm, "%s.map fun r => if %s then %s else r" % (par(base, 100), m.t, upd), kk())

    def if_stmt(self, s, kk, after, last):
        c = self.expr(s.test)
        if c.cond is None:
            raise Shape("test is not a condition: %s" % ast.unparse(s.test))
        pre = self.take_pre()
        saved = (dict(self.env), dict(self.vt))
        if last or has_escape(s.body) or has_escape(s.orelse):   # the statements behind it go into both branches
            a = self.block(s.body, kk, after)
            self.env, self.vt = dict(saved[0]), dict(saved[1])
            b = self.block(s.orelse, kk, after)
            return self.with_pre(pre, Ite(c.t, a, b))
        asg = assigned(s.body) + assigned(s.orelse)
        names = [n for n in saved[0] if n in asg]
        if not names:
            raise Shape("an `if` without effect on bound names: %s" % ast.unparse(s.test))
        tys = []

        def branch(stmts):
            self.env, self.vt = dict(saved[0]), dict(saved[1])
            def fin():
                tys.append([self.ty(n) for n in names])
                return Ret([self.env[n] for n in names])
            return self.block(stmts, fin, after)
        a = branch(s.body)
        b = branch(s.orelse)
        if [norm_ty(t) for t in tys[0]] != [norm_ty(t) for t in tys[1]]:
            raise Shape("the branches of `if %s` give a name two types" % ast.unparse(s.test))
        tys[0] = [a if a == b else Dgm(None) for a, b in zip(tys[0], tys[1])]
        self.env, self.vt = dict(saved[0]), dict(saved[1])
        pat = tup([self.bind(n, t) for n, t in zip(names, tys[0])])
        return self.with_pre(pre, Join(Ite(c.t, a, b), pat, kk()))

    # -- loops
    def loop_frame(self, s, body, after, extra_reads):
        cfg = self.cfg
        asg = assigned(body) + (target_names(s.target) if isinstance(s, ast.For) else [])
        rd = block_reads(body, cfg) + extra_reads
        results = [n for n in self.env if n in asg and first_use(after, n, cfg) == "read"]
        carried = [n for n in self.env if n in asg and (n in rd or n in results)]
        inv = [n for n in self.env if n not in carried and n in rd]
        return results, carried, inv

    def sub(self, name, names):
        t = Tr(self.cfg, self.top, name)
        for n in names:
            t.bind(n, self.ty(n))
        t.env0 = dict(t.env)
        return t

    @staticmethod
    def check_live(name, used, binders):
        """every parameter of a generated loop definition is read in it (a carried name that nothing reads would be a dead store)"""
        dead = [b for b, _ in binders if b not in used]
        if dead:
            raise Shape("%s: the parameter `%s` is never read" % (name, "`, `".join(dead)))

    def emit(self, name, doc, binders, result_tys, lines):
        sig = " ".join("(%s : %s)" % (b, t) for b, t in binders)
        self.top.defs.append((name, "/-- `%s` -/\ndef %s %s : Option %s :=\n%s"
                              % (doc, name, sig, tuple_ty(result_tys, self.cfg), "\n".join(lines))))

    def call_loop(self, name, args, results, tys, kk):
        pat = tup([self.bind(n, t) for n, t in zip(results, tys)])
        return MatchOpt("%s %s" % (name, " ".join(args)), pat, kk())

    def while_stmt(self, s, kk, after):
        if s.orelse:
            raise Shape("while … else")
        header = ast.unparse(s).split("\n")[0].rstrip(":")
        self.top.nwhile[0] += 1
        if self.top.nwhile[0] > 1 or not self.cfg.get("while"):
            raise Shape("no name / fuel is declared for the loop `%s`" % header)
        name, fuel_list = self.cfg["while"]
        if fuel_list not in self.env or not is_list(self.ty(fuel_list)):
            raise Shape("the list `%s` that fuels the loop `%s` is not bound" % (fuel_list, header))
        loop_items = [("expr", s.test), ("stmts", s.body)]
        results, carried, inv = self.loop_frame(s, s.body, after, expr_reads(s.test, self.cfg))
        sub = self.sub(name, inv + carried)
        rtys = [self.ty(n) for n in results]
        exit_ir = Ret([sub.env0[n] for n in results])
        test = sub.expr(s.test)
        if test.cond is None:
            raise Shape("loop test is not a condition: %s" % ast.unparse(s.test))
        pre = sub.take_pre()

        def again():
            for n in carried:
                if sub.ty(n) != self.ty(n):
                    raise Shape("the loop `%s` changes the type of `%s`" % (header, n))
            return Tail("%s %s" % (name, " ".join([sub.env0[n] for n in inv] + ["fuel"] + [sub.env[n] for n in carried])))
        sub.on_continue = again
        body = sub.block(s.body, again, loop_items + after)
        ir = sub.with_pre(pre, Ite(test.t, MatchFuel(body), exit_ir))
        binders = [(sub.env0[n], self.lty(self.ty(n))) for n in inv] + [("fuel", "Nat")] + [(sub.env0[n], self.lty(self.ty(n))) for n in carried]
        self.check_live(name, live(ir, name), binders)
        self.emit(name, header, binders, rtys, render(ir, "  "))
        args = [self.env[n] for n in inv] + ["(%s.length + 1)" % self.env[fuel_list]] + [self.env[n] for n in carried]
        return self.call_loop(name, args, results, rtys, kk)

    def for_stmt(self, s, kk, after):
        if s.orelse:
            raise Shape("for … else")
        header = ast.unparse(s).split("\n")[0].rstrip(":")
        if not isinstance(s.target, ast.Name):
            raise Shape("loop outside the subset: %s" % header)
        n = self.range_arg(s.iter)
        pre = self.take_pre()
        if any(x in assigned(s.body) for x in expr_reads(s.iter, self.cfg)):
            raise Shape("`%s`: the body changes what the range was computed from" % header)
        names = self.cfg.get("for", [])
        k = self.top.nfor[0]
        self.top.nfor[0] += 1
        name = names[k] if k < len(names) else "%s_loop_%d" % (self.cfg["lean"], k + 1)
        var = s.target.id
        loop_items = [("stmts", s.body)]
        results, carried, inv = self.loop_frame(s, s.body, after, [])
        results, carried, inv = [[x for x in l if x != var] for l in (results, carried, inv)]
        sub = self.sub(name, inv + carried)
        rtys = [self.ty(x) for x in results]
        exit_ir = Ret([sub.env0[x] for x in results])
        v0 = sub.bind(var, TN)

        def again():
            for x in carried:
                if sub.ty(x) != self.ty(x):
                    raise Shape("the loop `%s` changes the type of `%s`" % (header, x))
            return Tail("%s %s" % (name, " ".join([sub.env0[x] for x in inv] + ["rest"] + [sub.env[x] for x in carried])))
        sub.on_continue = again
        body = sub.block(s.body, again, loop_items + after)
        lines = ["  match range with", "  | [] =>"] + render(exit_ir, "    ") + ["  | %s :: rest =>" % v0] + render(body, "  ")
        binders = [(sub.env0[x], self.lty(self.ty(x))) for x in inv] + [("range", "List Nat")] + [(sub.env0[x], self.lty(self.ty(x))) for x in carried]
        self.check_live(name, live(exit_ir, name) | live(body, name) | {"range"}, binders)
        self.emit(name, header, binders, rtys, lines)
        args = [self.env[x] for x in inv] + ["(List.range %s)" % par(n, 100)] + [self.env[x] for x in carried]
        return self.with_pre(pre, self.call_loop(name, args, results, rtys, kk))


# ----------------------------------------------------------------------------- regions, skeleton

def find_function(tree, name):
    for n in tree.body:
        if isinstance(n, ast.FunctionDef) and n.name == name:
            return n
    return None


def behind_matrix(body, dname):
    hits = [i for i, s in enumerate(body) if isinstance(s, ast.Assign) and len(s.targets) == 1 and isinstance(s.targets[0], ast.Subscript)
            and isinstance(s.targets[0].value, ast.Name) and s.targets[0].value.id == dname]
    if not hits:
        raise Shape("no top-level block assignment `%s[...] = ...`" % dname)
    return hits[-1] + 1


def flag_if(body, flag):
    hits = [i for i, s in enumerate(body) if isinstance(s, ast.If) and isinstance(s.test, ast.Name) and s.test.id == flag]
    if len(hits) != 1:
        raise Shape("expected exactly one top-level `if %s:`" % flag)
    return hits[0]


def preamble_end(body, dname):
    """index behind the last top-level `if` that stands in front of the top-level assignment `<dname> = ...`"""
    zs = [i for i, s in enumerate(body) if isinstance(s, ast.Assign) and len(s.targets) == 1 and isinstance(s.targets[0], ast.Name)
          and s.targets[0].id == dname]
    if not zs:
        raise Shape("no top-level assignment `%s = ...`" % dname)
    ifs = [i for i, s in enumerate(body[:zs[0]]) if isinstance(s, ast.If)]
    if not ifs:
        raise Shape("no top-level `if` in front of `%s = ...`" % dname)
    return ifs[-1] + 1


def pick_region(body, cfg):
    """the translated statements of a target (anchors: the last top-level block assignment into the matrix, the top-level `while`,
    the top-level `if <flag>:`)"""
    kind = cfg["region"]
    if kind == "preamble":
        return body[:preamble_end(body, cfg["matrix"])]
    if kind == "behind_matrix_through_while":
        i0 = behind_matrix(body, cfg["matrix"])
        ws = [i for i, s in enumerate(body) if isinstance(s, ast.While)]
        if len(ws) != 1 or ws[0] < i0:
            raise Shape("expected exactly one top-level `while` behind the matrix")
        return body[i0:ws[0] + 1]
    if kind == "behind_matrix_until_if":
        i0 = behind_matrix(body, cfg["matrix"])
        j = flag_if(body, cfg["flag"])
        if j < i0:
            raise Shape("`if %s:` stands in front of the matrix" % cfg["flag"])
        return body[i0:j]
    if kind == "if_body":
        st = body[flag_if(body, cfg["flag"])]
        if not st.body or not isinstance(st.body[-1], ast.Return):
            raise Shape("the body of `if %s:` does not end in a `return`" % cfg["flag"])
        return st.body[:-1]
    raise Shape("internal: region %s" % kind)


def first_translated(body, cfgs):
    """index of the first top-level statement of the function that belongs to this engine"""
    return behind_matrix(body, cfgs[0]["matrix"])


def skeleton(stmts, translated, lead_hole=False, extra=()):
    translated = set(translated) | set(extra)
    return _skeleton(stmts, translated, lead_hole)


def _skeleton(stmts, translated, lead_hole=False):
    """`stmts` with every translated statement replaced by `...` (consecutive ones by one); the headers of compound statements
    that are not translated stay, their blocks are treated the same way"""
    def go(seq, lead):
        out, hole = [], lead
        if lead:
            out.append(ast.Expr(ast.Constant(Ellipsis)))
        for s in seq:
            if id(s) in translated:
                if not hole:
                    out.append(ast.Expr(ast.Constant(Ellipsis)))
                hole = True
                continue
            hole = False
            if isinstance(s, (ast.If, ast.While, ast.For)):
                import copy
                c = copy.copy(s)
                c.body = go(s.body, False) or [ast.Pass()]
                c.orelse = go(s.orelse, False)
                out.append(c)
            else:
                out.append(s)
        return out
    return ast.unparse(ast.fix_missing_locations(ast.Module(body=go(list(stmts), lead_hole), type_ignores=[])))


def region_interfaces(fn, body, cfgs):
    """The function is a CHAIN of regions -- this engine's (in source order: preamble, behind the matrix, the `if <flag>:` body),
    between the first two the matrix region of the statement-level engine -- and of pinned statements (the `if <flag>:` header,
    the `return`s).  A region hands on exactly its declared outputs (`ret`; the matrix region: the matrix): the obligations
    compose the regions through these names, so a region must not (re)bind any OTHER name that something behind it reads --
    a parameter of a later region, a global name a later region calls, a name the matrix region or a pinned statement loads.
    -> {lean name of the region | "matrix": error text} for the regions that do"""
    regions = []                                                        # (key, statements, declared outputs), in source order
    for cfg in cfgs:
        regions.append([cfg["lean"], pick_region(body, cfg), set(cfg["ret"]), cfg])
    lo, hi = preamble_end(body, cfgs[0]["matrix"]), first_translated(body, cfgs)
    matrix = ["matrix", body[lo:hi], {cfgs[0]["matrix"]}, None]
    regions.insert(1, matrix)
    kinds = [r[3]["region"].split("_")[0] for r in regions if r[3]]
    if kinds != ["preamble", "behind", "if"]:
        raise Shape("internal: the table of regions is not preamble / behind the matrix / if-body")
    mine = set()
    for _, stmts, _, _ in regions:
        mine |= {id(x) for st in stmts for x in ast.walk(st) if isinstance(x, ast.stmt)}
    # what stays as text: every statement of the function outside the regions (a compound statement around a region: its header)
    pinned = set()

    def rest(seq):
        for st in seq:
            if id(st) in mine:
                continue
            blocks = [getattr(st, f) for f in ("body", "orelse", "finalbody") if isinstance(getattr(st, f, None), list)]
            if any(id(x) in mine for b in blocks for x in b if isinstance(x, ast.stmt)):
                for f in ast.iter_fields(st):
                    if f[0] not in ("body", "orelse", "finalbody"):
                        for v in (f[1] if isinstance(f[1], list) else [f[1]]):
                            if isinstance(v, ast.AST):
                                pinned.update(all_loads([v]))
                for b in blocks:
                    rest(b)
            else:
                pinned.update(all_loads([st]))
    rest(body)
    errors = {}
    for k, (key, stmts, outs, cfg) in enumerate(regions):
        behind = set(pinned)
        for key2, stmts2, _, cfg2 in regions[k + 1:]:
            if cfg2 is None:
                behind |= all_loads(stmts2)
            else:                       # its parameters, and the names it reads and never binds itself (global names)
                behind |= {py for py, _, _ in cfg2["params"]} | (all_loads(stmts2) - all_stores(stmts2))
        stores = all_stores(stmts)
        if cfg is not None:
            try:
                stores |= set(assigned(stmts))
            except Shape:
                pass                                                    # (the region is refused where it is translated)
        bad = sorted((stores & behind) - outs)
        if bad:
            errors[key] = ("the %s assigns `%s`, which is not one of its outputs (%s) and is read behind it (by a later region / "
                           "the matrix region / a pinned statement)"
                           % ("matrix region" if cfg is None else "region `%s`" % key, "`, `".join(bad), ", ".join(sorted(outs))))
    return errors


def translate(fn, cfgs):
    """-> ({lean name: [def texts] | error text}, ids of the translated statements)"""
    body = strip_doc(fn.body)
    translated, out, pins = set(), {}, {}
    idents = function_idents(fn)
    try:
        iface = region_interfaces(fn, body, cfgs)
    except Shape as e:
        iface = {"matrix": str(e)}
    except Exception as e:                           # anything else the source makes the translator do: outside the subset
        iface = {"matrix": "%s: %s" % (type(e).__name__, e)}
    for cfg in cfgs:
        try:
            if "matrix" in iface:                     # the chain of regions is broken in front of / between this engine's regions
                raise Shape(iface["matrix"])
            if cfg["lean"] in iface:
                raise Shape(iface[cfg["lean"]])
            stmts = pick_region(body, cfg)
            warns = mark_warnings(stmts)
            if warns and cfg.get("warnings") is None:
                raise Shape("`warnings.warn` in a region whose warnings are not part of its result: %s" % warns[0][1])
            tr = Tr(cfg)
            tr.idents = idents
            tr.scope = [x for x in ast.walk(fn) if isinstance(x, ast.stmt)]
            binders = []
            for py, ty, lean in cfg["params"]:
                binders.append((tr.bind(py, ty, synthetic=py in SYNTHETIC_PARAMS), lean_ty(ty, cfg)))
            for flag, _ in warns:                         # the flags of the `warnings.warn` call sites: not set at entry
                tr.bind(flag, TB, synthetic=True)
            rets = cfg["ret"]
            entry = [Let(tr.env[flag], "false", None) for flag, _ in warns]

            def fin():
                missing = [r for r in rets if r not in tr.env]
                if missing:
                    raise Shape("not assigned on every path: %s" % ", ".join(missing))
                got = [norm_ty(tr.ty(r)) for r in rets]
                if got != [norm_ty(t) for t in cfg["ret_types"]]:
                    raise Shape("the results %s have the types %s, expected %s" % (rets, got, cfg["ret_types"]))
                return Ret([tr.env[r] for r in rets])
            node = tr.block(stmts, fin, [("read", rets)])
            if tr.pre:
                raise Shape("internal: pending guards")
            for e in reversed(entry):
                e.body = node
                node = e
            live(node, cfg["lean"])                       # no dead store among the generated bindings
            if tr.conversions and cfg.get("conversions") is None:
                raise Shape("a conversion read as the identity in a region whose conversions are not pinned: %s" % tr.conversions[0])
            pins[cfg["lean"]] = {"warnings": [m for _, m in warns], "conversions": list(tr.conversions)}
            defs = [t for _, t in tr.defs]
            defs.append("/-- %s -/\ndef %s %s : Option %s :=\n%s" % (cfg["doc"], cfg["lean"], " ".join("(%s : %s)" % b for b in binders),
                                                                      tuple_ty(cfg["ret_types"], cfg), "\n".join(render(node, "  "))))
            out[cfg["lean"]] = defs
            translated |= tr.translated
        except Shape as e:
            out[cfg["lean"]] = "Shape: %s" % e
        except Exception as e:                       # anything else the source makes the translator do: outside the subset
            out[cfg["lean"]] = "%s: %s" % (type(e).__name__, e)
    return out, translated, pins


def pin_text(key, fn, stmts, holes):
    """for the statement-level engine (py2lean_stmt.find_region, targets with `after_engine`): the text of `stmts` -- a stretch of
    the top-level statements of `fn` that contains the matrix region, whose statements are `holes` -- with the region AND the
    statements THIS engine translates replaced by `...`"""
    mine = {"bottleneck": "bottleneck_search", "wasserstein": "wasserstein_assign"}[key]
    try:
        _, translated, _ = translate(fn, [c for c in TARGETS if c["file"] == mine])
    except Exception:
        translated = set()
    return skeleton(stmts, translated, extra=holes)


# ----------------------------------------------------------------------------- targets (fixed; reviewed against the models)

REF = "PersimVerif.SrcBridge.Matching.Ref"
BR = "PersimVerif.SrcBridge.Matching"

# `generated = Ref.*` for a recursive definition: induction on what it recurses on; after one unfolding of both sides the
# induction hypothesis (and the obligations of the loops it calls) make the two sides the same term
def list_ind(f, uses=()):
    hs = "".join(", %s" % u for u in uses)
    return ("by\n  intro l\n  induction l with\n  | nil => intros; unfold %s %s.%s; rfl\n"
            "  | cons x l ih => intros; unfold %s %s.%s; simp only [ih%s] <;> rfl" % (f, REF, f, f, REF, f, hs))


def fuel_ind(f, uses=()):
    hs = "".join(", %s" % u for u in uses)
    return ("by\n  intro fuel\n  induction fuel with\n  | zero => intros; unfold %s %s.%s; rfl\n"
            "  | succ n ih => intros; unfold %s %s.%s; simp only [ih%s] <;> rfl" % (f, REF, f, f, REF, f, hs))


BN_FULL = "[Sub α] [Div α] [Neg α] [Zero α] [OfNat α 2] [Max α] [LE α] [DecidableLE α]"
WS_FULL = "[Add α] [Sub α] [Mul α] [Div α] [Zero α] [OfNat α 2]"
BN = dict(file="bottleneck_search", func="bottleneck", pyparams=["dgm1", "dgm2", "matching"], matrix="D", flag="return_matching",
          variables="[LE α] [DecidableLE α]", full_variables=BN_FULL, entry_ty="Ext α", shape={"D": ("M", "N")},
          oracle_call=("HopcroftKarp", "maximum_matching"), alias={"HopcroftKarp": "oracle"})
WS = dict(file="wasserstein_assign", func="wasserstein", pyparams=["dgm1", "dgm2", "matching"], matrix="D", flag="matching",
          variables="[Add α] [Zero α]", full_variables=WS_FULL, entry_ty="Option α", zero_entry="(some 0 : Option α)",
          lsa_call="optimize.linear_sum_assignment", alias={"optimize": "lsa"})
ORA = "(oracle : Graph → Matching)"
MND = "(M N : Nat) (D : Nat → Nat → Ext α)"

PRE_PARAMS = [("c1", TN, "c1"), ("c2", TN, "c2"), ("dgm1", Dgm("c1"), "dgm1"), ("dgm2", Dgm("c2"), "dgm2")]
SYNTHETIC_PARAMS = ("c1", "c2")          # parameters that stand for no Python name: not to occur in the function at all
PRE_RET = (["S", "M", "T", "N", "warn1", "warn2"], [Dgm(None), TN, Dgm(None), TN, TB, TB])

TARGETS = [
    dict(BN, lean="bn_preamble", region="preamble", variables="[Zero α]",
         where="the top-level statements up to and including the last `if` in front of `D = np.zeros(...)`",
         params=[("matching", TB, "matching")] + PRE_PARAMS, ret=["return_matching"] + PRE_RET[0], ret_types=[TB] + PRE_RET[1],
         doc="the preamble of `bottleneck` on two arrays with `c1`, `c2` columns whose rows are `(birth, death)` with a death that may be "
             "non-finite (`none`): the flag, the filtered / substituted diagrams `S`, `T`, their sizes `M`, `N`, and whether the "
             "first / second `warnings.warn` was reached",
         conversions=["S = np.array(dgm1, dtype=float)", "T = np.array(dgm2, dtype=float)"],
         warnings=["'dgm1 has points with non-finite death times;' + 'ignoring those points'",
                   "'dgm2 has points with non-finite death times;' + 'ignoring those points'"],
         obligations=[
             ("src_bn_preamble_eq_ref", "(matching : Bool) (c1 c2 : Nat) (dgm1 dgm2 : List (α × Option α))",
              "bn_preamble matching c1 c2 dgm1 dgm2 = %s.bn_preamble matching c1 c2 dgm1 dgm2" % REF, "rfl",
              "the generated definition is the reviewed Lean text of the same shape"),
             ("src_bn_preamble_eq_model", "(matching : Bool) (c1 c2 : Nat) (h1 : 0 < c1) (h2 : 0 < c2) (dgm1 dgm2 : List (α × Option α))",
              "bn_preamble matching c1 c2 dgm1 dgm2 =\n"
              "      some (matching, LIFT (withPlaceholder (filterFinite dgm1).1), (withPlaceholder (filterFinite dgm1).1).length,\n"
              "        LIFT (withPlaceholder (filterFinite dgm2).1), (withPlaceholder (filterFinite dgm2).1).length,\n"
              "        (filterFinite dgm1).2, (filterFinite dgm2).2)".replace("LIFT", "%s" % "PersimVerif.SrcBridge.Matching.lift"),
              "by\n  rw [src_bn_preamble_eq_ref]; exact %s.bn_preamble_eq matching c1 c2 h1 h2 dgm1 dgm2" % BR,
              "**the preamble is the model's `filterFinite` / `withPlaceholder`**, for arrays with any number `c1, c2 ≥ 1` of columns: it "
              "never raises, `S` / `T` are the model's point lists seen as arrays (`lift`: every death finite), `M` / `N` their lengths, "
              "and the k-th warning is issued exactly when the model's flag of `dgm<k>` is set"),
         ]),
    dict(BN, lean="bisect", region="behind_matrix_through_while",
         where="the statements behind the last block assignment `D[...] = ...` up to and including the top-level `while`",
         params=[("HopcroftKarp", ORACLE, "oracle"), ("M", TN, "M"), ("N", TN, "N"), ("D", MATRIX, "D")],
         ret=["bdist", "matching"], ret_types=[TX, TW],
         **{"while": ("bisect_loop", "ds"), "for": ["graph_loop"]},
         doc="\"Step 2\" of `bottleneck`, from `ds = np.sort(np.unique(D.flatten()))` to the end of the `while` loop, for the oracle "
             "`oracle` and the `(M + N) × (M + N)` matrix with entries `D i j`: the values of `bdist`, `matching` at loop exit",
         obligations=[
             ("src_graph_loop_eq_ref", "", "∀ (l : List Nat) %s (d : Ext α) (graph : List (List Nat)),\n"
              "      graph_loop M N D d l graph = %s.graph_loop M N D d l graph" % (MND, REF), list_ind("graph_loop"),
              "the loop `for i in range(D.shape[0]): graph['{}'.format(i)] = {j for j in range(D.shape[1]) if D[i, j] <= d}`"),
             ("src_bisect_loop_eq_ref", "", "∀ (fuel : Nat) %s %s (ds : List (Ext α)) (bdist : Ext α) (matching : Matching),\n"
              "      bisect_loop oracle M N D fuel ds bdist matching = %s.bisect_loop oracle M N D fuel ds bdist matching" % (ORA, MND, REF),
              "by\n  have h1 := src_graph_loop_eq_ref (α := α)\n" + fuel_ind("bisect_loop", ["h1"])[3:],
              "the loop `while len(ds) >= 1` (index by `bisect_left`, threshold graph, oracle call, acceptance test, the two slices)"),
             ("src_bisect_eq_ref", "%s %s" % (ORA, MND), "bisect oracle M N D = %s.bisect oracle M N D" % REF,
              "by\n  unfold bisect %s.bisect; simp only [src_bisect_loop_eq_ref] <;> rfl" % REF,
              "the generated definitions are the reviewed Lean text of the same shape"),
             ("src_graph_loop_eq_model", "%s (d : Ext α)" % MND,
              "graph_loop M N D d (List.range (M + N)) [] = some (thresholdGraph (M + N) D d)",
              "by\n  rw [src_graph_loop_eq_ref]; exact %s.graph_loop_eq M N D d" % BR,
              "the dict `graph` built by the `range` loop is the model's `thresholdGraph` (row `i`: the columns `j` with `D[i, j] <= d`), and "
              "no key is ever outside the representation"),
             ("src_bisect_loop_eq_model", "%s %s (fuel : Nat) (ds : List (Ext α)) (bdist : Ext α) (matching : Matching)\n"
              "    (h : ds.length ≤ fuel)" % (ORA, MND),
              "bisect_loop oracle M N D fuel ds bdist matching =\n"
              "      some (bsearch (fun d => oracle (thresholdGraph (M + N) D d)) (perfectB (M + N)) ds (bdist, matching))",
              "by\n  rw [src_bisect_loop_eq_ref]; exact %s.bisect_loop_eq oracle M N D fuel ds bdist matching h" % BR,
              "the `while` loop is the model's well-founded `bsearch` from every state -- `bisect_left(range(n), int(n / 2))` is `n / 2` "
              "(`SrcBridge.Matching.bisectLeftRange_eq`: CPython's loop returns `min x n`), `ds[idx]` is in range, the acceptance test is "
              "`perfectB … ∧ d ≤ bdist` -- and a fuel of at least `len(ds)` is never exhausted"),
             ("src_bisect_eq_model", "%s %s" % (ORA, MND), "bisect oracle M N D = searchLoop oracle (M + N) D",
              "by\n  rw [src_bisect_eq_ref]; exact %s.bisect_eq_model oracle M N D" % BR,
              "**Step 2 is the model's `searchLoop`**, for EVERY oracle and EVERY matrix (`none` = `ds[-1]` on an empty candidate list on "
              "both sides): the model about which Props/C01.lean proves `bsearch_least`, `bottleneck_eq_spec`, …"),
         ],
         full_obligations=[
             ("src_bottleneck_core_eq_model", "%s (S T : List (α × α))" % ORA,
              "bottleneckCore oracle S T =\n      bisect oracle (withPlaceholder S).length (withPlaceholder T).length "
              "(augD (withPlaceholder S) (withPlaceholder T))",
              "by\n  rw [src_bisect_eq_ref]; exact %s.bottleneckCore_eq oracle S T" % BR,
              "the model's `bottleneckCore` (lines 69-118) is: the placeholders, the model's matrix `augD` (= the translated `aug_entry` of "
              "Generated/SrcBottleneck.lean), then the translated Step 2 with `M`, `N` the two lengths"),
         ]),
    dict(BN, lean="bn_rows", region="if_body", where="the body of the top-level `if return_matching:` in front of its `return`",
         params=[("M", TN, "M"), ("N", TN, "N"), ("D", MATRIX, "D"), ("matching", TW, "matching")],
         ret=["matchidx"], ret_types=[Lst(ROW)], **{"for": ["rows_loop"]},
         doc="the body of `if return_matching:` in front of its `return`: the rows `[i, j, d]` collected in `matchidx`",
         obligations=[
             ("src_rows_loop_eq_ref", "", "∀ (l : List Nat) %s (matching : Matching) (matchidx : List (Int × Int × Ext α)),\n"
              "      rows_loop M N D matching l matchidx = %s.rows_loop M N D matching l matchidx" % (MND, REF), list_ind("rows_loop"),
              "the loop `for i in range(M + N)` (`-1` for the diagonal, diagonal-to-diagonal pairs skipped by `continue`)"),
             ("src_bn_rows_eq_ref", "%s (matching : Matching)" % MND, "bn_rows M N D matching = %s.bn_rows M N D matching" % REF,
              "by\n  unfold bn_rows %s.bn_rows; simp only [src_rows_loop_eq_ref] <;> rfl" % REF,
              "the generated definitions are the reviewed Lean text of the same shape"),
             ("src_rows_loop_eq_model", "%s (matching : Matching) (l : List Nat) (matchidx : List (Int × Int × Ext α))" % MND,
              "rows_loop M N D matching l matchidx = (extractRows.go M N D matching l).map (matchidx ++ ·)",
              "by\n  rw [src_rows_loop_eq_ref]; exact %s.rows_loop_eq M N D matching l matchidx" % BR,
              "the source appends front to back what the model's recursion conses from the back; a row of `D` missing from `matching` "
              "(KeyError) is `none` on both sides"),
             ("src_bn_rows_eq_model", "%s (matching : Matching)" % MND, "bn_rows M N D matching = extractRows M N D matching",
              "by\n  rw [src_bn_rows_eq_ref]; exact %s.bn_rows_eq_model M N D matching" % BR,
              "**the extraction loop is the model's `extractRows`**, for every matrix and every dict `matching` -- the definition about which "
              "Props/C06Model.lean proves `model_bn_rows_certify`, …"),
         ],
         full_obligations=[
             ("src_bottleneck_with_matching_eq_model", "%s (dgm1 dgm2 : List (α × Option α))" % ORA,
              "bottleneckWithMatching oracle dgm1 dgm2 =\n"
              "      (bisect oracle (withPlaceholder (filterFinite dgm1).1).length (withPlaceholder (filterFinite dgm2).1).length\n"
              "          (augD (withPlaceholder (filterFinite dgm1).1) (withPlaceholder (filterFinite dgm2).1))).bind fun r =>\n"
              "        (bn_rows (withPlaceholder (filterFinite dgm1).1).length (withPlaceholder (filterFinite dgm2).1).length\n"
              "          (augD (withPlaceholder (filterFinite dgm1).1) (withPlaceholder (filterFinite dgm2).1)) r.2).map fun rows =>\n"
              "            (({ value := r.1, matching := r.2, warn1 := (filterFinite dgm1).2, warn2 := (filterFinite dgm2).2 } : Result α), rows)",
              "by\n  have h1 : bisect (α := α) = %s.bisect := by funext o m n d; exact src_bisect_eq_ref o m n d\n"
              "  have h2 : bn_rows (α := α) = %s.bn_rows := by funext m n d mt; exact src_bn_rows_eq_ref m n d mt\n"
              "  rw [h1, h2]; exact %s.bottleneckWithMatching_eq oracle dgm1 dgm2" % (REF, REF, BR),
              "the whole model `bottleneckWithMatching` (the routine with `matching=True`) is: the model's finite-death filter and "
              "placeholders, the model's matrix (translated: `src_aug_entry_eq_model`), "
              "then the TRANSLATED Step 2 and the TRANSLATED extraction loop, `none` for `none`"),
             ("src_bottleneck_chain_eq_model", "%s (c1 c2 : Nat) (h1 : 0 < c1) (h2 : 0 < c2) (dgm1 dgm2 : List (α × Option α))" % ORA,
              "bottleneckWithMatching oracle dgm1 dgm2 =\n"
              "      (bn_preamble true c1 c2 dgm1 dgm2).bind fun p =>\n"
              "        (bisect oracle p.2.2.1 p.2.2.2.2.1 (augD (UNLIFT p.2.1) (UNLIFT p.2.2.2.1))).bind fun r =>\n"
              "          (bn_rows p.2.2.1 p.2.2.2.2.1 (augD (UNLIFT p.2.1) (UNLIFT p.2.2.2.1)) r.2).map fun rows =>\n"
              "            (({ value := r.1, matching := r.2, warn1 := p.2.2.2.2.2.1, warn2 := p.2.2.2.2.2.2 } : Result α), rows)"
              .replace("UNLIFT", BR + ".unlift"),
              "by\n  have h0 : bn_preamble (α := α) = %s.bn_preamble := by funext a b c d e; exact src_bn_preamble_eq_ref a b c d e\n"
              "  have h3 : bisect (α := α) = %s.bisect := by funext o m n d; exact src_bisect_eq_ref o m n d\n"
              "  have h4 : bn_rows (α := α) = %s.bn_rows := by funext m n d mt; exact src_bn_rows_eq_ref m n d mt\n"
              "  rw [h0, h3, h4]; exact %s.bottleneck_chain_eq oracle c1 c2 h1 h2 dgm1 dgm2" % (REF, REF, REF, BR),
              "**the whole routine (`matching=True`) as the chain of its translated parts**: the TRANSLATED preamble (`S`, `M`, `T`, `N`, the "
              "two warning flags), the matrix `augD` on the finite point lists (`unlift`; = the translated `aug_entry` of "
              "Generated/SrcBottleneck.lean), the TRANSLATED Step 2, the TRANSLATED extraction loop -- equal to the model "
              "`bottleneckWithMatching` for every oracle, all diagrams, and arrays with any number `≥ 1` of columns"),
         ]),
    dict(WS, lean="ws_preamble", region="preamble", variables="[Zero α]",
         where="the top-level statements up to and including the last `if` in front of `D = np.zeros(...)`",
         params=PRE_PARAMS, ret=PRE_RET[0], ret_types=PRE_RET[1],
         doc="the preamble of `wasserstein` on two arrays with `c1`, `c2` columns whose rows are `(birth, death)` with a death that may "
             "be non-finite (`none`): the filtered / substituted diagrams `S`, `T`, their sizes `M`, `N`, and whether the first / "
             "second `warnings.warn` was reached",
         conversions=["S = np.array(dgm1, dtype=float)", "T = np.array(dgm2, dtype=float)"],
         warnings=["'dgm1 has points with non-finite death times;' + 'ignoring those points'",
                   "'dgm2 has points with non-finite death times;' + 'ignoring those points'"],
         obligations=[
             ("src_ws_preamble_eq_ref", "(c1 c2 : Nat) (dgm1 dgm2 : List (α × Option α))",
              "ws_preamble c1 c2 dgm1 dgm2 = %s.ws_preamble c1 c2 dgm1 dgm2" % REF, "rfl",
              "the generated definition is the reviewed Lean text of the same shape"),
             ("src_ws_preamble_eq_model", "(c1 c2 : Nat) (h1 : 0 < c1) (h2 : 0 < c2) (dgm1 dgm2 : List (α × Option α))",
              "ws_preamble c1 c2 dgm1 dgm2 =\n"
              "      some (LIFT (prepared dgm1), (prepared dgm1).length, LIFT (prepared dgm2), (prepared dgm2).length,\n"
              "        warned dgm1, warned dgm2)".replace("LIFT", "PersimVerif.SrcBridge.Matching.lift"),
              "by\n  rw [src_ws_preamble_eq_ref]; exact %s.ws_preamble_eq c1 c2 h1 h2 dgm1 dgm2" % BR,
              "**the preamble is the model's `finitePart` / `warned` / `orPlaceholder`** (`prepared`), for arrays with any number "
              "`c1, c2 ≥ 1` of columns: it never raises, `S` / `T` are the model's point lists seen as arrays, `M` / `N` their lengths, and "
              "the k-th warning is issued exactly when `warned dgm<k>`"),
         ]),
    dict(WS, lean="assign", region="behind_matrix_until_if",
         where="the statements behind the last block assignment `D[...] = ...` up to the top-level `if matching:`",
         params=[("optimize", LSA, "lsa"), ("D", MAT, "D")],
         ret=["matchi", "matchj", "matchdist"], ret_types=[Lst(TN), Lst(TN), TX],
         doc="`matchi, matchj = optimize.linear_sum_assignment(D)`, `matchdist = np.sum(D[matchi, matchj])` for the solver `lsa`",
         obligations=[
             ("src_assign_eq_ref", "(lsa : Mat α → List (Nat × Nat)) (D : Mat α)", "assign lsa D = %s.assign lsa D" % REF, "rfl",
              "the generated definition is the reviewed Lean text of the same shape"),
             ("src_assign_eq_model", "(lsa : Mat α → List (Nat × Nat)) (D : Mat α)",
              "assign lsa D =\n      ((lsa D).mapM fun p => lookup D p.1 p.2).map fun sel => ((lsa D).unzip.1, (lsa D).unzip.2, optSum sel)",
              "by\n  rw [src_assign_eq_ref]; exact %s.assign_eq lsa D" % BR,
              "`D[matchi, matchj]` for the two components of the solver's pairs is the model's `pairs.mapM (lookup D)` (`none` = IndexError "
              "on both sides; the two index arrays always pair up)"),
             ("src_ws_value_eq_model", "(lsa : Mat α → List (Nat × Nat)) (D : Mat α)",
              "(assign lsa D).map (fun r => r.2.2) = ((lsa D).mapM fun p => lookup D p.1 p.2).map optSum",
              "by\n  rw [src_assign_eq_ref]; exact %s.assign_value_eq lsa D" % BR,
              "**`matchdist` is the model's value** `optSum` of the selected entries, for EVERY solver and EVERY matrix"),
         ]),
    dict(WS, lean="ws_rows", region="if_body", where="the body of the top-level `if matching:` in front of its `return`",
         params=[("M", TN, "M"), ("N", TN, "N"), ("D", MAT, "D"), ("matchi", Lst(TN), "matchi"), ("matchj", Lst(TN), "matchj")],
         ret=["ret"], ret_types=[Lst(ROW)], conversions=["ret[:, 0:2] = np.array(matchidx)"],
         doc="the body of `if matching:` in front of its `return`: the array `ret`, row by row",
         obligations=[
             ("src_ws_rows_eq_ref", "(M N : Nat) (D : Mat α) (matchi matchj : List Nat)",
              "ws_rows M N D matchi matchj = %s.ws_rows M N D matchi matchj" % REF, "rfl",
              "the generated definition is the reviewed Lean text of the same shape"),
             ("src_ws_rows_eq_model", "(M N : Nat) (D : Mat α) (pairs : List (Nat × Nat))",
              "ws_rows M N D pairs.unzip.1 pairs.unzip.2 =\n      (pairs.mapM fun p => lookup D p.1 p.2).map fun sel => rowsOf M N pairs sel",
              "by\n  rw [src_ws_rows_eq_ref]; exact %s.ws_rows_eq M N D pairs" % BR,
              "**the vectorised extraction is the model's `rowsOf`** on the selected entries, for every list of index pairs: the column "
              "assignments never fail (the shapes agree), the two masked assignments and the final mask compose to the model's single "
              "`map` / `filter` (`-1` where `i >= M` / `j >= N`, rows with `i + j == -2` dropped)"),
             ("src_ws_assign_rows_eq_model", "(lsa : Mat α → List (Nat × Nat)) (M N : Nat) (D : Mat α)",
              "(assign lsa D).bind (fun r => (ws_rows M N D r.1 r.2.1).map fun rows => (r.2.2, rows)) =\n"
              "      ((lsa D).mapM fun p => lookup D p.1 p.2).map fun sel => (optSum sel, rowsOf M N (lsa D) sel)",
              "by\n  have h1 : assign (α := α) = %s.assign := by funext l d; exact src_assign_eq_ref l d\n"
              "  have h2 : ws_rows (α := α) = %s.ws_rows := by funext m n d a b; exact src_ws_rows_eq_ref m n d a b\n"
              "  rw [h1, h2]; exact %s.assign_rows_eq lsa M N D" % (REF, REF, BR),
              "the solver call, the sum and the extraction together: value and rows of the model"),
         ],
         full_obligations=[
             ("src_wasserstein_eq_model", "(sqrt : α → α) (lsa : Mat α → List (Nat × Nat)) (d1 d2 : Dgm α)",
              "wasserstein sqrt lsa d1 d2 =\n"
              "      match (assign lsa (matrixOf sqrt d1 d2)).bind (fun r =>\n"
              "          (ws_rows (prepared d1).length (prepared d2).length (matrixOf sqrt d1 d2) r.1 r.2.1).map\n"
              "            fun rows => (r.2.2, rows)) with\n"
              "      | none => .error .index\n"
              "      | some (v, rows) => .ok { value := v, warn1 := warned d1, warn2 := warned d2, rows := rows }",
              "by\n  have h1 : assign (α := α) = %s.assign := by funext l d; exact src_assign_eq_ref l d\n"
              "  have h2 : ws_rows (α := α) = %s.ws_rows := by funext m n d a b; exact src_ws_rows_eq_ref m n d a b\n"
              "  rw [h1, h2]; exact %s.wasserstein_eq sqrt lsa d1 d2" % (REF, REF, BR),
              "the whole model `wasserstein` is: the model's finite-death filter and placeholders, the model's matrix (entries "
              "translated: `src_aug_entry_eq_model` of Generated/SrcWasserstein.lean), "
              "then the TRANSLATED solver call, sum and extraction (`Err.index` for `none`)"),
             ("src_wasserstein_chain_eq_model", "(sqrt : α → α) (lsa : Mat α → List (Nat × Nat)) (c1 c2 : Nat) (h1 : 0 < c1) "
              "(h2 : 0 < c2)\n    (d1 d2 : Dgm α)",
              "wasserstein sqrt lsa d1 d2 =\n"
              "      match (ws_preamble c1 c2 d1 d2).bind (fun p =>\n"
              "          (assign lsa (augMatrix sqrt (UNLIFT p.1) (UNLIFT p.2.2.1))).bind fun r =>\n"
              "            (ws_rows p.2.1 p.2.2.2.1 (augMatrix sqrt (UNLIFT p.1) (UNLIFT p.2.2.1)) r.1 r.2.1).map\n"
              "              fun rows => (r.2.2, rows, p.2.2.2.2.1, p.2.2.2.2.2)) with\n"
              "      | none => .error .index\n"
              "      | some (v, rows, w1, w2) => .ok { value := v, warn1 := w1, warn2 := w2, rows := rows }".replace("UNLIFT", BR + ".unlift"),
              "by\n  have h0 : ws_preamble (α := α) = %s.ws_preamble := by funext a b c d; exact src_ws_preamble_eq_ref a b c d\n"
              "  have h1' : assign (α := α) = %s.assign := by funext l d; exact src_assign_eq_ref l d\n"
              "  have h2' : ws_rows (α := α) = %s.ws_rows := by funext m n d a b; exact src_ws_rows_eq_ref m n d a b\n"
              "  rw [h0, h1', h2']; exact %s.wasserstein_chain_eq sqrt lsa c1 c2 h1 h2 d1 d2" % (REF, REF, REF, BR),
              "**the whole routine as the chain of its translated parts**: the TRANSLATED preamble, the matrix `augMatrix` on the finite "
              "point lists (`unlift`; its entries are the translated `aug_entry` of Generated/SrcWasserstein.lean), the TRANSLATED solver "
              "call and sum, the TRANSLATED extraction -- equal to the model `wasserstein` for every solver, all diagrams, and arrays "
              "with any number `≥ 1` of columns"),
         ]),
]

# reviewed text of each function with the translated statements (this engine's and the matrix region's) as `...`
SKELETON = {
    "bottleneck_search": "...\nif return_matching:\n    ...\n    return (bdist, np.array(matchidx))\nelse:\n    return bdist",
    "wasserstein_assign": "...\nif matching:\n    ...\n    return (matchdist, ret)\nreturn matchdist",
}
BINDINGS = {
    "bottleneck_search": [
        ("HopcroftKarp", "from hopcroftkarp import HopcroftKarp"),
        ("bisect_left", "from bisect import bisect_left"),
        ("bottleneck", "def bottleneck"),
        ("float", "builtin"),
        ("int", "builtin"),
        ("len", "builtin"),
        ("min", "builtin"),
        ("np", "import numpy as np"),
        ("range", "builtin"),
        ("warnings", "import warnings"),
    ],
    "wasserstein_assign": [
        ("float", "builtin"),
        ("len", "builtin"),
        ("min", "builtin"),
        ("np", "import numpy as np"),
        ("optimize", "from scipy import optimize"),
        ("warnings", "import warnings"),
        ("wasserstein", "def wasserstein"),
        ("zip", "builtin"),
    ],
}
SIGNATURES = {
    ("bottleneck_search", "bottleneck"): "def bottleneck(dgm1, dgm2, matching=False)",
    ("wasserstein_assign", "wasserstein"): "def wasserstein(dgm1, dgm2, matching=False)",
}

FILES = {
    # key: (python source, generated Lean file, Lean namespace, imports, property, opened namespaces)
    "bottleneck_search": ("persim/bottleneck.py", "SrcBottleneckSearch.lean", "PersimVerif.Src.bottleneck_search",
                          "PersimVerif.Model.Bottleneck\nimport PersimVerif.Lemmas.SrcLibMatching\nimport PersimVerif.Lemmas.SrcBridgeMatching",
                          "C01", "PersimVerif.Bottleneck PersimVerif.SrcLib.Matching"),
    "wasserstein_assign": ("persim/wasserstein.py", "SrcWassersteinAssign.lean", "PersimVerif.Src.wasserstein_assign",
                           "PersimVerif.Model.Wasserstein\nimport PersimVerif.Lemmas.SrcLibMatching\nimport PersimVerif.Lemmas.SrcBridgeMatching",
                           "C02", "PersimVerif.Wasserstein PersimVerif.SrcLib.Matching"),
}
BRIDGES = {k: ["PersimVerif/Lemmas/SrcLibMatching.lean", "PersimVerif/Lemmas/SrcBridgeMatching.lean"] for k in FILES}


# ----------------------------------------------------------------------------- notes for the harness modules

def trusted_note(key):
    """the entry a harness module adds to its TRUSTED list"""
    return ("harness/translator/py2lean.py + py2lean_matching.py (statement-level ast translation of what `%s` of %s does behind its "
            "augmented matrix into Generated/%s, proved equal on every run to the reviewed Lean text `Ref.*` of "
            "Lemmas/SrcBridgeMatching.lean and through it to the hand-written model; its stated conventions -- SSA, one recursive "
            "definition per loop, the `while` on the fuel len(ds)+1, `none` for an exception / exhausted fuel, the external solver as a "
            "parameter, the regions of the function as a chain through their declared outputs, "
            "the matrix as its entry function / the model's `Mat`, the oracle's two-way dict as its list of pairs, the dict "
            "`graph` as the list of its values, rows `[i, j, d]` as triples, the column-wise NumPy statements read row by row, names "
            "resolved by spelling with their bindings pinned as text -- its tables (regions by anchor, loop names, the obligation "
            "statements and proof scripts, the reviewed skeleton / signature / bindings texts) and Lemmas/SrcLibMatching.lean "
            "(bisectLeftRange, dictPut, fancy, setCols01, setCol2) are trusted)"
            % (FILES[key][0].split("/")[-1][:-3], FILES[key][0], FILES[key][1]))


def manifest_note(key):
    """sentence appended to MANIFEST['note'] of a property that builds `key`"""
    if key == "bottleneck_search":
        what = ("the preamble (float conversion read as the identity, `M = min(S.shape[0], S.size)`, the finite-death filter with its "
                "warning as a flag, the `[[0, 0]]` substitution; `src_bn_preamble_eq_model`: = `filterFinite` / `withPlaceholder` for "
                "arrays with any number >= 1 of columns), \"Step 2\" of `bottleneck` -- `ds = np.sort(np.unique(D.flatten()))`, `bdist = ds[-1]`, the `while len(ds) >= 1` bisection "
                "(`bisect_left(range(ds.size), int(ds.size / 2))` as CPython's loop, the threshold graph `{j : D[i, j] <= d}` per row, the "
                "Hopcroft-Karp call as the PARAMETER `oracle`, the acceptance test, the two slices; fuel len(ds)+1) -- and the "
                "`if return_matching:` extraction loop are translated statement by statement and proved EQUAL to the model's "
                "`searchLoop` / `extractRows` for every oracle and every matrix (`src_bisect_eq_model`, `src_bn_rows_eq_model`; "
                "`src_bottleneck_chain_eq_model`: the model `bottleneckWithMatching` is the chain translated preamble -> matrix "
                "`augD` -> translated Step 2 -> translated extraction)")
    else:
        what = ("the preamble (`src_ws_preamble_eq_model`: = `finitePart` / `warned` / `orPlaceholder`), "
                "`matchi, matchj = optimize.linear_sum_assignment(D)` (the solver as the PARAMETER `lsa`), `matchdist = "
                "np.sum(D[matchi, matchj])` and the vectorised `if matching:` extraction (`np.zeros((k, 3))`, the two column "
                "assignments, the two masked `-1` assignments, the final mask) are translated statement by statement and proved EQUAL "
                "to the model's `optSum` of the selected entries / `rowsOf` for every solver and every matrix (`src_ws_value_eq_model`, "
                "`src_ws_rows_eq_model`; `src_wasserstein_chain_eq_model`: the model `wasserstein` is the chain translated preamble -> matrix `augMatrix` -> "
                "translated solver call / sum -> translated extraction)")
    return ("Source translator (matching): around the augmented matrix of %s, %s -- via the reviewed Lean text `Ref.*` of the same "
            "shape (`src_<def>_eq_ref`) and the inductions of Lemmas/SrcBridgeMatching.lean (Generated/%s, Mathlib-free).  An edit of a "
            "translated line breaks the obligation of the definition it lands in (or `srcShape_<f>_recognised` when it leaves the subset) "
            "and triggers the failing-input search, except a renaming of locals or a rewrite that the `let`s / definitional unfolding "
            "absorb.  Pinned as text: the `if <flag>:` header and the `return` statements (`src_%s_skeleton`; "
            "`src_aug_entry_skeleton` / `…_skeleton_after` of the matrix file shrink to `...` / the same text), the signature, the module-level bindings "
            "(`src_%s_bindings`), the `S = np.array(x, dtype=float)` / `ret[:, 0:2] = np.array(matchidx)` statements whose call is read as "
            "the identity and the warning messages (`src_<f>_conversions`, `src_<f>_warnings`).  Refused (`srcShape_<f>_recognised` "
            "fails) rather than absorbed: a statement whose stored value nothing reads (liveness of the generated bindings), a region "
            "-- the matrix region included -- that binds a name which is not one of its declared outputs and is read behind it "
            "(`M`, `N`, `matching`, `return_matching`, `bdist`, `matchdist`, …), a second name for a list / array / dict (`y = x`), a "
            "Python identifier spelled like a name the translator makes up (`ret_4`, `ds_1`, `warn1`, `v`), a `warnings.warn` outside "
            "the preamble.  Not tied by the translator: the contract of the "
            "external solver (a hypothesis of the model's theorems, certified per call by the correspondence streams), float rounding, "
            "the callers (trusted: the translator's stated conventions, its tables, Lemmas/SrcLibMatching.lean)."
            % (FILES[key][0], what, FILES[key][1], FILES[key][0].split("/")[-1][:-3], key))


# ----------------------------------------------------------------------------- output

def header(key):
    py, out, ns, imports, prop, opens = FILES[key]
    doc = __doc__.strip().split("\n")
    conv = "\n".join(doc[doc.index("Semantics of the subset (the translator's conventions):"):])
    fname = py.split("/")[-1][:-3]
    return (
        "import %s\n"
        "/-!\n"
        "GENERATED by harness/translator/py2lean.py (matching engine py2lean_matching.py) from %s — do not edit;\n"
        "rewritten on every run (`pre_build` of %s and C06).\n\n"
        "What `%s` does in front of and BEHIND its augmented matrix, translated STATEMENT BY STATEMENT (`ast`).  Obligations:\n"
        "  * `src_<def>_eq_ref`: every generated definition equals the reviewed Lean text of the same shape in\n"
        "    Lemmas/SrcBridgeMatching.lean (`Ref.*`; each step is `rfl`), so an edit of a translated line -- other than a renaming of\n"
        "    locals or a rewrite that the `let`s / definitional unfolding absorb -- breaks the obligation of the definition it lands in;\n"
        "  * `src_<def>_eq_model`: the translated statements EQUAL the hand-written model (for every oracle / solver and every matrix;\n"
        "    inductions in Lemmas/SrcBridgeMatching.lean), up to the whole model routine (`src_%s_eq_model`);\n"
        "  * text pins: `src_%s_skeleton`, `src_%s_signature`, `src_%s_bindings`, `src_<f>_conversions`, `src_<f>_warnings`.\n"
        "The matrix region between the preamble and these statements is in Generated/%s (translated entry-wise).\n\n"
        "%s\n"
        "A source outside the subset gives `def srcShape_<f> : Bool := false`, and `srcShape_<f>_recognised` fails.\n"
        "-/\n"
        "set_option linter.unusedVariables false\n"
        "set_option linter.unusedSectionVars false\n"
        "set_option linter.unusedSimpArgs false\n\n"
        "namespace %s\nopen %s\n" % (imports, py, prop, fname,
                                      "bottleneck_with_matching" if fname == "bottleneck" else "wasserstein", fname, fname, key,
                                      "SrcBottleneck.lean" if fname == "bottleneck" else "SrcWasserstein.lean", conv, ns, opens))


def esc(e):
    return e.replace("-/", "- /").replace("/-", "/ -").replace("\n", " ")


def render_file(key, root):
    from . import py2lean as _base
    py, out, ns, imports, prop, opens = FILES[key]
    cfgs = [c for c in TARGETS if c["file"] == key]
    func = cfgs[0]["func"]
    o = [header(key)]
    info = {"source": py, "output": "/".join([GEN.replace(os.sep, "/"), out]), "functions": {}}
    tree, err, fn = None, None, None
    try:
        tree = ast.parse(open(os.path.join(root, py)).read())
        fn = find_function(tree, func)
        if fn is None:
            err = "Shape: function %s not found" % func
    except (OSError, SyntaxError) as e:
        err = "%s: %s" % (type(e).__name__, e)
    o.append(bindings_section(key, tree, [(func, fn, None)], BINDINGS.get(key), err if tree is None else None, info))
    res, translated = {}, set()
    if err is None:
        a = fn.args
        if a.vararg or a.kwarg or a.kwonlyargs or a.posonlyargs or [x.arg for x in a.args] != cfgs[0]["pyparams"]:
            err = "Shape: parameters of %s are not %s" % (fn.name, cfgs[0]["pyparams"])
    if err is None:
        try:
            res, translated, pins = translate(fn, cfgs)
        except Exception as e:
            err = "%s: %s" % (type(e).__name__, e)
    for cfg in cfgs:
        f = cfg["lean"]
        o.append("/-! ### `%s`  (from `%s` of %s, %s)\n"
                 "interface of the region: takes `%s`; hands on `%s` -- no other name that anything behind the region reads may be "
                 "bound in it -/" % (f, func, py, cfg["where"], "`, `".join(x for x, _, _ in cfg["params"] if x not in SYNTHETIC_PARAMS),
                                    "`, `".join(cfg["ret"])))
        o.append("section")
        o.append("variable {α : Type} " + cfg["variables"] + "\n")
        e = err if err is not None else (res[f] if isinstance(res.get(f), str) else None)
        if e is not None:
            o.append("/-- the translator could not read the source: %s -/" % esc(e))
            o.append("def srcShape_%s : Bool := false" % f)
            o.append("theorem srcShape_%s_recognised : srcShape_%s = true := by decide\n" % (f, f))
            o.append("end\n")
            info["functions"][f] = {"error": e}
            continue
        o.append("def srcShape_%s : Bool := true" % f)
        o.append("theorem srcShape_%s_recognised : srcShape_%s = true := by decide\n" % (f, f))
        for d in res[f]:
            o.append(d + "\n")
        names = ["srcShape_%s_recognised" % f]
        for name, binders, stmt, proof, doc in cfg["obligations"]:
            o.append("/-- %s -/" % doc)
            o.append("theorem %s%s :\n    %s := %s\n" % (name, (" " + binders) if binders else "", stmt, proof))
            names.append(name)
        for kind, title in (("conversions", "the array conversions the translation reads as the identity"),
                            ("warnings", "the message expressions of the `warnings.warn` statements, in source order (statement k sets `warn<k>`)")):
            if cfg.get(kind) is not None:
                o.append("/-- %s, as `ast.unparse` prints them -/" % title)
                o.append("def src%s_%s : List String :=\n  [%s]" % (kind.capitalize(), f, ", ".join(lean_str(x) for x in pins[f][kind])))
                o.append("theorem src_%s_%s : src%s_%s =\n  [%s] := rfl\n"
                         % (f, kind, kind.capitalize(), f, ", ".join(lean_str(x) for x in cfg[kind])))
                names.append("src_%s_%s" % (f, kind))
        o.append("end\n")
        # the obligations that mention the whole model routine need the classes of the whole model; they are stated only when
        # every definition they mention was translated
        if cfg.get("full_obligations") and all(not isinstance(res.get(c["lean"]), str) for c in cfgs):
            o.append("section")
            o.append("variable {α : Type} %s\n" % cfg["full_variables"])
            for name, binders, stmt, proof, doc in cfg["full_obligations"]:
                o.append("/-- %s -/" % doc)
                o.append("theorem %s%s :\n    %s := %s\n" % (name, (" " + binders) if binders else "", stmt, proof))
                names.append(name)
            o.append("end\n")
        info["functions"][f] = {"obligations": names}
    if fn is not None:
        fname = py.split("/")[-1][:-3]
        body = strip_doc(fn.body)
        try:
            lo, hi = preamble_end(body, cfgs[0]["matrix"]), first_translated(body, cfgs)
            skel = skeleton(body, translated, extra={id(x) for x in body[lo:hi]})     # (the matrix region: the other engine's)
        except Shape as e:
            skel = "Shape: %s" % e
        o.append("/-! ### text pins of `%s` -/\n" % func)
        o.append("/-- the function with every translated statement (of this file and of the matrix region of Generated/%s) replaced by "
                 "`...`, as `ast.unparse` prints it: what the translation does not read (the `if <flag>:` header, the `return` "
                 "statements) -/" % ("SrcBottleneck.lean" if fname == "bottleneck" else "SrcWasserstein.lean"))
        o.append("def srcSkeleton_%s : String :=\n  %s" % (fname, lean_str(skel)))
        o.append("theorem src_%s_skeleton : srcSkeleton_%s =\n  %s := rfl\n" % (fname, fname, lean_str(SKELETON[key])))
        o.append(render_signature(func, signature_text(fn), SIGNATURES.get((key, func), "")))
        info["functions"]["pins"] = {"obligations": ["src_%s_skeleton" % fname, "src_%s_signature" % sanitize(func)]}
    if tree is not None:
        nt = {py: not_translated(py, tree, _base.all_target_functions(py))}
        info["not_translated"] = nt
        o.append(not_translated_comment(sorted(nt.items())))
    o.append("end %s\n" % ns)
    return "\n".join(o), info


from . import py2lean as _base  # noqa: E402   (registers this module's files when it is imported first)
if hasattr(_base, "MATCHING_KEYS"):
    for _k, _v in FILES.items():
        _base.FILES[_k] = _v[:5]
        _base.MATCHING_KEYS.add(_k)
