"""
Statement-level source translator Python -> Lean (DESIGN.md 3.2), the second engine behind py2lean.generate().

py2lean.py translates pure arithmetic expression by expression.  This module translates SMALL STATEMENT-LEVEL Python --
methods that read and write attributes of `self`, calls that may raise, `if/elif/else` that re-assign several names,
bounded `for` loops and `while` loops with a decreasing measure -- into Lean definitions that mirror the source statement
by statement, and emits the obligations `src_<f>_eq_model` that tie them to the hand-written models.

Semantics of the subset (the translator's conventions; value-preserving in exact arithmetic):
  * straight-line code is SSA-renamed (`x`, `x_1`, ...); every assignment is a `let`;
  * `self` is a value of the model's state record; a read `self._a[k]` is a field projection of the CURRENT state variable
    (`self`, `self_1`, ...), a write `self._a = e` is a record update `{ self with f := e }` giving the next state variable;
    a property read `self.p` is the attribute its getter returns (the getter must be `return self._a`), a property write
    `self.p = e` is a call of the generated setter; `self._m(...)` is a call of the generated definition of `_m`;
  * a function that can raise has result type `Except Err τ`; `return e` is `.ok e`, `raise` is `.error`, a call of a raising
    definition is bound by `match … with | .error e => .error e | .ok x => …` at the place of the statement (evaluation
    order left to right), a raising builtin (`l[-1]`, `X[k]`, `min(l, key=…)` of an empty list, `ndarray.min` of an empty
    array, `np.linspace` with a negative count, `int(ceil(x / d))` with `d = 0`, `next(g)` of an exhausted generator) is the
    guard / `match` on `Option` stated in the target's table, placed where the statement stands;
  * `if c: …` whose branches fall through becomes an if-expression yielding the names the branches assign;
  * `for x in L` becomes a structural recursion over the list `L` (a separate definition `<f>_loop`) carrying the names
    the body re-assigns; `for … in zip(l, l[1:])` recurses over consecutive pairs; `for _ in range(a, b)` over
    `List.range (b - a)`; `continue` is the recursive call with the carried values unchanged; `acc.append(e)` is `acc ++ [e]`;
  * `while c` over lists that are consumed from the front is split on the SHAPES (`[]` / `x :: xs`) of those lists:
    `len(a) > 0`, `len(a) == 0` are then constants, `a[0]` is the head, `a[1:]` the tail, and `and`/`or` are evaluated with
    Python's short-circuit rule on the constants; the loop is a well-founded recursion whose measure (the table's) Lean
    checks (`termination_by`/`decreasing_by`);
  * `np.inf` / `-np.inf` as the start of a running minimum / maximum is `none : Option α`; comparing a number with it is
    `SrcLib.ltTop` / `SrcLib.gtBot`; using it where a finite number is needed raises (the table's error);
  * `int` values are `Int`, lengths and indices `Nat`; an `int` in float arithmetic is cast (`(n : α)`); a float literal
    (`1.0`) where Python needs an int is outside the subset;
  * arrays, lists and records are read as VALUES, so ALIASING is refused: `y = x` on such a value is a Shape error, and an in-place
    operation (`X[:, 1] = …`, `acc.append(e)`, `W[i].append(e)`, `params["k"] = v`) is read only on a name that OWNS its value (a
    display, a comprehension, the result of a call -- `np.copy(x)` in particular, which is otherwise the identity --, the declared
    in-out name of a region), never on a parameter, a loop variable or an element of a container;
  * DEAD STORES are refused: the obligations hold up to definitional unfolding, which erases a `let` that nothing reads, so every
    generated binding must be read (the reviewed exceptions of a target, `unread_ok`, are printed in its section and must match
    exactly); a region in the middle of pinned text (`range_in`) may assign, among the names that also occur outside it, only
    its declared result; the matrix regions may not assign `M`, `N` or anything the code after them reads (the matrix excepted);
  * whether a state method ends in `return self` or returns `None` is fixed per target (`returns_self`);
  * a binder is never spelled like an identifier of the Python function (SSA suffixes, made-up names) or like a helper /
    generated definition that the text mentions unqualified.
The TARGETS table (which region is read, binders, the attribute -> field map, which callee is which definition, the
statements and proofs of the obligations, the reviewed skeleton texts) is fixed here and reviewed by hand; the definitions'
bodies come from the source.
An unrecognised source gives `def srcShape_<f> : Bool := false` and the broken obligation `srcShape_<f>_recognised`.

What the translation does not read is pinned as text (see py2lean.py, "WHAT AN EDIT OF /repo DOES"): the function around a
region (`srcSkeleton_<f>`; for the matrix regions of bottleneck / wasserstein also everything AFTER the region up to the end of
the function, `srcSkeletonAfter_<f>`, with the statements that the matching engine py2lean_matching.py translates -- the bisection
with its oracle call, `linear_sum_assignment`, the extraction of the matching -- blanked as well; for `compute_landscape` the whole method around the midpoint and the two ramp loops, the descending sort included),
decorators / parameters / defaults (`srcSignature_<function>`), module- and class-level bindings of the names and `self.<attr>`
used (`srcBindings_<file>`).  A target with `region="pin"` translates nothing and pins the whole body (the constructor of
`PersLandscapeExact`, whose conversion to float is the identity of the models).
"""
import ast, copy, os, re
from fractions import Fraction

from .py2lean import Shape, LEAN_RESERVED, dotted, lean_str, rat, unparse_with_holes, strip_doc, read_defaults, GEN
from .py2lean import bindings_section, render_signature, signature_text, sanitize, not_translated, not_translated_comment
from .py2lean import stored_names, names_outside, function_identifiers, reads_name


# ----------------------------------------------------------------------------- types

class Ty:
    """Lean type of a translated value.  k: A (α) Z (Int) N (Nat) B (Bool/Prop) P (pair) L (list) O (option)
    R (state record) X (named type)"""
    def __init__(self, k, a=None, b=None, inf=None, name=None):
        self.k, self.a, self.b, self.inf, self.name = k, a, b, inf, name

    def lean(self, atom=False):
        k = self.k
        if k == "A":
            return "α"
        if k == "Z":
            return "Int"
        if k == "N":
            return "Nat"
        if k == "B":
            return "Bool"
        if k == "P":
            t = "%s × %s" % (self.a.lean(True), self.b.lean(True) if self.b.k != "P" else self.b.lean())
        elif k == "L":
            t = "List %s" % self.a.lean(True)
        elif k == "O":
            t = "Option %s" % self.a.lean(True)
        else:
            t = self.name
        return "(%s)" % t if atom and " " in t else t

    def __eq__(self, o):
        return isinstance(o, Ty) and self.k == o.k and self.lean() == o.lean()

    def __ne__(self, o):
        return not self.__eq__(o)

    def __hash__(self):
        return hash(self.lean())


A, Z, N, B = Ty("A"), Ty("Z"), Ty("N"), Ty("B")


def Pair(a, b):
    return Ty("P", a, b)


def Lst(a):
    return Ty("L", a)


def Opt(a, inf=None):
    return Ty("O", a, inf=inf)


def Named(name, k="X"):
    return Ty(k, name=name)


PA = Pair(A, A)
LPA = Lst(PA)


class V:
    """a translated value: Lean text `t` of type `ty` (precedence `p`); `c`: components of a pair; `lit`: an integer
    literal (adopts the type of its context); `const`: a Python truth value known at translation time; `shape`: the known
    shape of a list (`("nil",)` / `("cons", head, tail)`); `prop`: a condition that is a Prop (else Bool);
    `fn`/`base`: a column expression over the rows of the list `base`"""
    def __init__(self, t, ty, p=100, c=None, lit=None, const=None, shape=None, prop=False, fn=None, base=None, flt=False):
        self.t, self.ty, self.p, self.c, self.lit, self.const, self.shape, self.prop = t, ty, p, c, lit, const, shape, prop
        self.fn, self.base = fn, base
        self.flt = flt                      # the literal was written as a float (`1.0`): it is not an `int` / a length


def paren(v, minp):
    return "(%s)" % v.t if v.p < minp else v.t


def comp(v, i):
    if v.ty is None or v.ty.k != "P":
        raise Shape("component of a non-pair")
    if v.c is not None:
        return v.c[i]
    return V("%s.%d" % (paren(v, 100), i + 1), v.ty.a if i == 0 else v.ty.b)


def pair_v(a, b):
    return V("(%s, %s)" % (a.t, b.t), Pair(a.ty, b.ty), 100, c=(a, b))


def tuple_text(vs):
    return vs[0].t if len(vs) == 1 else "(%s)" % ", ".join(v.t for v in vs)


def tuple_ty(tys):
    if len(tys) == 1:
        return tys[0]
    return Pair(tys[0], tuple_ty(tys[1:]))


def tuple_proj(base, i, n):
    """projection i of the right-nested n-tuple `base`"""
    if n == 1:
        return base
    return base + ".2" * i + (".1" if i < n - 1 else "")


# ----------------------------------------------------------------------------- nodes

class Ret:
    def __init__(self, text, raw=False):
        self.text, self.raw = text, raw


class Fail:
    def __init__(self, err):
        self.err = err


class Let:
    def __init__(self, name, ty, text, body):
        self.name, self.ty, self.text, self.body = name, ty, text, body


class Ite:
    def __init__(self, cond, a, b):
        self.cond, self.a, self.b = cond, a, b


class Guard:
    def __init__(self, cond, err, body):
        self.cond, self.err, self.body = cond, err, body


class Bind:
    """match scrut with | .error e => .error e | .ok var => body      (scrut: text, or a node with its type `asc`)"""
    def __init__(self, scrut, var, body, asc=None):
        self.scrut, self.var, self.body, self.asc = scrut, var, body, asc


class LetNode:
    """let name : ty := (node) ; body"""
    def __init__(self, name, ty, inner, body):
        self.name, self.ty, self.inner, self.body = name, ty, inner, body


class MatchOpt:
    def __init__(self, scrut, var, err, body):
        self.scrut, self.var, self.err, self.body = scrut, var, err, body


def has_raise(n):
    if isinstance(n, (Fail, Guard, Bind, MatchOpt)):
        return True
    if isinstance(n, Ret):
        return False
    if isinstance(n, Let):
        return has_raise(n.body)
    if isinstance(n, LetNode):
        return has_raise(n.inner) or has_raise(n.body)
    if isinstance(n, Ite):
        return has_raise(n.a) or has_raise(n.b)
    raise Shape("internal: node")


def check_live(n, allow):
    """DEAD STORES (see py2lean.check_liveness): every generated binding -- a `let`, the variable of a `match` on a raising call
    or on an `Option` -- must be read by what follows it; the names of those that are not are appended to `allow` and compared
    with the target's reviewed `unread_ok` list (printed in the generated file) by `settle_unread`.  A store that outlives the translated statements (to a parameter, to `self` in a function that does
    not return the state, to a name the pinned text around a region reads) and is placed after its last use there would
    otherwise be a `let` that `rfl` / `simp only` erase."""
    def body_reads(name, body):
        # an occurrence `name := …` is the FIELD of a record update (`{ self with ps := e }`), not a read of the binding
        pat = re.compile(r"(?<![\w.'])%s(?![\w'])(?!\s*:=)" % re.escape(name))
        return any(pat.search(ln) for ln in render(body, "", True))
    if isinstance(n, Let):
        if not body_reads(n.name, n.body):
            allow.append(n.name)
        check_live(n.body, allow)
    elif isinstance(n, LetNode):
        if not body_reads(n.name, n.body):
            allow.append(n.name)
        check_live(n.inner, allow)
        check_live(n.body, allow)
    elif isinstance(n, Bind):
        if not body_reads(n.var, n.body):
            allow.append(n.var)
        if not isinstance(n.scrut, str):
            check_live(n.scrut, allow)
        check_live(n.body, allow)
    elif isinstance(n, MatchOpt):
        if not body_reads(n.var, n.body):
            allow.append(n.var)
        check_live(n.body, allow)
    elif isinstance(n, Guard):
        check_live(n.body, allow)
    elif isinstance(n, Ite):
        check_live(n.a, allow)
        check_live(n.b, allow)


def settle_unread(found, cfg):
    """the unread bindings of a target's definitions (`found`: Lean names, one entry per binding) must be EXACTLY the target's
    reviewed list `unread_ok` (stores that are dead in the reviewed source as well; printed in the generated file)"""
    if sorted(found) != sorted(cfg.get("unread_ok", ())):
        extra = list(found)
        for x in cfg.get("unread_ok", ()):
            if x in extra:
                extra.remove(x)
        raise Shape("the value bound to %s is never read: a dead store (or a store that outlives the translated statements) is "
                    "outside the subset (reviewed unread bindings of this target: %s)"
                    % (", ".join("`%s`" % x for x in extra) or "(fewer bindings than reviewed)", list(cfg.get("unread_ok", ())) or "none"))


def mutable_ty(ty):
    """does a Python value of this type have identity that in-place operations can be observed through (array, list, record)?"""
    if ty is None:
        return False
    if ty.k in "LRX":
        return True
    if ty.k == "P":
        return mutable_ty(ty.a) or mutable_ty(ty.b)
    if ty.k == "O":
        return mutable_ty(ty.a)
    return False


FRESH_ID = ("np.copy",)          # conversions read as the identity whose RESULT is a new object (the copy owns its data)


def atom(t):
    return t if re.match(r"^[\w.']+$", t) or (t.startswith("(") and t.endswith(")")) or (t.startswith("[") and t.endswith("]")) \
        else "(%s)" % t


def render(n, ind, raises):
    if isinstance(n, Ret):
        if n.raw or not raises:
            return [ind + n.text]
        return [ind + ".ok " + atom(n.text)]
    if isinstance(n, Fail):
        if not raises:
            raise Shape("internal: a raise in a definition that cannot raise")
        return [ind + ".error " + n.err]
    if isinstance(n, Let):
        return ["%slet %s : %s := %s" % (ind, n.name, n.ty, n.text)] + render(n.body, ind, raises)
    if isinstance(n, LetNode):
        inner = render(n.inner, ind + "    ", False)
        inner[0] = "%slet %s : %s := (%s" % (ind, n.name, n.ty, inner[0].lstrip())
        inner[-1] += ")"
        return inner + render(n.body, ind, raises)
    if isinstance(n, Guard):
        return ["%sif %s then .error %s else" % (ind, n.cond, n.err)] + render(n.body, ind, raises)
    if isinstance(n, MatchOpt):
        return ["%smatch %s with" % (ind, n.scrut), "%s| none => .error %s" % (ind, n.err),
                "%s| some %s =>" % (ind, n.var)] + render(n.body, ind, raises)
    if isinstance(n, Bind):
        if isinstance(n.scrut, str):
            if isinstance(n.body, Ret) and not n.body.raw and n.body.text == n.var:
                return [ind + n.scrut]                         # tail call
            head = ["%smatch %s with" % (ind, n.scrut)]
        else:
            inner = render(n.scrut, ind + "    ", True)
            inner[0] = "%smatch (%s" % (ind, inner[0].lstrip())
            inner[-1] += " : %s) with" % n.asc
            head = inner
        return head + ["%s| .error e => .error e" % ind, "%s| .ok %s =>" % (ind, n.var)] + render(n.body, ind, raises)
    if isinstance(n, Ite):
        out = ["%sif %s then" % (ind, n.cond)] + render(n.a, ind + "  ", raises)
        if isinstance(n.b, Ite):
            rest = render(n.b, ind, raises)
            return out + [ind + "else " + rest[0].lstrip()] + rest[1:]
        return out + [ind + "else"] + render(n.b, ind + "  ", raises)
    raise Shape("internal: unknown node")


# ----------------------------------------------------------------------------- the translator

BIN = {ast.Add: ("+", 65), ast.Sub: ("-", 65), ast.Mult: ("*", 70), ast.Div: ("/", 70), ast.FloorDiv: ("/", 70)}


def lean_spellings(cfg):
    """identifiers that the generated text of a target may mention UNQUALIFIED (model helpers, generated definitions of the same
    file and their loops, function parameters, constructors): a binder generated for a Python name is never spelled like one
    (NAME CAPTURE: `colMin = …` in the source must not become `let colMin := …` in front of a call of the helper `colMin`)"""
    words = set()

    def scan(x):
        if isinstance(x, str):
            words.update(re.findall(r"[A-Za-z_][A-Za-z0-9_']*", x))
        elif isinstance(x, dict):
            for v in x.values():
                scan(v)
        elif isinstance(x, (list, tuple, set)):
            for v in x:
                scan(v)
        elif isinstance(x, Ty):
            scan(x.lean())
    for key in ("calls", "mcalls", "methods", "setters", "consts", "mask_sub", "py_index", "fparams", "err", "index_err", "inf_err",
                "div_guard", "raises_table", "fin", "top", "result"):
        scan(cfg.get(key))
    st = cfg.get("state") or {}
    for d in (st.get("derived") or {}).values():
        scan(d.get("lean"))
        scan(d.get("err"))
    for c in TARGETS:
        if c["file"] == cfg["file"]:
            words.add(c["lean"])
            words.update("%s_loop%s" % (c["lean"], "" if i == 0 else "_%d" % (i + 1)) for i in range(9))
    words.update(("some", "none", "PersimVerif", "Option", "Prod", "Int", "Nat", "Bool", "List", "Except", "decide", "id"))
    return sorted(words)


class StTr:
    def __init__(self, src, cls, cfg, aux, used=None):
        self.src, self.cls, self.cfg, self.aux = src, cls, cfg, aux
        self.env = {}                       # python name -> V   (insertion order = definition order)
        self.used = set(LEAN_RESERVED) | set(used or ())
        self.pre = []                       # pending hoists: functions node -> node (outermost first)
        self.reads = set()                  # python names (and fparams) read so far
        self.derived = []                   # (attribute, lean text of the state variable, V) of derived attributes
        self.live_end = set()               # python names needed by whatever follows the translated statements
        self.nloops = 0
        self.unread = []                    # Lean names of the generated bindings that nothing reads (shared with the loops)
        self.avoid = set()                  # identifiers of the Python function: never the spelling of a suffixed / made-up binder
        self.borrowed = set()               # python names whose (mutable) value is shared: a parameter, a loop variable, an element

    # --- names
    def fresh(self, py):
        base = py if py not in LEAN_RESERVED else py + "_"
        if not re.match(r"^[A-Za-z_][A-Za-z0-9_]*$", base):
            raise Shape("name %r" % py)
        if base == "_":
            base = "t"
        name, k = base, 0
        while name in self.used or ((k > 0 or name != py) and name in self.avoid):
            k += 1
            name = "%s_%d" % (base, k)
        self.used.add(name)
        return name

    def fresh_tmp(self, hint):
        """a binder the translator makes up (`t`, `r`, `rest_`, …): never the spelling of an identifier of the Python function"""
        name, k = hint, 0
        while name in self.used or name in self.avoid or name in LEAN_RESERVED:
            k += 1
            name = "%s_%d" % (hint, k)
        self.used.add(name)
        return name

    def hoist(self, w):
        self.pre.append(w)

    def under(self, compute, then):
        """compute() translates expressions (may hoist); then(value) builds the node that stands under the hoists"""
        mark = len(self.pre)
        v = compute()
        wraps = self.pre[mark:]
        del self.pre[mark:]
        node = then(v)
        for w in reversed(wraps):
            node = w(node)
        return node

    def opt_value(self, text, ty, err, hint="t", py=False):
        """the value inside `text : Option ty`; `none` raises `err`  (`py`: the hint is the Python name the value is bound to)"""
        var = self.fresh(hint) if py else self.fresh_tmp(hint)
        self.hoist(lambda body, text=text, var=var, err=err: MatchOpt(text, var, err, body))
        return V(var, ty)

    def bind_value(self, text, ty, hint="t"):
        """the value a raising call returns"""
        var = self.fresh_tmp(hint)
        self.hoist(lambda body, text=text, var=var: Bind(text, var, body))
        return V(var, ty)

    # --- coercions
    def cast(self, v, ty):
        if v.lit is not None:
            if v.flt and ty.k in "ZN":
                raise Shape("the float literal %s.0 where Python needs an int (a count, an index, an `int` value)" % v.t)
            if ty.k in "AZN":
                return V(v.t, ty, v.p)
            if ty.k == "O" and ty.a.k in "AZN":
                return V("some %s" % v.t, ty, 90)
            raise Shape("literal %s where %s is expected" % (v.t, ty.lean()))
        if v.ty == ty:
            if ty.k == "O" and v.ty.inf != ty.inf and ty.inf is not None and v.ty.inf is not None:
                raise Shape("+inf / -inf mixed")
            return v
        if v.ty.k in "ZN" and ty.k == "A":
            return V("(%s : α)" % v.t, A)
        if v.ty.k == "N" and ty.k == "Z":
            return V("(%s : Int)" % v.t, Z)
        if ty.k == "O" and v.ty.k != "O":
            return V("some %s" % paren(self.cast(v, ty.a), 100), ty, 90)
        if v.ty.k == "O" and v.ty.inf is not None and ty == v.ty.a:
            err = self.cfg.get("inf_err")
            if err is None:
                raise Shape("an infinite start value is used as a number and the target names no error for it")
            return self.opt_value(v.t, ty, err)
        if v.ty.k == "P" and ty.k == "P":
            return pair_v(self.cast(comp(v, 0), ty.a), self.cast(comp(v, 1), ty.b))
        if v.ty.k == "B" and ty.k == "B":
            return v
        raise Shape("a value of type %s where %s is expected" % (v.ty.lean(), ty.lean()))

    def as_bool(self, v):
        if v.ty is None or v.ty.k != "B":
            raise Shape("not a condition")
        if v.const is not None:
            return V("true" if v.const else "false", B)
        if v.prop:
            return V("decide (%s)" % v.t, B, 90)
        return v

    # --- expressions
    def lit(self, node):
        v = node.value
        if isinstance(v, bool):
            return V("true" if v else "false", B, const=v)
        if v is None:
            return V("none", None)
        if isinstance(v, int):
            if v < 0:
                raise Shape("negative literal")
            return V(str(v), None, lit=v)
        if isinstance(v, float):
            text = (ast.get_source_segment(self.src, node) or repr(v)).replace("_", "")
            q = Fraction(text)
            if q.denominator != 1:
                raise Shape("float literal %s is not integral (the model writes numerals here)" % text)
            return V(str(q.numerator), None, lit=int(q.numerator), flt=True)
        raise Shape("literal %r" % (v,))

    def arith(self, op, a, b):
        if type(op) not in BIN:
            raise Shape("operator %s" % type(op).__name__)
        sym, pr = BIN[type(op)]
        if a.fn is not None or b.fn is not None:                # column expressions over the rows of one list
            base = a.base if a.fn is not None else b.base
            if (a.fn is not None and b.fn is not None and a.base != b.base):
                raise Shape("columns of different arrays")
            return V(None, None, fn=lambda r: self.arith(op, a.fn(r) if a.fn else a, b.fn(r) if b.fn else b), base=base)
        if a.lit is not None and b.lit is not None:
            raise Shape("arithmetic on two literals")
        if a.lit is not None:
            a = self.cast(a, b.ty)
        if b.lit is not None:
            b = self.cast(b, a.ty)
        ka, kb = a.ty.k, b.ty.k
        if ka not in "AZN" or kb not in "AZN":
            raise Shape("arithmetic on %s, %s" % (a.ty.lean(), b.ty.lean()))
        if isinstance(op, ast.Div):
            if "A" not in (ka, kb):
                raise Shape("true division of integers")
            a, b = self.cast(a, A), self.cast(b, A)
            g = self.cfg.get("div_guard")
            if g is not None and not re.match(r"^\d+$", b.t):       # division by a non-constant raises at 0
                self.hoist(lambda body, c="%s = 0" % paren(b, 51), g=g: Guard(c, g, body))
            return V("%s / %s" % (paren(a, pr), paren(b, pr + 1)), A, pr)
        if isinstance(op, ast.FloorDiv):
            if ka == "A" or kb == "A":
                raise Shape("floor division of floats")
            a, b = self.cast(a, Z), self.cast(b, Z)
            return V("%s / %s" % (paren(a, pr), paren(b, pr + 1)), Z, pr)
        if ka == "A" or kb == "A":
            a, b = self.cast(a, A), self.cast(b, A)
            ty = A
        elif ka == "Z" or kb == "Z" or isinstance(op, ast.Sub):     # a difference of naturals is an int
            a, b = self.cast(a, Z), self.cast(b, Z)
            ty = Z
        else:
            ty = N
        return V("%s %s %s" % (paren(a, pr), sym, paren(b, pr + 1)), ty, pr)

    def compare(self, node):
        if len(node.ops) != 1:
            raise Shape("chained comparison")
        op, l, r = node.ops[0], node.left, node.comparators[0]
        if isinstance(op, (ast.Is, ast.IsNot)):
            if not (isinstance(r, ast.Constant) and r.value is None):
                raise Shape("`is` with something other than None")
            v = self.expr(l)
            if v.ty is None or v.ty.k != "O":
                raise Shape("`is None` on a value that is not optional")
            return V("%s.%s" % (paren(v, 100), "isNone" if isinstance(op, ast.Is) else "isSome"), B)
        a, b = self.expr(l), self.expr(r)
        # lengths of lists of known shape
        if a.const is not None or b.const is not None:
            raise Shape("comparison of a truth value")
        ka = getattr(a, "lenof", None)
        if ka is not None and b.lit is not None and ka.shape is not None:
            n_pos = ka.shape[0] == "cons"
            table = {(ast.Gt, 0): n_pos, (ast.Eq, 0): not n_pos, (ast.NotEq, 0): n_pos, (ast.GtE, 1): n_pos, (ast.Lt, 1): not n_pos}
            key = (type(op), b.lit)
            if key not in table:
                raise Shape("length test %s outside the subset" % ast.unparse(node))
            return V(None, B, const=table[key])
        if isinstance(op, ast.Eq) and a.ty == Lst(N) and b.ty == N:        # labels == label : the Boolean mask
            saved = set(self.used)
            x = self.fresh_tmp("x")                       # never the spelling of a name `b` may mention
            self.used = saved
            return V("%s.map (fun %s => %s == %s)" % (paren(a, 100), x, x, paren(b, 100)), Lst(B), 90)
        swap = isinstance(op, (ast.Gt, ast.GtE))
        if swap:
            a, b = b, a
        # a number against a running extreme that started at ±inf
        for x, y, flip in ((a, b, False), (b, a, True)):
            if x.ty is not None and y.ty is not None and y.ty.k == "O" and y.ty.inf is not None and x.ty == y.ty.a \
                    and isinstance(op, (ast.Lt, ast.Gt)):
                number_left = (not flip)              # after the swap the relation is `a < b`
                if number_left and y.ty.inf == "top":
                    return V("PersimVerif.SrcLib.ltTop %s %s" % (paren(x, 100), paren(y, 100)), B, 90)
                if (not number_left) and y.ty.inf == "bot":
                    return V("PersimVerif.SrcLib.gtBot %s %s" % (paren(x, 100), paren(y, 100)), B, 90)
                raise Shape("comparison with an infinite start value in the direction that is always false")
        if a.lit is not None and b.lit is not None:
            raise Shape("comparison of literals")
        if a.lit is not None:
            a = self.cast(a, b.ty)
        if b.lit is not None:
            b = self.cast(b, a.ty)
        if a.ty is None or b.ty is None or a.ty.k not in "AZN" or b.ty.k not in "AZN":
            raise Shape("comparison of %s" % ast.unparse(node))
        if a.ty != b.ty:
            ty = A if "A" in (a.ty.k, b.ty.k) else Z
            a, b = self.cast(a, ty), self.cast(b, ty)
        sym = {ast.Lt: "<", ast.Gt: "<", ast.LtE: "≤", ast.GtE: "≤", ast.Eq: "=", ast.NotEq: "≠"}.get(type(op))
        if sym is None:
            raise Shape("comparison %s" % type(op).__name__)
        return V("%s %s %s" % (paren(a, 51), sym, paren(b, 51)), B, 50, prop=True)

    def boolop(self, node):
        is_or = isinstance(node.op, ast.Or)
        kept = []
        for sub in node.values:                         # Python's short-circuit rule on known truth values
            mark = len(self.pre)
            v = self.expr(sub)
            if len(self.pre) != mark and kept:
                raise Shape("a raising operand after the first one of and/or")
            if v.ty is None or v.ty.k != "B":
                raise Shape("and/or of non-conditions")
            if v.const is not None:
                if v.const == is_or:
                    if not kept:
                        return V(None, B, const=is_or)
                    break                                   # the rest is not evaluated; value = (kept ...) or True
                continue
            kept.append(v)
        else:
            if not kept:
                return V(None, B, const=not is_or)
            if len(kept) == 1:
                return kept[0]
            if all(k.prop for k in kept):
                sym, pr = ("∨", 30) if is_or else ("∧", 35)
                return V((" %s " % sym).join(paren(k, 50) for k in kept), B, pr, prop=True)
            sym, pr = ("||", 30) if is_or else ("&&", 35)
            return V((" %s " % sym).join(paren(self.as_bool(k), 50) for k in kept), B, pr)
        raise Shape("and/or whose value is decided after undecided operands")

    def notop(self, v):
        if v.ty is None or v.ty.k != "B":
            raise Shape("`not` of a non-condition")
        if v.const is not None:
            return V(None, B, const=not v.const)
        if v.prop:
            return V("¬ %s" % paren(v, 51), B, 40, prop=True)
        return V("!%s" % paren(v, 100), B, 90)

    def state(self):
        v = self.env.get("self")
        if v is None:
            raise Shape("`self` outside a method")
        self.reads.add("self")
        return v

    def attr_read(self, attr, idx=None):
        st = self.cfg.get("state") or {}
        attr = self.cls_props().get(attr, attr)
        spec = st.get("attrs", {}).get(attr)
        if spec is None:
            raise Shape("attribute self.%s is not a field of the state" % attr)
        s = self.state()
        if spec[0] == "pair":
            cs = tuple(V("%s.%s" % (s.t, f), spec[2]) for f in spec[1])
            if idx is None:
                return pair_v(*cs)
            if idx not in (0, 1):
                raise Shape("index %r of self.%s" % (idx, attr))
            return cs[idx]
        if idx is not None:
            raise Shape("subscript of the scalar attribute self.%s" % attr)
        return V("%s.%s" % (s.t, spec[1]), spec[2])

    def cls_props(self):
        """property name -> attribute its getter returns (`return self._a`), read from the class"""
        if self.cls is None:
            return {}
        out = {}
        for n in self.cls.body:
            if isinstance(n, ast.FunctionDef) and any(isinstance(d, ast.Name) and d.id == "property" for d in n.decorator_list):
                body = strip_doc(n.body)
                ok = (len(body) == 1 and isinstance(body[0], ast.Return) and isinstance(body[0].value, ast.Attribute)
                      and isinstance(body[0].value.value, ast.Name) and body[0].value.value.id == "self")
                if ok:
                    out[n.name] = body[0].value.attr
        return out

    def const_index(self, node):
        if isinstance(node, ast.UnaryOp) and isinstance(node.op, ast.USub) and isinstance(node.operand, ast.Constant) \
                and isinstance(node.operand.value, int):
            return -node.operand.value
        if isinstance(node, ast.Constant) and isinstance(node.value, int) and not isinstance(node.value, bool):
            return node.value
        return None

    def subscript(self, node):
        s, k = node.slice, self.const_index(node.slice)
        base_node = node.value
        # self._a[k]
        if isinstance(base_node, ast.Attribute) and isinstance(base_node.value, ast.Name) and base_node.value.id == "self" \
                and k is not None:
            return self.attr_read(base_node.attr, k)
        # A.shape[0]
        if isinstance(base_node, ast.Attribute) and base_node.attr == "shape" and k == 0:
            v = self.expr(base_node.value)
            if v.ty is None or v.ty.k != "L":
                raise Shape("shape of a non-array")
            return V("%s.length" % paren(v, 100), N)
        # min(l, key=itemgetter(j))[j']
        if isinstance(base_node, ast.Call) and isinstance(base_node.func, ast.Name) and base_node.func.id in ("min", "max") \
                and k in (0, 1):
            return comp(self.minmax_by(base_node), k)
        # D[mask][:, mask] : rows and columns selected by one Boolean mask
        if isinstance(s, ast.Tuple) and len(s.elts) == 2 and isinstance(s.elts[0], ast.Slice) and isinstance(s.elts[1], ast.Name) \
                and isinstance(base_node, ast.Subscript) and isinstance(base_node.slice, ast.Name) \
                and base_node.slice.id == s.elts[1].id and self.cfg.get("mask_sub"):
            m, d = self.expr(s.elts[1]), self.expr(base_node.value)
            if m.ty != Lst(B) or d.ty != self.cfg["mask_sub"][1]:
                raise Shape("mask selection %s" % ast.unparse(node))
            return V("%s (PersimVerif.SrcLib.maskIdx %s) %s" % (self.cfg["mask_sub"][0], paren(m, 100), paren(d, 100)), d.ty, 90)
        # columns of a 2-column array: X[:, j]
        if isinstance(s, ast.Tuple) and len(s.elts) == 2 and isinstance(s.elts[0], ast.Slice) and s.elts[0].lower is None \
                and s.elts[0].upper is None and s.elts[0].step is None:
            j = self.const_index(s.elts[1])
            v = self.expr(base_node)
            if j not in (0, 1) or v.ty != LPA and not (v.ty.k == "L" and v.ty.a.k == "P"):
                raise Shape("column %s" % ast.unparse(node))
            return V(None, None, fn=lambda r, j=j: comp(r, j), base=v)
        v = self.expr(base_node)
        if v.ty is None:
            raise Shape("subscript of %s" % ast.unparse(base_node))
        if v.ty.k == "P" and k in (0, 1):
            return comp(v, k)
        if v.ty.k == "L":
            err = self.cfg.get("index_err")
            if isinstance(s, ast.Slice):
                if self.const_index(s.lower) == 1 and s.upper is None and s.step is None:
                    if v.shape is not None:
                        if v.shape[0] == "cons":
                            return v.shape[2]
                        return V("[]", v.ty, shape=("nil",))
                    return V("%s.tail" % paren(v, 100), v.ty)
                raise Shape("slice %s" % ast.unparse(node))
            if k == 0 and v.shape is not None:
                if v.shape[0] == "cons":
                    return v.shape[1]
                raise Shape("`%s` is evaluated although the list is empty" % ast.unparse(node))
            if err is None:
                raise Shape("list indexing and the target names no IndexError")
            if k == 0:
                return self.opt_value("%s.head?" % paren(v, 100), v.ty.a, err)
            if k == -1:
                return self.opt_value("%s.getLast?" % paren(v, 100), v.ty.a, err)
            if k is None:
                i = self.expr(s)
                if i.ty is not None and i.ty.k == "Z":
                    return self.opt_value("%s %s %s" % (self.cfg["py_index"], paren(v, 100), paren(i, 100)), v.ty.a, err)
                if i.ty is not None and i.ty.k == "N":
                    return self.opt_value("%s[%s]?" % (paren(v, 100), i.t), v.ty.a, err)
        raise Shape("unsupported subscript %s" % ast.unparse(node))

    def minmax_by(self, node):
        h = self.cfg.get("calls", {}).get(node.func.id)
        if h is None or h[0] != "by":
            raise Shape("%s(…, key=…) is not in this target's table" % node.func.id)
        ok = (len(node.args) == 1 and len(node.keywords) == 1 and node.keywords[0].arg == "key"
              and isinstance(node.keywords[0].value, ast.Call) and dotted(node.keywords[0].value.func) == "itemgetter"
              and len(node.keywords[0].value.args) == 1)
        j = self.const_index(node.keywords[0].value.args[0]) if ok else None
        if j not in (0, 1):
            raise Shape("expected %s(l, key=itemgetter(0|1))" % node.func.id)
        l = self.expr(node.args[0])
        if l.ty is None or l.ty.k != "L" or l.ty.a.k != "P":
            raise Shape("%s over something that is not a list of pairs" % node.func.id)
        return self.opt_value("%s (fun pt => pt.%d) %s" % (h[1], j + 1, paren(l, 100)), l.ty.a, h[2])

    def lam(self, py, ty, body_node, want_bool=False):
        """`fun py => body` with `py : ty` bound"""
        saved, used = self.env.get(py), set(self.used)
        name = self.fresh(py)
        self.env[py] = V(name, ty)
        mark = len(self.pre)
        try:
            b = self.expr(body_node)
        finally:
            if saved is None:
                del self.env[py]
            else:
                self.env[py] = saved
        if len(self.pre) != mark:
            raise Shape("a raising expression inside a comprehension")
        self.used = used
        if want_bool:
            b = self.as_bool(b)
        return "fun %s => %s" % (name, b.t), b

    def comprehension(self, node):
        if len(node.generators) != 1:
            raise Shape("nested comprehension")
        g = node.generators[0]
        if g.is_async or not isinstance(g.target, ast.Name) or len(g.ifs) > 1:
            raise Shape("comprehension outside `[e for x in L if c]`")
        src = self.expr(g.iter)
        if src.ty is None or src.ty.k != "L":
            raise Shape("comprehension over something that is not a list")
        out = src
        if g.ifs:
            f, _ = self.lam(g.target.id, src.ty.a, g.ifs[0], want_bool=True)
            out = V("%s.filter (%s)" % (paren(src, 100), f), src.ty, 90)
        if not (isinstance(node.elt, ast.Name) and node.elt.id == g.target.id):
            f, b = self.lam(g.target.id, src.ty.a, node.elt)
            out = V("%s.map (%s)" % (paren(out, 100), f), Lst(b.ty), 90)
        return out

    def call(self, node):
        f = node.func
        # params = super().get_params(deep=deep): sklearn's BaseEstimator reads getattr(self, key) for every constructor parameter
        if ast.unparse(f) == "super().get_params":
            d = self.cfg.get("dicts", {}).get(self.cfg.get("super_get_params"))
            if d is None or node.args or [(kw.arg, ast.unparse(kw.value)) for kw in node.keywords] != [("deep", "deep")]:
                raise Shape("super().get_params(...) outside the table")
            vs = [self.cast(self.attr_read(key), ty) for key, ty in zip(d["keys"], d["types"])]
            return V(tuple_text(vs), tuple_ty(d["types"]))
        # self._m(...)
        if isinstance(f, ast.Attribute) and isinstance(f.value, ast.Name) and f.value.id == "self":
            return self.method_call(f.attr, node)
        # x.m(...) on a value
        if isinstance(f, ast.Attribute) and ("." + f.attr) in self.cfg.get("calls", {}) and not (
                isinstance(f.value, ast.Name) and f.value.id in ("np", "numpy")):
            h = self.cfg["calls"]["." + f.attr]
            kws = {kw.arg: self.const_index(kw.value) for kw in node.keywords}
            if node.args or kws != h[2]:
                raise Shape("arguments of .%s(...)" % f.attr)
            v = self.expr(f.value)
            if v.ty != h[3]:
                raise Shape(".%s on a value of type %s" % (f.attr, v.ty.lean() if v.ty else "?"))
            if h[0] == "optmethod":
                return self.opt_value("%s %s" % (h[1], paren(v, 100)), h[4], h[5])
            raise Shape("internal: handler %s" % h[0])
        name = dotted(f)
        h = self.cfg.get("calls", {}).get(name)
        if h is None:
            raise Shape("call of %s is not in this target's table" % name)
        kind = h[0]
        if kind == "id":
            if len(node.args) != 1 or node.keywords:
                raise Shape("%s expects one argument" % name)
            return self.expr(node.args[0])
        if kind == "int_ceil":                      # int(np.ceil(e))
            inner = node.args[0] if len(node.args) == 1 and not node.keywords else None
            if not (isinstance(inner, ast.Call) and dotted(inner.func) == h[1] and len(inner.args) == 1 and not inner.keywords):
                raise Shape("expected int(%s(e))" % h[1])
            x = self.cast(self.expr(inner.args[0]), A)
            self.reads.add(h[2])
            return V("%s %s" % (h[2], paren(x, 100)), Z, 90)
        if kind == "len":
            if len(node.args) != 1 or node.keywords:
                raise Shape("len expects one argument")
            v = self.expr(node.args[0])
            if v.ty is None or v.ty.k != "L":
                raise Shape("len of a non-list")
            out = V("%s.length" % paren(v, 100), N)
            out.lenof = v
            return out
        if kind == "fn":                            # pure function: (lean, [argument types], result type)
            if node.keywords and not h[4:]:
                raise Shape("keyword arguments in a call of %s" % name)
            if h[4:]:
                kws = {kw.arg: ast.unparse(kw.value) for kw in node.keywords}
                if kws != h[4]:
                    raise Shape("keyword arguments of %s are %s, expected %s" % (name, kws, h[4]))
            if len(node.args) != len(h[2]):
                raise Shape("%s expects %d argument(s)" % (name, len(h[2])))
            args = [self.cast(self.expr(a), t) for a, t in zip(node.args, h[2])]
            if h[1] == "":
                return args[0]
            return V("%s %s" % (h[1], " ".join(paren(a, 100) for a in args)), h[3], 90)
        if kind == "isfinite":                      # np.isfinite(pt) on a pair: componentwise
            v = self.expr(node.args[0]) if len(node.args) == 1 and not node.keywords else None
            if v is None or v.ty != PA:
                raise Shape("np.isfinite of something that is not a point")
            self.reads.add(h[1])
            return pair_v(V("%s %s" % (h[1], paren(comp(v, 0), 100)), B, 90), V("%s %s" % (h[1], paren(comp(v, 1), 100)), B, 90))
        if kind == "all":                           # np.all of a pair of truth values
            v = self.expr(node.args[0]) if len(node.args) == 1 and not node.keywords else None
            if v is None or v.ty is None or v.ty.k != "P" or v.ty.a.k != "B":
                raise Shape("np.all of something that is not a pair of truth values")
            return V("%s && %s" % (paren(comp(v, 0), 36), paren(comp(v, 1), 36)), B, 35)
        if kind == "abs_int":
            v = self.expr(node.args[0]) if len(node.args) == 1 and not node.keywords else None
            if v is None or v.ty != Z:
                raise Shape("np.abs of something that is not an int")
            return V("%s.natAbs" % paren(v, 100), N)
        if kind == "pad_rows":                      # np.pad(A, pad_width=((0, k), (0, 0)))
            ok = (len(node.args) == 1 and len(node.keywords) == 1 and node.keywords[0].arg == "pad_width")
            pw = node.keywords[0].value if ok else None
            ok = ok and isinstance(pw, ast.Tuple) and len(pw.elts) == 2 and all(isinstance(e, ast.Tuple) and len(e.elts) == 2 for e in pw.elts) \
                and self.const_index(pw.elts[0].elts[0]) == 0 and [self.const_index(e) for e in pw.elts[1].elts] == [0, 0]
            if not ok:
                raise Shape("np.pad outside `np.pad(A, pad_width=((0, k), (0, 0)))`")
            a = self.expr(node.args[0])
            k = self.expr(pw.elts[0].elts[1])
            if a.ty != Lst(Lst(A)) or k.ty is None or k.ty.k not in "ZN":
                raise Shape("np.pad of %s" % ast.unparse(node))
            kt = k.t if k.ty.k == "N" else "%s.toNat" % paren(k, 100)
            return V("%s ++ %s %s (%s %s)" % (paren(a, 66), h[1], atom(kt), h[2], paren(a, 100)), a.ty, 65)
        if kind == "sorted_desc":
            kws = {kw.arg: ast.unparse(kw.value) for kw in node.keywords}
            if len(node.args) != 1 or kws != {"reverse": "True"}:
                raise Shape("sorted outside `sorted(x, reverse=True)`")
            v = self.expr(node.args[0])
            if v.fn is not None:
                v = self.materialise(v)
            if v.ty != h[2]:
                raise Shape("sorted of %s" % (v.ty.lean() if v.ty else "?"))
            return V("%s.mergeSort %s" % (paren(v, 100), h[1]), v.ty, 90)
        if kind == "iinfo_max":
            raise Shape("np.iinfo(...) outside `np.iinfo(t).max`")
        raise Shape("internal: handler %s" % kind)

    def materialise(self, v):
        """the list a column expression denotes"""
        saved = set(self.used)
        r = self.fresh_tmp("r")
        b = v.fn(V(r, v.base.ty.a))
        self.used = saved
        return V("%s.map (fun %s => %s)" % (paren(v.base, 100), r, b.t), Lst(b.ty), 90)

    def method_call(self, name, node, stmt=False):
        m = self.cfg.get("methods", {}).get(name)
        if m is None:
            raise Shape("method self.%s is not in this target's table" % name)
        if m.get("kind") == "fn":                   # a method modelled by a model helper (reads no state)
            if node.keywords or len(node.args) != len(m["params"]):
                raise Shape("arguments of self.%s" % name)
            args = [self.cast(self.expr(a), t) for a, t in zip(node.args, m["params"])]
            return V("%s %s" % (m["lean"], " ".join(paren(a, 100) for a in args)), m["ret"], 90)
        if node.keywords or len(node.args) != len(m["params"]):
            raise Shape("arguments of self.%s" % name)
        args = [self.cast(self.expr(a), t) for a, t in zip(node.args, m["params"])]
        for x in m.get("extra", ()):
            self.reads.add(x)
        text = " ".join([m["lean"]] + list(m.get("extra", ())) + [self.state().t] + [paren(a, 100) for a in args])
        if m["ret"] == "state":
            if not stmt:
                raise Shape("a state-changing method used as a value")
            return text
        if stmt:
            raise Shape("the value of self.%s is discarded" % name)
        if m.get("raises"):
            return self.bind_value(text, m["ret"])
        return V(text, m["ret"], 90)

    def expr(self, node):
        if isinstance(node, ast.Constant):
            return self.lit(node)
        if isinstance(node, ast.Name):
            if node.id not in self.env:
                raise Shape("name %s is not bound in the translated region" % node.id)
            self.reads.add(node.id)
            return self.env[node.id]
        if isinstance(node, ast.Attribute):
            if isinstance(node.value, ast.Name) and node.value.id == "self":
                return self.attr_read(node.attr)
            # np.iinfo(t).max
            if node.attr == "max" and isinstance(node.value, ast.Call) and dotted(node.value.func) == "np.iinfo":
                h = self.cfg.get("calls", {}).get("np.iinfo")
                if h is None or len(node.value.args) != 1 or node.value.keywords:
                    raise Shape("np.iinfo")
                t = self.expr(node.value.args[0])
                if t.ty != h[2]:
                    raise Shape("np.iinfo of something that is not an integer dtype")
                return V("%s %s" % (h[1], paren(t, 100)), N, 90)
            name = dotted(node)
            a = self.cfg.get("consts", {}).get(name)
            if a is None:
                raise Shape("attribute %s" % name)
            return V(a[0], a[1])
        if isinstance(node, ast.BinOp):
            return self.arith(node.op, self.expr(node.left), self.expr(node.right))
        if isinstance(node, ast.UnaryOp):
            if isinstance(node.op, ast.Not):
                return self.notop(self.expr(node.operand))
            if isinstance(node.op, ast.USub):
                v = self.expr(node.operand)
                if v.ty is not None and v.ty.k == "O" and v.ty.inf == "top" and v.t == "none":
                    return V("none", Opt(v.ty.a, "bot"))
                if v.ty is not None and v.ty.k in "AZ":
                    return V("-%s" % paren(v, 100), v.ty, 66)
                raise Shape("negation of %s" % ast.unparse(node.operand))
            raise Shape("unary %s" % type(node.op).__name__)
        if isinstance(node, ast.Compare):
            return self.compare(node)
        if isinstance(node, ast.BoolOp):
            return self.boolop(node)
        if isinstance(node, ast.Subscript):
            return self.subscript(node)
        if isinstance(node, ast.Call):
            return self.call(node)
        if isinstance(node, ast.List) and len(node.elts) == 1 and isinstance(node.elts[0], (ast.List, ast.Tuple)):
            e = self.expr(node.elts[0])                     # [[x, y]] : a one-element list of points
            return V("[%s]" % e.t, Lst(e.ty))
        if isinstance(node, (ast.Tuple, ast.List)) and len(node.elts) == 2:
            a, b = self.expr(node.elts[0]), self.expr(node.elts[1])
            if a.lit is not None and b.lit is not None:
                raise Shape("pair of literals")
            if a.lit is not None:
                a = self.cast(a, b.ty if b.ty.k in "AZN" else A)
            if b.lit is not None:
                b = self.cast(b, a.ty if a.ty.k in "AZN" else A)
            if a.ty is None or b.ty is None:
                raise Shape("pair with an untyped component")
            return pair_v(a, b)
        if isinstance(node, ast.List) and all(isinstance(e, ast.Attribute) for e in node.elts) and node.elts:
            vs = [self.expr(e) for e in node.elts]
            if len({v.ty for v in vs}) != 1:
                raise Shape("list of values of different types")
            return V("[%s]" % ", ".join(v.t for v in vs), Lst(vs[0].ty))
        if isinstance(node, (ast.ListComp, ast.GeneratorExp)):
            return self.comprehension(node)
        raise Shape("expression %s" % type(node).__name__)

    # --- statements
    def assigned_names(self, stmts):
        """python names (and 'self') that the statements (re)assign, in source order"""
        out = []

        def add(n):
            if n not in out:
                out.append(n)

        def tgt(t):
            if isinstance(t, ast.Name):
                add(t.id)
            elif isinstance(t, (ast.Tuple, ast.List)):
                for e in t.elts:
                    tgt(e)
            elif isinstance(t, ast.Attribute) and isinstance(t.value, ast.Name) and t.value.id == "self":
                add("self")
            elif isinstance(t, ast.Subscript):
                b = t.value
                while isinstance(b, ast.Subscript):
                    b = b.value
                if isinstance(b, ast.Name):
                    add(b.id)

        for st in stmts:
            for n in ast.walk(st):
                if isinstance(n, ast.Assign):
                    for t in n.targets:
                        tgt(t)
                elif isinstance(n, ast.AugAssign):
                    tgt(n.target)
                elif isinstance(n, ast.For):
                    tgt(n.target)
                elif isinstance(n, ast.Expr) and isinstance(n.value, ast.Call) and isinstance(n.value.func, ast.Attribute):
                    f = n.value.func
                    if isinstance(f.value, ast.Name) and f.value.id == "self":
                        m = self.cfg.get("methods", {}).get(f.attr)
                        if m is not None and m.get("ret") == "state":
                            add("self")
                    elif f.attr == "append":
                        tgt(f.value)
        return out

    def terminates(self, stmts):
        if not stmts:
            return False
        s = stmts[-1]
        if isinstance(s, (ast.Return, ast.Raise, ast.Continue)):
            return True
        if isinstance(s, ast.If):
            return self.terminates(s.body) and self.terminates(s.orelse)
        return False

    def let(self, py, v, k):
        """`py = v` (SSA) followed by k() -> node"""
        if v.fn is not None:
            v = self.materialise(v)
        if v.ty is None:
            raise Shape("assignment of an untyped value to %s" % py)
        old = self.env.get(py)
        if old is not None and old.ty is not None and old.ty != v.ty and old.ty.k in "OAZN":
            v = self.cast(v, old.ty)              # a re-assignment keeps the variable's number type / optionality
        name = self.fresh(py)
        ty = v.ty
        text = v.t
        if ty.k == "B":
            text = self.as_bool(v).t
        nv = V(name, ty)
        if v.shape is not None:
            nv.shape = v.shape
        self.env[py] = nv
        return Let(name, ty.lean(), text, k())

    def value_is_fresh(self, node):
        """does the Python expression create a NEW object (so that the name it is assigned to owns it)?  Displays,
        comprehensions, arithmetic and calls do; a name, a subscript, an attribute read, a conversion read as the identity
        (other than a copy) hand on an existing one"""
        if isinstance(node, (ast.List, ast.Tuple, ast.ListComp, ast.GeneratorExp, ast.BinOp, ast.Compare, ast.Constant)):
            return True
        if isinstance(node, ast.Call):
            try:
                name = dotted(node.func)
            except Shape:
                return True
            h = self.cfg.get("calls", {}).get(name)
            if h is not None and h[0] == "id":
                return name in FRESH_ID
            if h is not None and h[0] == "fn" and h[1] == "":
                return False
            return True
        return False

    def note_binding(self, py, value_node, ty):
        """ownership of the name `py` after `py = <value_node>` (ALIASING: the translation reads arrays, lists and records as
        VALUES; `y = x` on such a value would make in-place operations through one name visible through the other)"""
        if not mutable_ty(ty):
            self.borrowed.discard(py)
            return
        if isinstance(value_node, ast.Name):
            raise Shape("`%s = %s` makes a second name for a mutable value (aliasing is not modelled)" % (py, value_node.id))
        if value_node is not None and self.value_is_fresh(value_node):
            self.borrowed.discard(py)
        else:
            self.borrowed.add(py)

    def need_owned(self, py, what):
        if py in self.borrowed:
            raise Shape("%s on `%s`, whose value is shared with the caller or another object (no copy was taken): in-place "
                        "operations are read only on names that own their value" % (what, py))

    def set_state(self, fields, k):
        """record update of the current state variable"""
        s = self.state()
        name = self.fresh("self")
        text = "{ %s with %s }" % (s.t, ", ".join("%s := %s" % (f, v.t) for f, v in fields))
        self.env["self"] = V(name, s.ty)
        return Let(name, s.ty.lean(), text, k())

    def attr_write(self, attr, value_node, k):
        st = self.cfg.get("state") or {}
        setters = self.cfg.get("setters", {})
        if attr in setters and attr in self.cls_setters():
            m = setters[attr]

            def then(v):
                for x in m.get("extra", ()):
                    self.reads.add(x)
                text = " ".join([m["lean"]] + list(m.get("extra", ())) + [self.state().t, paren(v, 100)])
                if not m.get("raises"):
                    name = self.fresh("self")
                    self.env["self"] = V(name, self.state().ty)
                    return Let(name, self.state().ty.lean(), text, k())
                name = self.fresh("self")
                self.env["self"] = V(name, self.state().ty)
                return Bind(text, name, k())
            return self.under(lambda: self.cast(self.expr(value_node), m["arg"]), then)
        derived = st.get("derived", {})
        if attr in derived:
            return self.derived_write(attr, derived[attr], value_node, k)
        spec = st.get("attrs", {}).get(attr)
        if spec is None:
            raise Shape("assignment to self.%s, which is not a field of the state" % attr)
        if spec[0] == "pair":
            def then(v):
                return self.set_state([(spec[1][0], comp(v, 0)), (spec[1][1], comp(v, 1))], k)
            return self.under(lambda: self.cast(self.expr(value_node), Pair(spec[2], spec[2])), then)

        def then1(v):
            return self.set_state([(spec[1], v)], k)

        def val():
            v = self.expr(value_node)
            if v.ty is None and v.t == "none":
                if spec[2].k != "O":
                    raise Shape("None assigned to self.%s" % attr)
                return V("none", spec[2])
            v = self.cast(v, spec[2])
            return self.as_bool(v) if spec[2].k == "B" else v
        return self.under(val, then1)

    def cls_setters(self):
        out = set()
        if self.cls is not None:
            for n in self.cls.body:
                if isinstance(n, ast.FunctionDef):
                    for d in n.decorator_list:
                        if isinstance(d, ast.Attribute) and d.attr == "setter":
                            out.add(n.name)
        return out

    def derived_write(self, attr, spec, value_node, k):
        """`self._bpnts = np.linspace(start, stop, num, endpoint=False, dtype=np.float64)`: an attribute that is a function
        of the state; its expression becomes a definition of its own, the statement itself only the guard on `num`"""
        ok = (isinstance(value_node, ast.Call) and dotted(value_node.func) == "np.linspace" and len(value_node.args) == 3
              and {kw.arg: ast.unparse(kw.value) for kw in value_node.keywords} == {"endpoint": "False", "dtype": "np.float64"})
        if not ok:
            raise Shape("self.%s is not `np.linspace(a, b, n, endpoint=False, dtype=np.float64)`" % attr)

        def then(vs):
            a, b, n = vs
            s = self.state()
            self.derived.append((attr, s.t, "%s %s %s %s" % (spec["lean"], paren(a, 100), paren(b, 100), paren(n, 100))))
            return Guard("%s < 0" % paren(n, 51), spec["err"], k())
        return self.under(lambda: [self.cast(self.expr(value_node.args[0]), A), self.cast(self.expr(value_node.args[1]), A),
                                   self.cast(self.expr(value_node.args[2]), Z)], then)

    def block(self, stmts, end):
        if not stmts:
            return end()
        s, rest = stmts[0], list(stmts[1:])
        k = lambda: self.block(rest, end)      # noqa: E731
        if isinstance(s, ast.Expr) and isinstance(s.value, ast.Constant) and isinstance(s.value.value, str):
            return k()
        if isinstance(s, ast.Return):
            if rest:
                raise Shape("statements after return")
            return self.ret(s)
        if isinstance(s, ast.Raise):
            return Fail(self.raise_err(s))
        if isinstance(s, ast.Continue):
            if rest:
                raise Shape("statements after continue")
            return end()
        if isinstance(s, ast.Assign):
            if len(s.targets) != 1:
                raise Shape("chained assignment")
            return self.assign(s.targets[0], s.value, k)
        if isinstance(s, ast.AugAssign):
            if not isinstance(s.target, ast.Name) or s.target.id not in self.env:
                raise Shape("augmented assignment %s" % ast.unparse(s))
            fake = ast.BinOp(left=ast.Name(id=s.target.id, ctx=ast.Load()), op=s.op, right=s.value)
            return self.under(lambda: self.expr(fake), lambda v: self.let(s.target.id, v, k))
        if isinstance(s, ast.Expr) and isinstance(s.value, ast.Call):
            return self.call_stmt(s.value, k)
        if isinstance(s, ast.If):
            return self.if_stmt(s, rest, end)
        if isinstance(s, ast.For):
            return self.for_stmt(s, k, self.live_after(rest))
        if isinstance(s, ast.While):
            return self.while_stmt(s, k, self.live_after(rest))
        if isinstance(s, ast.Try):
            return self.try_stmt(s, k)
        raise Shape("statement %s at line %d" % (type(s).__name__, s.lineno))

    def ret(self, s):
        r = self.cfg.get("ret")
        if r == "state":
            # what the CALLER gets (`None` or `self`) is not part of the state: it is fixed per target (`returns_self`)
            if s.value is None and not self.cfg.get("returns_self"):
                return Ret(self.state().t)
            if isinstance(s.value, ast.Name) and s.value.id == "self" and self.cfg.get("returns_self"):
                return Ret(self.state().t)
            raise Shape("`%s` in a method that returns %s" % (ast.unparse(s), "self" if self.cfg.get("returns_self") else "None"))
        if s.value is None:
            raise Shape("bare return")
        if isinstance(r, Ty):
            def comp_val():
                if isinstance(s.value, ast.Tuple) and r.k == "P" and len(s.value.elts) == 2:
                    a, b = self.expr(s.value.elts[0]), self.expr(s.value.elts[1])
                    return pair_v(self.cast(a, r.a), self.cast(b, r.b))
                v = self.expr(s.value)
                if v.fn is not None:
                    v = self.materialise(v)
                return self.cast(v, r)
            return self.under(comp_val, lambda v: Ret(v.t))
        raise Shape("internal: result kind")

    def raise_err(self, s):
        e = s.exc
        table = self.cfg.get("raises_table", {})
        if isinstance(e, ast.Call) and dotted(e.func) in table:
            return table[dotted(e.func)]
        raise Shape("raise outside the table: %s" % ast.unparse(s)[:60])

    def assign(self, tgt, value, k):
        if isinstance(tgt, ast.Name):
            def val():
                if isinstance(value, ast.List) and not value.elts:
                    ty = self.cfg.get("local_types", {}).get(tgt.id)
                    if ty is None or ty.k != "L":
                        raise Shape("type of the empty list assigned to %s" % tgt.id)
                    return V("[]", ty)
                v = self.expr(value)
                if v.ty is None and v.t == "none":
                    raise Shape("None assigned to a local")
                if v.lit is not None:
                    ty = self.cfg.get("local_types", {}).get(tgt.id)
                    if ty is None:
                        old = self.env.get(tgt.id)
                        ty = old.ty if old is not None else None
                    if ty is None:
                        raise Shape("type of the literal assigned to %s" % tgt.id)
                    v = self.cast(v, ty)
                ty = self.cfg.get("local_types", {}).get(tgt.id)
                if ty is not None and v.fn is None and v.ty != ty:
                    v = self.cast(v, ty)
                return v

            def bind(v):
                self.note_binding(tgt.id, value, v.ty if v.fn is None else Lst(A))
                return self.let(tgt.id, v, k)
            return self.under(val, bind)
        if isinstance(tgt, ast.Attribute) and isinstance(tgt.value, ast.Name) and tgt.value.id == "self":
            return self.attr_write(tgt.attr, value, k)
        if isinstance(tgt, (ast.Tuple, ast.List)) and all(isinstance(e, ast.Name) for e in tgt.elts):
            names = [e.id for e in tgt.elts]
            if isinstance(value, ast.Tuple) and len(value.elts) == len(names):
                # parallel assignment: all right-hand sides first
                def then(vs):
                    def go(i):
                        if i == len(names):
                            return k()
                        if names[i] == "_":
                            return go(i + 1)
                        v = vs[i]
                        if v.lit is not None:
                            old = self.env.get(names[i])
                            ty = self.cfg.get("local_types", {}).get(names[i]) or (old.ty if old is not None else None)
                            if ty is None:
                                raise Shape("type of the literal assigned to %s" % names[i])
                            v = self.cast(v, ty)
                        self.note_binding(names[i], value.elts[i], v.ty if v.fn is None else Lst(A))
                        return self.let(names[i], v, lambda: go(i + 1))
                    return go(0)
                if len(set(n for n in names if n != "_")) != len([n for n in names if n != "_"]):
                    raise Shape("a name twice in one tuple target")
                return self.under(lambda: [self.expr(e) for e in value.elts], then)
            if len(names) != 2:
                raise Shape("unpacking into %d names" % len(names))

            def then2(v):
                if v.ty is None or v.ty.k != "P":
                    raise Shape("unpacking of a non-pair")
                cs = [comp(v, 0), comp(v, 1)]

                def go(i):
                    if i == 2:
                        return k()
                    if names[i] == "_":
                        return go(i + 1)
                    self.note_binding(names[i], None if not self.value_is_fresh(value) else value, cs[i].ty)
                    return self.let(names[i], cs[i], lambda: go(i + 1))
                if names[0] == names[1] and names[0] != "_":
                    raise Shape("a name twice in one tuple target")
                return go(0)
            return self.under(lambda: self.expr(value), then2)
        if isinstance(tgt, ast.Subscript):
            return self.subscript_write(tgt, value, k)
        raise Shape("assignment target %s" % ast.unparse(tgt))

    def subscript_write(self, tgt, value, k):
        s = tgt.slice
        # X[:, 1] = column expression over X
        if isinstance(tgt.value, ast.Name) and isinstance(s, ast.Tuple) and len(s.elts) == 2 and isinstance(s.elts[0], ast.Slice) \
                and s.elts[0].lower is None and s.elts[0].upper is None and s.elts[0].step is None:
            j = self.const_index(s.elts[1])
            py = tgt.value.id
            base = self.env.get(py)
            if j not in (0, 1) or base is None or base.ty != LPA:
                raise Shape("column assignment %s" % ast.unparse(tgt))
            self.need_owned(py, "the column assignment `%s = …`" % ast.unparse(tgt))

            def then(v):
                if v.fn is None or v.base.t != base.t:
                    raise Shape("column assignment from something that is not a column expression of the same array")
                saved = set(self.used)
                r = self.fresh_tmp("r")
                rv = V(r, PA)
                new = self.cast(v.fn(rv), A)
                self.used = saved
                cs = [comp(rv, 0), comp(rv, 1)]
                cs[j] = new
                return self.let(py, V("%s.map (fun %s => (%s, %s))" % (paren(base, 100), r, cs[0].t, cs[1].t), LPA, 90), k)
            return self.under(lambda: self.expr(value), then)
        # params["start"] = None : a dict modelled as a record of the listed keys
        if isinstance(tgt.value, ast.Name) and isinstance(s, ast.Constant) and isinstance(s.value, str):
            py = tgt.value.id
            d = self.cfg.get("dicts", {}).get(py)
            base = self.env.get(py)
            if d is None or base is None or s.value not in d["keys"]:
                raise Shape("item assignment %s" % ast.unparse(tgt))
            self.need_owned(py, "the item assignment `%s = …`" % ast.unparse(tgt))
            i = d["keys"].index(s.value)

            def then(v):
                if v.ty is None and v.t == "none":
                    v = V("none", d["types"][i])
                v = self.cast(v, d["types"][i])
                cs = [V(tuple_proj(base.t, j, len(d["keys"])), d["types"][j]) for j in range(len(d["keys"]))]
                cs[i] = v
                return self.let(py, V(tuple_text(cs), base.ty), k)
            return self.under(lambda: self.expr(value), then)
        raise Shape("assignment target %s" % ast.unparse(tgt))

    def call_stmt(self, c, k):
        f = c.func
        if isinstance(f, ast.Attribute) and isinstance(f.value, ast.Name) and f.value.id == "self":
            def then(text):
                m = self.cfg["methods"][f.attr]
                name = self.fresh("self")
                ty = self.state().ty
                self.env["self"] = V(name, ty)
                if m.get("raises"):
                    return Bind(text, name, k())
                return Let(name, ty.lean(), text, k())
            return self.under(lambda: self.method_call(f.attr, c, stmt=True), then)
        if isinstance(f, ast.Attribute) and f.attr == "append" and len(c.args) == 1 and not c.keywords:
            # acc.append(e)  /  W[i].append(e)
            if isinstance(f.value, ast.Name):
                py = f.value.id
                acc = self.env.get(py)
                if acc is None or acc.ty is None or acc.ty.k != "L":
                    raise Shape("append to %s, which is not a list" % py)
                self.need_owned(py, "`.append`")

                def then(v):
                    v = self.cast(v, acc.ty.a)
                    cur = self.env[py]
                    return self.let(py, V("%s ++ [%s]" % (paren(cur, 66), v.t), acc.ty, 65), k)
                return self.under(lambda: self.expr(c.args[0]), then)
            if isinstance(f.value, ast.Subscript) and isinstance(f.value.value, ast.Name):
                py = f.value.value.id
                acc = self.env.get(py)
                if acc is None or acc.ty is None or acc.ty.k != "L" or acc.ty.a.k != "L":
                    raise Shape("append to an entry of %s, which is not a list of lists" % py)
                self.need_owned(py, "`[i].append`")

                def then(iv):
                    i, v = iv
                    v = self.cast(v, acc.ty.a.a)
                    if i.ty is None or i.ty.k not in "NZ":
                        raise Shape("index of %s" % py)
                    it = i.t if i.ty.k == "N" else "%s.toNat" % paren(i, 100)
                    cur = self.env[py]
                    return self.let(py, V("%s.modify %s (· ++ [%s])" % (paren(cur, 100), atom(it), v.t), acc.ty, 90), k)
                return self.under(lambda: (self.expr(f.value.slice), self.expr(c.args[0])), then)
        raise Shape("call statement %s" % ast.unparse(c)[:60])

    def try_stmt(self, s, k):
        """try: x = next(g)  except StopIteration: raise E(...)"""
        ok = (len(s.body) == 1 and isinstance(s.body[0], ast.Assign) and len(s.body[0].targets) == 1
              and isinstance(s.body[0].targets[0], ast.Name) and isinstance(s.body[0].value, ast.Call)
              and dotted(s.body[0].value.func) == "next" and len(s.body[0].value.args) == 1 and not s.body[0].value.keywords
              and len(s.handlers) == 1 and isinstance(s.handlers[0].type, ast.Name) and s.handlers[0].type.id == "StopIteration"
              and len(s.handlers[0].body) == 1 and isinstance(s.handlers[0].body[0], ast.Raise) and not s.orelse and not s.finalbody)
        if not ok:
            raise Shape("try statement outside `try: x = next(g) / except StopIteration: raise E(...)`")
        err = self.raise_err(s.handlers[0].body[0])
        py = s.body[0].targets[0].id

        def val():
            g = self.expr(s.body[0].value.args[0])
            if g.ty is None or g.ty.k != "L":
                raise Shape("next(...) of something that is not a generator over a list")
            return self.opt_value("%s.head?" % paren(g, 100), g.ty.a, err, hint=py, py=True)
        return self.under(val, lambda v: self.bind_alias(py, v, k))

    def bind_alias(self, py, v, k):
        self.env[py] = v
        if mutable_ty(v.ty):
            self.borrowed.add(py)
        else:
            self.borrowed.discard(py)
        return k()

    # --- if
    def branch(self, stmts, end):
        env, used = dict(self.env), set(self.used)
        n = self.block(list(stmts), end)
        self.env, self.used = env, used
        return n

    def if_stmt(self, s, rest, end):
        def then(c):
            if c.ty is None or c.ty.k != "B":
                raise Shape("condition %s" % ast.unparse(s.test))
            if c.const is not None:                    # decided by the shapes of the lists: only this branch exists
                chosen = list(s.body if c.const else s.orelse)
                return self.block(chosen if self.terminates(chosen) else chosen + rest, end)
            tb, te = self.terminates(s.body), self.terminates(s.orelse)
            if tb and te:
                if rest:
                    raise Shape("statements after an if whose branches all end")
                return Ite(c.t, self.branch(s.body, end), self.branch(s.orelse, end))
            if tb:
                return Ite(c.t, self.branch(s.body, end), self.branch(list(s.orelse) + rest, end))
            if te:
                return Ite(c.t, self.branch(list(s.body) + rest, end), self.branch(s.orelse, end))
            return self.phi(c, s, lambda: self.block(rest, end), tail_end=None if rest else end)
        return self.under(lambda: self.expr(s.test), then)

    def phi(self, c, s, k, tail_end=None):
        names = [n for n in self.assigned_names(list(s.body) + list(s.orelse)) if n in self.env]
        if not names:
            raise Shape("an if-statement that assigns nothing that was defined before it (line %d)" % s.lineno)
        # compact form: `if c: x = e`
        if len(names) == 1 and names[0] != "self" and not s.orelse and len(s.body) == 1 and isinstance(s.body[0], ast.Assign) \
                and len(s.body[0].targets) == 1 and isinstance(s.body[0].targets[0], (ast.Name, ast.Subscript)):
            py = names[0]
            old = self.env[py]
            mark = len(self.pre)
            env, used = dict(self.env), set(self.used)
            inner = self.assign(s.body[0].targets[0], s.body[0].value, lambda: Ret("@"))
            if len(self.pre) == mark and isinstance(inner, Let) and isinstance(inner.body, Ret) and old.ty is not None \
                    and old.ty.lean() == inner.ty:
                self.env, self.used = env, used
                return self.let(py, V("if %s then %s else %s" % (c.t, inner.text, old.t), old.ty, 0), k)
            self.env, self.used = env, used
            del self.pre[mark:]
        if tail_end is not None:              # the if-statement is the last one: each branch goes on to what follows
            return Ite(c.t, self.branch(s.body, tail_end), self.branch(s.orelse, tail_end))
        env, used = dict(self.env), set(self.used)
        tys = [env[n].ty for n in names]

        def yield_end():
            return Ret(tuple_text([self.env[n] for n in names]))
        saved_live = self.live_end
        self.live_end = set(saved_live) | set(names)
        na = self.block(list(s.body), yield_end)
        self.env, self.used = dict(env), set(used)
        nb = self.block(list(s.orelse), yield_end)
        self.env, self.used = env, used
        self.live_end = saved_live
        node = Ite(c.t, na, nb)
        rty = tuple_ty(tys)
        if len(names) == 1:
            var = self.fresh(names[0])
            self.env[names[0]] = V(var, tys[0])
            if has_raise(node):
                return Bind(node, var, k(), asc="Except %s %s" % (self.cfg["err"], rty.lean(True)))
            return LetNode(var, rty.lean(), node, k())
        r = self.fresh_tmp("r")

        def unpack(i):
            if i == len(names):
                return k()
            var = self.fresh(names[i])
            self.env[names[i]] = V(var, tys[i])
            return Let(var, tys[i].lean(), tuple_proj(r, i, len(names)), unpack(i + 1))
        if has_raise(node):
            return Bind(node, r, unpack(0), asc="Except %s %s" % (self.cfg["err"], rty.lean(True)))
        return LetNode(r, rty.lean(), node, unpack(0))

    # --- loops
    def live_after(self, rest):
        """python names (and 'self') that the statements after a loop, or whatever follows them, may read before
        re-assigning them (a plain `x = …` at the top level of `rest` ends the life of the old `x`)"""
        live, killed = set(), set()
        for st in rest:
            for n in ast.walk(st):
                if isinstance(n, ast.Name) and (isinstance(n.ctx, ast.Load) or n.id == "self") and n.id not in killed:
                    live.add(n.id)
                elif isinstance(n, ast.AugAssign) and isinstance(n.target, ast.Name) and n.target.id not in killed:
                    live.add(n.target.id)
            if isinstance(st, ast.Assign) and len(st.targets) == 1 and isinstance(st.targets[0], ast.Name):
                killed.add(st.targets[0].id)
        return live | {n for n in self.live_end if n not in killed}

    def loop_name(self):
        n = len([a for a in self.aux if a[0] == "loop"])
        return "%s_loop%s" % (self.cfg["lean"], "" if n == 0 else "_%d" % (n + 1))

    def sub_translator(self, carried):
        sub = StTr(self.src, self.cls, self.cfg, self.aux, used=[f for f, _ in self.cfg.get("fparams", [])] + lean_spellings(self.cfg))
        sub.live_end = set(carried)
        sub.avoid = self.avoid
        sub.unread = self.unread
        sub.borrowed = set(self.borrowed)
        names = {}
        for py, v in self.env.items():
            if v.ty is None:
                continue
            nm = sub.fresh(py)
            names[py] = nm
            sub.env[py] = V(nm, v.ty)
        return sub, names

    def emit_loop(self, name, sub_reads, names, carried, outs, iter_ty, alts, raises, extra=""):
        """text of the recursive definition; returns (fparams used, read-only names)"""
        fps = [(f, t) for f, t in self.cfg.get("fparams", []) if f in sub_reads]
        ro = [py for py in self.env if py in names and py in sub_reads and py not in carried]
        rty = tuple_ty([self.env[c].ty for c in outs])
        res = "Except %s %s" % (self.cfg["err"], rty.lean(True)) if raises else rty.lean()
        sig = "".join(" (%s : %s)" % (f, t) for f, t in fps) + "".join(" (%s : %s)" % (names[py], self.env[py].ty.lean()) for py in ro)
        arrow = " → ".join([self.env[c].ty.lean(True) if self.env[c].ty.k != "P" else "(%s)" % self.env[c].ty.lean() for c in carried]
                           + ([iter_ty.lean(True)] if iter_ty is not None else []) + [res])
        rec = " ".join([name] + [f for f, _ in fps] + [names[py] for py in ro])
        lines = ["def %s%s : %s" % (name, sig, arrow)]
        for c in carried:
            if c not in outs and c not in sub_reads:
                raise Shape("the loop re-assigns %s, which neither the loop nor what follows it reads (a dead store, or a store "
                            "that outlives the translated statements)" % c)
        for pat, node in alts:
            check_live(node, self.unread)
            lines.append("  | %s =>" % pat)
            lines += render(node, "    ", raises)
        text = "\n".join(lines).replace("@@REC@@", rec) + extra
        self.aux.append(("loop", name, text))
        call = " ".join([name] + [f for f, _ in fps] + [paren(self.env[py], 100) for py in ro])
        for f, _ in fps:
            self.reads.add(f)
        for py in ro:
            self.reads.add(py)
        return call, raises, rty

    def after_loop(self, call_text, raises, rty, all_carried, carried, k):
        """bind what the loop returns (the carried variables that are still needed) to new SSA names"""
        tys = [self.env[c].ty for c in carried]
        for c in all_carried:
            if c not in carried:
                del self.env[c]                # its value after the loop is not returned: a later read is outside the subset
        if len(carried) == 1:
            var = self.fresh(carried[0])
            self.env[carried[0]] = V(var, tys[0])
            if raises:
                return Bind(call_text, var, k())
            return Let(var, tys[0].lean(), call_text, k())
        r = self.fresh_tmp("r")

        def unpack(i):
            if i == len(carried):
                return k()
            var = self.fresh(carried[i])
            self.env[carried[i]] = V(var, tys[i])
            return Let(var, tys[i].lean(), tuple_proj(r, i, len(carried)), unpack(i + 1))
        if raises:
            return Bind(call_text, r, unpack(0))
        return Let(r, rty.lean(), call_text, unpack(0))

    def for_stmt(self, s, k, live):
        if s.orelse:
            raise Shape("for-else")
        body = list(s.body)
        it = s.iter
        tnames = [n.id for n in ast.walk(s.target) if isinstance(n, ast.Name)]
        for t in tnames:
            if t != "_" and (t in self.env or tnames.count(t) > 1):
                # Python leaves the last element in the loop variable after the loop; the recursion binds it per element only
                raise Shape("the loop variable %s is already bound before the loop (or occurs twice in the target)" % t)
        assigned = self.assigned_names(body)
        carried = [py for py in self.env if py in assigned and py not in tnames and self.env[py].ty is not None]
        outs = [c for c in carried if c in live]
        if not outs:
            raise Shape("a loop that changes nothing that is used after it (line %d)" % s.lineno)
        sub, names = self.sub_translator(carried)
        name = self.loop_name()
        cpat = ", ".join(names[c] for c in carried)

        def rec_end(iter_arg):
            return lambda: Ret(" ".join(["@@REC@@"] + [paren(sub.env[c], 100) for c in carried] + [iter_arg]), raw=True)

        def base():
            return Ret(tuple_text([V(names[c], None) for c in outs]))

        if isinstance(it, ast.Call) and dotted(it.func) == "zip" and len(it.args) == 2 and not it.keywords \
                and isinstance(it.args[0], ast.Name) and ast.unparse(it.args[1]) == "%s[1:]" % it.args[0].id:
            # consecutive pairs of a list of pairs
            lv = self.expr(it.args[0])
            t = s.target
            ok = (isinstance(t, (ast.List, ast.Tuple)) and len(t.elts) == 2 and all(
                isinstance(e, (ast.List, ast.Tuple)) and len(e.elts) == 2 and all(isinstance(x, ast.Name) for x in e.elts) for e in t.elts))
            if not ok or lv.ty is None or lv.ty.k != "L" or lv.ty.a.k != "P":
                raise Shape("loop over consecutive pairs outside `for [[a, b], [c, d]] in zip(l, l[1:])`")
            p0, p1, tl = sub.fresh_tmp("p0"), sub.fresh_tmp("p1"), sub.fresh_tmp("tl_")
            pts = [V(p0, lv.ty.a), V(p1, lv.ty.a)]
            binds = [(e.elts[j].id, comp(pts[i], j)) for i, e in enumerate(t.elts) for j in (0, 1) if e.elts[j].id != "_"]

            def go(i):
                if i == len(binds):
                    return sub.block(body, rec_end(tl))
                return sub.let(binds[i][0], binds[i][1], lambda: go(i + 1))
            node = go(0)
            alts = [("%s, %s :: %s@(%s :: _)" % (cpat, p0, tl, p1), node), ("%s, _" % cpat, base())]
            iter_v, iter_ty = lv, lv.ty
        elif isinstance(it, ast.Call) and dotted(it.func) == "range" and not it.keywords and len(it.args) in (1, 2):
            if not (isinstance(s.target, ast.Name) and s.target.id == "_"):
                raise Shape("a range loop whose index is used")
            mark = len(self.pre)
            if len(it.args) == 1:
                cnt = self.cast(self.expr(it.args[0]), N)
            else:
                lo, hi = self.expr(it.args[0]), self.expr(it.args[1])
                d = self.arith(ast.Sub(), hi, lo)
                cnt = V("%s.toNat" % paren(d, 100), N)
            if len(self.pre) != mark:
                raise Shape("raising loop bounds")
            rest_ = sub.fresh_tmp("rest_")
            node = sub.block(body, rec_end(rest_))
            alts = [("%s, []" % cpat, base()), ("%s, _ :: %s" % (cpat, rest_), node)]
            iter_v, iter_ty = V("List.range %s" % atom(cnt.t), Lst(N), 90), Lst(N)
        else:
            lv = self.expr(it)
            if lv.ty is None or lv.ty.k != "L" or not isinstance(s.target, ast.Name):
                raise Shape("loop outside the subset at line %d" % s.lineno)
            x, rest_ = sub.fresh(s.target.id), sub.fresh_tmp("rest_")
            sub.env[s.target.id] = V(x, lv.ty.a)
            if mutable_ty(lv.ty.a):
                sub.borrowed.add(s.target.id)          # the loop variable is an element of the list, not a copy
            else:
                sub.borrowed.discard(s.target.id)
            node = sub.block(body, rec_end(rest_))
            alts = [("%s, []" % cpat, base()), ("%s, %s :: %s" % (cpat, x, rest_), node)]
            iter_v, iter_ty = lv, lv.ty
        if sub.pre:
            raise Shape("internal: pending hoists in a loop body")
        raises = any(has_raise(n) for _, n in alts)
        call, raises, rty = self.emit_loop(name, sub.reads, names, carried, outs, iter_ty, alts, raises)
        call = " ".join([call] + [paren(self.env[c], 100) for c in carried] + [paren(iter_v, 100)])
        return self.after_loop(call, raises, rty, carried, outs, k)

    def while_stmt(self, s, k, live):
        split = self.cfg.get("while_split")
        if s.orelse or not split:
            raise Shape("while loop outside the subset (line %d)" % s.lineno)
        body = list(s.body)
        assigned = self.assigned_names(body)
        carried = [py for py in self.env if (py in assigned or py in split) and self.env[py].ty is not None]
        for sp in split:
            if sp not in carried or self.env[sp].ty.k != "L":
                raise Shape("%s is not a list consumed by the loop" % sp)
        outs = [c for c in carried if c in live]
        if not outs:
            raise Shape("a loop that changes nothing that is used after it (line %d)" % s.lineno)
        name = self.loop_name()
        alts, reads, names0 = [], set(), None
        import itertools
        for shapes in itertools.product(("nil", "cons"), repeat=len(split)):
            sub, names = self.sub_translator(carried)
            names0 = names0 or names
            pats = []
            for c in carried:
                if c in split:
                    ty = self.env[c].ty
                    if shapes[split.index(c)] == "nil":
                        sub.env[c] = V("[]", ty, shape=("nil",))
                        pats.append("[]")
                    else:
                        h, tl = sub.fresh_tmp(c + "_0"), sub.fresh_tmp(c + "_tl")
                        sub.env[c] = V("(%s :: %s)" % (h, tl), ty, shape=("cons", V(h, ty.a), V(tl, ty)))
                        pats.append("%s :: %s" % (h, tl))
                else:
                    pats.append(names[c])

            def rec_end(sub=sub):
                return Ret(" ".join(["@@REC@@"] + [paren(sub.env[c], 100) for c in carried]), raw=True)

            def base(sub=sub):
                return Ret(tuple_text([sub.env[c] for c in outs]))
            cond = sub.expr(s.test)
            if sub.pre:
                raise Shape("a raising loop condition")
            if cond.const is False:
                node = base()
            elif cond.const is True:
                node = sub.block(body, rec_end)
            else:
                node = Ite(cond.t, sub.branch(body, rec_end), base())
            alts.append((", ".join(pats), node))
            reads |= sub.reads
        raises = any(has_raise(n) for _, n in alts)
        tb = " ".join(names0[c] if c in split else "_" for c in carried)
        extra = "\ntermination_by %s => %s\ndecreasing_by all_goals (simp only [List.length_cons]; omega)" % (
            tb, " + ".join("%s.length" % names0[c] for c in split))
        call, raises, rty = self.emit_loop(name, reads, names0, carried, outs, None, alts, raises, extra=extra)
        call = " ".join([call] + [paren(self.env[c], 100) for c in carried])
        return self.after_loop(call, raises, rty, carried, outs, k)


# ----------------------------------------------------------------------------- block-assembled matrices (entry-wise reading)

class Sym:
    """a NumPy array read entry-wise.  kind: vec (f(p) -> V over the points of one diagram), pvec (f(p) -> (V, V)),
    col/row (a vec broadcast along rows / columns), pcol/prow, mat (f(p, q) -> V), pmat (f(p, q) -> (V, V)),
    inf / zeros (constant matrices), diag (inf off the diagonal, f(p) on it), m22 (a literal 2x2 matrix)"""
    def __init__(self, kind, dims, f=None):
        self.kind, self.dims, self.f = kind, dims, f


class MatTr:
    """entry-wise reading of the NumPy block assignments that build the augmented (M+N)x(M+N) matrix `D` of
    bottleneck / wasserstein: `S`, `T` are the two point lists (M = len S, N = len T); a vector derived from `S`
    (`S[:, k]`, arithmetic on it) is a function of the point `S[i]`, a broadcast `u[:, None] (op) v[None, :]` is a
    function of `(S[i], T[j])`, `np.inf * np.ones((M, M))` with `np.fill_diagonal(·, v)` is `v(S[i])` on the
    diagonal and inf off it, `D[0:M, 0:N] = X` / `D[0:M, N::] = X` / `D[M::, 0:N] = X` write the quadrants of `D`
    (rows < M or not, columns < N or not); what is not written keeps `np.zeros`."""
    def __init__(self, src, cfg):
        self.src, self.cfg = src, cfg
        self.sc = StTr(src, None, cfg, [])
        self.env = {"S": Sym("pvec", ("M",), lambda p: (comp(p, 0), comp(p, 1))),
                    "T": Sym("pvec", ("N",), lambda p: (comp(p, 0), comp(p, 1))),
                    "M": "M", "N": "N"}
        self.quad = {}
        self.dname = None
        self.after_names = set()            # names that occur in the function after the region

    def dim(self, node):
        t = ast.unparse(node)
        if t in ("M", "N"):
            return t
        if t in ("M + N", "N + M"):
            return "MN"
        raise Shape("dimension %s" % t)

    def shape2(self, node):
        if not (isinstance(node, ast.Tuple) and len(node.elts) == 2):
            raise Shape("shape %s" % ast.unparse(node))
        return (self.dim(node.elts[0]), self.dim(node.elts[1]))

    def scal(self, op, a, b):
        return self.sc.arith(op, a, b)

    def lift2(self, fn, a, b):
        """elementwise binary operation with NumPy broadcasting on the supported kinds"""
        def k(x):
            return x.kind if isinstance(x, Sym) else "s"
        ka, kb = k(a), k(b)
        if ka == "s" and kb == "s":
            return fn(a, b)
        if ka == "s" or kb == "s":
            arr, left = (b, False) if ka == "s" else (a, True)
            sv = a if ka == "s" else b
            if arr.kind in ("vec", "col", "row"):
                return Sym(arr.kind, arr.dims, lambda p: fn(arr.f(p), sv) if left else fn(sv, arr.f(p)))
            if arr.kind == "mat":
                return Sym("mat", arr.dims, lambda p, q: fn(arr.f(p, q), sv) if left else fn(sv, arr.f(p, q)))
            raise Shape("scalar (op) %s" % arr.kind)
        if ka == kb == "vec" and a.dims == b.dims:
            return Sym("vec", a.dims, lambda p: fn(a.f(p), b.f(p)))
        if ka == kb == "mat" and a.dims == b.dims:
            return Sym("mat", a.dims, lambda p, q: fn(a.f(p, q), b.f(p, q)))
        if ka == "col" and kb == "row":
            return Sym("mat", (a.dims[0], b.dims[0]), lambda p, q: fn(a.f(p), b.f(q)))
        if ka == "pcol" and kb == "prow":
            return Sym("pmat", (a.dims[0], b.dims[0]),
                       lambda p, q: tuple(fn(x, y) for x, y in zip(a.f(p), b.f(q))))
        raise Shape("broadcast of %s with %s" % (ka, kb))

    def ev(self, node):
        if isinstance(node, ast.Name):
            if node.id not in self.env:
                raise Shape("name %s is not bound in the region" % node.id)
            return self.env[node.id]
        if isinstance(node, ast.Constant):
            return self.sc.lit(node)
        if isinstance(node, ast.UnaryOp) and isinstance(node.op, ast.USub):
            v = self.ev(node.operand)
            if isinstance(v, Sym):
                raise Shape("negation of an array")
            return V("-%s" % paren(v, 100), v.ty, 66)
        if isinstance(node, ast.Subscript):
            base = self.ev(node.value)
            sl = ast.unparse(node)[len(ast.unparse(node.value)) + 1:-1]
            if not isinstance(base, Sym):
                raise Shape("subscript %s" % ast.unparse(node))
            if base.kind == "pvec" and sl in (":, 0", ":, 1"):
                k = int(sl[-1])
                return Sym("vec", base.dims, lambda p: base.f(p)[k])
            if base.kind == "pvec" and sl == ":, 0:2":
                return base
            if base.kind == "vec" and sl == ":, None":
                return Sym("col", base.dims, base.f)
            if base.kind == "vec" and sl == "None, :":
                return Sym("row", base.dims, base.f)
            if base.kind == "pvec" and sl == ":, None, :":
                return Sym("pcol", base.dims, base.f)
            if base.kind == "pvec" and sl == "None, :, :":
                return Sym("prow", base.dims, base.f)
            raise Shape("subscript %s" % ast.unparse(node))
        if isinstance(node, ast.BinOp):
            if isinstance(node.op, ast.Pow):
                if not (isinstance(node.right, ast.Constant) and node.right.value == 2):
                    raise Shape("power other than 2")
                a = self.ev(node.left)
                sq = lambda x: self.scal(ast.Mult(), x, x)       # noqa: E731
                if isinstance(a, Sym) and a.kind == "pmat":
                    return Sym("pmat", a.dims, lambda p, q: tuple(sq(x) for x in a.f(p, q)))
                if isinstance(a, Sym):
                    raise Shape("square of %s" % a.kind)
                return sq(a)
            # np.inf * np.ones((M, M))
            if isinstance(node.op, ast.Mult) and ast.unparse(node.left) == "np.inf" and isinstance(node.right, ast.Call) \
                    and dotted(node.right.func) == "np.ones" and len(node.right.args) == 1 and not node.right.keywords:
                return Sym("inf", self.shape2(node.right.args[0]))
            # 0.5 * e  is  e / 2   (exact arithmetic; the models divide by the numeral 2)
            if isinstance(node.op, ast.Mult) and isinstance(node.left, ast.Constant) and node.left.value == 0.5 \
                    and not isinstance(node.left.value, bool):
                two = V("2", None, lit=2)
                return self.lift2(lambda x, y: self.scal(ast.Div(), x, y), self.ev(node.right), two)
            a, b = self.ev(node.left), self.ev(node.right)
            if isinstance(node.op, ast.Div) and not isinstance(a, Sym) and not isinstance(b, Sym):
                # np.pi / 4 and the like never reach here: cos/sin of them are parameters
                pass
            return self.lift2(lambda x, y: self.scal(node.op, x, y), a, b)
        if isinstance(node, ast.Call):
            return self.call(node)
        raise Shape("expression %s" % type(node).__name__)

    def call(self, node):
        f = node.func
        if isinstance(f, ast.Attribute) and f.attr == "dot" and len(node.args) == 1 and not node.keywords:
            x, r = self.ev(f.value), self.ev(node.args[0])
            if not (isinstance(x, Sym) and x.kind == "pvec" and isinstance(r, Sym) and r.kind == "m22"):
                raise Shape("dot outside `points.dot(2x2 matrix)`")
            m = r.f
            add, mul = (lambda a, b: self.scal(ast.Add(), a, b)), (lambda a, b: self.scal(ast.Mult(), a, b))

            def rot(p):
                a, b = x.f(p)
                return (add(mul(a, m[0][0]), mul(b, m[1][0])), add(mul(a, m[0][1]), mul(b, m[1][1])))
            return Sym("pvec", x.dims, rot)
        name = dotted(f)
        h = self.cfg.get("mcalls", {}).get(name)
        if h is None:
            raise Shape("call of %s is not in this target's table" % name)
        if h[0] == "fn1":
            if len(node.args) != 1 or node.keywords:
                raise Shape("%s expects one argument" % name)
            a = self.ev(node.args[0])
            g = lambda x: V("%s %s" % (h[1], paren(x, 100)), A, 90)      # noqa: E731
            if not isinstance(a, Sym):
                return g(a)
            if a.kind in ("vec", "col", "row"):
                return Sym(a.kind, a.dims, lambda p: g(a.f(p)))
            if a.kind == "mat":
                return Sym("mat", a.dims, lambda p, q: g(a.f(p, q)))
            raise Shape("%s of %s" % (name, a.kind))
        if h[0] == "fn2":
            if len(node.args) != 2 or node.keywords:
                raise Shape("%s expects two arguments" % name)
            return self.lift2(lambda x, y: V("%s %s %s" % (h[1], paren(x, 100), paren(y, 100)), A, 90),
                              self.ev(node.args[0]), self.ev(node.args[1]))
        if h[0] == "sum_axis2":
            if len(node.args) != 1 or [(k.arg, ast.unparse(k.value)) for k in node.keywords] != [("axis", "2")]:
                raise Shape("np.sum outside `np.sum(x, axis=2)`")
            a = self.ev(node.args[0])
            if not (isinstance(a, Sym) and a.kind == "pmat"):
                raise Shape("np.sum(axis=2) of something that is not a matrix of points")
            return Sym("mat", a.dims, lambda p, q: self.scal(ast.Add(), *a.f(p, q)))
        if h[0] == "zeros":
            if len(node.args) != 1 or node.keywords:
                raise Shape("np.zeros")
            return Sym("zeros", self.shape2(node.args[0]))
        if h[0] == "param":                              # cp = np.cos(np.pi / 4): a parameter of the model
            if ast.unparse(node) != h[2]:
                raise Shape("expected `%s`" % h[2])
            return V(h[1], A)
        if h[0] == "array22":
            ok = (len(node.args) == 1 and not node.keywords and isinstance(node.args[0], ast.List) and len(node.args[0].elts) == 2
                  and all(isinstance(r, ast.List) and len(r.elts) == 2 for r in node.args[0].elts))
            if not ok:
                raise Shape("np.array outside a literal 2x2 matrix")
            rows = [[self.ev(e) for e in r.elts] for r in node.args[0].elts]
            if any(isinstance(e, Sym) for r in rows for e in r):
                raise Shape("2x2 matrix of arrays")
            return Sym("m22", ("2", "2"), rows)
        raise Shape("internal: matrix handler %s" % h[0])

    def bind(self, name, value_node, v):
        """`name = <value_node>` in the region.  `M`, `N` are the dimensions (resolved by spelling), what the code AFTER the
        region reads (`M`, `N`, `matching`, `return_matching`, …) is not the region's to rebind -- the matrix itself excepted --
        and a second name for an array (`X = UR`) would make `np.fill_diagonal` through one name invisible through the other"""
        if name in ("M", "N"):
            raise Shape("the region assigns the dimension %s" % name)
        if name in self.after_names and name != self.cfg["matrix"]:
            raise Shape("the region assigns %s, which the code after the region reads" % name)
        if isinstance(value_node, ast.Name) and isinstance(v, Sym):
            raise Shape("`%s = %s` makes a second name for an array (aliasing is not modelled)" % (name, value_node.id))
        self.env[name] = v

    def stmt(self, s):
        if isinstance(s, ast.Assign) and len(s.targets) == 1:
            t = s.targets[0]
            if isinstance(t, ast.Name):
                self.bind(t.id, s.value, self.ev(s.value))
                if isinstance(self.env[t.id], Sym) and self.env[t.id].kind == "zeros" and self.env[t.id].dims == ("MN", "MN"):
                    self.dname, self.quad = t.id, {}
                return
            if isinstance(t, ast.Tuple) and isinstance(s.value, ast.Tuple) and len(t.elts) == len(s.value.elts) \
                    and all(isinstance(e, ast.Name) for e in t.elts):
                if len({e.id for e in t.elts}) != len(t.elts):
                    raise Shape("a name twice in one tuple target")
                vals = [self.ev(e) for e in s.value.elts]
                for e, vn, v in zip(t.elts, s.value.elts, vals):
                    self.bind(e.id, vn, v)
                    if isinstance(v, Sym) and v.kind == "zeros" and v.dims == ("MN", "MN"):
                        raise Shape("the matrix is built inside a tuple assignment")
                return
            if isinstance(t, ast.Subscript) and isinstance(t.value, ast.Name) and t.value.id == self.dname \
                    and isinstance(t.slice, ast.Tuple) and len(t.slice.elts) == 2:
                rs, cs = [ast.unparse(e).replace(" ", "") for e in t.slice.elts]
                rows = {"0:M": "top", "M::": "bottom", "M:": "bottom", "M:N+M": "bottom", "M:M+N": "bottom"}.get(rs)
                cols = {"0:N": "left", "N::": "right", "N:": "right", "N:N+M": "right", "N:M+N": "right"}.get(cs)
                if rows is None or cols is None:
                    raise Shape("block %s[%s, %s]" % (self.dname, rs, cs))
                v = self.ev(s.value)
                want = {("top", "left"): ("M", "N"), ("top", "right"): ("M", "M"), ("bottom", "left"): ("N", "N"),
                        ("bottom", "right"): ("N", "M")}[(rows, cols)]
                if not isinstance(v, Sym) or v.dims != want or v.kind not in ("mat", "diag", "inf", "zeros"):
                    raise Shape("block %s[%s, %s] = something of the wrong shape" % (self.dname, rs, cs))
                if v.kind == "diag" and want[0] != want[1]:
                    raise Shape("a diagonal in a non-square block")
                self.quad[(rows, cols)] = v
                return
        if isinstance(s, ast.Expr) and isinstance(s.value, ast.Call) and dotted(s.value.func) == "np.fill_diagonal" \
                and len(s.value.args) == 2 and not s.value.keywords and isinstance(s.value.args[0], ast.Name):
            nm = s.value.args[0].id
            a = self.env.get(nm)
            if nm in self.after_names and nm != self.cfg["matrix"]:
                raise Shape("the region updates %s in place, which the code after the region reads" % nm)
            if nm == self.dname and ast.unparse(s.value.args[1]) == "0" and not self.quad:
                return                                      # np.fill_diagonal(D, 0) on the fresh zero matrix
            v = self.ev(s.value.args[1])
            if not (isinstance(a, Sym) and a.kind == "inf" and a.dims[0] == a.dims[1] and isinstance(v, Sym) and v.kind == "vec"
                    and v.dims == (a.dims[0],)):
                raise Shape("np.fill_diagonal outside `fill_diagonal(inf-matrix, vector of its size)`")
            self.env[nm] = Sym("diag", a.dims, v.f)
            return
        raise Shape("statement `%s` in the matrix region" % ast.unparse(s).split("\n")[0][:60])

    def entry_text(self):
        fin, top = self.cfg["fin"], self.cfg["top"]
        sp, tp = V("S[i]", PA), V("T[j]", PA)

        def cell(q, diag_pt):
            v = self.quad.get(q)
            if v is None or v.kind == "zeros":
                return None
            return v
        tl, tr, bl, br = [self.quad.get(q) for q in (("top", "left"), ("top", "right"), ("bottom", "left"), ("bottom", "right"))]

        def scalar_text(v):
            v = self.sc.cast(v, A)
            return fin % atom(v.t)
        zero = fin % "0"

        def full(v, p, q):
            if v is None or v.kind == "zeros":
                return zero
            if v.kind == "inf":
                return top
            if v.kind == "mat":
                return scalar_text(v.f(p, q))
            raise Shape("internal: block kind")

        def square(v, p, cond):
            if v is None or v.kind == "zeros":
                return zero
            if v.kind == "inf":
                return top
            if v.kind == "diag":
                return "if %s then %s else %s" % (cond, scalar_text(v.f(p)), top)
            raise Shape("a full matrix in a diagonal block")
        if br is not None and br.kind != "zeros":
            raise Shape("the lower right block is written")
        lines = ["  if hi : i < S.length then",
                 "    if hj : j < T.length then %s" % full(tl, sp, tp),
                 "    else %s" % square(tr, sp, "j - T.length = i"),
                 "  else",
                 "    if hj : j < T.length then",
                 "      (%s)" % square(bl, tp, "i - S.length = j"),
                 "    else %s" % zero]
        return "\n".join(lines)


def translate_matrix(src, fns, cfg):
    fn = fns.get(cfg["func"])
    if fn is None:
        raise Shape("function %s not found" % cfg["func"])
    check_signature(cfg, fn)
    stmts, skeleton, after = find_region(cfg, fn)
    mt = MatTr(src, cfg)
    body = strip_doc(fn.body)
    pos = [i for i, b in enumerate(body) if b is stmts[-1]]
    if not pos:
        raise Shape("the matrix region of %s is not at the top level of the function" % fn.name)
    # everything that occurs after the region (the pinned `if <flag>:` / `return`, what the matching engine translates): the
    # region's assignments are not read by either pin, so they must not reach those names
    mt.after_names = names_outside(ast.Module(body=body[pos[0] + 1:], type_ignores=[]), [])
    for st in stmts:
        mt.stmt(st)
    if mt.dname != cfg["matrix"]:
        raise Shape("the matrix %s is not built in the region" % cfg["matrix"])
    sig = " ".join("(%s : %s)" % (n, t) for n, t in cfg.get("fparams", []))
    text = "def %s %s(S T : List (α × α)) (i j : Nat) : %s :=\n%s" % (cfg["lean"], sig + " " if sig else "", cfg["result"],
                                                                        mt.entry_text())
    out = {"defs": [text], "skeleton": skeleton, "skeleton_after": after, "defaults": None, "booldefaults": None}
    return out


# ----------------------------------------------------------------------------- regions, signatures

def index_source(tree):
    """({'f' | 'Class.m' | 'Class.p.setter': FunctionDef}, {'Class': ClassDef})"""
    fns, classes = {}, {}
    for n in tree.body:
        if isinstance(n, ast.FunctionDef):
            fns[n.name] = n
        elif isinstance(n, ast.ClassDef):
            classes[n.name] = n
            for m in n.body:
                if isinstance(m, ast.FunctionDef):
                    key = "%s.%s" % (n.name, m.name)
                    if any(isinstance(d, ast.Attribute) and d.attr == "setter" for d in m.decorator_list):
                        key += ".setter"
                    elif any(isinstance(d, ast.Name) and d.id == "property" for d in m.decorator_list):
                        key += ".getter"
                    fns[key] = m
    return fns, classes


def find_region(cfg, fn):
    """-> (statements, skeleton text or None, text of what follows the region or None)"""
    body = strip_doc(fn.body)
    region = cfg.get("region", "function")
    if region == "function":
        return body, None, None
    if region == "pin":                           # nothing is translated: the whole body is pinned as text
        return [], ast.unparse(ast.Module(body=body, type_ignores=[])), None
    if region == "tail_from":                     # from the statement whose text is cfg['from_stmt'] to the end
        hits = [i for i, s in enumerate(body) if ast.unparse(s) == cfg["from_stmt"]]
        if len(hits) != 1:
            raise Shape("expected exactly one statement `%s` in %s" % (cfg["from_stmt"], fn.name))
        picked = body[hits[0]:]
        return picked, unparse_with_holes(body, {id(s) for s in picked}, collapse=True), None
    if region == "range_in":                      # consecutive statements first..last (texts of their first lines) at any depth
        allst = [n for n in ast.walk(fn) if isinstance(n, ast.stmt)]
        for holder in ast.walk(fn):
            for field in ("body", "orelse"):
                seq = getattr(holder, field, None)
                if not isinstance(seq, list):
                    continue
                heads = [ast.unparse(s).split("\n")[0] for s in seq]
                if isinstance(cfg["first"], tuple):          # ("assign", name): the first statement is `name = <anything>`
                    heads = [cfg["first"] if isinstance(s, ast.Assign) and len(s.targets) == 1 and isinstance(s.targets[0], ast.Name)
                             and s.targets[0].id == cfg["first"][1] else h for s, h in zip(seq, heads)]
                for i, h in enumerate(heads):
                    if h == cfg["first"] and cfg["last"] in heads[i:]:
                        j = i + heads[i:].index(cfg["last"])
                        picked = seq[i:j + 1]
                        if len(picked) != cfg["count"]:
                            raise Shape("the region %r … %r of %s has %d statements, expected %d"
                                        % (cfg["first"], cfg["last"], fn.name, len(picked), cfg["count"]))
                        if cfg.get("skeleton_mode") == "before":      # what prepares the region's inputs / what consumes its result
                            if holder is not fn:
                                raise Shape("the region of %s is not at the top level of the function" % fn.name)
                            k0 = [id(x) for x in body].index(id(picked[0]))
                            holes = {id(s) for s in picked}
                            if cfg.get("after_engine"):       # what surrounds the region is translated by the matching engine: blanked there
                                from . import py2lean_matching
                                return (list(picked), py2lean_matching.pin_text(cfg["file"], fn, body[:k0 + len(picked)], holes),
                                        py2lean_matching.pin_text(cfg["file"], fn, body[k0:], holes))
                            return (list(picked), unparse_with_holes(body[:k0 + len(picked)], holes, collapse=True),
                                    unparse_with_holes(body[k0:], holes, collapse=True))
                        return list(picked), unparse_with_holes(body, {id(s) for s in picked}, collapse=True), None
        raise Shape("the region %r … %r was not found in %s" % (cfg["first"], cfg["last"], fn.name))
    raise Shape("internal: region %s" % region)


def check_signature(cfg, fn):
    a = fn.args
    if a.vararg or a.kwarg or a.kwonlyargs or a.posonlyargs:
        raise Shape("signature of %s is outside the subset" % fn.name)
    names = [x.arg for x in a.args]
    if names != cfg["pyparams"]:
        raise Shape("parameters of %s are %s, expected %s" % (fn.name, names, cfg["pyparams"]))


def bool_defaults(fn, wanted):
    a = fn.args
    names = [x.arg for x in a.args]
    dfl = dict(zip(names[len(names) - len(a.defaults):], a.defaults))
    out = []
    for n in wanted:
        d = dfl.get(n)
        if not (isinstance(d, ast.Constant) and isinstance(d.value, bool)):
            raise Shape("default of %s in %s is not True/False" % (n, fn.name))
        out.append((n, d.value))
    return out


def translate(src, fns, classes, cfg):
    """-> dict(defs=[lean texts], skeleton, defaults, booldefaults)"""
    fn = fns.get(cfg["func"])
    if fn is None:
        raise Shape("function %s not found" % cfg["func"])
    check_signature(cfg, fn)
    stmts, skeleton, after = find_region(cfg, fn)
    if cfg.get("region") == "pin":
        return {"defs": [], "skeleton": skeleton, "skeleton_after": None, "defaults": None, "booldefaults": None}
    cls = classes.get(cfg["func"].split(".")[0]) if "." in cfg["func"] else None
    aux = []
    tr = StTr(src, cls, cfg, aux, used=[f for f, _ in cfg.get("fparams", [])] + lean_spellings(cfg))
    tr.avoid = function_identifiers(fn)
    binders = list(cfg.get("fparams", []))
    for py, ty in cfg["params"]:
        lean = tr.fresh(py)
        tr.env[py] = V(lean, ty)
        binders.append((lean, ty.lean()))
        # a parameter's array / list / record belongs to the caller -- except `self` (the state the method is about) and the
        # declared in-out name of a region (`W` of the ramp loops), whose in-place updates ARE the region's result
        if mutable_ty(ty) and py != "self" and py != cfg.get("ret_name"):
            tr.borrowed.add(py)
    raises = cfg.get("raises", False)
    tr.live_end = {"self"} if cfg.get("ret") == "state" else ({cfg["ret_name"]} if cfg.get("ret_name") else set())
    if cfg.get("region") == "range_in":
        # the region stands in the middle of code that is only pinned as text: what it stores to a name that also occurs
        # OUTSIDE it (a parameter of the region, a name a later statement / another iteration of the enclosing loop / the pinned
        # `return` reads) would reach that code, which the definition does not model -- only the declared result leaves it
        outside = names_outside(fn, stmts)
        for nm in stored_names(stmts) + [n for n in tr.assigned_names(stmts)]:
            if nm in outside and nm not in (cfg.get("ret_name"), "_"):
                raise Shape("the region assigns %s, which also occurs outside the region and is not its declared result" % nm)

    def end():
        if cfg.get("ret") == "state":
            if cfg.get("returns_self"):
                raise Shape("a path falls off the end of a method that returns self")
            return Ret(tr.state().t)
        if cfg.get("ret_name"):
            v = tr.env.get(cfg["ret_name"])
            if v is None:
                raise Shape("%s is not assigned in the region" % cfg["ret_name"])
            tr.reads.add(cfg["ret_name"])
            return Ret(v.t)
        raise Shape("a path through the translated region ends without a result")
    node = tr.block(list(stmts), end)
    if tr.pre:
        raise Shape("internal: pending hoists")
    check_live(node, tr.unread)
    settle_unread(tr.unread, cfg)
    if has_raise(node) and not raises:
        raise Shape("the source can raise here but the model's definition has no error result")
    groups = []
    for name, ty in binders:
        if groups and groups[-1][1] == ty:
            groups[-1][0].append(name)
        else:
            groups.append(([name], ty))
    sig = " ".join("(%s : %s)" % (" ".join(ns), ty) for ns, ty in groups)
    defs = [t for _, _, t in aux]
    defs.append("def %s %s : %s :=\n%s" % (cfg["lean"], sig, cfg["result"], "\n".join(render(node, "  ", raises))))
    for attr, svar, text in tr.derived:
        st = cfg["state"]
        defs.append("/-- the value assigned to `self.%s`, as a function of the state at that statement -/\n"
                    "def %s_%s (%s : %s) : %s :=\n  %s" % (attr, cfg["lean"], attr.lstrip("_"), svar, st["ty"].lean(),
                                                           st["derived"][attr]["ty"].lean(), text))
    want = {a for a in (cfg.get("state") or {}).get("derived", {})} if cfg.get("expects_derived") else set()
    if want != {a for a, _, _ in tr.derived}:
        raise Shape("derived attributes assigned: %s, expected %s" % (sorted(a for a, _, _ in tr.derived), sorted(want)))
    out = {"defs": defs, "skeleton": skeleton, "skeleton_after": after, "defaults": None, "booldefaults": None}
    if cfg.get("defaults"):
        out["defaults"] = read_defaults(src, fn, [n for n, _ in cfg["defaults"]])
    if cfg.get("booldefaults"):
        out["booldefaults"] = bool_defaults(fn, [n for n, _ in cfg["booldefaults"]])
    return out


# ----------------------------------------------------------------------------- output

HEADER = (
    "import %s\n"
    "/-!\n"
    "GENERATED by harness/translator/py2lean.py (statement-level engine py2lean_stmt.py) from %s — do not edit;\n"
    "rewritten on every run (%s `pre_build`).\n\n"
    "Each `def` below is the Python source translated STATEMENT BY STATEMENT (`ast`); each `src_…_eq_model` is the obligation\n"
    "that it EQUALS the hand-written model definition of %s, polymorphically over the model's own\n"
    "core classes.  An edit of the translated lines changes the generated definition -- unless it is a renaming of locals or one\n"
    "of the value-preserving rewrites below -- and the obligation (`rfl`, case analysis, or an induction that relates the generated\n"
    "loop to the model's recursion) then no longer checks (DESIGN.md 3.2/3.3).  What the translation does not read is pinned as\n"
    "TEXT (`ast.unparse`; comments and docstrings do not count) against the reviewed text of the translator's tables:\n"
    "`srcSkeleton_<f>` / `srcSkeletonAfter_<f>` (the function around / after a region), `srcSignature_<function>` (decorators,\n"
    "parameters, defaults), `srcBindings_<file>` (every module-level binding of every name the translated functions use, and the\n"
    "class-level bindings of the `self.<attr>` they use: names are resolved by spelling, this is what the spelling stands for).\n\n"
    "Conventions of the translation (the translator's semantics of its Python subset):\n"
    "  * straight-line code is SSA-renamed (`x`, `x_1`, …), every assignment is a `let`;\n"
    "  * `self` is a value of the model's state record: `self._a[k]` reads a field of the current state variable, `self._a = e`\n"
    "    is a record update giving the next one (`self_1`, …); a property read is the attribute its getter returns, a property\n"
    "    write is a call of the generated setter; `self._m(…)` is a call of the generated definition of `_m`;\n"
    "  * what can raise has type `Except Err τ`: `return e` is `.ok e`, `raise` is `.error`, a call of a raising definition is\n"
    "    `match … with | .error e => .error e | .ok x => …` where the statement stands; raising builtins (`l[-1]`, `X[k]`,\n"
    "    `min(l, key=…)`/`ndarray.min` of nothing, `np.linspace` with a negative count, a division by a variable that is 0,\n"
    "    `next` of an exhausted generator, a still-infinite running extreme reaching `int()`) are the guards written out below;\n"
    "  * an `if` whose branches fall through is an if-expression yielding the names its branches assign;\n"
    "  * `for x in L` is a structural recursion over `L` (`<f>_loop`) carrying the names the body re-assigns, `zip(l, l[1:])`\n"
    "    recurses over consecutive pairs, `range(a, b)` over `List.range (b - a)`; `continue` is the recursive call;\n"
    "    `acc.append(e)` is `acc ++ [e]`, `W[i].append(e)` is `W.modify i (· ++ [e])`;\n"
    "  * a `while` over lists consumed from the front is split on the shapes `[]` / `x :: xs` of those lists (`len(a) > 0` is\n"
    "    then a constant, `a[0]` the head, `a[1:]` the tail, `and`/`or` short-circuit on the constants) and is a well-founded\n"
    "    recursion whose measure Lean checks;\n"
    "  * `np.inf`/`-np.inf` as the start of a running min/max is `none`, comparisons with it are `SrcLib.ltTop/gtBot`;\n"
    "  * Python `int`s are `Int`, lengths/indices `Nat` (a difference of naturals is an `Int`), an int in float arithmetic is cast;\n"
    "  * `a > b` is written `b < a`; in the matrix regions `0.5 * e` is `e / 2` and `e ** 2` is `e * e`; NumPy/Python library\n"
    "    calls are the model helpers / parameters named in the text;\n"
    "  * arrays, lists and records are VALUES: a second name for one (`y = x`) is refused, and in-place operations (`X[:, 1] = …`,\n"
    "    `.append`, item assignment, `np.fill_diagonal`) are read only on a name that owns its value (`np.copy(x)` gives one and is\n"
    "    otherwise the identity), never on a parameter, a loop variable or an element;\n"
    "  * the obligations hold up to definitional unfolding, which erases a `let` that nothing reads: every generated binding must be\n"
    "    read (reviewed exceptions are listed in the target's section), a region inside pinned text may assign, among the names that\n"
    "    also occur outside it, only its declared result, the matrix regions may not assign `M`, `N` or what the code after them reads;\n"
    "  * `return self` versus `None` of a state method is fixed per target; binders never collide with an identifier of the Python\n"
    "    function or with a helper the text mentions.\n"
    "A source outside the subset gives `def srcShape_<f> : Bool := false`, and `srcShape_<f>_recognised` fails.\n"
    "-/\n"
    "set_option linter.unusedVariables false\n"
    "set_option linter.unusedSectionVars false\n"
    "set_option linter.unusedSimpArgs false\n\n"
    "namespace %s\n%s\n")


def render_file(key, root):
    py, out, ns, imports, prop = FILES[key][:5]
    opens = FILES[key][5] if len(FILES[key]) > 5 else ""
    model = imports.split("\nimport ")[0]
    o = [HEADER % (imports, py, prop, model.replace("PersimVerif.", "PersimVerif/").replace(".", "/") + ".lean", ns,
                   ("open %s\n" % opens) if opens else "")]
    info = {"source": py, "output": "/".join([GEN.replace(os.sep, "/"), out]), "functions": {}}
    cache = {}

    def load(path):
        if path not in cache:
            try:
                src = open(os.path.join(root, path)).read()
                tree = ast.parse(src)
                cache[path] = (src,) + index_source(tree) + (None, tree)
            except (OSError, SyntaxError) as e:
                cache[path] = ("", {}, {}, "%s: %s" % (type(e).__name__, e), None)
        return cache[path]
    # what the spelling of the names stands for: the bindings of the names the translated functions use, per Python file
    paths = []
    for cfg in TARGETS:
        if cfg["file"] == key and cfg.get("pyfile", py) not in paths:
            paths.append(cfg.get("pyfile", py))
    for path in paths:
        src, fns, classes, err, tree = load(path)
        bkey = key if path == py else "%s_%s" % (key, sanitize(os.path.splitext(os.path.basename(path))[0]))
        fl = [(c["func"], fns.get(c["func"]), classes.get(c["func"].split(".")[0]) if "." in c["func"] else None)
              for c in TARGETS if c["file"] == key and c.get("pyfile", py) == path]
        o.append(bindings_section(bkey, tree, fl, _base.BINDINGS.get(bkey), err, info))
    signed = set()
    for cfg in TARGETS:
        if cfg["file"] != key:
            continue
        f = cfg["lean"]
        path = cfg.get("pyfile", py)
        src, fns, classes, err, tree = load(path)
        o.append("/-! ### `%s`  (from `%s` of %s%s)%s%s -/" % (
            f, cfg["func"], path, "" if cfg.get("region", "function") == "function" else ", region: " + cfg["region"].replace("_", " "),
            ("\nreviewed list of the bindings below that nothing reads (stores that are dead in the source as well; any other unread "
             "binding is a Shape error): %s" % ", ".join("`%s`" % x for x in cfg["unread_ok"])) if cfg.get("unread_ok") else "",
            "\nthe method ends in `return self` on every path (what the caller gets is fixed per target)" if cfg.get("returns_self") else ""))
        o.append("section")
        o.append(("variable {α : Type} " + cfg["variables"]).rstrip() + "\n")
        res = None
        if err is None:
            try:
                res = translate_matrix(src, fns, cfg) if cfg.get("matrix") else translate(src, fns, classes, cfg)
            except Shape as e:
                err = "Shape: %s" % e
            except Exception as e:               # anything else the source makes the translator do: outside the subset
                err = "%s: %s" % (type(e).__name__, e)
        if err is not None:
            o.append("/-- the translator could not read the source: %s -/" % err.replace("-/", "- /").replace("/-", "/ -").replace("\n", " "))
            o.append("def srcShape_%s : Bool := false" % f)
            o.append("theorem srcShape_%s_recognised : srcShape_%s = true := by decide\n" % (f, f))
            o.append("end\n")
            info["functions"][f] = {"error": err}
            continue
        o.append("def srcShape_%s : Bool := true" % f)
        o.append("theorem srcShape_%s_recognised : srcShape_%s = true := by decide\n" % (f, f))
        for d in res["defs"]:
            o.append(d + "\n")
        names = ["srcShape_%s_recognised" % f]
        for name, binders, stmt, proof, doc in cfg["obligations"]:
            o.append("/-- %s -/" % doc)
            o.append("theorem %s%s :\n    %s := %s\n" % (name, (" " + binders) if binders else "", stmt, proof))
            names.append(name)
        if cfg.get("skeleton") is not None:
            o.append("/-- the body of the function, as `ast.unparse` prints it (nothing of it is translated: the conversion to float at its "
                     "entry is the identity of the exact-arithmetic models) -/" if cfg.get("region") == "pin" else
                     "/-- the function around the translated region (`...`), as `ast.unparse` prints it -/")
            o.append("def srcSkeleton_%s : String :=\n  %s" % (f, lean_str(res["skeleton"] or "")))
            o.append("theorem src_%s_skeleton : srcSkeleton_%s =\n  %s := rfl\n" % (f, f, lean_str(cfg["skeleton"])))
            names.append("src_%s_skeleton" % f)
        if cfg.get("skeleton_after") is not None:
            o.append("/-- the function from the translated region (`...`) to its end, as `ast.unparse` prints it: what consumes the "
                     "region's result -/")
            o.append("def srcSkeletonAfter_%s : String :=\n  %s" % (f, lean_str(res["skeleton_after"] or "")))
            o.append("theorem src_%s_skeleton_after : srcSkeletonAfter_%s =\n  %s := rfl\n" % (f, f, lean_str(cfg["skeleton_after"])))
            names.append("src_%s_skeleton_after" % f)
        if (path, cfg["func"]) not in signed:           # once per Python function: decorators, parameters, defaults
            signed.add((path, cfg["func"]))
            o.append(render_signature(cfg["func"], signature_text(fns[cfg["func"]]), _base.SIGNATURES.get((key, cfg["func"]), "")))
            names.append("src_%s_signature" % sanitize(cfg["func"]))
        if cfg.get("defaults"):
            o.append("/-- numeric keyword defaults of `%s`, as written in the source -/" % cfg["func"])
            o.append("def srcDefaults_%s : List (String × Rat) :=\n  [%s]" % (
                f, ", ".join('("%s", %s)' % (n, rat(q)) for n, q in res["defaults"])))
            o.append("theorem src_%s_defaults : srcDefaults_%s =\n  [%s] := by decide +kernel\n" % (
                f, f, ", ".join('("%s", %s)' % (n, rat(Fraction(q))) for n, q in cfg["defaults"])))
            names.append("src_%s_defaults" % f)
        if cfg.get("booldefaults"):
            o.append("/-- Boolean keyword defaults of `%s`, as written in the source -/" % cfg["func"])
            o.append("def srcBoolDefaults_%s : List (String × Bool) :=\n  [%s]" % (
                f, ", ".join('("%s", %s)' % (n, "true" if b else "false") for n, b in res["booldefaults"])))
            o.append("theorem src_%s_booldefaults : srcBoolDefaults_%s =\n  [%s] := by decide\n" % (
                f, f, ", ".join('("%s", %s)' % (n, "true" if b else "false") for n, b in cfg["booldefaults"])))
            names.append("src_%s_booldefaults" % f)
        o.append("end\n")
        info["functions"][f] = {"obligations": names}
    nt = {}
    for path in paths:
        src, fns, classes, err, tree = load(path)
        if tree is not None:
            nt[path] = not_translated(path, tree, _base.all_target_functions(path))
    info["not_translated"] = nt
    o.append(not_translated_comment(sorted(nt.items())))
    o.append("end %s\n" % ns)
    return "\n".join(o), info


# ----------------------------------------------------------------------------- targets (fixed; reviewed against the models)

# ---- persim/images.py : PersistenceImager  ->  Model/Imager.lean (C12)
IMG_VARS = ("[Add α] [Sub α] [Mul α] [Div α] [Zero α] [OfNat α 2] [IntCast α]\n"
            "  [LT α] [DecidableLT α] [DecidableEq α]")
IMG_STATE_TY = Named("State α", "R")
IMG = dict(
    file="imager", variables=IMG_VARS, err="Err",
    state=dict(ty=IMG_STATE_TY,
               attrs={"_birth_range": ("pair", ("b0", "b1"), A), "_pers_range": ("pair", ("p0", "p1"), A),
                      "_pixel_size": ("field", "ps", A), "_width": ("field", "w", A), "_height": ("field", "h", A),
                      "_resolution": ("pair", ("rx", "ry"), Z)},
               derived={"_bpnts": dict(lean="linspace", err="Err.negCount", ty=Lst(A)),
                        "_ppnts": dict(lean="linspace", err="Err.negCount", ty=Lst(A))}),
    methods={"_n_pixels": dict(lean="n_pixels", extra=["ceil"], raises=True, ret=Z, params=[A]),
             "_create_mesh": dict(lean="create_mesh", extra=[], raises=True, ret="state", params=[]),
             "_ensure_iterable": dict(kind="fn", lean="ensureIterable", params=[Named("Input α")], ret=Pair(Lst(LPA), B))},
    setters={"birth_range": dict(lean="birth_range_setter", extra=["ceil"], raises=True, arg=PA),
             "pers_range": dict(lean="pers_range_setter", extra=["ceil"], raises=True, arg=PA)},
    calls={"int": ("int_ceil", "np.ceil", "ceil"), "np.copy": ("id",),
           ".min": ("optmethod", "colMin", {"axis": 0}, LPA, PA, "Err.emptyData"),
           ".max": ("optmethod", "colMax", {"axis": 0}, LPA, PA, "Err.emptyData")},
    consts={"np.inf": ("none", Opt(A, "top"))},
    div_guard="Err.zeroPixel", inf_err="Err.emptyData",
)
CEIL = ("ceil", "α → Int")
IMG_INIT_SKELETON = (
    "if birth_range is None:\n    birth_range = (0.0, 1.0)\nif pers_range is None:\n    pers_range = (0.0, 1.0)\n"
    "if pixel_size is None:\n    pixel_size = 0.2\nif weight is None:\n    weight = images_weights.persistence\n"
    "if kernel is None:\n    kernel = images_kernels.gaussian\nif weight_params is None:\n    weight_params = {'n': 1.0}\n"
    "if kernel_params is None:\n    kernel_params = {'sigma': [[1.0, 0.0], [0.0, 1.0]]}\n"
    "self._validate_parameters(birth_range=birth_range, pers_range=pers_range, pixel_size=pixel_size, weight=weight, "
    "weight_params=weight_params, kernel=kernel, kernel_params=kernel_params)\n"
    "self.weight, self.kernel = self._ensure_callable(weight=weight, kernel=kernel)\nself.weight_params = weight_params\n"
    "self.kernel_params = kernel_params\n...")


def T(base, **kw):
    d = dict(base)
    d.update(kw)
    return d


SETTER_PROOF = ("by\n  unfold %s %s n_pixels\n  by_cases h : %s = 0 <;> simp [h, src_create_mesh_eq_model, nPixels]")

TARGETS = [
    T(IMG, func="PersistenceImager._n_pixels", lean="n_pixels", pyparams=["self", "extent"],
      fparams=[CEIL], params=[("self", IMG_STATE_TY), ("extent", A)], raises=True, ret=Z, result="Except Err Int",
      obligations=[("src_n_pixels_eq_model", "(ceil : α → Int) (s : State α) (e : α)",
                    "n_pixels ceil s e = if s.ps = 0 then .error Err.zeroPixel else .ok (nPixels ceil s.ps e)", "rfl",
                    "`int(np.ceil(extent / self._pixel_size))`; the division raises for a zero pixel size "
                    "(ZeroDivisionError; ±inf reaching `int()` with NumPy scalars)")]),
    T(IMG, func="PersistenceImager._create_mesh", lean="create_mesh", pyparams=["self"], expects_derived=True,
      params=[("self", IMG_STATE_TY)], raises=True, ret="state", result="Except Err (State α)",
      obligations=[("src_create_mesh_eq_model", "(s : State α)", "create_mesh s = createMesh s",
                    "by\n  unfold create_mesh createMesh\n"
                    "  by_cases h1 : s.rx + 1 < 0 <;> by_cases h2 : s.ry + 1 < 0 <;> simp [h1, h2]",
                    "the padding `db`, `dp`, the two range updates and the guards of the two `np.linspace` calls "
                    "(a negative number of samples raises), in the source's order"),
                   ("src_create_mesh_bpnts_eq_model", "", "create_mesh_bpnts (α := α) = meshB", "rfl",
                    "`self._bpnts = np.linspace(b0, b1 + pixel_size, resolution[0] + 1, endpoint=False)` is the model's `meshB` "
                    "of the state it is computed from"),
                   ("src_create_mesh_ppnts_eq_model", "", "create_mesh_ppnts (α := α) = meshP", "rfl",
                    "`self._ppnts` is the model's `meshP`")]),
    T(IMG, func="PersistenceImager.pixel_size.setter", lean="pixel_size_setter", pyparams=["self", "val"],
      fparams=[CEIL], params=[("self", IMG_STATE_TY), ("val", A)], raises=True, ret="state", result="Except Err (State α)",
      obligations=[("src_pixel_size_setter_eq_model", "(ceil : α → Int) (s : State α) (v : α)",
                    "pixel_size_setter ceil s v = setPixel ceil s v", SETTER_PROOF % ("pixel_size_setter", "setPixel", "v"),
                    "new pixel size, both pixel counts recomputed from the CURRENT ranges, width and height as count × size, "
                    "then `_create_mesh`")]),
    T(IMG, func="PersistenceImager.birth_range.setter", lean="birth_range_setter", pyparams=["self", "val"],
      fparams=[CEIL], params=[("self", IMG_STATE_TY), ("val", PA)], raises=True, ret="state", result="Except Err (State α)",
      obligations=[("src_birth_range_setter_eq_model", "(ceil : α → Int) (s : State α) (v0 v1 : α)",
                    "birth_range_setter ceil s (v0, v1) = setBirth ceil s v0 v1",
                    SETTER_PROOF % ("birth_range_setter", "setBirth", "s.ps"),
                    "new birth range, the birth pixel count recomputed, the persistence count kept, width = count × size, "
                    "then `_create_mesh`")]),
    T(IMG, func="PersistenceImager.pers_range.setter", lean="pers_range_setter", pyparams=["self", "val"],
      fparams=[CEIL], params=[("self", IMG_STATE_TY), ("val", PA)], raises=True, ret="state", result="Except Err (State α)",
      obligations=[("src_pers_range_setter_eq_model", "(ceil : α → Int) (s : State α) (v0 v1 : α)",
                    "pers_range_setter ceil s (v0, v1) = setPers ceil s v0 v1",
                    SETTER_PROOF % ("pers_range_setter", "setPers", "s.ps"),
                    "the same for the persistence range and the height")]),
    T(IMG, func="PersistenceImager.__init__", lean="init", region="tail_from", from_stmt="self._pixel_size = pixel_size",
      pyparams=["self", "birth_range", "pers_range", "pixel_size", "weight", "weight_params", "kernel", "kernel_params"],
      fparams=[CEIL], params=[("self", IMG_STATE_TY), ("birth_range", PA), ("pers_range", PA), ("pixel_size", A)],
      raises=True, ret="state", result="Except Err (State α)", skeleton=IMG_INIT_SKELETON,
      obligations=[("src_init_eq_model", "(ceil : α → Int) (s0 : State α) (b0 b1 p0 p1 ps : α)",
                    "init ceil s0 (b0, b1) (p0, p1) ps = ctor ceil b0 b1 p0 p1 ps",
                    "by\n  unfold init ctor n_pixels\n  by_cases h : ps = 0 <;> simp [h, src_create_mesh_eq_model, nPixels]",
                    "the geometry assignments of the constructor; `s0` is the object before them (every field is written "
                    "before it is read: the result does not depend on `s0`)")]),
    T(IMG, func="PersistenceImager.fit", lean="fit", pyparams=["self", "pers_dgms", "skew"],
      fparams=[CEIL], params=[("self", IMG_STATE_TY), ("pers_dgms", Named("Input α")), ("skew", B)],
      raises=True, ret="state", result="Except Err (State α)", booldefaults=[("skew", True)],
      unread_ok=["singular"],       # `pers_dgms, singular = self._ensure_iterable(pers_dgms)`: `fit` does not use the flag
      obligations=[("fit_loop_eq_scan", "(skew : Bool) (ds : List (Dgm α)) (e : Ext α)",
                    "fit_loop skew e.minB e.maxB e.minP e.maxP ds =\n"
                    "      (scan skew e ds).map (fun e => (e.minB, e.maxB, e.minP, e.maxP))",
                    "by\n  induction ds generalizing e with\n  | nil => rfl\n  | cons d ds ih =>\n"
                    "    simp only [fit_loop, scan, skewDgm]\n"
                    "    cases h1 : colMin (if skew = true then List.map (fun p => (p.1, p.2 - p.1)) d else d) with\n"
                    "    | none => rfl\n    | some mn =>\n"
                    "      cases h2 : colMax (if skew = true then List.map (fun p => (p.1, p.2 - p.1)) d else d) with\n"
                    "      | none => rfl\n      | some mx =>\n"
                    "        simp only [PersimVerif.SrcBridge.Imager.updMin_eq, PersimVerif.SrcBridge.Imager.updMax_eq]\n"
                    "        exact ih ⟨_, _, _, _⟩",
                    "the loop over the diagrams (copy, skew, column minima/maxima, the four guarded updates of the running "
                    "extremes) is the model's `scan`, by induction over the list of diagrams"),
                   ("src_fit_eq_model", "(ceil : α → Int) (s : State α) (X : Input α) (skew : Bool)",
                    "fit ceil s X skew = PersimVerif.Imager.fit ceil s skew X",
                    "by\n  unfold fit PersimVerif.Imager.fit\n"
                    "  have h := fit_loop_eq_scan skew (ensureIterable X).1 (⟨none, none, none, none⟩ : Ext α)\n"
                    "  simp only at h ⊢\n  rw [h]\n  cases hl : (ensureIterable X).1 with\n"
                    "  | nil => simp [scan, Except.map]\n  | cons d ds =>\n"
                    "    cases hs : scan skew ⟨none, none, none, none⟩ (d :: ds) with\n"
                    "    | error e => simp [Except.map]\n    | ok e' =>\n"
                    "      obtain ⟨h1, h2, h3, h4⟩ := PersimVerif.SrcBridge.Imager.scan_cons_allSome skew _ d ds e' hs\n"
                    "      rcases e' with ⟨_ | a, _ | b, _ | c, _ | d'⟩ <;> simp at h1 h2 h3 h4\n"
                    "      simp only [Except.map, src_birth_range_setter_eq_model, src_pers_range_setter_eq_model]\n"
                    "      cases setBirth ceil s a b <;> rfl",
                    "`fit`: extremes start at ±inf, `_ensure_iterable`, the loop, then the two property setters in the source's "
                    "order (a still-infinite extreme reaching `int()` raises)")]),
]

# ---- persim/landscapes/transformer.py : PersistenceLandscaper  ->  Model/Transformers.lean (C18)
LS_STATE_TY = Named("LState α", "R")
OA = Opt(A)
LS = dict(
    file="landscaper", variables="[LT α] [DecidableLT α]", err="LErr",
    state=dict(ty=LS_STATE_TY,
               attrs={"_start": ("field", "start", OA), "_stop": ("field", "stop", OA),
                      "_start_fixed": ("field", "startFixed", B), "_stop_fixed": ("field", "stopFixed", B),
                      "hom_deg": ("field", "homDeg", Z), "num_steps": ("field", "numSteps", Z), "flatten": ("field", "flatten", B)}),
    setters={"start": dict(lean="start_setter", extra=[], raises=False, arg=OA),
             "stop": dict(lean="stop_setter", extra=[], raises=False, arg=OA)},
    calls={"min": ("by", "PersimVerif.SrcLib.pyMinBy", "LErr.valueError"), "max": ("by", "PersimVerif.SrcLib.pyMaxBy", "LErr.valueError"),
           "np.isfinite": ("isfinite", "fin"), "np.all": ("all",)},
    dicts={"params": dict(keys=["start", "stop"], types=[OA, OA])}, super_get_params="params",
    index_err="LErr.indexError", py_index="pyIndex",
)
FIN = ("fin", "α → Bool")

TARGETS += [
    T(LS, func="PersistenceLandscaper.start.setter", lean="start_setter", pyparams=["self", "value"],
      params=[("self", LS_STATE_TY), ("value", OA)], ret="state", result="LState α",
      obligations=[("src_start_setter_eq_model", "", "start_setter (α := α) = setStart", "rfl",
                    "`self._start = value; self._start_fixed = value is not None`")]),
    T(LS, func="PersistenceLandscaper.stop.setter", lean="stop_setter", pyparams=["self", "value"],
      params=[("self", LS_STATE_TY), ("value", OA)], ret="state", result="LState α",
      obligations=[("src_stop_setter_eq_model", "", "stop_setter (α := α) = setStop", "rfl",
                    "`self._stop = value; self._stop_fixed = value is not None`")]),
    T(LS, func="PersistenceLandscaper.__init__", lean="init",
      pyparams=["self", "hom_deg", "start", "stop", "num_steps", "flatten"],
      params=[("self", LS_STATE_TY), ("hom_deg", Z), ("start", OA), ("stop", OA), ("num_steps", Z), ("flatten", B)],
      ret="state", result="LState α", defaults=[("hom_deg", "0"), ("num_steps", "500")], booldefaults=[("flatten", False)],
      obligations=[("src_init_eq_model", "(s0 : LState α) (hd : Int) (st sp : Option α) (n : Int) (fl : Bool)",
                    "init s0 hd st sp n fl = lctor hd st sp n fl", "rfl",
                    "the five assignments of the constructor, `start`/`stop` through the generated property setters; `s0` is the "
                    "object before them (the result does not depend on it)")]),
    T(LS, func="PersistenceLandscaper.get_params", lean="get_params", pyparams=["self", "deep"],
      params=[("self", LS_STATE_TY)], ret=Pair(OA, OA), result="Option α × Option α", booldefaults=[("deep", True)],
      obligations=[("src_get_params_eq_model", "(s : LState α)", "get_params s = (getStart s, getStop s)",
                    "by\n  unfold get_params getStart getStop\n  cases s.startFixed <;> cases s.stopFixed <;> rfl",
                    "the entries `start`, `stop` of the returned dict: sklearn's `get_params` reads the attributes, then the two "
                    "overrides `if not self._start_fixed: params[\"start\"] = None`, `if not self._stop_fixed: …`")]),
    T(LS, func="PersistenceLandscaper.fit", lean="fit", pyparams=["self", "X", "y"],
      fparams=[FIN], params=[("self", LS_STATE_TY), ("X", Lst(LPA))], raises=True, ret="state", result="Except LErr (LState α)",
      returns_self=True,
      obligations=[("src_fit_eq_model", "(fin : α → Bool) (s : LState α) (X : List (Dgm α))", "fit fin s X = lfit fin s X",
                    "by\n  unfold fit lfit\n  cases pyIndex X s.homDeg with\n  | none => rfl\n  | some d =>\n"
                    "    rcases s with ⟨st, sp, sf, pf, n, fl, hd⟩\n"
                    "    simp only [learn, finitePts, ← PersimVerif.SrcBridge.Landscaper.pyMinBy_fst,\n"
                    "      ← PersimVerif.SrcBridge.Landscaper.pyMaxBy_snd]\n"
                    "    cases sf <;> cases pf <;>\n"
                    "      cases PersimVerif.SrcLib.pyMinBy (fun pt => pt.1) (List.filter (fun p => fin p.1 && fin p.2) d) <;>\n"
                    "      cases PersimVerif.SrcLib.pyMaxBy (fun pt => pt.2) (List.filter (fun p => fin p.1 && fin p.2) d) <;>\n"
                    "      rfl",
                    "`X[self.hom_deg]` (IndexError), the finiteness filter, `min(…, key=itemgetter(0))[0]` / "
                    "`max(…, key=itemgetter(1))[1]` (ValueError on an empty list, evaluated only where the flag is off) guarded by "
                    "`_start_fixed` / `_stop_fixed`")]),
]

# ---- persim/landscapes/auxiliary.py : the arithmetic helpers  ->  Model/PLArith.lean (C09)
PLA_VARS = ("[Add α] [Sub α] [Mul α] [Div α] [Neg α] [Zero α] [One α] [LT α] [DecidableLT α]\n"
            "  [LE α] [DecidableLE α] [Max α] [Min α] [DecidableEq α] [NatCast α]")
LLA = Lst(Lst(A))
PLA = dict(file="plarith", variables=PLA_VARS, err="Err", index_err="Err.indexError",
           calls={"len": ("len",), "np.pad": ("pad_rows", "zeroRows", "width"), "np.abs": ("abs_int",)},
           local_types={"output": LPA, "result": LPA, "am": A, "bm": A})

TARGETS += [
    T(PLA, func="pos_to_slope_interp", lean="pos_to_slope_interp", pyparams=["l"], params=[("l", LPA)],
      raises=True, ret=LPA, result="Except Err (List (α × α))",
      obligations=[("pos_to_slope_interp_loop_eq", "(l : List (α × α)) (hl : l ≠ []) (out : List (α × α))",
                    "pos_to_slope_interp_loop out l ++ [((l.getLast hl).1, 0)] = out ++ posToSlope l",
                    "by\n  induction l generalizing out with\n  | nil => exact absurd rfl hl\n  | cons p tl ih =>\n"
                    "    cases tl with\n    | nil => simp [pos_to_slope_interp_loop, posToSlope]\n    | cons q r =>\n"
                    "      simp only [pos_to_slope_interp_loop, posToSlope, List.getLast_cons_cons]\n"
                    "      by_cases h : q.1 = p.1\n      · simp only [h, if_true]; exact ih (by simp) out\n"
                    "      · simp only [h, if_false]\n        rw [ih (by simp)]\n        simp",
                    "the loop over consecutive pairs (with `if x1 == x0: continue`) appends to `output` what the model's structural "
                    "recursion `posToSlope` conses, by induction over the list"),
                   ("src_pos_to_slope_interp_eq_model", "(l : List (α × α)) (hl : l ≠ [])",
                    "pos_to_slope_interp l = .ok (posToSlope l)",
                    "by\n  unfold pos_to_slope_interp\n  rw [List.getLast?_eq_some_getLast hl]\n  simp only\n"
                    "  rw [pos_to_slope_interp_loop_eq l hl []]\n  simp",
                    "`pos_to_slope_interp` on a non-empty depth is the model's `posToSlope`"),
                   ("src_pos_to_slope_interp_empty", "", "pos_to_slope_interp ([] : List (α × α)) = .error Err.indexError", "rfl",
                    "on `[]` the source raises IndexError (`l[-1]`), which is what `Exact.add` answers via `hasEmptyDepth`")]),
    T(PLA, func="slope_to_pos_interp", lean="slope_to_pos_interp", pyparams=["l"], params=[("l", LPA)],
      raises=True, ret=LPA, result="Except Err (List (α × α))",
      obligations=[("slope_to_pos_interp_loop_eq", "(l : List (α × α)) (out : List (α × α)) (x y : α)",
                    "slope_to_pos_interp_loop (out ++ [(x, y)]) l = .ok (out ++ [(x, y)] ++ slopeToPosAux y l)",
                    "by\n  induction l generalizing out x y with\n  | nil => simp [slope_to_pos_interp_loop, slopeToPosAux]\n"
                    "  | cons p tl ih =>\n    cases tl with\n    | nil => simp [slope_to_pos_interp_loop, slopeToPosAux]\n"
                    "    | cons q r =>\n"
                    "      simp only [slope_to_pos_interp_loop, slopeToPosAux, List.getLast?_append, List.getLast?_singleton]\n"
                    "      simp only [Option.some_or]\n      rw [ih]\n      simp",
                    "the loop reads `y0 = output[-1][1]` back from the accumulated list; the model carries it as an argument"),
                   ("src_slope_to_pos_interp_eq_model", "(l : List (α × α)) (hl : l ≠ [])",
                    "slope_to_pos_interp l = .ok (slopeToPos l)",
                    "by\n  cases l with\n  | nil => exact absurd rfl hl\n  | cons p tl =>\n"
                    "    simp only [slope_to_pos_interp, List.head?_cons, slopeToPos]\n"
                    "    have := slope_to_pos_interp_loop_eq (p :: tl) [] p.1 (0 : α)\n"
                    "    simp only [List.nil_append] at this\n    rw [this]\n    rfl",
                    "`slope_to_pos_interp` on a non-empty list is the model's `slopeToPos`"),
                   ("src_slope_to_pos_interp_empty", "", "slope_to_pos_interp ([] : List (α × α)) = .error Err.indexError", "rfl",
                    "on `[]` the source raises IndexError (`l[0]`)")]),
    T(PLA, func="sum_slopes", lean="sum_slopes", pyparams=["a", "b"], params=[("a", LPA), ("b", LPA)],
      ret=LPA, result="List (α × α)", while_split=["a", "b"],
      unread_ok=["bx"],             # third branch (`ax == bx`): `bx, bm = b[0]` and then `result.append([ax, am + bm])`
      obligations=[("sum_slopes_loop_eq", "(am bm : α) (a b : List (α × α)) (res : List (α × α))",
                    "sum_slopes_loop a b res am bm = res ++ sumSlopes am bm a b",
                    "by\n  fun_induction sumSlopes am bm a b generalizing res <;>\n    simp_all [sum_slopes_loop]",
                    "the `while` loop (three branches, running slopes `am`, `bm`, the lists consumed from the front; terminating "
                    "because `len(a) + len(b)` decreases — checked by Lean) appends to `result` what the model's recursion conses"),
                   ("src_sum_slopes_eq_model", "(a b : List (α × α))", "sum_slopes a b = sumSlopes 0 0 a b",
                    "by\n  simp [sum_slopes, sum_slopes_loop_eq]",
                    "`sum_slopes` is the model's `sumSlopes` started with `am = bm = 0`")]),
    T(PLA, func="union_vals", lean="union_vals", pyparams=["A", "B"], params=[("A", LLA), ("B", LLA)],
      ret=Pair(LLA, LLA), result="List (List α) × List (List α)",
      obligations=[("src_union_vals_eq_model", "(A B : List (List α))", "union_vals A B = unionVals A B",
                    "by\n  unfold union_vals unionVals\n  simp only\n  by_cases h1 : A.length < B.length\n"
                    "  · have : (A.length : Int) - (B.length : Int) < 0 := by omega\n"
                    "    have e : ((A.length : Int) - (B.length : Int)).natAbs = B.length - A.length := by omega\n"
                    "    simp [h1, this, e]\n"
                    "  · by_cases h2 : B.length < A.length\n"
                    "    · have n1 : ¬ ((A.length : Int) - (B.length : Int) < 0) := by omega\n"
                    "      have p2 : 0 < (A.length : Int) - (B.length : Int) := by omega\n"
                    "      have e : ((A.length : Int) - (B.length : Int)).toNat = A.length - B.length := by omega\n"
                    "      simp [h1, h2, n1, p2, e]\n"
                    "    · have n1 : ¬ ((A.length : Int) - (B.length : Int) < 0) := by omega\n"
                    "      have n2 : ¬ (0 < (A.length : Int) - (B.length : Int)) := by omega\n"
                    "      simp [h1, h2, n1, n2]",
                    "`diff = A.shape[0] - B.shape[0]` as an int, `np.pad` with `|diff|` / `diff` zero rows; the model compares the "
                    "lengths as naturals")]),
]

# ---- persim/landscapes/exact.py : the constructor of the landscapes the arithmetic works on (pinned as text, nothing translated)
# `np.asarray(dgms[self.hom_deg], dtype=float)` is /repo fix 56d4899 (narrow integer diagrams wrapped around in the midpoints):
# the models take real coordinates, so the conversion is the identity there and can only be pinned as text.
EXACT_INIT_TEXT = (
    'super().__init__(dgms=dgms, hom_deg=hom_deg)\n'
    'self.critical_pairs = critical_pairs\n'
    'if dgms:\n'
    '    self.dgms = np.asarray(dgms[self.hom_deg], dtype=float)\n'
    'else:\n'
    '    self.dgms = dgms\n'
    'if not dgms and (not critical_pairs):\n'
    "    raise ValueError('dgms and critical_pairs cannot both be empty')\n"
    'self.max_depth = len(self.critical_pairs)\n'
    'if compute:\n'
    '    self.compute_landscape()')

TARGETS += [
    dict(file="plarith", variables="", func="PersLandscapeExact.__init__", pyfile="persim/landscapes/exact.py", lean="exact_init",
         region="pin", pyparams=["self", "dgms", "hom_deg", "critical_pairs", "compute"], skeleton=EXACT_INIT_TEXT, obligations=[]),
]

# ---- persim/gromov_hausdorff.py  ->  Model/Graph.lean (C17)
IT = Named("IntType")
DM = Named("DMat")
GR = dict(file="graph", variables="", err="Err",
          consts={"np.int8": ("IntType.i8", IT), "np.int16": ("IntType.i16", IT), "np.int32": ("IntType.i32", IT),
                  "np.int64": ("IntType.i64", IT)},
          calls={"np.iinfo": ("iinfo_max", "IntType.max", IT), "np.argmax": ("fn", "argmaxFirst", [Lst(N)], N)},
          raises_table={"ValueError": "Err.tooLarge"})
GR_SKELETON = (
    "if not sps.issparse(AG):\n    AG = np.ascontiguousarray(AG)\nif sps.issparse(AG):\n"
    "    AG = AG.tocsr()\nDG = shortest_path(AG, directed=False, unweighted=True)\nif np.any(np.isinf(DG)):\n"
    "    warnings.warn('disconnected graph is approximated by its largest connected component')\n"
    "    _, components_by_vertex = connected_components(AG, directed=False)\n"
    "    components, component_sizes = np.unique(components_by_vertex, return_counts=True)\n    ...\n"
    "DG = cast_distance_matrix_to_optimal_int_type(DG)\nreturn DG")

TARGETS += [
    T(GR, func="determine_optimal_int_type", lean="determine_optimal_int_type", pyparams=["value"], params=[("value", N)],
      raises=True, ret=IT, result="Except Err IntType",
      obligations=[("src_determine_optimal_int_type_eq_model", "",
                    "determine_optimal_int_type = optimalIntType",
                    "by\n  funext v\n  unfold determine_optimal_int_type optimalIntType\n  simp only [List.head?_filter]\n"
                    "  cases List.find? (fun int_type => decide (v ≤ int_type.max)) [IntType.i8, IntType.i16, IntType.i32, IntType.i64] <;> rfl",
                    "the generator over `[np.int8, np.int16, np.int32, np.int64]` filtered by `value <= np.iinfo(t).max`, `next` of "
                    "it, `StopIteration` turned into `ValueError`: the model's `find?`")]),
    T(GR, func="make_distance_matrix_from_adjacency_matrix", lean="largest_component_restriction", region="range_in",
      first="largest_component = components[np.argmax(component_sizes)]",
      last="DG = DG[in_largest_component][:, in_largest_component]", count=3,
      pyparams=["AG"], err="PersimVerif.SrcLib.PyErr", index_err="PersimVerif.SrcLib.PyErr.indexError",
      params=[("components", Lst(N)), ("component_sizes", Lst(N)), ("components_by_vertex", Lst(N)), ("DG", DM)],
      raises=True, ret=DM, ret_name="DG", result="Except PersimVerif.SrcLib.PyErr DMat", mask_sub=("sub none", DM),
      skeleton=GR_SKELETON,
      obligations=[("src_largest_component_restriction_eq_model", "(D : DMat) (hc : 0 < numComponents D)",
                    "largest_component_restriction (List.range (numComponents D)) (sizes (labels D) (numComponents D)) (labels D) D =\n"
                    "      .ok (restrict D)",
                    "by\n  have hl := PersimVerif.SrcBridge.Graph.argmaxFirst_sizes_lt (labels D) hc\n"
                    "  simp only [largest_component_restriction, List.getElem?_range hl, restrict, largestComponent, largestLabel,\n"
                    "    PersimVerif.SrcBridge.Graph.maskIdx_eq_members]",
                    "the three selection statements of the disconnected-graph fallback, with what the two library calls before them "
                    "return as parameters: `connected_components` gives `labels D` (contract of Model/Graph.lean), `np.unique(…, "
                    "return_counts=True)` of labels `0 … c-1` gives `(range c, sizes)`; the result is the model's `restrict D`")]),
]

# ---- persim/landscapes/approximate.py, tools.py  ->  Model/Approx.lean (C08)
APX_VARS = ("[Add α] [Sub α] [Mul α] [Div α] [Neg α] [Zero α] [NatCast α] [LT α]\n"
            "  [DecidableLT α] [LE α] [DecidableLE α] [Max α] [Min α] [DecidableEq α]")
ODGM = Lst(Pair(OA, OA))
APX = dict(file="approx", variables=APX_VARS, err="Err", local_types={"j": N})
# `compute_landscape` around the translated statements (`...` = the midpoint and the two ramp loops of one bar): the early
# exit, the grid (`np.linspace(..., retstep=True)`), snapping, the index dictionary, the empty lists, the loop header and the
# two index look-ups; after the bars the DESCENDING sort of every `W[i]`, `K`, the zero matrix, the transposition `L[k][i] =
# W[i][k]`, the zero row for an invisible diagram.  Modelled by hand in Model/Approx.lean (`linspace`, `gridIndex`, `rampsW`,
# `valuesOfW`); this text is what that model was written against.
APX_SKELETON = (
    'verboseprint = print if verbose else lambda *a, **k: None\n'
    'if self.values.size:\n'
    "    verboseprint('values was stored, exiting')\n"
    '    return\n'
    "verboseprint('values was empty, computing values')\n"
    'grid_values, step = np.linspace(self.start, self.stop, self.num_steps, retstep=True)\n'
    'bd_pairs = self.dgms\n'
    'bd_pairs_grid = ndsnap_regular(bd_pairs, *(grid_values, grid_values))\n'
    'index = list(range(self.num_steps))\n'
    'dict_grid = dict(zip(grid_values, index))\n'
    'W = [[] for _ in range(self.num_steps)]\n'
    'for ind_in_bd_pairs, bd in enumerate(bd_pairs_grid):\n'
    '    [b, d] = bd\n'
    '    ind_in_Wb = dict_grid[b]\n'
    '    ind_in_Wd = dict_grid[d]\n'
    '    ...\n'
    'for i in range(len(W)):\n'
    '    W[i] = sorted(W[i], reverse=True)\n'
    'K = max([len(_) for _ in W])\n'
    'L = np.array([np.zeros(self.num_steps) for _ in range(K)])\n'
    'for i in range(self.num_steps):\n'
    '    for k in range(len(W[i])):\n'
    '        L[k][i] = W[i][k]\n'
    'if not L.size:\n'
    '    L = np.zeros((1, self.num_steps))\n'
    "    print('Bad choice of grid, values is empty')\n"
    'self.values = L\n'
    'self.max_depth = len(L)\n'
    'return')

TARGETS += [
    T(APX, func="PersLandscapeApprox.compute_landscape", lean="ramps", region="range_in",
      first=("assign", "mid_pt"), last="for _ in range(mid_pt + 1, ind_in_Wd):", count=5,
      pyparams=["self", "verbose"],
      params=[("step", A), ("ind_in_Wb", N), ("ind_in_Wd", N), ("W", LLA)],
      ret=LLA, ret_name="W", result="List (List α)", skeleton=APX_SKELETON,
      obligations=[("ramps_loop_eq", "(step : α) (ib : Nat) (l : List Nat) (j : Nat) (W : List (List α))",
                    "ramps_loop step ib W j l =\n      (List.range l.length).foldl (fun W t => appendAt W (ib + (j + t + 1)) (((j + t + 1 : Nat) : α) * step)) W",
                    "by\n  induction l generalizing j W with\n  | nil => rfl\n  | cons x l ih =>\n"
                    "    simp only [ramps_loop, List.length_cons, List.range_succ_eq_map, List.foldl_cons, List.foldl_map, ih, appendAt]\n"
                    "    simp only [Nat.add_zero, Nat.add_assoc, Nat.add_comm 1]",
                    "the first ramp loop (`j += 1; W[ind_in_Wb + j].append(j * step)`) carries `j`; the model's fold writes `t + 1`"),
                   ("ramps_loop_2_eq", "(step : α) (id : Nat) (l : List Nat) (j : Nat) (W : List (List α))",
                    "ramps_loop_2 step id W j l =\n      (List.range l.length).foldl (fun W t => appendAt W (id - (j + t + 1)) (((j + t + 1 : Nat) : α) * step)) W",
                    "by\n  have hsub : ∀ a b : Nat, ((a : Int) - (b : Int)).toNat = a - b := by omega\n"
                    "  induction l generalizing j W with\n  | nil => rfl\n  | cons x l ih =>\n"
                    "    simp only [ramps_loop_2, List.length_cons, List.range_succ_eq_map, List.foldl_cons, List.foldl_map, ih, appendAt, hsub]\n"
                    "    simp only [Nat.add_zero, Nat.add_assoc, Nat.add_comm 1]",
                    "the second ramp loop (`W[ind_in_Wd - j]`: the index is an int difference; inside the loop it is the natural one)"),
                   ("src_ramps_eq_model", "(step : α) (ib id : Nat) (W : List (List α))",
                    "ramps step ib id W = rampDown step (midPt ib id) id (rampUp step ib (midPt ib id) W)",
                    "by\n  simp only [ramps, midPt, rampUp, rampDown, ramps_loop_eq, ramps_loop_2_eq, List.length_range, Nat.zero_add]",
                    "the midpoint `mid_pt = ind_in_Wb + (ind_in_Wd - ind_in_Wb) // 2` (the model's `midPt`; floor division of ints is "
                    "`Int` `/`) and the two ramp loops of one bar (`j = 0` before each) are the model's `rampUp` then `rampDown`"),
                   ("src_ramps_eq_addBar", "(step : α) (grid : List α) (W : List (List α)) (p : α × α)",
                    "ramps step (gridIndex grid p.1) (gridIndex grid p.2) W = addBar step grid W p",
                    "by\n  simp only [addBar, src_ramps_eq_model]",
                    "with the two grid indices of a bar as `ind_in_Wb`, `ind_in_Wd`, the translated statements are the body `addBar` of "
                    "the model's loop over the bars")]),
    T(APX, func="death_vector", pyfile="persim/landscapes/tools.py", lean="death_vector", pyparams=["dgms", "hom_deg"],
      params=[("dgms", Lst(ODGM)), ("hom_deg", N)], raises=True, ret=Lst(OA), result="Except Err (List (Option α))",
      index_err="Err.homDeg", raises_table={"NotImplementedError": "Err.notImplemented"},
      calls={"sorted": ("sorted_desc", "geOpt", Lst(OA))}, defaults=[("hom_deg", "0")],
      obligations=[("src_death_vector_eq_model", "", "death_vector (α := α) = deathVector", "rfl",
                    "`hom_deg != 0` raises NotImplementedError, `dgms[hom_deg]` (IndexError), the death column sorted "
                    "descending (`none` = +inf first)")]),
]

# ---- persim/bottleneck.py, persim/wasserstein.py : the augmented matrix, entry by entry  ->  augD / augEntry (C01, C02)
# the preamble in front of the matrix (float conversion, finite-death filter with its warning, the (0,0) placeholder) is TRANSLATED
# by the matching engine (py2lean_matching.py, targets `bn_preamble` / `ws_preamble`): in the `srcSkeleton_aug_entry` text it is `...`

# what consumes the matrix: bottleneck's bisection over the sorted distinct entries with Hopcroft-Karp as the oracle and the
# extraction of the matching; wasserstein's `linear_sum_assignment` and the matching rows.  Modelled by hand (Model/Bottleneck,
# Model/Wasserstein: `bsearch`, `extractRows`, …, the solvers as parameters with contracts).
# Since the matching engine (py2lean_matching.py; Generated/SrcBottleneckSearch.lean, SrcWassersteinAssign.lean) TRANSLATES these
# statements, they are `...` in the text below as well: what is left is the `if <flag>:` header and the `return` statements.
BN_AFTER_SKELETON = '...\nif return_matching:\n    ...\n    return (bdist, np.array(matchidx))\nelse:\n    return bdist'
WS_AFTER_SKELETON = '...\nif matching:\n    ...\n    return (matchdist, ret)\nreturn matchdist'

TARGETS += [
    dict(file="bottleneck", func="bottleneck", lean="aug_entry", region="range_in", skeleton_mode="before",
         first="Sb, Sd = (S[:, 0], S[:, 1])", last="D[M:, 0:N] = UL", count=13, matrix="D",
         pyparams=["dgm1", "dgm2", "matching"],
         variables="[Sub α] [Div α] [Neg α] [Zero α] [OfNat α 2] [Max α] [LE α] [DecidableLE α]",
         result="Ext α", fin=".fin %s", top=".top",
         mcalls={"np.abs": ("fn1", "absM"), "np.maximum": ("fn2", "max"), "np.zeros": ("zeros",)},
         skeleton="...", skeleton_after=BN_AFTER_SKELETON, after_engine=True,
         obligations=[("src_aug_entry_eq_model", "", "aug_entry (α := α) = augD", "rfl",
                       "the block assignments `D[0:M, 0:N] = max(|Sb - Tb|, |Sd - Td|)`, `D[0:M, N::]` / `D[M::, 0:N]` = inf with "
                       "`0.5 * (death - birth)` on the diagonal, zeros elsewhere, read entry by entry: the model's `augD`")]),
    dict(file="wasserstein", func="wasserstein", lean="aug_entry", region="range_in", skeleton_mode="before",
         first="DUL = np.sqrt(np.sum((S[:, None, :] - T[None, :, :]) ** 2, axis=2))", last="D[M:N + M, 0:N] = UL", count=10,
         matrix="D", pyparams=["dgm1", "dgm2", "matching"],
         variables="[Add α] [Sub α] [Mul α] [Div α] [Zero α] [OfNat α 2]", fparams=[("sqrt", "α → α")],
         result="Option α", fin="some %s", top="none",
         mcalls={"np.sqrt": ("fn1", "sqrt"), "np.sum": ("sum_axis2",), "np.zeros": ("zeros",)},
         skeleton="...", skeleton_after=WS_AFTER_SKELETON, after_engine=True,
         obligations=[("src_aug_entry_eq_model", "", "aug_entry (α := α) = augEntry", "rfl",
                       "`DUL` from the coordinate differences, the three block assignments with "
                       "`(S[:, 1] - S[:, 0]) / np.sqrt(2)` / `(T[:, 1] - T[:, 0]) / np.sqrt(2)` on the diagonals (the /repo fix of the "
                       "diagonal cost: no rotation by pi/4, no `np.cos` / `np.sin` / `.dot` in the table any more), read entry by "
                       "entry: the model's `augEntry`")]),
]

FILES = {
    # key: (python source, generated Lean file, Lean namespace, imports, property, opened namespaces)
    "imager": ("persim/images.py", "SrcImager.lean", "PersimVerif.Src.images",
               "PersimVerif.Model.Imager\nimport PersimVerif.Lemmas.SrcBridgeImager", "C12", "PersimVerif.Imager"),
    "landscaper": ("persim/landscapes/transformer.py", "SrcLandscaper.lean", "PersimVerif.Src.landscapes_transformer",
                   "PersimVerif.Model.Transformers\nimport PersimVerif.Lemmas.SrcBridgeLandscaper", "C18",
                   "PersimVerif.Imager PersimVerif.Transformers"),
    "plarith": ("persim/landscapes/auxiliary.py", "SrcPLArith.lean", "PersimVerif.Src.landscapes_auxiliary_arith",
                "PersimVerif.Model.PLArith", "C09", "PersimVerif.PLArith"),
    "graph": ("persim/gromov_hausdorff.py", "SrcGraph.lean", "PersimVerif.Src.gromov_hausdorff",
              "PersimVerif.Model.Graph\nimport PersimVerif.Lemmas.SrcBridgeGraph", "C17", "PersimVerif.Graph"),
    "approx": ("persim/landscapes/approximate.py", "SrcApprox.lean", "PersimVerif.Src.landscapes_approximate",
               "PersimVerif.Model.Approx", "C08", "PersimVerif.Approx"),
    "bottleneck": ("persim/bottleneck.py", "SrcBottleneck.lean", "PersimVerif.Src.bottleneck",
                   "PersimVerif.Model.Bottleneck", "C01", "PersimVerif.Bottleneck"),
    "wasserstein": ("persim/wasserstein.py", "SrcWasserstein.lean", "PersimVerif.Src.wasserstein",
                    "PersimVerif.Model.Wasserstein", "C02", "PersimVerif.Wasserstein"),
}
BRIDGES = {"imager": ["PersimVerif/Lemmas/SrcLib.lean", "PersimVerif/Lemmas/SrcBridgeImager.lean"],
           "landscaper": ["PersimVerif/Lemmas/SrcLib.lean", "PersimVerif/Lemmas/SrcBridgeLandscaper.lean"],
           "graph": ["PersimVerif/Lemmas/SrcLib.lean", "PersimVerif/Lemmas/SrcBridgeGraph.lean"]}


from . import py2lean as _base  # noqa: E402   (registers this module's files when it is imported first)
if hasattr(_base, "_register"):
    _base._register()
