#!/bin/bash
# tools/import_round.sh <seed-src-dir> <needs.json>: import every finished seed listed in the JSON
# (key "Cxx-k" -> [name, needs]) from <seed-src-dir>/Cxx-out/ (patch<k>.diff, demo<k>.py); each is confirmed by tools/import_seed.py
cd "$(dirname "$0")/.."
SRC="$1"
python3 - "$SRC" "$2" <<'PY' > /var/tmp/import_cmds.txt
import json,sys,os
src=sys.argv[1]; m=json.load(open(sys.argv[2]))
for key,(name,needs) in m.items():
    prop,k=key.split("-")
    if os.path.exists("%s/%s-out/patch%s.diff"%(src,prop,k)) and not os.path.exists("seeded/%s/meta.json"%name):
        print("\t".join([prop,k,name,needs]))
PY
while IFS=$'\t' read -r prop k name needs; do
  ( SEED_SRC="$SRC" tools/import_seed.py "$prop" "$k" "$name" "$needs" ) &
  while [ $(jobs -r | wc -l) -ge 6 ]; do sleep 1; done
done < /var/tmp/import_cmds.txt
wait
