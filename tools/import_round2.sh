#!/bin/bash
# tools/import_round2.sh <needs.json>: import every finished round-2 seed listed in the JSON (key "Cxx-k" -> [name, needs])
cd /verif
python3 - "$1" <<'PY' > /tmp/r2_cmds.txt
import json,sys,os
m=json.load(open(sys.argv[1]))
for key,(name,needs) in m.items():
    prop,k=key.split("-")
    if os.path.exists("/tmp/seed2/%s-out/patch%s.diff"%(prop,k)) and not os.path.exists("/verif/seeded/%s/meta.json"%name):
        print("\t".join([prop,k,name,needs]))
PY
while IFS=$'\t' read -r prop k name needs; do
  ( SEED_SRC=/tmp/seed2 tools/import_seed.py "$prop" "$k" "$name" "$needs" ) &
  while [ $(jobs -r | wc -l) -ge 6 ]; do sleep 1; done
done < /tmp/r2_cmds.txt
wait
