#!/venv/bin/python
"""tools/run_all.py [--tier quick] [--seeds 0,1,2] [--jobs 6] [ids…] — run registered checks on the unchanged tree, summarise."""
import argparse, json, os, subprocess, sys, time, concurrent.futures as cf
VERIF = os.path.dirname(os.path.dirname(os.path.abspath(__file__)))
ap = argparse.ArgumentParser(); ap.add_argument("ids", nargs="*"); ap.add_argument("--tier", default="quick")
ap.add_argument("--seeds", default="0"); ap.add_argument("--jobs", type=int, default=6)
a = ap.parse_args()
man = json.load(open(os.path.join(VERIF, "MANIFEST.json")))
ids = a.ids or [c["property_id"] for c in man["checks"]]
def run(job):
    pid, seed = job
    t = time.time()
    env = dict(os.environ, VERIF_SEED=str(seed))
    p = subprocess.run(["/venv/bin/python", os.path.join(VERIF, "check.py"), pid, "--tier", a.tier], cwd=VERIF, env=env,
                       stdout=subprocess.PIPE, stderr=subprocess.STDOUT)
    out = p.stdout.decode(errors="replace")
    return pid, seed, p.returncode, round(time.time() - t, 1), [l for l in out.split("\n") if l.startswith(("VIOLATION", "KNOWN-FINDING", "INTERNAL"))][:3], out[-400:] if p.returncode == 2 else ""
jobs = [(i, int(s)) for s in a.seeds.split(",") for i in ids]
bad = 0
with cf.ThreadPoolExecutor(a.jobs) as ex:
    for pid, seed, rc, dt, lines, tail in ex.map(run, jobs):
        print("%s seed=%d exit=%d %.1fs %s" % (pid, seed, rc, dt, lines), flush=True)
        if tail: print(tail)
        bad += rc != 0
print("non-zero exits:", bad)
sys.exit(1 if bad else 0)
