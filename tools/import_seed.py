#!/venv/bin/python
"""tools/import_seed.py <PROP> <k> <name> "<needs>"  — copy /tmp/seed/<PROP>-out/patch<k>.diff + demo<k>.py into
seeded/<name>/, then CONFIRM independently in a scratch worktree: patch applies to /repo HEAD, the full test suite
passes with it, the demo exits 1 with it and 0 without.  Writes meta.json with what was run."""
import json, os, shutil, subprocess, sys
VERIF = os.path.dirname(os.path.dirname(os.path.abspath(__file__)))
prop, k, name, needs = sys.argv[1], sys.argv[2], sys.argv[3], sys.argv[4]
src = os.path.join(os.environ.get("SEED_SRC", "/tmp/seed"), "%s-out" % prop)
d = os.path.join(VERIF, "seeded", name)
os.makedirs(d, exist_ok=True)
shutil.copy(os.path.join(src, "patch%s.diff" % k), os.path.join(d, "patch.diff"))
shutil.copy(os.path.join(src, "demo%s.py" % k), os.path.join(d, "demo.py"))
wt = "/var/tmp/persim-seedverify-" + name
def sh(cmd, **kw):
    p = subprocess.run(cmd, stdout=subprocess.PIPE, stderr=subprocess.STDOUT, **kw)
    return p.returncode, p.stdout.decode(errors="replace")
sh(["git", "-C", "/repo", "worktree", "remove", "--force", wt])
rc, out = sh(["git", "-C", "/repo", "worktree", "add", "--detach", wt, "HEAD"])
assert rc == 0, out
try:
    rc, out = sh(["git", "-C", wt, "apply", os.path.join(d, "patch.diff")])
    assert rc == 0, "patch does not apply: " + out
    env = dict(os.environ, MPLBACKEND="Agg", PYTHONDONTWRITEBYTECODE="1")
    env.pop("PERSIM_VERIF", None)
    trc, tout = sh(["/venv/bin/python", "-m", "pytest", "-q", "-p", "no:cacheprovider", "--timeout=900"], cwd=wt, env=env)
    tail = [l for l in tout.strip().split("\n") if "passed" in l or "failed" in l][-1:]
    r1, o1 = sh(["/venv/bin/python", os.path.join(d, "demo.py"), wt], env=env)
    r0, o0 = sh(["/venv/bin/python", os.path.join(d, "demo.py"), "/repo"], env=env)
finally:
    sh(["git", "-C", "/repo", "worktree", "remove", "--force", wt])
    shutil.rmtree(wt, ignore_errors=True)
ok = trc == 0 and r1 == 1 and r0 == 0
meta = {"property": prop, "source": "independent sub-agent given only the property text and a scratch worktree of /repo",
        "needs": needs,
        "ran": {"pytest_with_change": tail, "pytest_exit": trc, "demo_with_change_exit": r1, "demo_without_exit": r0,
                "commands": ["git apply patch.diff (scratch worktree of /repo HEAD)", "/venv/bin/python -m pytest -q -p no:cacheprovider",
                             "demo.py <changed tree>", "demo.py /repo"]},
        "confirmed": ok}
json.dump(meta, open(os.path.join(d, "meta.json"), "w"), indent=1)
print(name, "CONFIRMED" if ok else "NOT CONFIRMED", tail, "demo with/without:", r1, r0)
if not ok:
    print(o1[-500:], o0[-500:])
