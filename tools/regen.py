#!/venv/bin/python
"""tools/regen.py [--check]: regenerate every lean/PersimVerif/Generated/* file from /repo (the tree the registered checks
run against), so that what is committed always builds with `cd lean && lake build`.  --check: exit 1 if a tracked
generated file differs from its regeneration (run before committing).  The registered checks never rely on this: they
regenerate what they import on every run."""
import os, subprocess, sys, warnings
VERIF = os.path.dirname(os.path.dirname(os.path.abspath(__file__)))
sys.path.insert(0, VERIF)
os.environ["PERSIM_ROOT"] = os.environ.get("VERIF_REGEN_ROOT") or "/repo"      # VERIF_REGEN_ROOT: a reviewed fix not yet committed to /repo
from harness import common
from harness.translator import consts, py2lean, py2ir
import fcntl
os.makedirs(os.path.join(common.LEAN_DIR, ".lake"), exist_ok=True)
with open(os.path.join(common.LEAN_DIR, ".lake", "verif.lock"), "w") as lock:      # the lock check.py holds while it builds
    fcntl.flock(lock, fcntl.LOCK_EX)
    consts.generate(common.REPO, common.LEAN_DIR)
    py2lean.generate(common.REPO, common.LEAN_DIR)
    with warnings.catch_warnings():
        warnings.simplefilter("ignore")
        py2ir.generate(common.REPO, common.LEAN_DIR)
    fcntl.flock(lock, fcntl.LOCK_UN)
out = subprocess.run(["git", "-C", VERIF, "status", "--short", "lean/PersimVerif/Generated"], stdout=subprocess.PIPE).stdout.decode()
print(out or "generated files equal their regeneration from /repo")
sys.exit(1 if ("--check" in sys.argv and out.strip()) else 0)
