#!/opt/veriftools/pyvenv/bin/python
"""tools/validate_evidence.py: every evidence/*.json and MANIFEST.json against the schemas in /root/.vp (maintenance tool;
jsonschema lives in the tooling venv).  Exit 1 on the first invalid file."""
import glob, json, os, sys
import jsonschema
V = os.path.dirname(os.path.dirname(os.path.abspath(__file__)))
bad = 0
ev = json.load(open("/root/.vp/EVIDENCE.schema.json"))
for f in sorted(glob.glob(os.path.join(V, "evidence", "C*.json"))):
    try:
        d = json.load(open(f)); jsonschema.validate(d, ev)
        c = d["coverage"]
        assert isinstance(c.get("obligations"), int) and c["obligations"] >= 1 and c.get("discharged") == c["obligations"], "obligations/discharged"
    except Exception as e:
        print("INVALID", f, str(e)[:300]); bad += 1
try:
    jsonschema.validate(json.load(open(os.path.join(V, "MANIFEST.json"))), json.load(open("/root/.vp/MANIFEST.schema.json")))
except Exception as e:
    print("INVALID MANIFEST", str(e)[:300]); bad += 1
print("evidence and manifest valid" if not bad else "%d invalid" % bad)
sys.exit(1 if bad else 0)
