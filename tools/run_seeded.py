#!/venv/bin/python
"""
Maintenance tool (not a registered check): run the checks against every seeded change in seeded/*/.

  tools/run_seeded.py [name ...] [--tier quick|thorough] [--jobs N] [--no-demo]

For each seeded/<name>/ (patch.diff, demo.py, meta.json naming the property):
  1. scratch worktree of /repo's HEAD outside /repo and /verif, `git apply patch.diff`;
  2. the demonstration must fail (exit 1) on the changed tree and pass (exit 0) on /repo;
  3. `PERSIM_ROOT=<scratch> ./check.py <property>` must exit 1 with a VIOLATION line;
  4. the scratch worktree is removed; generated Lean files are restored from git.
Results go to seeded/RESULTS.json / RESULTS.md.  /repo itself is never modified.
"""
import argparse, json, os, subprocess, sys, shutil, concurrent.futures as cf

VERIF = os.path.dirname(os.path.dirname(os.path.abspath(__file__)))
import hashlib
# one scratch area per checkout of /verif, so that two checkouts running the same seeded name do not collide
SCR = "/var/tmp/persim-seedrun-" + hashlib.sha1(VERIF.encode()).hexdigest()[:8]


def sh(cmd, cwd=None, env=None, timeout=3600):
    p = subprocess.run(cmd, cwd=cwd, env=env, stdout=subprocess.PIPE, stderr=subprocess.STDOUT, timeout=timeout)
    return p.returncode, p.stdout.decode(errors="replace")


def one(name, tier, demo):
    d = os.path.join(VERIF, "seeded", name)
    meta = json.load(open(os.path.join(d, "meta.json")))
    props = meta["property"] if isinstance(meta["property"], list) else [meta["property"]]
    wt = os.path.join(SCR, name)
    res = {"name": name, "property": props, "checks": {}}
    sh(["git", "-C", "/repo", "worktree", "remove", "--force", wt])
    shutil.rmtree(wt, ignore_errors=True)
    os.makedirs(SCR, exist_ok=True)
    rc, out = sh(["git", "-C", "/repo", "worktree", "add", "--detach", wt, "HEAD"])
    if rc != 0:
        res["error"] = "worktree: " + out[-500:]
        return res
    try:
        rc, out = sh(["git", "-C", wt, "apply", os.path.join(d, "patch.diff")])
        if rc != 0:
            res["error"] = "patch does not apply to /repo HEAD: " + out[-500:]
            return res
        dp = os.path.join(d, "demo.py")
        if demo and os.path.exists(dp):
            env = dict(os.environ, MPLBACKEND="Agg", PYTHONDONTWRITEBYTECODE="1")
            r1, o1 = sh(["/venv/bin/python", dp, wt], env=env, timeout=900)
            r0, o0 = sh(["/venv/bin/python", dp, "/repo"], env=env, timeout=900)
            res["demo_fails_with_change"] = r1 != 0
            res["demo_passes_without"] = r0 == 0
        for pid in props:
            env = dict(os.environ, PERSIM_ROOT=wt, VERIF_EVIDENCE_DIR=os.path.join(SCR, "evidence-" + name))
            env.setdefault("VERIF_SEED", "0")
            rc, out = sh(["/venv/bin/python", os.path.join(VERIF, "check.py"), pid, "--tier", tier], cwd=VERIF, env=env, timeout=3000)
            vio = [l for l in out.split("\n") if l.startswith("VIOLATION")]
            res["checks"][pid] = {"exit": rc, "violations": vio[:3], "found_input": any("no-failing-input-found" not in v for v in vio),
                                  "tail": out[-600:] if rc not in (0, 1) else ""}
    finally:
        sh(["git", "-C", "/repo", "worktree", "remove", "--force", wt])
        shutil.rmtree(wt, ignore_errors=True)
    return res


def main():
    ap = argparse.ArgumentParser()
    ap.add_argument("names", nargs="*")
    ap.add_argument("--tier", default="quick")
    ap.add_argument("--jobs", type=int, default=4)
    ap.add_argument("--no-demo", action="store_true")
    a = ap.parse_args()
    root = os.path.join(VERIF, "seeded")
    names = a.names or sorted(n for n in os.listdir(root) if os.path.exists(os.path.join(root, n, "meta.json")))
    results = []
    with cf.ThreadPoolExecutor(a.jobs) as ex:
        for r in ex.map(lambda n: one(n, a.tier, not a.no_demo), names):
            results.append(r)
            caught = {p: c["exit"] == 1 for p, c in r.get("checks", {}).items()}
            print(r["name"], r.get("error", ""), "demo:", r.get("demo_fails_with_change"), r.get("demo_passes_without"), "caught:", caught, flush=True)
    sh(["/venv/bin/python", os.path.join(VERIF, "tools", "regen.py")])      # generated Lean back to what /repo gives
    path = os.path.join(root, "RESULTS.json")
    old = {}
    if os.path.exists(path):
        old = {r["name"]: r for r in json.load(open(path))}
    for r in results:
        old[r["name"]] = r
    allr = [old[k] for k in sorted(old)]
    json.dump(allr, open(path, "w"), indent=1)
    with open(os.path.join(root, "RESULTS.md"), "w") as f:
        f.write("| seeded change | property | demo fails with / passes without | check exit | replay with failing input |\n|---|---|---|---|---|\n")
        for r in allr:
            for p, c in r.get("checks", {}).items():
                f.write("| %s | %s | %s / %s | %s | %s |\n" % (r["name"], p, r.get("demo_fails_with_change"), r.get("demo_passes_without"),
                                                          c["exit"], c["found_input"] if c["exit"] == 1 else "-"))
            if r.get("error"):
                f.write("| %s | %s | error: %s | | |\n" % (r["name"], r["property"], r["error"][:80]))
    missed = [r["name"] for r in results if any(c["exit"] != 1 for c in r.get("checks", {}).values()) or r.get("error")]
    print("missed or erroring:", missed)


if __name__ == "__main__":
    main()
