#!/venv/bin/python
"""Regenerate MANIFEST.json from the MANIFEST dicts of harness/props/cXX.py (and validate it)."""
import importlib, json, os, subprocess, sys
VERIF = os.path.dirname(os.path.dirname(os.path.abspath(__file__)))
sys.path.insert(0, VERIF)

ids = [json.loads(l)["id"] for l in open(os.path.join(VERIF, "properties.jsonl"))]
checks, na = [], []
NOT_BUILT = {}
nb_path = os.path.join(VERIF, "tools", "not_claimed.json")
if os.path.exists(nb_path):
    NOT_BUILT = json.load(open(nb_path))
for pid in ids:
    path = os.path.join(VERIF, "harness", "props", pid.lower() + ".py")
    if not os.path.exists(path) or pid in NOT_BUILT:
        na.append({"property_id": pid, "reason": NOT_BUILT.get(pid, "check not built yet (work in progress; the design in DESIGN.md section 6 applies)")})
        continue
    mod = importlib.import_module("harness.props." + pid.lower())
    m = mod.MANIFEST
    checks.append({
        "property_id": pid,
        "quick_cmd": "/venv/bin/python check.py %s --tier quick" % pid,
        "thorough_cmd": "/venv/bin/python check.py %s --tier thorough" % pid,
        "evidence_file": "evidence/%s.json" % pid,
        "replay_cmd_template": "/venv/bin/python check.py %s --replay {path}" % pid,
        "engine": "lean4-proof+correspondence",
        "level_claimed": {"category": mod.LEVEL, "text": m["text"], "design_ref": "DESIGN.md section 6, " + pid},
        "level_note": m["note"],
        "technique": m["technique"],
    })
hooks_commits = []
hp = os.path.join(VERIF, "tools", "hook_commits.txt")
if os.path.exists(hp):
    hooks_commits = [l.strip() for l in open(hp) if l.strip()]
man = {
    "version": 1,
    "setup_cmd": "cd lean && lake build",
    "hooks": {
        "guard": "PERSIM_VERIF",
        "enable": "environment variable PERSIM_VERIF=1, set by harness/common.py before it imports persim from /repo's working tree (pure Python: nothing to build)",
        "baseline_off_cmd": "cd /repo && env -u PERSIM_VERIF /venv/bin/python -m pytest -ra -q -p no:cacheprovider --timeout=900",
        "source_commits": hooks_commits,
        "add_only": True,
    },
    "engines": [{
        "name": "lean4-proof+correspondence",
        "path": "lean/ (theorems, models, driver), harness/ (correspondence), check.py",
        "serves_properties": [c["property_id"] for c in checks],
        "kind_free_text": "Lean 4 theorems about hand-written executable models (and, for C13/C19, models regenerated from the source by a translator); "
                          "a differential correspondence check ties every model to /repo's working tree on every run",
    }],
    "checks": checks,
    "notes": "Machine-checked proof in Lean 4.33/Mathlib: see DESIGN.md. Every check rebuilds the Lean targets it needs, audits axioms, "
             "and runs the correspondence against PERSIM_ROOT (default /repo). known_findings.txt lists fixed and known defects.",
    "not_applicable": na,
}
json.dump(man, open(os.path.join(VERIF, "MANIFEST.json"), "w"), indent=1)
try:
    subprocess.run(["python3-vt", "-c", "import json,jsonschema;jsonschema.validate(json.load(open('%s/MANIFEST.json')),json.load(open('/root/.vp/MANIFEST.schema.json')));print('MANIFEST valid: %d checks, %d not claimed')" % (VERIF, len(checks), len(na))], check=True)
except Exception as e:
    print("validation failed", e); sys.exit(1)
