import PersimVerif.Lemmas.SrcBridgeMGH
set_option linter.unusedVariables false
open PersimVerif.SrcNp PersimVerif.MGH

namespace T

def next_j (d : Nat) (reversed_u_distribution : List Nat) (i min_j : Nat) : Except PyErr (Option Nat) :=
  match nextWhere (fun j => (getItem reversed_u_distribution j).bind (fun t => .ok (decide (0 < t)))) (pyRange min_j (min ((i : Int) + ((d : Int) - 1)) ((reversed_u_distribution.length : Int) - 1) + 1)) with
  | .error e => .error e
  | .ok none =>
    .ok none
  | .ok (some j) =>
    .ok (some j)

def next_i_and_j (d : Nat) (reversed_v_distribution reversed_u_distribution : List Nat) (min_i min_j : Nat) : Except PyErr (Option Nat × Option Nat) :=
  match nextWhere (fun i => (getItem reversed_v_distribution i).bind (fun t => .ok (decide (0 < t)))) (pyRange min_i (reversed_v_distribution.length : Int)) with
  | .error e => .error e
  | .ok none =>
    .ok (none, some min_j)
  | .ok (some i) =>
    match next_j d reversed_u_distribution i (max ((i : Int) - ((d : Int) - 1)) (min_j : Int)).toNat with
    | .error e => .error e
    | .ok j =>
    .ok (some i, j)

def check_assignment_feasibility_loop (d : Nat) : Nat → List Nat → List Nat → Option Nat → Option Nat → Except PyErr (List Nat × List Nat × Option Nat × Option Nat)
  | 0, rv, ru, i, j =>
    match i, j with
    | some i_1, some j_1 => .error PyErr.bound
    | _, _ => .ok (rv, ru, i, j)
  | fuel + 1, rv, ru, i, j =>
    match i, j with
    | some i_1, some j_1 =>
      match getItem rv i_1 with
      | .error e => .error e
      | .ok t =>
      match getItem ru j_1 with
      | .error e => .error e
      | .ok t_1 =>
      if t ≤ t_1 then
        match getItem ru j_1 with
        | .error e => .error e
        | .ok t_2 =>
        match getItem rv i_1 with
        | .error e => .error e
        | .ok t_3 =>
        match setItem ru j_1 (t_2 - t_3) with
        | .error e => .error e
        | .ok ru_1 =>
        match setItem rv i_1 0 with
        | .error e => .error e
        | .ok rv_1 =>
        match next_i_and_j d rv_1 ru_1 i_1 j_1 with
        | .error e => .error e
        | .ok t_4 =>
        check_assignment_feasibility_loop d fuel rv_1 ru_1 t_4.1 t_4.2
      else
        match getItem rv i_1 with
        | .error e => .error e
        | .ok t_2 =>
        match getItem ru j_1 with
        | .error e => .error e
        | .ok t_3 =>
        match setItem rv i_1 (t_2 - t_3) with
        | .error e => .error e
        | .ok rv_1 =>
        match setItem ru j_1 0 with
        | .error e => .error e
        | .ok ru_1 =>
        match next_j d ru_1 i_1 j_1 with
        | .error e => .error e
        | .ok j_2 =>
        check_assignment_feasibility_loop d fuel rv_1 ru_1 (some i_1) j_2
    | _, _ => .ok (rv, ru, i, j)

def check_assignment_feasibility (v_distribution u_distribution : List Nat) (d : Nat) : Except PyErr Bool :=
  let d_1 : Nat := d
  let reversed_v_distribution : List Nat := v_distribution.reverse
  let reversed_u_distribution : List Nat := u_distribution.reverse
  match next_i_and_j d_1 reversed_v_distribution reversed_u_distribution 0 0 with
  | .error e => .error e
  | .ok t =>
  match check_assignment_feasibility_loop d_1 (reversed_v_distribution.length + reversed_u_distribution.length + 1) reversed_v_distribution reversed_u_distribution t.1 t.2 with
  | .error e => .error e
  | .ok (reversed_v_distribution_1, reversed_u_distribution_1, i, j) =>
  let is_assignment_feasible : Bool := j.isSome
  .ok is_assignment_feasible

open PersimVerif.SrcBridge.MGH

theorem src_next_j_eq_model (d : Nat) (hd : 1 ≤ d) (ru : List Nat) (i minJ : Nat) :
    next_j d ru i minJ = .ok (nextJ (d - 1) ru i minJ) := by
  unfold next_j nextJ
  rw [nextWhere_pos_pyRange _ _ _ (by omega)]
  have e : (min ((i : Int) + ((d : Int) - 1)) ((ru.length : Int) - 1) + 1).toNat = min (i + (d - 1) + 1) ru.length := by omega
  rw [e]
  cases firstPos ru minJ (min (i + (d - 1) + 1) ru.length) <;> rfl

theorem src_next_i_and_j_eq_model (d : Nat) (hd : 1 ≤ d) (rv ru : List Nat) (minI minJ : Nat) :
    next_i_and_j d rv ru minI minJ = .ok (nextIAndJ (d - 1) rv ru minI minJ) := by
  unfold next_i_and_j nextIAndJ
  rw [nextWhere_pos_pyRange _ _ _ (by omega)]
  simp only [Int.toNat_natCast]
  cases firstPos rv minI rv.length with
  | none => rfl
  | some i =>
    simp only [src_next_j_eq_model d hd]
    have e : (max ((i : Int) - ((d : Int) - 1)) (minJ : Int)).toNat = max (i - (d - 1)) minJ := by omega
    rw [e]



theorem check_assignment_feasibility_loop_exit_i (d fuel : Nat) (rv ru : List Nat) (j : Option Nat) :
    check_assignment_feasibility_loop d fuel rv ru none j = .ok (rv, ru, none, j) := by
  cases fuel <;> rfl

theorem check_assignment_feasibility_loop_exit_j (d fuel : Nat) (rv ru : List Nat) (i : Option Nat) :
    check_assignment_feasibility_loop d fuel rv ru i none = .ok (rv, ru, i, none) := by
  cases fuel <;> cases i <;> rfl

theorem check_assignment_feasibility_loop_eq (d : Nat) (hd : 1 ≤ d) : ∀ (fuel : Nat) (rv ru : List Nat) (i j : Nat),
    i < rv.length → j < ru.length → (rv.length - i) + (ru.length - j) < fuel →
    (check_assignment_feasibility_loop d fuel rv ru (some i) (some j)).map (fun r => r.2.2.2.isSome)
      = .ok (feasLoop (d - 1) fuel rv ru i j) := by
  intro fuel
  induction fuel with
  | zero => intro rv ru i j _ _ h; omega
  | succ fuel ih =>
    intro rv ru i j hi hj hm
    rw [check_assignment_feasibility_loop, feasLoop]
    simp only [getItem_of_lt hi, getItem_of_lt hj]
    split
    · simp only [setItem_of_lt _ hj, setItem_of_lt _ hi, src_next_i_and_j_eq_model d hd]
      split
      · rename_i x hx; simp only [hx, nextIAndJ_none hx, check_assignment_feasibility_loop_exit_i]; rfl
      · rename_i i' hx; simp only [hx, check_assignment_feasibility_loop_exit_j]; rfl
      · rename_i i' j' hx
        simp only [hx]
        obtain ⟨h1, h2, h3, h4⟩ := nextIAndJ_step hx
        simp only [List.length_set] at h4
        exact ih _ _ i' j' (by simpa using h2) (by simpa using h4) (by simp only [List.length_set]; omega)
    · simp only [setItem_of_lt _ hj, setItem_of_lt _ hi, src_next_j_eq_model d hd]
      split
      · rename_i hx; simp only [hx, check_assignment_feasibility_loop_exit_j]; rfl
      · rename_i j' hx
        simp only [hx]
        obtain ⟨h1, h2⟩ := nextJ_step hx
        exact ih _ _ i j' (by simpa using hi) (by simpa using h2) (by simp only [List.length_set]; omega)

theorem src_check_assignment_feasibility_eq_model (v u : List Nat) (d : Nat) (hd : 1 ≤ d) :
    check_assignment_feasibility v u d = .ok (checkAssignmentFeasibility v u d) := by
  unfold check_assignment_feasibility checkAssignmentFeasibility
  simp only [src_next_i_and_j_eq_model d hd]
  generalize hx : nextIAndJ (d - 1) v.reverse u.reverse 0 0 = r
  obtain ⟨oi, oj⟩ := r
  cases oi with
  | none => simp only [check_assignment_feasibility_loop_exit_i, nextIAndJ_none hx]; rfl
  | some i =>
    cases oj with
    | none => simp only [check_assignment_feasibility_loop_exit_j]; rfl
    | some j =>
      obtain ⟨hfp, hnj⟩ := nextIAndJ_some hx
      obtain ⟨_, hil, _, _⟩ := firstPos_some hfp
      obtain ⟨_, _, hjl, _, _⟩ := nextJ_some hnj.symm
      have := check_assignment_feasibility_loop_eq d hd (v.reverse.length + u.reverse.length + 1) v.reverse u.reverse i j hil hjl (by omega)
      revert this
      cases check_assignment_feasibility_loop d (v.reverse.length + u.reverse.length + 1) v.reverse u.reverse (some i) (some j) with
      | error e => intro h; cases h
      | ok r => intro h; simpa [Except.map] using h

end T
