import PersimVerif.Lemmas.SrcLibNp
import PersimVerif.Lemmas.MGHGreedy
open PersimVerif.SrcNp PersimVerif.MGH

namespace PersimVerif.SrcBridge.MGH

theorem getElem?_eq_some_getD {l : List Nat} {k : Nat} (h : k < l.length) : l[k]? = some (l.getD k 0) := by
  simp [List.getD, h]

/-- the generator `next(k for k in range(lo, lo + n) if l[k] > 0)` with all of the range inside `l`: no `IndexError`, and the
    model's bounded scan -/
theorem nextWhere_pos_range' (l : List Nat) (n lo : Nat) (h : lo + n ≤ l.length) :
    nextWhere (fun k => match l[k]? with
      | none => (.error PyErr.indexError : Except PyErr Bool)
      | some t => .ok (decide (0 < t))) (List.range' lo n) = .ok (firstPosFrom l n lo) := by
  induction n generalizing lo with
  | zero => rfl
  | succ n ih =>
    have hlo : lo < l.length := by omega
    simp only [List.range'_succ, nextWhere, firstPosFrom, getElem?_eq_some_getD hlo]
    by_cases hp : 0 < l.getD lo 0
    · simp only [hp, decide_true, if_true]
    · simp only [hp, decide_false, if_false]
      exact ih (lo + 1) (by omega)

theorem nextWhere_pos_pyRange (l : List Nat) (lo : Nat) (hi : Int) (h : hi.toNat ≤ l.length) :
    nextWhere (fun k => match l[k]? with
      | none => (.error PyErr.indexError : Except PyErr Bool)
      | some t => .ok (decide (0 < t))) (pyRange lo hi) = .ok (firstPos l lo hi.toNat) := by
  unfold pyRange firstPos
  by_cases hlo : lo ≤ hi.toNat
  · exact nextWhere_pos_range' l _ lo (by omega)
  · have : hi.toNat - lo = 0 := by omega
    rw [this]; rfl

end PersimVerif.SrcBridge.MGH
