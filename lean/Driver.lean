import PersimVerif.Drv.Entropy
import PersimVerif.Drv.Imager
import PersimVerif.Drv.Transformers
import PersimVerif.Drv.Bottleneck
import PersimVerif.Drv.Wasserstein
import PersimVerif.Drv.Landscape
import PersimVerif.Drv.Approx
import PersimVerif.Drv.PL
import PersimVerif.Drv.Image
import PersimVerif.Drv.Kernels
import PersimVerif.Drv.MGH
import PersimVerif.Drv.Heat
import PersimVerif.Drv.Sliced
import PersimVerif.Drv.Plot
import PersimVerif.Drv.IR
import PersimVerif.Drv.Graph
import PersimVerif.Drv.Rows
/-!
  Line-protocol driver: one operation per input line, one canonical answer per line.
  Imports the models only (no Mathlib), so it links as a `lean_exe`.
-/
open PersimVerif

def handlers : List Handler :=
  [Drv.Entropy.handle, Drv.Imager.handle, Drv.Transformers.handle, Drv.Bottleneck.handle,
   Drv.Wasserstein.handle, Drv.Landscape.handle, Drv.Approx.handle, Drv.PL.handle,
   Drv.Image.handle, Drv.Kernels.handle, Drv.MGH.handle, Drv.Heat.handle, Drv.Sliced.handle,
   Drv.Plot.handle, Drv.IR.handle, Drv.Graph.handle, Drv.Rows.handle]

def answer (line : String) : String :=
  match (line.trimAscii.toString.splitOn " ").filter (· ≠ "") with
  | [] => "bad-op"
  | op :: args =>
    if op == "ping" then "pong" else
    match args.mapM Val.parse with
    | none => "bad-op"
    | some vs =>
      match handlers.findSome? (fun h => h op vs) with
      | some v => v.render
      | none => "bad-op"

partial def loop (h : IO.FS.Stream) (out : IO.FS.Stream) : IO Unit := do
  let line ← h.getLine
  if line.isEmpty then return ()
  out.putStrLn (answer line)
  loop h out

def main : IO Unit := do
  let out ← IO.getStdout
  loop (← IO.getStdin) out
  out.flush
