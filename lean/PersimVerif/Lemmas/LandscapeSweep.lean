import PersimVerif.Lemmas.LandscapeSweepList
import PersimVerif.Lemmas.LandscapeSweepPL

/-!
# Helper lemmas for C03, part 6: the sweep without the repeated-bar shortcut computes the landscape

One pass of the inner loop (`inner`) extracts the upper envelope of the tents of the work list and
leaves a work list whose `k`-th largest tent is the `(k+1)`-st largest of the original one, at every `t`.
-/
set_option linter.unusedSectionVars false

namespace PersimVerif.LandscapeLemmas
open PersimVerif.PL PersimVerif.Landscape

variable {K : Type} [Field K] [LinearOrder K] [IsStrictOrderedRing K]

/-- the inner loop, one round, with the `let`s and the pair-valued `if` spelled out -/
theorem inner_succ (fuel : Nat) (b d : K) (A cur : List (K × K)) :
    inner (fuel + 1) b d A cur =
      if A.all (fun x => decide (x.2 ≤ d)) then some (cur ++ [(d, 0)], A)
      else match popFirst (fun x => decide (d < x.2)) A with
        | none => none
        | some ((b', d'), A1) =>
          if d < b' then inner fuel b' d' A1 (cur ++ [(d, 0)] ++ [(b', 0)] ++ [peak b' d'])
          else if d ≤ b' then inner fuel b' d' A1 (cur ++ [(b', 0)] ++ [peak b' d'])
          else inner fuel b' d' (pyInsert (insertPos b' d A1) (b', d) A1)
            (cur ++ [((b' + d) / 2, (d - b') / 2)] ++ [peak b' d']) := by
  rw [inner]
  by_cases hall : (A.all fun x => decide (x.2 ≤ d)) = true
  · rw [if_pos hall, if_pos hall]
  · rw [if_neg hall, if_neg hall]
    cases hpf : popFirst (fun x => decide (d < x.2)) A with
    | none => rfl
    | some r =>
      obtain ⟨⟨b', d'⟩, A1⟩ := r
      by_cases h1 : d < b'
      · simp [h1, h1.le, peak]
      · by_cases h2 : d ≤ b'
        · simp [h1, h2, peak]
        · simp [h1, h2, peak]

/-- the tent values of a work list at `t` -/
def vals (A : List (K × K)) (t : K) : List K := A.map (tentAt t)

theorem vals_nonneg (A : List (K × K)) (t : K) : ∀ v ∈ vals A t, 0 ≤ v := by
  intro v hv
  obtain ⟨p, _, rfl⟩ := List.mem_map.mp hv
  exact tent_nonneg p.1 p.2 t

theorem vals_perm {A B : List (K × K)} (h : A.Perm B) (t : K) : (vals A t).Perm (vals B t) := h.map _

omit [Field K] [LinearOrder K] [IsStrictOrderedRing K] in
theorem pairwise_zip_tail {β : Type} {R : β → β → Prop} : ∀ {l : List β}, l.Pairwise R →
    ∀ pq ∈ l.zip l.tail, R pq.1 pq.2
  | [], _, pq, h => by simp at h
  | [_], _, pq, h => by simp at h
  | a :: b :: t, hp, pq, h => by
    simp only [List.tail_cons, List.zip_cons_cons, List.mem_cons] at h
    rcases h with rfl | h
    · exact (List.pairwise_cons.mp hp).1 b (by simp)
    · exact pairwise_zip_tail (List.pairwise_cons.mp hp).2 pq (by simpa using h)

/-- strictly increasing abscissae, at least two points and zero end ordinates: the Boolean `wellFormed` -/
theorem wellFormed_of_asc {c : List (K × K)} (hasc : Asc c) (hlen : 2 ≤ c.length)
    (hfirst : ∀ p ∈ c.head?, p.2 = 0) (hlast : ∀ p ∈ c.getLast?, p.2 = 0) : wellFormed c = true := by
  match c, hlen with
  | (x0, y0) :: q :: r, _ =>
    have h0 : y0 = 0 := hfirst (x0, y0) (by simp)
    have hp : ((x0, y0) :: q :: r).Pairwise (fun p q => p.1 < q.1) := List.pairwise_map.mp hasc
    have hz := pairwise_zip_tail hp
    simp only [wellFormed, Bool.and_eq_true, beq_iff_eq, List.all_eq_true, decide_eq_true_eq]
    refine ⟨⟨h0, ?_⟩, fun pq hpq => hz pq hpq⟩
    cases hl : ((x0, y0) :: q :: r).getLast? with
    | none => simp at hl
    | some p =>
      have := hlast p (by rw [hl]; simp)
      simp [this]

/-- invariant of the inner loop.  `A0` is the work list at the start of the level, `(b,d)` the current
    bar, `A` the remaining work list, `pre ++ [peak b d]` the points collected so far. -/
structure Inv (A0 : List (K × K)) (b d : K) (A pre : List (K × K)) : Prop where
  hbd : b < d
  lenA : A.length < A0.length
  posA : ∀ q ∈ A, q.1 < q.2
  sorted : KeySorted A
  ahead : ∀ q ∈ A, d < q.2 → b < q.1
  hpre : pre ≠ []
  first : ∃ x0 rest, pre = (x0, 0) :: rest
  asc : Asc (pre ++ [peak b d])
  ge : ∀ t, tent b d t ≤ Gf (pre ++ [peak b d]) b d t
  dom : ∀ q ∈ A, q.2 ≤ d → ∀ t, tent q.1 q.2 t ≤ Gf (pre ++ [peak b d]) b d t
  kthId : ∀ t k, kth (vals A0 t) k = kth (Gf (pre ++ [peak b d]) b d t :: vals A t) k

/-- what one level delivers: the envelope, and a work list shifted by one order statistic -/
structure Post (A0 cur' A' : List (K × K)) : Prop where
  len : A'.length < A0.length
  posA : ∀ q ∈ A', q.1 < q.2
  sorted : KeySorted A'
  wf : wellFormed cur' = true
  top : ∀ t, evalPL cur' t = kth (vals A0 t) 0
  rest : ∀ t k, kth (vals A0 t) (k + 1) = kth (vals A' t) k

/-- the common part of Cases I–III: facts about the work list after popping `(b',d')` -/
private theorem pop_facts {d b' d' : K} {A A1 pre' post : List (K × K)}
    (hA : A = pre' ++ (b', d') :: post) (hA1 : A1 = pre' ++ post)
    (hpreA : ∀ y ∈ pre', (decide (d < y.2)) = false) (hdd' : d < d')
    (posA : ∀ q ∈ A, q.1 < q.2) (sorted : KeySorted A) :
    b' < d' ∧ (∀ q ∈ A1, q.1 < q.2) ∧ KeySorted A1 ∧ (∀ q ∈ A1, d' < q.2 → b' < q.1) ∧
      (∀ q ∈ A1, d < q.2 → q.2 ≤ d' → b' ≤ q.1) ∧ A.Perm ((b', d') :: A1) := by
  subst hA hA1
  have hsub : (pre' ++ post).Sublist (pre' ++ (b', d') :: post) :=
    List.Sublist.append (List.Sublist.refl _) (List.sublist_cons_self _ _)
  have hs := sorted
  unfold KeySorted at hs
  rw [List.pairwise_append] at hs
  have hpost : ∀ q ∈ post, KLe (b', d') q := (List.pairwise_cons.mp hs.2.1).1
  refine ⟨posA (b', d') (by simp), fun q hq => posA q (hsub.subset hq), sorted.sublist hsub, ?_, ?_,
    List.perm_middle⟩
  · intro q hq hlt
    rcases List.mem_append.mp hq with hq | hq
    · have := hpreA q hq
      simp only [decide_eq_false_iff_not, not_lt] at this
      exact absurd (lt_of_lt_of_le hdd' (le_of_lt (lt_of_lt_of_le hlt this))) (lt_irrefl _)
    · rcases hpost q hq with h | ⟨_, h⟩
      · exact h
      · exact absurd hlt (not_lt.mpr h)
  · intro q hq hlt _
    rcases List.mem_append.mp hq with hq | hq
    · have := hpreA q hq
      simp only [decide_eq_false_iff_not, not_lt] at this
      exact absurd hlt (not_lt.mpr this)
    · exact (hpost q hq).fst_le

/-- the order-statistics identity after one exchange step -/
private theorem kth_exchange {A0 A A1 : List (K × K)} {G G' m tp : K} {t : K} {b' d' : K}
    (hold : ∀ k, kth (vals A0 t) k = kth (G :: vals A t) k)
    (hperm : A.Perm ((b', d') :: A1)) (htp : tp = tent b' d' t)
    (hmax : G' = max G tp) (hmin : m = min G tp) (k : Nat) :
    kth (vals A0 t) k = kth (G' :: m :: vals A1 t) k := by
  rw [hold k, hmax, hmin]
  apply kth_perm
  have h1 : (G :: vals A t).Perm (G :: tp :: vals A1 t) := by
    apply List.Perm.cons
    rw [htp]
    exact vals_perm hperm t
  exact h1.trans (perm_max_min G tp _)

/-- **one level of the sweep is correct** (partial correctness: whenever the fuelled loop returns) -/
theorem inner_spec (A0 : List (K × K)) : ∀ (fuel : Nat) (b d : K) (A pre cur' A' : List (K × K)),
    Inv A0 b d A pre → inner fuel b d A (pre ++ [peak b d]) = some (cur', A') → Post A0 cur' A'
  | 0, _, _, _, _, _, _, _, h => by simp [inner] at h
  | fuel + 1, b, d, A, pre, cur', A', I, h => by
    rw [inner_succ] at h
    by_cases hall : (A.all fun x => decide (x.2 ≤ d)) = true
    · -- the level ends
      rw [if_pos hall] at h
      simp only [Option.some.injEq, Prod.mk.injEq] at h
      obtain ⟨rfl, rfl⟩ := h
      have hle : ∀ q ∈ A, q.2 ≤ d := by simpa using hall
      have hmax : ∀ t, ∀ v ∈ vals A t, v ≤ Gf (pre ++ [peak b d]) b d t := by
        intro t v hv
        obtain ⟨q, hq, rfl⟩ := List.mem_map.mp hv
        exact I.dom q hq (hle q hq) t
      refine ⟨I.lenA, I.posA, I.sorted, ?_, ?_, ?_⟩
      · obtain ⟨x0, rest, hpre⟩ := I.first
        have hasc : Asc (pre ++ [peak b d] ++ [(d, 0)]) := I.asc.snoc (mid_lt I.hbd).2
        apply wellFormed_of_asc hasc
        · simp
        · rw [hpre]; simp
        · simp
      · intro t
        rw [evalPL_close I.hpre I.hbd I.asc, I.kthId t 0, kth_cons_max_zero (hmax t)]
      · intro t k
        rw [I.kthId t (k + 1), kth_cons_max_succ (hmax t)]
    · rw [if_neg hall] at h
      cases hpf : popFirst (fun x : K × K => decide (d < x.2)) A with
      | none => rw [hpf] at h; simp at h
      | some r =>
        obtain ⟨⟨b', d'⟩, A1⟩ := r
        rw [hpf] at h
        simp only at h
        obtain ⟨pre', post, hA, hA1, hpreA, hpx⟩ := popFirst_spec _ A (b', d') A1 hpf
        have hdd' : d < d' := by simpa using hpx
        obtain ⟨hb'd', posA1, sortedA1, aheadA1, nestA1, hperm⟩ :=
          pop_facts hA hA1 hpreA hdd' I.posA I.sorted
        have hlenA1 : A1.length + 1 = A.length := by rw [hperm.length_eq]; rfl
        have hlen1 : A1.length < A0.length := by have := I.lenA; omega
        -- domination of the old work list by the new envelope, given `G' = max G tent'`
        have domA1 : ∀ {G' : K → K}, (∀ t, G' t = max (Gf (pre ++ [peak b d]) b d t) (tent b' d' t)) →
            ∀ q ∈ A1, q.2 ≤ d' → ∀ t, tent q.1 q.2 t ≤ G' t := by
          intro G' hG' q hq hq2 t
          rw [hG' t]
          by_cases hqd : q.2 ≤ d
          · have hqA : q ∈ A := hperm.mem_iff.mpr (List.mem_cons_of_mem _ hq)
            exact le_trans (I.dom q hqA hqd t) (le_max_left _ _)
          · exact le_trans (tent_mono (nestA1 q hq (not_le.mp hqd) hq2) hq2 t) (le_max_right _ _)
        have hfirst : ∀ ext : List (K × K), ∃ x0 rest, pre ++ ext = (x0, 0) :: rest := by
          intro ext
          obtain ⟨x0, rest, hpre⟩ := I.first
          exact ⟨x0, rest ++ ext, by rw [hpre]; simp⟩
        by_cases h1 : d < b'
        · -- Case I
          rw [if_pos h1] at h
          obtain ⟨hasc', hmax, hmin⟩ := Gf_caseI I.hpre I.asc I.hbd h1 hb'd' I.ge
          have hge' : ∀ t, tent b' d' t ≤ Gf (pre ++ [peak b d] ++ [(d, 0)] ++ [(b', 0)] ++ [peak b' d']) b' d' t := by
            intro t; rw [hmax t]; exact le_max_right _ _
          refine inner_spec A0 fuel b' d' A1 (pre ++ [peak b d] ++ [(d, 0)] ++ [(b', 0)]) cur' A' ?_ h
          refine ⟨hb'd', hlen1, posA1, sortedA1, aheadA1, by simp,
            by simpa [List.append_assoc] using hfirst [peak b d, (d, 0), (b', 0)],
            hasc', hge', domA1 hmax, ?_⟩
          intro t k
          rw [kth_exchange (I.kthId t) hperm rfl (hmax t) (hmin t).symm k]
          rw [kth_perm (List.Perm.swap _ _ _) k]
          apply kth_cons_zero
          intro v hv
          rcases List.mem_cons.mp hv with rfl | hv
          · exact Gf_nonneg hge' t
          · exact vals_nonneg A1 t v hv
        · rw [if_neg h1] at h
          by_cases h2 : d ≤ b'
          · -- Case II: touching bars
            rw [if_pos h2] at h
            have hbe : b' = d := le_antisymm (not_lt.mp h1) h2
            subst hbe
            obtain ⟨hasc', hmax, hmin⟩ := Gf_caseII I.hpre I.asc I.hbd hdd' I.ge
            have hge' : ∀ t, tent b' d' t ≤ Gf (pre ++ [peak b b'] ++ [(b', 0)] ++ [peak b' d']) b' d' t := by
              intro t; rw [hmax t]; exact le_max_right _ _
            refine inner_spec A0 fuel b' d' A1 (pre ++ [peak b b'] ++ [(b', 0)]) cur' A' ?_ h
            refine ⟨hb'd', hlen1, posA1, sortedA1, aheadA1, by simp,
              by simpa [List.append_assoc] using hfirst [peak b b', (b', 0)], hasc', hge', domA1 hmax, ?_⟩
            intro t k
            rw [kth_exchange (I.kthId t) hperm rfl (hmax t) (hmin t).symm k]
            rw [kth_perm (List.Perm.swap _ _ _) k]
            apply kth_cons_zero
            intro v hv
            rcases List.mem_cons.mp hv with rfl | hv
            · exact Gf_nonneg hge' t
            · exact vals_nonneg A1 t v hv
          · -- Case III: overlapping bars, the residual bar `(b', d)` goes back into the work list
            rw [if_neg h2] at h
            have hb'd : b' < d := not_le.mp h2
            have hbb' : b < b' := by
              have hmem : (b', d') ∈ A := by rw [hA]; simp
              exact I.ahead (b', d') hmem hdd'
            obtain ⟨hasc', hmax, hmin⟩ := Gf_caseIII I.hpre I.asc hbb' hb'd hdd' I.ge
            have hge' : ∀ t, tent b' d' t ≤
                Gf (pre ++ [peak b d] ++ [((b' + d) / 2, (d - b') / 2)] ++ [peak b' d']) b' d' t := by
              intro t; rw [hmax t]; exact le_max_right _ _
            have hpermA2 := pyInsert_perm (insertPos b' d A1) (b', d) A1
            refine inner_spec A0 fuel b' d' (pyInsert (insertPos b' d A1) (b', d) A1)
              (pre ++ [peak b d] ++ [((b' + d) / 2, (d - b') / 2)]) cur' A' ?_ h
            refine ⟨hb'd', ?_, ?_, keySorted_reinsert sortedA1 b' d, ?_, by simp,
              by simpa [List.append_assoc] using hfirst [peak b d, ((b' + d) / 2, (d - b') / 2)],
              hasc', hge', ?_, ?_⟩
            · rw [hpermA2.length_eq]
              have := I.lenA
              simp only [List.length_cons]
              omega
            · intro q hq
              rcases List.mem_cons.mp (hpermA2.mem_iff.mp hq) with rfl | hq
              · exact hb'd
              · exact posA1 q hq
            · intro q hq hlt
              rcases List.mem_cons.mp (hpermA2.mem_iff.mp hq) with rfl | hq
              · exact absurd hlt (not_lt.mpr hdd'.le)
              · exact aheadA1 q hq hlt
            · intro q hq hq2 t
              rcases List.mem_cons.mp (hpermA2.mem_iff.mp hq) with rfl | hq
              · exact le_trans (tent_mono le_rfl hdd'.le t) (hge' t)
              · exact domA1 hmax q hq hq2 t
            · intro t k
              rw [kth_exchange (I.kthId t) hperm rfl (hmax t) (hmin t).symm k]
              apply kth_perm
              apply List.Perm.cons
              exact (vals_perm hpermA2 t).symm

/-! ### the outer loop -/

/-- the invariant holds at the start of a level -/
theorem inv_init {b d : K} {A : List (K × K)} (hs : KeySorted ((b, d) :: A))
    (hp : ∀ q ∈ (b, d) :: A, q.1 < q.2) : Inv ((b, d) :: A) b d A [(b, 0)] := by
  have hbd : b < d := hp (b, d) (by simp)
  have hhead : ∀ q ∈ A, KLe (b, d) q := (List.pairwise_cons.mp hs).1
  refine ⟨hbd, by simp, fun q hq => hp q (List.mem_cons_of_mem _ hq), (List.pairwise_cons.mp hs).2, ?_, by simp,
    ⟨b, [], rfl⟩, Asc_init hbd, fun t => by rw [Gf_init hbd], ?_, ?_⟩
  · intro q hq hlt
    rcases hhead q hq with h | ⟨_, h⟩
    · exact h
    · exact absurd hlt (not_lt.mpr h)
  · intro q hq hq2 t
    rw [Gf_init hbd]
    exact tent_mono (hhead q hq).fst_le hq2 t
  · intro t k
    rw [Gf_init hbd]
    rfl

theorem evalDepth_cons_zero (c : List (K × K)) (M : List (List (K × K))) (t : K) :
    evalDepth (c :: M) 0 t = evalPL c t := rfl

theorem evalDepth_cons_succ (c : List (K × K)) (M : List (List (K × K))) (k : Nat) (t : K) :
    evalDepth (c :: M) (k + 1) t = evalDepth M k t := by
  unfold evalDepth; simp

theorem kth_nil (k : Nat) : kth ([] : List K) k = 0 := by
  unfold kth sortDesc; simp

/-- **the sweep without the shortcut**: whatever it returns is, depth by depth and at every `t`, the
    order statistics of the tents of its (key-sorted) work list -/
theorem outerNoShortcut_spec : ∀ (fuel : Nat) (A : List (K × K)) (L Lout : List (List (K × K))),
    KeySorted A → (∀ q ∈ A, q.1 < q.2) → outerNoShortcut fuel A L = some Lout →
      ∃ M, Lout = L ++ M ∧ (∀ c ∈ M, wellFormed c = true) ∧ M.length ≤ A.length ∧
        ∀ k t, evalDepth M k t = kth (vals A t) k
  | fuel, [], L, Lout, _, _, h => by
    have : Lout = L := by
      cases fuel <;> simpa [outerNoShortcut] using h.symm
    refine ⟨[], by simp [this], by simp, by simp, ?_⟩
    intro k t
    show evalDepth [] k t = kth [] k
    rw [kth_nil]; rfl
  | 0, _ :: _, _, _, _, _, h => by simp [outerNoShortcut] at h
  | fuel + 1, (b, d) :: A, L, Lout, hs, hp, h => by
    rw [outerNoShortcut] at h
    cases hin : inner (A.length + 1) b d A [(b, 0), ((b + d) / 2, (d - b) / 2)] with
    | none => rw [hin] at h; simp at h
    | some r =>
      obtain ⟨cur, A2⟩ := r
      rw [hin] at h
      simp only at h
      have hpost : Post ((b, d) :: A) cur A2 :=
        inner_spec ((b, d) :: A) (A.length + 1) b d A [(b, 0)] cur A2 (inv_init hs hp) hin
      obtain ⟨M', hM', hwf, hlen, hspec⟩ :=
        outerNoShortcut_spec fuel A2 (L ++ [cur]) Lout hpost.sorted hpost.posA h
      refine ⟨cur :: M', by rw [hM']; simp, ?_, ?_, ?_⟩
      · intro c hc
        rcases List.mem_cons.mp hc with rfl | hc
        · exact hpost.wf
        · exact hwf c hc
      · have := hpost.len
        simp only [List.length_cons] at this ⊢
        omega
      intro k t
      cases k with
      | zero => rw [evalDepth_cons_zero, hpost.top t]
      | succ k => rw [evalDepth_cons_succ, hspec k t, hpost.rest t k]

/-- **correctness of the sweep without the repeated-bar shortcut, for every diagram**: if it returns, the
    returned critical points are the landscape at every `t` and every depth -/
theorem sweepNoShortcut_sound {bars : List (K × K)} {L : List (List (K × K))}
    (hpos : ∀ p ∈ bars, p.1 < p.2) (h : sweepNoShortcut bars = some L) (k : Nat) (t : K) :
    evalDepth L k t = landscape bars k t := by
  unfold sweepNoShortcut at h
  have hperm := stableSort_perm keyLe bars
  obtain ⟨M, hM, _, _, hspec⟩ := outerNoShortcut_spec _ _ [] L (stableSort_keySorted bars)
    (fun q hq => hpos q (hperm.mem_iff.mp hq)) h
  have : L = M := by simpa using hM
  subst this
  rw [hspec k t]
  exact kth_perm (vals_perm hperm t) k

/-- … and every returned depth is well formed (≥ 2 points, strictly increasing abscissae, zero ends), and
    there are at most as many depths as bars -/
theorem sweepNoShortcut_wellFormed {bars : List (K × K)} {L : List (List (K × K))}
    (hpos : ∀ p ∈ bars, p.1 < p.2) (h : sweepNoShortcut bars = some L) :
    (∀ c ∈ L, wellFormed c = true) ∧ L.length ≤ bars.length := by
  unfold sweepNoShortcut at h
  have hperm := stableSort_perm keyLe bars
  obtain ⟨M, hM, hwf, hlen, _⟩ := outerNoShortcut_spec _ _ [] L (stableSort_keySorted bars)
    (fun q hq => hpos q (hperm.mem_iff.mp hq)) h
  have : L = M := by simpa using hM
  subst this
  exact ⟨hwf, by rw [← hperm.length_eq]; exact hlen⟩

/-! ### the sweep with the shortcut, when the shortcut does not fire -/

theorem dupLoop_ge (bd : K × K) : ∀ (fuel j : Nat) (A : List (K × K)) (dup : Nat),
    dup ≤ (dupLoop bd fuel j A dup).2
  | 0, _, _, _ => by simp [dupLoop]
  | fuel + 1, j, A, dup => by
    rw [dupLoop]
    cases A[j]? with
    | none => simp
    | some x =>
      simp only
      split
      · exact le_trans (Nat.le_succ dup) (dupLoop_ge bd fuel (j + 1) (A.eraseIdx j) (dup + 1))
      · simp

/-- no duplicate counted means the work list was not touched -/
theorem dupLoop_zero (bd : K × K) (fuel j : Nat) (A : List (K × K))
    (h : (dupLoop bd fuel j A 0).2 = 0) : (dupLoop bd fuel j A 0).1 = A := by
  cases fuel with
  | zero => simp [dupLoop]
  | succ fuel =>
    rw [dupLoop] at h ⊢
    cases hx : A[j]? with
    | none => simp
    | some x =>
      rw [hx] at h
      simp only at h ⊢
      split
      · rename_i heq
        rw [if_pos heq] at h
        have := dupLoop_ge bd fuel (j + 1) (A.eraseIdx j) (0 + 1)
        omega
      · rfl

theorem outer_succ (fuel : Nat) (b d : K) (A : List (K × K)) (L : List (List (K × K))) (f : Nat) :
    outer (fuel + 1) ((b, d) :: A) L f =
      match inner ((dupLoop (b, d) A.length 0 A 0).1.length + 1) b d (dupLoop (b, d) A.length 0 A 0).1
          [(b, 0), ((b + d) / 2, (d - b) / 2)] with
      | none => none
      | some (cur, A2) =>
        outer fuel A2 (L ++ cur :: List.replicate (dupLoop (b, d) A.length 0 A 0).2 cur)
          (f + (dupLoop (b, d) A.length 0 A 0).2) := by
  rw [outer]
  generalize dupLoop (b, d) A.length 0 A 0 = r
  obtain ⟨A1, dup⟩ := r
  rfl

theorem outer_fired_ge : ∀ (fuel : Nat) (A : List (K × K)) (L : List (List (K × K))) (f : Nat) (o : Out K),
    outer fuel A L f = some o → f ≤ o.fired
  | fuel, [], L, f, o, h => by
    have : o = ⟨L, f⟩ := by cases fuel <;> simpa [outer] using h.symm
    rw [this]
  | 0, _ :: _, _, _, _, h => by simp [outer] at h
  | fuel + 1, (b, d) :: A, L, f, o, h => by
    rw [outer_succ] at h
    split at h
    · simp at h
    · have := outer_fired_ge fuel _ _ _ o h
      omega

/-- if the shortcut never fires, the sweep is the sweep without the shortcut -/
theorem outer_not_fired : ∀ (fuel : Nat) (A : List (K × K)) (L : List (List (K × K))) (f : Nat) (o : Out K),
    outer fuel A L f = some o → o.fired = f → outerNoShortcut fuel A L = some o.cps
  | fuel, [], L, f, o, h, _ => by
    have : o = ⟨L, f⟩ := by cases fuel <;> simpa [outer] using h.symm
    rw [this]
    cases fuel <;> simp [outerNoShortcut]
  | 0, _ :: _, _, _, _, h, _ => by simp [outer] at h
  | fuel + 1, (b, d) :: A, L, f, o, h, hf => by
    rw [outer_succ] at h
    rw [outerNoShortcut]
    split at h
    · simp at h
    · rename_i cur A2 hin
      have hge := outer_fired_ge fuel _ _ _ o h
      have hdup : (dupLoop (b, d) A.length 0 A 0).2 = 0 := by omega
      have hA1 : (dupLoop (b, d) A.length 0 A 0).1 = A := dupLoop_zero _ _ _ _ hdup
      rw [hA1] at hin
      rw [hdup] at h
      rw [hin]
      simp only [List.replicate_zero, Nat.add_zero] at h
      exact outer_not_fired fuel A2 (L ++ [cur]) f o h hf

/-- **`sweep_correct_of_not_fired`**: for every diagram with bars of positive length — if the model of the
    current code returns and its repeated-bar shortcut did not fire, its critical points are the
    landscape at every `t` and every depth -/
theorem sweep_sound_of_not_fired {bars : List (K × K)} {o : Out K}
    (hpos : ∀ p ∈ bars, p.1 < p.2) (h : sweep bars = some o) (hf : o.fired = 0) (k : Nat) (t : K) :
    evalDepth o.cps k t = landscape bars k t := by
  unfold sweep at h
  have h2 := outer_not_fired _ _ _ _ o h hf
  exact sweepNoShortcut_sound hpos (by unfold sweepNoShortcut; exact h2) k t

end PersimVerif.LandscapeLemmas
