import PersimVerif.Lemmas.HeatForm
import PersimVerif.Lemmas.PMSum
import Mathlib.Analysis.SpecialFunctions.Exp
import Mathlib.Tactic.FieldSimp
import Mathlib.Tactic.Positivity

/-!
# Stability of the heat-kernel semi-norm w.r.t. partial matchings (helper for C14)

`N σ (diff F G) ≤ (cost of any partial matching between F and G) / √σ`, with the Euclidean distance
between matched points and `|d − b|/√2` for unmatched ones.  (Reininghaus et al., Thm. 2.)
-/
namespace PersimVerif.Lemmas.HeatForm
open PersimVerif.Heat PersimVerif.Lemmas PersimVerif.Spec

noncomputable def euclid (p q : ℝ × ℝ) : ℝ := Real.sqrt ((p.1 - q.1) ^ 2 + (p.2 - q.2) ^ 2)
noncomputable def toDiag (p : ℝ × ℝ) : ℝ := |p.2 - p.1| / Real.sqrt 2

/-! ### two Dirac masses -/

theorem E_self (σ : ℝ) (x : ℝ × ℝ) : E σ x x = 1 := by
  unfold E sqDist; simp

theorem Q_pair (σ : ℝ) (x y : ℝ × ℝ) :
    Q σ [(1, x), (-1, y)] [(1, x), (-1, y)] = 2 * (1 - E σ x y) := by
  simp only [Q, List.map_cons, List.map_nil, List.sum_cons, List.sum_nil, E_self, E_symm σ y x]
  ring

theorem one_sub_E_le (σ : ℝ) (x y : ℝ × ℝ) : 1 - E σ x y ≤ sqDist x y / (8 * σ) := by
  unfold E
  have := Real.add_one_le_exp (-(sqDist x y) / (8 * σ))
  have e : -(sqDist x y) / (8 * σ) = -(sqDist x y / (8 * σ)) := by ring
  rw [e] at this ⊢
  linarith

theorem sqDist_eq (x y : ℝ × ℝ) : sqDist x y = (x.1 - y.1) ^ 2 + (x.2 - y.2) ^ 2 := by
  unfold sqDist; ring

theorem sqDist_nonneg (x y : ℝ × ℝ) : 0 ≤ sqDist x y := by
  rw [sqDist_eq]; positivity

/-- `‖δ_x − δ_y‖ ≤ |x − y| / (2√σ)` -/
theorem N_pair_le (σ : ℝ) (hσ : 0 < σ) (x y : ℝ × ℝ) :
    N σ [(1, x), (-1, y)] ≤ euclid x y / (2 * Real.sqrt σ) := by
  unfold N euclid
  rw [Q_pair, ← sqDist_eq]
  have hs := Real.sqrt_pos.mpr hσ
  have h1 := one_sub_E_le σ x y
  have h2 : 2 * (1 - E σ x y) ≤ sqDist x y / (4 * σ) := by
    have : sqDist x y / (4 * σ) = 2 * (sqDist x y / (8 * σ)) := by field_simp; ring
    rw [this]; linarith
  calc Real.sqrt (2 * (1 - E σ x y)) ≤ Real.sqrt (sqDist x y / (4 * σ)) := Real.sqrt_le_sqrt h2
    _ = Real.sqrt (sqDist x y) / (2 * Real.sqrt σ) := by
        rw [Real.sqrt_div (sqDist_nonneg x y), Real.sqrt_mul (by norm_num : (0 : ℝ) ≤ 4)]
        have : Real.sqrt 4 = 2 := by
          rw [show (4 : ℝ) = 2 * 2 by norm_num]; exact Real.sqrt_mul_self (by norm_num)
        rw [this]

theorem euclid_mirror (p q : ℝ × ℝ) : euclid (mirror p) (mirror q) = euclid p q := by
  unfold euclid mirror; congr 1; ring

theorem euclid_self_mirror (p : ℝ × ℝ) : euclid p (mirror p) = 2 * toDiag p := by
  unfold euclid mirror toDiag
  have h2 : (0 : ℝ) ≤ 2 := by norm_num
  have hs : Real.sqrt 2 * Real.sqrt 2 = 2 := Real.mul_self_sqrt h2
  have hs0 : Real.sqrt 2 ≠ 0 := by positivity
  have e : (p.1 - p.2) ^ 2 + (p.2 - p.1) ^ 2 = 2 * ((p.2 - p.1) * (p.2 - p.1)) := by ring
  rw [e, Real.sqrt_mul h2, Real.sqrt_mul_self_eq_abs]
  field_simp
  nlinarith [abs_nonneg (p.2 - p.1)]

/-! ### one point against the diagonal, one point against another -/

theorem N_smul_neg (σ : ℝ) (S : SList) : N σ (smul (-1) S) = N σ S := by
  unfold N; rw [Q_smul_left, Q_smul_right]; congr 1; ring

/-- an unmatched point: `‖φ_p‖ ≤ toDiag p / √σ` -/
theorem N_sg_single_le (σ : ℝ) (hσ : 0 < σ) (p : ℝ × ℝ) : N σ (sg [p]) ≤ toDiag p / Real.sqrt σ := by
  have h := N_pair_le σ hσ p (mirror p)
  have hs := Real.sqrt_pos.mpr hσ
  rw [euclid_self_mirror] at h
  have e : 2 * toDiag p / (2 * Real.sqrt σ) = toDiag p / Real.sqrt σ := by field_simp
  rw [e] at h
  exact h

/-- a matched pair: `‖φ_p − φ_q‖ ≤ |p − q| / √σ` -/
theorem N_diff_single_le (σ : ℝ) (hσ : 0 < σ) (p q : ℝ × ℝ) :
    N σ (diff [p] [q]) ≤ euclid p q / Real.sqrt σ := by
  have hs := Real.sqrt_pos.mpr hσ
  have hc : N σ (diff [p] [q]) = N σ ([(1, p), (-1, q)] ++ smul (-1) [(1, mirror p), (-1, mirror q)]) := by
    refine N_congr σ fun T => ?_
    simp only [Q, diff, sg, smul, List.map_cons, List.map_nil, List.cons_append, List.nil_append,
      List.sum_cons, List.sum_nil]
    ring_nf
  rw [hc]
  refine le_trans (N_append_le σ hσ _ _) ?_
  rw [N_smul_neg]
  have h1 := N_pair_le σ hσ p q
  have h2 := N_pair_le σ hσ (mirror p) (mirror q)
  rw [euclid_mirror] at h2
  have e : euclid p q / Real.sqrt σ = euclid p q / (2 * Real.sqrt σ) + euclid p q / (2 * Real.sqrt σ) := by
    field_simp; ring
  rw [e]; linarith

/-! ### decomposition along a partial matching -/

theorem Q_flatten_left (σ : ℝ) (Ls : List SList) (T : SList) :
    Q σ Ls.flatten T = (Ls.map fun l => Q σ l T).sum := by
  induction Ls with
  | nil => simp [Q_nil_left]
  | cons l t ih => simp [Q_append_left, ih]

theorem N_nil (σ : ℝ) : N σ [] = 0 := by simp [N, Q_nil_left]

theorem N_flatten_le (σ : ℝ) (hσ : 0 < σ) (Ls : List SList) :
    N σ Ls.flatten ≤ (Ls.map (N σ)).sum := by
  induction Ls with
  | nil => simp [N_nil]
  | cons l t ih =>
    simp only [List.flatten_cons, List.map_cons, List.sum_cons]
    exact le_trans (N_append_le σ hσ _ _) (by linarith)

theorem Q_sg_eq_sum (σ : ℝ) (F : List (ℝ × ℝ)) (T : SList) :
    Q σ (sg F) T = (F.map fun p => Q σ (sg [p]) T).sum := by
  unfold sg
  rw [Q_append_left]
  simp only [Q, List.map_map, Function.comp_def, List.map_cons, List.map_nil, List.cons_append,
    List.nil_append, List.sum_cons, List.sum_nil, add_zero]
  rw [← sum_map_add']

theorem Q_sg_eq_finsum (σ : ℝ) (F : List (ℝ × ℝ)) (T : SList) :
    Q σ (sg F) T = ∑ i : Fin F.length, Q σ (sg [F.get i]) T := by
  rw [Q_sg_eq_sum]
  exact (Fin.sum_univ_fun_getElem F (fun p => Q σ (sg [p]) T)).symm

variable {F G : List (ℝ × ℝ)}

/-- the piece of the signed list paid for by row `i` -/
noncomputable def rowPiece (m : PM (Fin F.length) (Fin G.length)) (i : Fin F.length) : SList :=
  match m.f i with
  | some j => diff [F.get i] [G.get j]
  | none => sg [F.get i]

/-- the piece paid for by an unmatched column `j` -/
noncomputable def colPiece (m : PM (Fin F.length) (Fin G.length)) (j : Fin G.length) : SList :=
  match m.g j with
  | some _ => []
  | none => smul (-1) (sg [G.get j])

theorem N_rowPiece_le (σ : ℝ) (hσ : 0 < σ) (m : PM (Fin F.length) (Fin G.length)) (i : Fin F.length) :
    N σ (rowPiece m i) ≤
      m.rowCost (fun i j => euclid (F.get i) (G.get j)) (fun i => toDiag (F.get i)) i / Real.sqrt σ := by
  unfold rowPiece PM.rowCost
  cases m.f i with
  | none => exact N_sg_single_le σ hσ _
  | some j => exact N_diff_single_le σ hσ _ _

theorem N_colPiece_le (σ : ℝ) (hσ : 0 < σ) (m : PM (Fin F.length) (Fin G.length)) (j : Fin G.length) :
    N σ (colPiece m j) ≤ m.colCost (fun j => toDiag (G.get j)) j / Real.sqrt σ := by
  unfold colPiece PM.colCost
  cases m.g j with
  | none => simp only; rw [N_smul_neg]; exact N_sg_single_le σ hσ _
  | some i => simp [N_nil]

/-- the pieces add up to `F − G` -/
theorem Q_pieces (σ : ℝ) (m : PM (Fin F.length) (Fin G.length)) (T : SList) :
    Q σ ((List.ofFn (rowPiece m)).flatten ++ (List.ofFn (colPiece m)).flatten) T = Q σ (diff F G) T := by
  rw [Q_append_left, Q_flatten_left, Q_flatten_left, List.map_ofFn, List.map_ofFn, List.sum_ofFn,
    List.sum_ofFn, Q_diff_left, Q_sg_eq_finsum σ F, Q_sg_eq_finsum σ G]
  have hr : ∀ i, ((fun l => Q σ l T) ∘ rowPiece m) i =
      Q σ (sg [F.get i]) T - (m.f i).elim 0 (fun j => Q σ (sg [G.get j]) T) := by
    intro i
    simp only [Function.comp_apply, rowPiece]
    cases m.f i with
    | none => simp
    | some j => simp [Q_diff_left]
  have hc : ∀ j, ((fun l => Q σ l T) ∘ colPiece m) j =
      -((m.g j).elim (Q σ (sg [G.get j]) T) (fun _ => 0)) := by
    intro j
    simp only [Function.comp_apply, colPiece]
    cases m.g j with
    | none => simp [Q_smul_left]
    | some i => simp [Q_nil_left]
  simp only [hr, hc, Finset.sum_sub_distrib, Finset.sum_neg_distrib]
  rw [← PM.sum_reindex m (fun j => Q σ (sg [G.get j]) T)]
  ring

/-- **stability**: the semi-norm of `F − G` is at most the cost of any partial matching, over `√σ` -/
theorem N_diff_le_matching (σ : ℝ) (hσ : 0 < σ) (m : PM (Fin F.length) (Fin G.length)) :
    N σ (diff F G) ≤
      m.sumCost (fun i j => euclid (F.get i) (G.get j)) (fun i => toDiag (F.get i))
        (fun j => toDiag (G.get j)) / Real.sqrt σ := by
  rw [← N_congr σ (Q_pieces σ m)]
  refine le_trans (N_append_le σ hσ _ _) ?_
  refine le_trans (add_le_add (N_flatten_le σ hσ _) (N_flatten_le σ hσ _)) ?_
  rw [List.map_ofFn, List.map_ofFn, List.sum_ofFn, List.sum_ofFn]
  unfold PM.sumCost
  rw [add_div, Finset.sum_div, Finset.sum_div]
  exact add_le_add (Finset.sum_le_sum fun i _ => N_rowPiece_le σ hσ m i)
    (Finset.sum_le_sum fun j _ => N_colPiece_le σ hσ m j)

end PersimVerif.Lemmas.HeatForm
