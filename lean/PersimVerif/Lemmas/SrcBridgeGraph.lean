import PersimVerif.Lemmas.GraphComp
import PersimVerif.Lemmas.SrcLib
/-
  Bridging lemmas between the translator's library (`SrcLib.maskIdx`) and `Model/Graph.lean`, used by the generated
  obligations of `Generated/SrcGraph.lean` (C17).  Hand-written, core Lean only, about model and library definitions only.
-/
namespace PersimVerif.SrcBridge.Graph
open PersimVerif.Graph PersimVerif.SrcLib

/-- `np.argmax` of the component sizes is a valid component label -/
theorem argmaxFirst_sizes_lt (ls : List Nat) {c : Nat} (hc : 0 < c) : argmaxFirst (sizes ls c) < c := by
  have hne : sizes ls c ≠ [] := by
    intro h
    have := congrArg List.length h
    simp [sizes] at this
    omega
  have hm := maxList_mem hne
  have := List.idxOf_lt_length_of_mem hm
  simpa [argmaxFirst, sizes] using this

/-- the positions selected by the mask `labels == l` are the model's `members labels l` -/
theorem maskIdx_eq_members (ls : List Nat) (l : Nat) : maskIdx (ls.map (fun x => x == l)) = members ls l := by
  unfold maskIdx members
  simp only [List.length_map]
  apply List.filter_congr
  intro v hv
  have hv' : v < ls.length := by simpa using hv
  simp [List.getD, hv']

end PersimVerif.SrcBridge.Graph
