import PersimVerif.Lemmas.MGHLb
import PersimVerif.Lemmas.MGHDist

/-! soundness of `findLb`, given completeness of the greedy feasibility check -/
namespace PersimVerif.MGH
open PersimVerif.MGHSpec

/-- **[P2] statement**: when `checkAssignmentFeasibility` answers `false` on the distributions of two
    vectors with entries in `1..maxD`, no injective assignment within `< d` exists. -/
def GreedyComplete : Prop :=
  ∀ {ι κ : Type} [Finite ι] [Finite κ] (v : ι → ℕ) (u : κ → ℕ) (maxD d : ℕ), 1 ≤ d →
    (∀ k, 1 ≤ v k ∧ v k ≤ maxD) → (∀ l, 1 ≤ u l ∧ u l ≤ maxD) →
    checkAssignmentFeasibility (distOf v maxD) (distOf u maxD) d = false → ¬ Assignable v u d

theorem mem_insertUnique {x z : List ℕ} {ys : Mat} (h : z ∈ insertUnique x ys) : z = x ∨ z ∈ ys := by
  induction ys with
  | nil => simpa [insertUnique] using h
  | cons y ys ih =>
    simp only [insertUnique] at h
    split at h
    · simpa using h
    · split at h
      · right; exact h
      · rcases List.mem_cons.1 h with h | h
        · right; simp [h]
        · rcases ih h with h | h
          · left; exact h
          · right; simp [h]

theorem mem_uniqueMaxDistributions {ds : Mat} {kd : List ℕ} (h : kd ∈ uniqueMaxDistributions ds) :
    kd ∈ ds := by
  unfold uniqueMaxDistributions at h
  have : ∀ l : Mat, kd ∈ l.foldr insertUnique [] → kd ∈ l := by
    intro l
    induction l with
    | nil => simp
    | cons a l ih =>
      intro hk
      simp only [List.foldr_cons] at hk
      rcases mem_insertUnique hk with e | hk
      · simp [e]
      · simp [ih hk]
  exact (List.mem_filter.1 (this _ h)).1

theorem sub_eq (D : Mat) (idx : List ℕ) : sub D idx = idx.map fun i => idx.map (ent D i) := rfl

theorem row_eq_map {D : Mat} {n : ℕ} (hD : DistMat D n) (j : ℕ) (hj : j < D.length) :
    D[j] = (List.range n).map (ent D j) := by
  have hl : D[j].length = n := hD.row _ (List.getElem_mem hj)
  apply List.ext_getElem
  · simp [hl]
  · intro k h1 h2
    simp only [List.getElem_map, List.getElem_range]
    exact (ent_eq_getElem hj h1).symm

theorem trySide_sound (hG : GreedyComplete) {DX DY : Mat} {n m : ℕ} (hX : DistMat DX n)
    (hY : DistMat DY m) (keyMul : ℕ → ℕ → ℤ) {diamX maxDiam d : ℕ} (hd : 1 ≤ d)
    (hmX : matMax DX ≤ maxDiam) (hmY : matMax DY ≤ maxDiam)
    (h : trySide keyMul DX DY diamX maxDiam d = true) (f : Fin n → Fin m) :
    d ≤ dis (matFn DX n) (matFn DY m) f := by
  unfold trySide at h
  simp only [Bool.and_eq_true, decide_eq_true_eq] at h
  obtain ⟨_, hlen, hconf⟩ := h
  obtain ⟨hS, hP, hKS⟩ := largestBoundedCurvature_spec keyMul hX.len hX.row diamX d
  rw [hKS] at hlen hconf
  generalize largestBoundedCurvatureIdx keyMul DX diamX d = S at hS hP hlen hconf
  have hnd : S.Nodup := hS.nodup List.nodup_range
  have hlt : ∀ s ∈ S, s < n := fun s hs => List.mem_range.1 (hS.subset hs)
  unfold confirmLb at hconf
  rw [Bool.or_eq_true] at hconf
  rcases hconf with hA | hB
  · rw [decide_eq_true_eq, sub_length, hY.len] at hA
    exact thmA_core hY hS hP hA f
  · by_contra hcon
    have hfd : dis (matFn DX n) (matFn DY m) f < d := Nat.lt_of_not_le hcon
    unfold confirmRow at hB
    obtain ⟨kd, hkd, hall⟩ := List.any_eq_true.1 hB
    have hkd' := mem_uniqueMaxDistributions hkd
    unfold rowsAsDistributions at hkd'
    obtain ⟨row, hrow, rfl⟩ := List.mem_map.1 hkd'
    rw [sub_eq] at hrow
    obtain ⟨i, hi, rfl⟩ := List.mem_map.1 hrow
    have hin : i < n := hlt i hi
    have hassign := thmB_core hY hP (i := ⟨i, hin⟩) hi hfd
    set j := f ⟨i, hin⟩ with hj
    have hjl : j.val < DY.length := by rw [hY.len]; exact j.isLt
    have hyd : rowDistribution maxDiam DY[j.val] ∈ rowsAsDistributions DY maxDiam :=
      List.mem_map.2 ⟨_, List.getElem_mem hjl, rfl⟩
    have hfe := List.all_eq_true.1 hall _ hyd
    simp only [Bool.not_eq_true'] at hfe
    have hii : ent DX i i = 0 := (hX.zero_iff i i hin hin).2 rfl
    have hjj : ent DY j j = 0 := (hY.zero_iff j j j.isLt j.isLt).2 rfl
    have e1 := distOf_subtype hnd hlt (ent DX i) (fun s : Fin n => s.val ∈ S ∧ s ≠ ⟨i, hin⟩) maxDiam
      (by
        intro s t ht
        constructor
        · rintro ⟨⟨h1, _⟩, h2⟩; exact ⟨h1, h2⟩
        · rintro ⟨h1, h2⟩
          refine ⟨⟨h1, ?_⟩, h2⟩
          intro e; rw [e] at h2; simp only at h2; omega)
    have e2 := distOf_subtype (n := m) (S := List.range m) List.nodup_range
      (fun s hs => List.mem_range.1 hs) (ent DY j) (fun y : Fin m => y ≠ j) maxDiam
      (by
        intro s t ht
        constructor
        · rintro ⟨_, h2⟩; exact ⟨List.mem_range.2 s.isLt, h2⟩
        · rintro ⟨_, h2⟩
          refine ⟨?_, h2⟩
          intro e; rw [e] at h2; omega)
    rw [← row_eq_map hY j.val hjl] at e2
    rw [← e1, ← e2] at hfe
    refine hG _ _ maxDiam d hd ?_ ?_ hfe hassign
    · intro k
      refine ⟨?_, le_trans (ent_le_matMax DX _ _) hmX⟩
      have : ent DX i k.val.val ≠ 0 := fun h0 =>
        k.2.2 (Fin.ext ((hX.zero_iff i k.val.val hin k.val.isLt).1 h0).symm)
      omega
    · intro l
      refine ⟨?_, le_trans (ent_le_matMax DY _ _) hmY⟩
      have : ent DY j l.val.val ≠ 0 := fun h0 =>
        l.2 (Fin.ext ((hY.zero_iff j l.val.val j.isLt l.val.isLt).1 h0).symm)
      omega

theorem lbLoop_sound (hG : GreedyComplete) {DX DY : Mat} {n m : ℕ} [NeZero n] [NeZero m]
    (hX : DistMat DX n) (hY : DistMat DY m) (kmX kmY : ℕ → ℕ → ℤ) {diamX diamY maxDiam : ℕ}
    (hmX : matMax DX ≤ maxDiam) (hmY : matMax DY ≤ maxDiam) (d lb : ℕ)
    (hlb : lb ≤ mGH2 (matFn DX n) (matFn DY m)) :
    lbLoop kmX kmY DX DY diamX diamY maxDiam d lb ≤ mGH2 (matFn DX n) (matFn DY m) := by
  induction d generalizing lb with
  | zero => simpa [lbLoop] using hlb
  | succ d ih =>
    simp only [lbLoop]
    split
    · apply ih
      generalize hlb1 : (if trySide kmX DX DY diamX maxDiam (d + 1) = true then d + 1 else lb) = lb1
      have h1 : lb1 ≤ mGH2 (matFn DX n) (matFn DY m) := by
        subst hlb1
        split
        · rename_i ht
          have : d + 1 ≤ minDis (matFn DX n) (matFn DY m) :=
            le_minDis_iff.2 (trySide_sound hG hX hY kmX (by omega) hmX hmY ht)
          exact le_trans this (le_max_left _ _)
        · exact hlb
      split
      · rename_i ht
        simp only [Bool.and_eq_true] at ht
        have : d + 1 ≤ minDis (matFn DY m) (matFn DX n) :=
          le_minDis_iff.2 (trySide_sound hG hY hX kmY (by omega) hmY hmX ht.2)
        rw [mGH2]
        exact le_trans this (le_max_right _ _)
      · exact h1
    · exact hlb

/-- `find_lb` is a lower bound of `2·mGH`, given completeness of the greedy check -/
theorem findLb_le_mGH2 (hG : GreedyComplete) {DX DY : Mat} {n m : ℕ} [NeZero n] [NeZero m]
    (hX : DistMat DX n) (hY : DistMat DY m) (kmX kmY : ℕ → ℕ → ℤ) :
    findLb kmX kmY DX DY ≤ mGH2 (matFn DX n) (matFn DY m) := by
  unfold findLb
  exact lbLoop_sound hG hX hY kmX kmY (le_max_left _ _) (le_max_right _ _) _ _
    (trivialLb_le_mGH2 hX hY)

end PersimVerif.MGH
