import PersimVerif.Lemmas.GraphComp
/-!
  C17 helper lemmas, part 5 (core Lean only): what `makeDist` returns — the block of the BFS matrix on the
  selected vertices (all of them for a connected graph, the first largest component otherwise) — the
  warning flag, and the integer type.
-/
namespace PersimVerif.Graph

/-! ### finite matrices -/

theorem finRow_map_some {α : Type} (l : List α) (g : α → Nat) :
    finRow (l.map fun x => some (g x)) = some (l.map g) := by
  induction l with
  | nil => rfl
  | cons a l ih => simp [finRow, ih]

theorem finMat_map_some {α β : Type} (L : List β) (l : β → List α) (g : β → α → Nat) :
    finMat (L.map fun i => (l i).map fun j => some (g i j)) = some (L.map fun i => (l i).map (g i)) := by
  induction L with
  | nil => rfl
  | cons a L ih => simp [finMat, finRow_map_some, ih]

theorem ent_map_map {α : Type} (d : α) (idx : List Nat) (f : Nat → Nat → α) {a b : Nat}
    (ha : a < idx.length) (hb : b < idx.length) :
    ent d (idx.map fun i => idx.map (f i)) a b = f (idx.getD a 0) (idx.getD b 0) := by
  simp [ent, List.getD_eq_getElem?_getD, List.getElem?_map, List.getElem?_eq_getElem ha,
    List.getElem?_eq_getElem hb]

/-! ### the BFS matrix as a table, ∞ entries -/

theorem bfsAll_eq_tab (rows : BMat) :
    bfsAll rows = tab rows.length rows.length fun s t => dist rows s t := by
  refine mat_ext none (n := rows.length) (m := rows.length) _ _ (by simp) (by simp) (row_length_bfsAll rows)
    (row_length_tab _) ?_
  intro i j hi hj
  rw [ent_tab none _ hi hj]; rfl

theorem hasInf_iff (rows : BMat) :
    hasInf (bfsAll rows) = true ↔ ∃ s t, s < rows.length ∧ t < rows.length ∧ dist rows s t = none := by
  rw [bfsAll_eq_tab]
  simp only [hasInf, tab, List.any_eq_true, Option.isNone_iff_eq_none]
  constructor
  · rintro ⟨row, hrow, x, hx, hnone⟩
    obtain ⟨s, hs, e⟩ := List.mem_map.1 hrow
    subst e
    obtain ⟨t, ht, e⟩ := List.mem_map.1 hx
    subst e
    exact ⟨s, t, List.mem_range.1 hs, List.mem_range.1 ht, hnone⟩
  · rintro ⟨s, t, hs, ht, h⟩
    exact ⟨_, List.mem_map.2 ⟨s, List.mem_range.2 hs, rfl⟩, _, List.mem_map.2 ⟨t, List.mem_range.2 ht, rfl⟩, h⟩

/-- specification of connectedness, by walks -/
def Connected (rows : BMat) : Prop :=
  ∀ s t, s < rows.length → t < rows.length → ∃ k, Walk (Adj rows) k s t

theorem hasInf_false_iff_connected (rows : BMat) (hsym : Symm rows) :
    hasInf (bfsAll rows) = false ↔ Connected rows := by
  rw [← Bool.not_eq_true, hasInf_iff]
  constructor
  · intro h s t hs ht
    cases hd : dist rows s t with
    | none => exact absurd ⟨s, t, hs, ht, hd⟩ h
    | some d => exact ⟨d, (isDist_of_dist rows hsym hs ht hd).1⟩
  · rintro h ⟨s, t, hs, ht, hd⟩
    obtain ⟨k, hw⟩ := h s t hs ht
    exact (dist_eq_none_iff rows hsym hs ht).1 hd k hw

/-! ### the selected vertices -/

/-- the vertices whose rows and columns `makeDist` keeps -/
def selected (D : DMat) : List Nat := if hasInf D then largestComponent D else List.range D.length

section sel
variable (rows : BMat) (hsym : Symm rows)

theorem selected_lt {v : Nat} (h : v ∈ selected (bfsAll rows)) : v < rows.length := by
  unfold selected at h
  split at h
  · exact ((mem_members rows _ v).1 h).1
  · simpa using h

theorem selected_sorted : (selected (bfsAll rows)).Pairwise (· < ·) := by
  unfold selected
  split
  · exact members_sorted _ _
  · exact List.pairwise_lt_range

theorem selected_length_le : (selected (bfsAll rows)).length ≤ rows.length := by
  unfold selected
  split
  · unfold largestComponent members
    exact Nat.le_trans (List.length_filter_le _ _) (by simp)
  · simp

include hsym

theorem selected_ne_nil (hn : 0 < rows.length) : selected (bfsAll rows) ≠ [] := by
  unfold selected
  split
  · exact largestComponent_ne_nil rows hsym hn
  · intro h
    have : (List.range (bfsAll rows).length).length = 0 := by rw [h]; rfl
    rw [List.length_range, length_bfsAll] at this
    omega

theorem reach_of_mem_selected {a b : Nat} (ha : a ∈ selected (bfsAll rows)) (hb : b ∈ selected (bfsAll rows)) :
    Reach rows a b := by
  unfold selected at ha hb
  by_cases hinf : hasInf (bfsAll rows) = true
  · rw [if_pos hinf] at ha hb
    exact reach_of_mem_largest rows hsym ha hb
  · rw [if_neg hinf] at ha hb
    have ha' : a < rows.length := by simpa using ha
    have hb' : b < rows.length := by simpa using hb
    cases hd : dist rows a b with
    | none => exact absurd ((hasInf_iff rows).2 ⟨a, b, ha', hb', hd⟩) hinf
    | some d => exact (reach_iff rows a b).2 ⟨d, hd⟩

/-- the integer block: BFS distances between the selected vertices -/
def blockOf (rows : BMat) : Mat :=
  (selected (bfsAll rows)).map fun i => (selected (bfsAll rows)).map fun j => (dist rows i j).getD 0

omit hsym in
theorem blockOf_length : (blockOf rows).length = (selected (bfsAll rows)).length := by simp [blockOf]

omit hsym in
theorem blockOf_row_length : ∀ r ∈ blockOf rows, r.length = (selected (bfsAll rows)).length := by
  intro r hr
  simp only [blockOf, List.mem_map] at hr
  obtain ⟨i, _, rfl⟩ := hr
  simp

theorem sub_selected_eq :
    sub none (selected (bfsAll rows)) (bfsAll rows) =
      (selected (bfsAll rows)).map fun i => (selected (bfsAll rows)).map fun j =>
        some ((dist rows i j).getD 0) := by
  unfold sub
  apply List.map_congr_left
  intro i hi
  apply List.map_congr_left
  intro j hj
  obtain ⟨d, hd⟩ := (reach_iff rows i j).1 (reach_of_mem_selected rows hsym hi hj)
  show dist rows i j = _
  rw [hd]; rfl

theorem finMat_selected : finMat (sub none (selected (bfsAll rows)) (bfsAll rows)) = some (blockOf rows) := by
  rw [sub_selected_eq rows hsym]
  exact finMat_map_some _ _ _

/-- the vertex behind position `a` of the block -/
abbrev vtx (rows : BMat) (a : Nat) : Nat := (selected (bfsAll rows)).getD a 0

omit hsym in
theorem vtx_mem {a : Nat} (ha : a < (selected (bfsAll rows)).length) : vtx rows a ∈ selected (bfsAll rows) := by
  have : vtx rows a = (selected (bfsAll rows))[a] := by
    simp [vtx, List.getD_eq_getElem?_getD, List.getElem?_eq_getElem ha]
  rw [this]; exact List.getElem_mem ha

omit hsym in
theorem vtx_lt {a : Nat} (ha : a < (selected (bfsAll rows)).length) : vtx rows a < rows.length :=
  selected_lt rows (vtx_mem rows ha)

omit hsym in
theorem vtx_strictMono {a b : Nat} (hab : a < b) (hb : b < (selected (bfsAll rows)).length) :
    vtx rows a < vtx rows b := by
  have ha : a < (selected (bfsAll rows)).length := by omega
  have e1 : vtx rows a = (selected (bfsAll rows))[a] := by
    simp [vtx, List.getD_eq_getElem?_getD, List.getElem?_eq_getElem ha]
  have e2 : vtx rows b = (selected (bfsAll rows))[b] := by
    simp [vtx, List.getD_eq_getElem?_getD, List.getElem?_eq_getElem hb]
  rw [e1, e2]
  exact List.pairwise_iff_getElem.1 (selected_sorted rows) a b ha hb hab

omit hsym in
theorem vtx_inj {a b : Nat} (ha : a < (selected (bfsAll rows)).length) (hb : b < (selected (bfsAll rows)).length)
    (h : vtx rows a = vtx rows b) : a = b := by
  rcases Nat.lt_trichotomy a b with hlt | heq | hgt
  · have := vtx_strictMono rows hlt hb; omega
  · exact heq
  · have := vtx_strictMono rows hgt ha; omega

/-- every entry of the block is the BFS distance (hence the walk distance) between the two vertices -/
theorem dist_vtx {a b : Nat} (ha : a < (selected (bfsAll rows)).length) (hb : b < (selected (bfsAll rows)).length) :
    dist rows (vtx rows a) (vtx rows b) = some (entry (blockOf rows) a b) := by
  obtain ⟨d, hd⟩ := (reach_iff rows _ _).1 (reach_of_mem_selected rows hsym (vtx_mem rows ha) (vtx_mem rows hb))
  unfold entry blockOf
  rw [ent_map_map 0 _ _ ha hb, hd]; rfl

end sel

/-! ### integer type -/

theorem optimalIntType_ok {v : Nat} {t : IntType} (h : optimalIntType v = .ok t) :
    v ≤ t.max ∧ ∀ t' : IntType, t'.bits < t.bits → t'.max < v := by
  unfold optimalIntType at h
  simp only [List.find?] at h
  by_cases h1 : v ≤ IntType.i8.max
  · simp only [h1, decide_true] at h
    cases h
    exact ⟨h1, fun t' ht' => by cases t' <;> simp [IntType.bits] at ht'⟩
  · by_cases h2 : v ≤ IntType.i16.max
    · simp only [h1, h2, decide_true, decide_false] at h
      cases h
      exact ⟨h2, fun t' ht' => by cases t' <;> simp [IntType.bits] at ht' <;> omega⟩
    · by_cases h3 : v ≤ IntType.i32.max
      · simp only [h1, h2, h3, decide_true, decide_false] at h
        cases h
        refine ⟨h3, fun t' ht' => ?_⟩
        have e2 : IntType.i8.max ≤ IntType.i16.max := by decide
        cases t' <;> simp [IntType.bits] at ht' <;> omega
      · by_cases h4 : v ≤ IntType.i64.max
        · simp only [h1, h2, h3, h4, decide_true, decide_false] at h
          cases h
          refine ⟨h4, fun t' ht' => ?_⟩
          cases t' <;> simp [IntType.bits] at ht' <;> omega
        · simp [h1, h2, h3, h4] at h

theorem optimalIntType_isOk {v : Nat} (h : v ≤ 2 ^ 63 - 1) : ∃ t, optimalIntType v = .ok t := by
  unfold optimalIntType
  simp only [List.find?]
  by_cases h1 : v ≤ IntType.i8.max
  · exact ⟨.i8, by simp [h1]⟩
  · by_cases h2 : v ≤ IntType.i16.max
    · exact ⟨.i16, by simp [h1, h2]⟩
    · by_cases h3 : v ≤ IntType.i32.max
      · exact ⟨.i32, by simp [h1, h2, h3]⟩
      · have h4 : v ≤ IntType.i64.max := by simpa [IntType.max, IntType.bits] using h
        exact ⟨.i64, by simp [h1, h2, h3, h4]⟩

theorem optimalIntType_error {v : Nat} (h : 2 ^ 63 - 1 < v) : optimalIntType v = .error .tooLarge := by
  have m8 : IntType.i8.max = 127 := by decide
  have m16 : IntType.i16.max = 32767 := by decide
  have m32 : IntType.i32.max = 2147483647 := by decide
  have m64 : IntType.i64.max = 2 ^ 63 - 1 := by simp [IntType.max, IntType.bits]
  have h4 : ¬ v ≤ IntType.i64.max := by omega
  have h3 : ¬ v ≤ IntType.i32.max := by omega
  have h2 : ¬ v ≤ IntType.i16.max := by omega
  have h1 : ¬ v ≤ IntType.i8.max := by omega
  unfold optimalIntType
  simp [List.find?, h1, h2, h3, h4]

theorem entry_le_maxEntry (M : Mat) (i j : Nat) : entry M i j ≤ maxEntry M := by
  unfold entry ent maxEntry
  by_cases hi : i < M.length
  · by_cases hj : j < M[i].length
    · have e : (M.getD i []).getD j 0 = M[i][j] := by
        simp [List.getD_eq_getElem?_getD, List.getElem?_eq_getElem hi, List.getElem?_eq_getElem hj]
      rw [e]
      have h1 : M[i][j] ≤ maxList M[i] := le_maxList (List.getElem_mem hj)
      have h2 : maxList M[i] ≤ maxList (M.map maxList) :=
        le_maxList (List.mem_map.2 ⟨M[i], List.getElem_mem hi, rfl⟩)
      omega
    · have e : (M.getD i []).getD j 0 = 0 := by
        simp [List.getD_eq_getElem?_getD, List.getElem?_eq_getElem hi,
          List.getElem?_eq_none (Nat.le_of_not_lt hj)]
      rw [e]; exact Nat.zero_le _
  · have e : (M.getD i []).getD j 0 = 0 := by
      simp [List.getD_eq_getElem?_getD, List.getElem?_eq_none (Nat.le_of_not_lt hi)]
    rw [e]; exact Nat.zero_le _

theorem maxEntry_le {M : Mat} {b : Nat} (h : ∀ r ∈ M, ∀ x ∈ r, x ≤ b) : maxEntry M ≤ b := by
  unfold maxEntry
  apply maxList_le
  intro x hx
  obtain ⟨r, hr, rfl⟩ := List.mem_map.1 hx
  exact maxList_le (h r hr)

/-! ### what `makeDist` returns -/

theorem makeDist_eq_cast (A : Mat) (h : isSquare A = true) :
    makeDist A = cast (sub none (selected (bfsAll (adjOf A))) (bfsAll (adjOf A))) (hasInf (bfsAll (adjOf A))) := by
  unfold makeDist selected
  rw [if_pos h]
  cases hi : hasInf (bfsAll (adjOf A)) with
  | true => simp only [if_true]; rw [if_pos hi]; rfl
  | false =>
    simp only [Bool.false_eq_true, if_false]
    rw [if_neg (by simp [hi])]
    rw [sub_range_self none (bfsAll (adjOf A)) _ rfl (by
      intro r hr; rw [row_length_bfsAll _ r hr, length_bfsAll])]

theorem makeDist_ok_iff (A : Mat) (h : isSquare A = true) (r : DistResult) :
    makeDist A = .ok r ↔
      r.dist = blockOf (adjOf A) ∧ r.warned = hasInf (bfsAll (adjOf A)) ∧
        optimalIntType (maxEntry (blockOf (adjOf A))) = .ok r.intType := by
  rw [makeDist_eq_cast A h]
  unfold cast
  rw [finMat_selected (adjOf A) (adjOf_Symm A)]
  simp only
  cases ht : optimalIntType (maxEntry (blockOf (adjOf A))) with
  | error e => simp
  | ok t =>
    simp only [Except.ok.injEq]
    constructor
    · rintro rfl; exact ⟨rfl, rfl, rfl⟩
    · rintro ⟨h1, h2, h3⟩
      cases r
      simp_all

theorem blockOf_entry_lt (rows : BMat) (hsym : Symm rows) : ∀ r ∈ blockOf rows, ∀ x ∈ r, x < rows.length := by
  intro r hr x hx
  simp only [blockOf, List.mem_map] at hr
  obtain ⟨i, hi, rfl⟩ := hr
  obtain ⟨j, hj, rfl⟩ := List.mem_map.1 hx
  obtain ⟨d, hd⟩ := (reach_iff rows i j).1 (reach_of_mem_selected rows hsym hi hj)
  rw [hd]
  exact dist_lt rows (selected_lt rows hi) (selected_lt rows hj) hd

end PersimVerif.Graph
