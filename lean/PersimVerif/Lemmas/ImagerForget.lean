import PersimVerif.Lemmas.ImagerFit

/-!
# Helper lemmas for C18: `fit` overwrites everything except the pixel size
-/
namespace PersimVerif.Imager
set_option linter.unusedSectionVars false

variable {K : Type} [Field K] [LinearOrder K] [IsStrictOrderedRing K] [FloorRing K]

theorem setBirth_unfold (s : State K) (a b : K) :
    setBirth cl s a b =
      if s.ps = 0 then .error .zeroPixel
      else if ⌈(b - a) / s.ps⌉ + 1 < 0 ∨ s.ry + 1 < 0 then .error .negCount
      else .ok (afterBirth s a b) := by
  by_cases h0 : s.ps = 0
  · simp [setBirth, h0]
  by_cases h1 : (⌈(b - a) / s.ps⌉ + 1 < 0 ∨ s.ry + 1 < 0)
  · simp [setBirth, createMesh, nPixels, cl, h0, h1]
  · simp [setBirth, createMesh, nPixels, cl, h0, h1, afterBirth]

theorem setPers_unfold (s : State K) (c d : K) :
    setPers cl s c d =
      if s.ps = 0 then .error .zeroPixel
      else if s.rx + 1 < 0 ∨ ⌈(d - c) / s.ps⌉ + 1 < 0 then .error .negCount
      else .ok (afterPers s c d) := by
  by_cases h0 : s.ps = 0
  · simp [setPers, h0]
  by_cases h1 : (s.rx + 1 < 0 ∨ ⌈(d - c) / s.ps⌉ + 1 < 0)
  · simp [setPers, createMesh, nPixels, cl, h0, h1]
  · simp [setPers, createMesh, nPixels, cl, h0, h1, afterPers]

/-- both setters of `fit` in a row: the result mentions the old state only through `ps` -/
theorem fit_setters_forget (s s' : State K) (a b c d : K) (hps : s.ps = s'.ps)
    (hy : 0 ≤ s.ry + 1) (hy' : 0 ≤ s'.ry + 1) :
    (match setBirth cl s a b with
      | Except.error e => (Except.error e : Except Err (State K))
      | Except.ok s1 => setPers cl s1 c d) =
    (match setBirth cl s' a b with
      | Except.error e => (Except.error e : Except Err (State K))
      | Except.ok s1 => setPers cl s1 c d) := by
  rw [setBirth_unfold, setBirth_unfold, ← hps]
  by_cases h0 : s.ps = 0
  · simp [h0]
  by_cases h1 : ⌈(b - a) / s.ps⌉ + 1 < 0
  · simp [h0, h1]
  have n1 : ¬ (⌈(b - a) / s.ps⌉ + 1 < 0 ∨ s.ry + 1 < 0) := by omega
  have n2 : ¬ (⌈(b - a) / s.ps⌉ + 1 < 0 ∨ s'.ry + 1 < 0) := by omega
  simp only [h0, n1, n2, if_false]
  rw [setPers_unfold, setPers_unfold]
  have e1 : (afterBirth s a b).ps = s.ps := rfl
  have e2 : (afterBirth s' a b).ps = s.ps := by simp only [afterBirth]; exact hps.symm
  have e3 : (afterBirth s a b).rx = ⌈(b - a) / s.ps⌉ := rfl
  have e4 : (afterBirth s' a b).rx = ⌈(b - a) / s.ps⌉ := by simp only [afterBirth, ← hps]
  rw [e1, e2, e3, e4]
  by_cases h2 : (⌈(b - a) / s.ps⌉ + 1 < 0 ∨ ⌈(d - c) / s.ps⌉ + 1 < 0)
  · simp [h0, h2]
  simp only [h0, h2, if_false]
  congr 1
  simp only [afterPers, afterBirth, ← hps]

/-- **`fit` forgets**: from any two states with the same pixel size (and resolutions that
    `np.linspace` accepted, as in every state an operation returned) `fit` on the same data gives the
    same result — the same state, field by field, or the same rejection. -/
theorem fit_forgets (s s' : State K) (skew : Bool) (X : Input K) (hps : s.ps = s'.ps)
    (hy : 0 ≤ s.ry + 1) (hy' : 0 ≤ s'.ry + 1) : fit cl s skew X = fit cl s' skew X := by
  unfold fit
  cases scan skew ⟨none, none, none, none⟩ (ensureIterable X).1 with
  | error e => rfl
  | ok e =>
    rcases e with ⟨_ | a, _ | b, _ | c, _ | d⟩ <;> try rfl
    exact fit_setters_forget s s' a b c d hps hy hy'

/-! ### every state returned by an operation went through `_create_mesh` -/

theorem step_counts {s s' : State K} {op : Op K} (h : step cl s op = .ok s') :
    0 ≤ s'.rx + 1 ∧ 0 ≤ s'.ry + 1 := by
  cases op with
  | setBirth v0 v1 =>
    simp only [step, setBirth] at h
    split at h
    · cases h
    · exact ⟨(createMesh_counts h).1, (createMesh_counts h).2.1⟩
  | setPers v0 v1 =>
    simp only [step, setPers] at h
    split at h
    · cases h
    · exact ⟨(createMesh_counts h).1, (createMesh_counts h).2.1⟩
  | setPixel v =>
    simp only [step, setPixel] at h
    split at h
    · cases h
    · exact ⟨(createMesh_counts h).1, (createMesh_counts h).2.1⟩
  | fit skew X =>
    simp only [step, fit] at h
    split at h
    · cases h
    · split at h
      · cases h
      · simp only [setPers] at h
        split at h
        · cases h
        · exact ⟨(createMesh_counts h).1, (createMesh_counts h).2.1⟩
    · cases h

theorem ctor_counts {b0 b1 p0 p1 ps : K} {s : State K} (h : ctor cl b0 b1 p0 p1 ps = .ok s) :
    0 ≤ s.rx + 1 ∧ 0 ≤ s.ry + 1 := by
  simp only [ctor] at h
  split at h
  · cases h
  · exact ⟨(createMesh_counts h).1, (createMesh_counts h).2.1⟩

end PersimVerif.Imager
