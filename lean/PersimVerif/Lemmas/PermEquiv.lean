import Mathlib.Logic.Equiv.Fin.Basic
import Mathlib.Data.List.Perm.Basic
import Mathlib.Logic.Equiv.Option

/-!
A reordering of a list is a bijection of positions: bridge between `List.Perm` and the
index-type formulation used by the matching specification.
-/
namespace PersimVerif

theorem perm_exists_equiv {α : Type} {l l' : List α} (h : l.Perm l') :
    ∃ e : Fin l.length ≃ Fin l'.length, ∀ i, l'.get (e i) = l.get i := by
  induction h with
  | nil => exact ⟨Equiv.refl _, fun i => i.elim0⟩
  | @cons x l l' _ ih =>
    obtain ⟨e, he⟩ := ih
    refine ⟨(finSuccEquiv l.length).trans ((Equiv.optionCongr e).trans (finSuccEquiv l'.length).symm), ?_⟩
    intro i
    refine Fin.cases ?_ (fun k => ?_) i
    · simp
    · have := he k
      simp only [List.get_eq_getElem] at this
      simp [this]
  | swap x y l =>
    refine ⟨Equiv.swap (0 : Fin (l.length + 2)) 1, ?_⟩
    intro i
    refine Fin.cases ?_ (fun k => Fin.cases ?_ (fun m => ?_) k) i
    · simp [Equiv.swap_apply_left]
    · have : (Fin.succ (0 : Fin (l.length + 1))) = (1 : Fin (l.length + 2)) := rfl
      simp [this, Equiv.swap_apply_right]
    · have h0 : (Fin.succ (Fin.succ m) : Fin (l.length + 2)) ≠ 0 := Fin.succ_ne_zero _
      have h1 : (Fin.succ (Fin.succ m) : Fin (l.length + 2)) ≠ 1 := by
        intro h; have := congrArg Fin.val h; simp at this
      rw [Equiv.swap_apply_of_ne_of_ne h0 h1]
      simp
  | trans _ _ ih1 ih2 =>
    obtain ⟨e1, h1⟩ := ih1
    obtain ⟨e2, h2⟩ := ih2
    refine ⟨e1.trans e2, fun i => ?_⟩
    have a := h2 (e1 i)
    have b := h1 i
    simp only [List.get_eq_getElem] at a b
    simp [a, b]

end PersimVerif
