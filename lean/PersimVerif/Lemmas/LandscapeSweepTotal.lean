import PersimVerif.Lemmas.LandscapeSweep

/-!
# Helper lemmas for C03, part 7: the fuel of the model's loops always suffices

The model's loops are fuelled (`inner` with `|A|+1`, `outer` with `n+1` rounds) so that they are
structurally recursive.  Here: they never run out — the `Err.fuel` answer of the model is dead code.
Measure of the inner loop: the number of bars whose death exceeds the current death.
-/
set_option linter.unusedSectionVars false

namespace PersimVerif.LandscapeLemmas
open PersimVerif.PL PersimVerif.Landscape

variable {K : Type} [Field K] [LinearOrder K] [IsStrictOrderedRing K]

omit [Field K] [LinearOrder K] [IsStrictOrderedRing K] in
theorem popFirst_isSome {β : Type} (p : β → Bool) : ∀ (A : List β), (∃ x ∈ A, p x = true) → ∃ r, popFirst p A = some r
  | [], h => by obtain ⟨x, hx, _⟩ := h; simp at hx
  | a :: t, h => by
    unfold popFirst
    by_cases hp : p a = true
    · rw [if_pos hp]; exact ⟨_, rfl⟩
    · rw [if_neg hp]
      obtain ⟨x, hx, hpx⟩ := h
      rcases List.mem_cons.mp hx with rfl | hx
      · exact absurd hpx hp
      · obtain ⟨r, hr⟩ := popFirst_isSome p t ⟨x, hx, hpx⟩
        rw [hr]; exact ⟨_, rfl⟩

/-- the inner loop returns when its fuel exceeds the number of bars dying after the current one, and
    it never lengthens the work list -/
theorem inner_total : ∀ (fuel : Nat) (b d : K) (A cur : List (K × K)),
    A.countP (fun x => decide (d < x.2)) < fuel →
      ∃ cur' A', inner fuel b d A cur = some (cur', A') ∧ A'.length ≤ A.length
  | 0, _, _, _, _, h => absurd h (Nat.not_lt_zero _)
  | fuel + 1, b, d, A, cur, h => by
    rw [inner_succ]
    by_cases hall : (A.all fun x => decide (x.2 ≤ d)) = true
    · rw [if_pos hall]; exact ⟨_, _, rfl, le_rfl⟩
    · rw [if_neg hall]
      have hex : ∃ x ∈ A, decide (d < x.2) = true := by
        simp only [List.all_eq_true, decide_eq_true_eq, not_forall, not_le] at hall
        obtain ⟨x, hx, hlt⟩ := hall
        exact ⟨x, hx, by simpa using hlt⟩
      obtain ⟨r, hpf⟩ := popFirst_isSome _ A hex
      obtain ⟨⟨b', d'⟩, A1⟩ := r
      rw [hpf]
      simp only
      obtain ⟨pre', post, hA, hA1, _, hpx⟩ := popFirst_spec _ A (b', d') A1 hpf
      have hdd' : d < d' := by simpa using hpx
      have hperm : A.Perm ((b', d') :: A1) := by rw [hA, hA1]; exact List.perm_middle
      have hlen : A.length = A1.length + 1 := by rw [hperm.length_eq]; rfl
      have hcount : A.countP (fun x => decide (d < x.2)) = A1.countP (fun x => decide (d < x.2)) + 1 := by
        rw [hperm.countP_eq, List.countP_cons_of_pos (by simpa using hdd')]
      have hmono : A1.countP (fun x => decide (d' < x.2)) ≤ A1.countP (fun x => decide (d < x.2)) := by
        apply List.countP_mono_left
        intro x _ hx
        simp only [decide_eq_true_eq] at hx ⊢
        exact lt_trans hdd' hx
      have hfuel : A1.countP (fun x => decide (d' < x.2)) < fuel := by omega
      by_cases h1 : d < b'
      · rw [if_pos h1]
        obtain ⟨c, A', e, hl⟩ := inner_total fuel b' d' A1 _ hfuel
        exact ⟨c, A', e, by omega⟩
      · rw [if_neg h1]
        by_cases h2 : d ≤ b'
        · rw [if_pos h2]
          obtain ⟨c, A', e, hl⟩ := inner_total fuel b' d' A1 _ hfuel
          exact ⟨c, A', e, by omega⟩
        · rw [if_neg h2]
          have hp2 := pyInsert_perm (insertPos b' d A1) (b', d) A1
          have hc2 : (pyInsert (insertPos b' d A1) (b', d) A1).countP (fun x => decide (d' < x.2)) =
              A1.countP (fun x => decide (d' < x.2)) := by
            rw [hp2.countP_eq, List.countP_cons_of_neg (by simpa using hdd'.le)]
          have hl2 : (pyInsert (insertPos b' d A1) (b', d) A1).length = A1.length + 1 := by
            rw [hp2.length_eq]; rfl
          obtain ⟨c, A', e, hl⟩ := inner_total fuel b' d' _ _ (by rw [hc2]; exact hfuel)
          exact ⟨c, A', e, by omega⟩

theorem dupLoop_length (bd : K × K) : ∀ (fuel j : Nat) (A : List (K × K)) (dup : Nat),
    (dupLoop bd fuel j A dup).1.length ≤ A.length
  | 0, _, _, _ => by simp [dupLoop]
  | fuel + 1, j, A, dup => by
    rw [dupLoop]
    cases A[j]? with
    | none => simp
    | some x =>
      simp only
      split
      · exact le_trans (dupLoop_length bd fuel (j + 1) (A.eraseIdx j) (dup + 1)) (List.length_eraseIdx_le _ _)
      · simp

/-- the outer loop returns when its fuel exceeds the length of the work list -/
theorem outerNoShortcut_total : ∀ (fuel : Nat) (A : List (K × K)) (L : List (List (K × K))),
    A.length < fuel → ∃ Lout, outerNoShortcut fuel A L = some Lout
  | fuel, [], L, _ => ⟨L, by cases fuel <;> simp [outerNoShortcut]⟩
  | 0, _ :: _, _, h => absurd h (Nat.not_lt_zero _)
  | fuel + 1, (b, d) :: A, L, h => by
    rw [outerNoShortcut]
    obtain ⟨cur, A2, e, hl⟩ := inner_total (A.length + 1) b d A [(b, 0), ((b + d) / 2, (d - b) / 2)]
      (Nat.lt_succ_of_le (List.countP_le_length))
    rw [e]
    simp only
    exact outerNoShortcut_total fuel A2 _ (by simp only [List.length_cons] at h; omega)

theorem outer_total : ∀ (fuel : Nat) (A : List (K × K)) (L : List (List (K × K))) (f : Nat),
    A.length < fuel → ∃ o, outer fuel A L f = some o
  | fuel, [], L, f, _ => ⟨⟨L, f⟩, by cases fuel <;> simp [outer]⟩
  | 0, _ :: _, _, _, h => absurd h (Nat.not_lt_zero _)
  | fuel + 1, (b, d) :: A, L, f, h => by
    rw [outer_succ]
    have hd := dupLoop_length (b, d) A.length 0 A 0
    obtain ⟨cur, A2, e, hl⟩ := inner_total ((dupLoop (b, d) A.length 0 A 0).1.length + 1) b d
      (dupLoop (b, d) A.length 0 A 0).1 [(b, 0), ((b + d) / 2, (d - b) / 2)]
      (Nat.lt_succ_of_le (List.countP_le_length))
    rw [e]
    simp only
    exact outer_total fuel A2 _ _ (by simp only [List.length_cons] at h; omega)

/-- **the model of `compute_landscape` always returns** (with and without the shortcut) -/
theorem sweep_total (bars : List (K × K)) : ∃ o, sweep bars = some o := by
  unfold sweep
  exact outer_total _ _ _ _ (by rw [(stableSort_perm keyLe bars).length_eq]; exact Nat.lt_succ_self _)

theorem sweepNoShortcut_total (bars : List (K × K)) : ∃ L, sweepNoShortcut bars = some L := by
  unfold sweepNoShortcut
  exact outerNoShortcut_total _ _ _ (by rw [(stableSort_perm keyLe bars).length_eq]; exact Nat.lt_succ_self _)

omit [LinearOrder K] [IsStrictOrderedRing K] in
theorem finiteBars_ne_fuel : ∀ (D : List (K × Option K)), finiteBars D ≠ .error .fuel
  | [] => by simp [finiteBars]
  | (_, none) :: _ => by simp [finiteBars]
  | (b, some d) :: t => by
    have ih := finiteBars_ne_fuel t
    unfold finiteBars
    cases h : finiteBars t with
    | ok r => simp
    | error e =>
      simp only
      intro he
      have : e = .fuel := by simpa using he
      exact ih (by rw [h, this])

omit [LinearOrder K] [IsStrictOrderedRing K] in
theorem dropTrailingInf_error {D : List (K × Option K)} {e : Err} (h : dropTrailingInf D = .error e) :
    e = .indexError := by
  unfold dropTrailingInf at h
  split at h
  · simpa using h.symm
  · simp at h
  · simp at h

omit [LinearOrder K] [IsStrictOrderedRing K] in
theorem selectBars_ne_fuel (dgms : List (List (K × Option K))) (h : Int) : selectBars dgms h ≠ .error .fuel := by
  unfold selectBars
  by_cases h1 : h < 0
  · simp [h1]
  · by_cases h2 : dgms.isEmpty = true
    · simp [h1, h2]
    · simp only [h1, h2, if_false, Bool.false_eq_true]
      cases hD : dgms[h.toNat]? with
      | none => simp
      | some D =>
        simp only
        cases hd : dropTrailingInf D with
        | error e =>
          have := dropTrailingInf_error hd
          subst this
          simp
        | ok D' => exact finiteBars_ne_fuel D'

end PersimVerif.LandscapeLemmas
