import PersimVerif.Model.Plot
import Mathlib.Algebra.Order.Field.Basic
import Mathlib.Tactic.Linarith
import Mathlib.Tactic.Ring
import Mathlib.Tactic.FieldSimp
import Mathlib.Tactic.NormNum

/-!
# Helper lemmas for C20 (plots)

* observation functions on artist lists (`axesOf`, `scattersOf`, `linesOf`) — what the harness reads
  back from an `Axes` (`ax.collections`, `ax.lines`);
* Python indexing (`pyGet`, `getAll`, `select`);
* the range computation (`autoRange`) over a linear ordered field;
* `np.argmax` (`argmax?`) returns the first maximum;
* the loop over matching rows (`segments`).
-/
set_option linter.unusedSectionVars false
namespace PersimVerif.Plot

/-! ### observations -/
section obs
variable {α : Type}

def axesOf : Artist α → Axes
  | .scatter ax _ _ => ax
  | .line ax _ _ _ _ => ax

/-- the scatter collections of an artist list, in order (`ax.collections`) -/
def scattersOf : List (Artist α) → List (Axes × List (α × α) × String)
  | [] => []
  | .scatter ax pts l :: as => (ax, pts, l) :: scattersOf as
  | .line _ _ _ _ _ :: as => scattersOf as

/-- the lines of an artist list, in order (`ax.lines`) -/
def linesOf : List (Artist α) → List (Axes × List α × List α × Style × Option String)
  | [] => []
  | .scatter _ _ _ :: as => linesOf as
  | .line ax xs ys st l :: as => (ax, xs, ys, st, l) :: linesOf as

theorem scattersOf_append (a b : List (Artist α)) : scattersOf (a ++ b) = scattersOf a ++ scattersOf b := by
  induction a with
  | nil => rfl
  | cons x t ih => cases x <;> simp [scattersOf, ih]

theorem linesOf_append (a b : List (Artist α)) : linesOf (a ++ b) = linesOf a ++ linesOf b := by
  induction a with
  | nil => rfl
  | cons x t ih => cases x <;> simp [linesOf, ih]

/-- how one diagram point is drawn: `(b, d)`, `(b, d − b)` in lifetime mode, `(b, b_inf)` for `d = ∞` -/
def drawPt [Sub α] (life : Bool) (bInf : α) (p : α × Option α) : α × α :=
  match p.2 with
  | some e => (p.1, if life then e - p.1 else e)
  | none => (p.1, bInf)

end obs

/-! ### Python indexing -/
section index
variable {β : Type}

theorem pyGet_some {xs : List β} {i : Int} {x : β} (h : pyGet xs i = some x) :
    ∃ k, ∃ hk : k < xs.length, xs[k] = x ∧ (i = (k : Int) ∨ i = (k : Int) - xs.length) := by
  unfold pyGet at h
  split at h
  · rename_i h0
    obtain ⟨hk, hx⟩ := List.getElem?_eq_some_iff.mp h
    exact ⟨i.toNat, hk, hx, Or.inl (Int.toNat_of_nonneg h0).symm⟩
  · rename_i h0
    split at h
    · rename_i h1
      obtain ⟨hk, hx⟩ := List.getElem?_eq_some_iff.mp h
      refine ⟨xs.length - (-i).toNat, hk, hx, Or.inr ?_⟩
      omega
    · cases h

theorem pyGet_nonneg {xs : List β} {i : Int} (h0 : 0 ≤ i) : pyGet xs i = xs[i.toNat]? := by
  simp [pyGet, h0]

theorem getAll_some {xs : List β} : ∀ {l : List Int} {ys : List β},
    getAll xs l = some ys → List.Forall₂ (fun i y => pyGet xs i = some y) l ys
  | [], ys, h => by
    simp only [getAll, Option.some.injEq] at h; subst h; exact List.Forall₂.nil
  | i :: is, ys, h => by
    simp only [getAll] at h
    split at h
    · rename_i x r hx hr
      simp only [Option.some.injEq] at h; subst h
      exact List.Forall₂.cons hx (getAll_some hr)
    · cases h

theorem getAll_length {xs : List β} {l : List Int} {ys : List β} (h : getAll xs l = some ys) :
    ys.length = l.length := (getAll_some h).length_eq.symm

/-- what `select` returns: everything when `plot_only` is `None`/empty, else the Python-indexed entries -/
theorem select_ok {xs : List β} {ls : List String} {po : Option (List Int)} {sel : List β}
    {labs : List String} (h : select xs ls po = .ok (sel, labs)) :
    ((po = none ∨ po = some []) ∧ sel = xs ∧ labs = ls) ∨
    (∃ l, po = some l ∧ l ≠ [] ∧ List.Forall₂ (fun i y => pyGet xs i = some y) l sel ∧
      List.Forall₂ (fun i y => pyGet ls i = some y) l labs) := by
  unfold select at h
  split at h
  · rename_i i is
    split at h
    · rename_i ds ls' hd hl
      simp only [Except.ok.injEq, Prod.mk.injEq] at h
      obtain ⟨rfl, rfl⟩ := h
      exact Or.inr ⟨i :: is, rfl, by simp, getAll_some hd, getAll_some hl⟩
    · cases h
  · rename_i hne
    simp only [Except.ok.injEq, Prod.mk.injEq] at h
    obtain ⟨rfl, rfl⟩ := h
    refine Or.inl ⟨?_, rfl, rfl⟩
    match po, hne with
    | none, _ => exact Or.inl rfl
    | some [], _ => exact Or.inr rfl
    | some (i :: is), hne => exact absurd rfl (hne i is)

/-- with `plot_only` in force diagrams and labels come out aligned -/
theorem select_lengths {xs : List β} {ls : List String} {po : Option (List Int)} {sel : List β}
    {labs : List String} (h : select xs ls po = .ok (sel, labs)) (hlen : ls.length = xs.length) :
    labs.length = sel.length := by
  rcases select_ok h with ⟨_, rfl, rfl⟩ | ⟨l, _, _, h1, h2⟩
  · exact hlen
  · rw [← h1.length_eq, ← h2.length_eq]

theorem labelList_length (n : Nat) (lb : Labels) (h : ∀ ls, lb = .many ls → ls.length = n) :
    (labelList n lb).length = n := by
  cases lb with
  | default => simp [labelList]
  | one s => simp [labelList]
  | many ls => simpa [labelList] using h ls rfl

end index

/-! ### the range computation over a linear ordered field -/
section range
variable {K : Type} [Field K] [LinearOrder K] [IsStrictOrderedRing K]

theorem foldl_min_le (xs : List K) (a : K) : xs.foldl min a ≤ a ∧ ∀ x ∈ xs, xs.foldl min a ≤ x := by
  induction xs generalizing a with
  | nil => simp
  | cons y t ih =>
    simp only [List.foldl_cons, List.mem_cons, forall_eq_or_imp]
    obtain ⟨h1, h2⟩ := ih (min a y)
    exact ⟨h1.trans (min_le_left _ _), h1.trans (min_le_right _ _), h2⟩

theorem le_foldl_max (xs : List K) (a : K) : a ≤ xs.foldl max a ∧ ∀ x ∈ xs, x ≤ xs.foldl max a := by
  induction xs generalizing a with
  | nil => simp
  | cons y t ih =>
    simp only [List.foldl_cons, List.mem_cons, forall_eq_or_imp]
    obtain ⟨h1, h2⟩ := ih (max a y)
    exact ⟨(le_max_left _ _).trans h1, (le_max_right _ _).trans h1, h2⟩

theorem min?_le {xs : List K} {m : K} (h : xs.min? = some m) : ∀ x ∈ xs, m ≤ x := by
  cases xs with
  | nil => simp at h
  | cons a t =>
    rw [List.min?_cons'] at h
    simp only [Option.some.injEq] at h; subst h
    intro x hx
    rcases List.mem_cons.mp hx with rfl | hx
    · exact (foldl_min_le t _).1
    · exact (foldl_min_le t a).2 x hx

theorem le_max? {xs : List K} {M : K} (h : xs.max? = some M) : ∀ x ∈ xs, x ≤ M := by
  cases xs with
  | nil => simp at h
  | cons a t =>
    rw [List.max?_cons'] at h
    simp only [Option.some.injEq] at h; subst h
    intro x hx
    rcases List.mem_cons.mp hx with rfl | hx
    · exact (le_foldl_max t _).1
    · exact (le_foldl_max t a).2 x hx

/-- `autoRange` succeeds exactly on a non-empty list of values -/
theorem autoRange_isSome (vals : List K) : (autoRange vals).isSome = !vals.isEmpty := by
  cases vals with
  | nil => simp [autoRange]
  | cons a t => simp [autoRange]

/-- the computed range: `m`/`M` bound all values, the square `[m − (M−m)/10, M + (M−m)/5]²` -/
theorem autoRange_some {vals : List K} {r : Range K} (h : autoRange vals = some r) :
    ∃ m M, (∀ v ∈ vals, m ≤ v ∧ v ≤ M) ∧ m ≤ M ∧
      r = ⟨m - (M - m) / 5 / 2, M + (M - m) / 5, m - (M - m) / 5 / 2, M + (M - m) / 5⟩ := by
  unfold autoRange at h
  split at h
  · rename_i m M hm hM
    simp only [Option.some.injEq] at h
    refine ⟨m, M, fun v hv => ⟨min?_le hm v hv, le_max? hM v hv⟩, ?_, h.symm⟩
    cases vals with
    | nil => simp at hm
    | cons a t => exact (min?_le hm a (by simp)).trans (le_max? hM a (by simp))
  · cases h

end range

/-! ### membership in the flattened finite values -/
section fin
variable {α : Type}

theorem birth_mem_finiteVals {ds : List (Dgm α)} {d : Dgm α} {p : α × Option α}
    (hd : d ∈ ds) (hp : p ∈ d) : p.1 ∈ finiteVals ds := by
  unfold finiteVals
  refine List.mem_flatMap.mpr ⟨p, List.mem_flatten.mpr ⟨d, hd, hp⟩, ?_⟩
  cases p.2 <;> simp

theorem death_mem_finiteVals {ds : List (Dgm α)} {d : Dgm α} {p : α × Option α} {e : α}
    (hd : d ∈ ds) (hp : p ∈ d) (he : p.2 = some e) : e ∈ finiteVals ds := by
  unfold finiteVals
  refine List.mem_flatMap.mpr ⟨p, List.mem_flatten.mpr ⟨d, hd, hp⟩, ?_⟩
  rw [he]; simp

theorem hasInf_iff {ds : List (Dgm α)} : hasInf ds = true ↔ ∃ d ∈ ds, ∃ p ∈ d, p.2 = none := by
  unfold hasInf
  simp only [List.any_eq_true, List.mem_flatten, Option.isNone_iff_eq_none]
  constructor
  · rintro ⟨p, ⟨d, hd, hp⟩, h⟩; exact ⟨d, hd, p, hp, h⟩
  · rintro ⟨d, hd, p, hp, h⟩; exact ⟨p, ⟨d, hd, hp⟩, h⟩

end fin

/-! ### `np.argmax` -/
section argmax
variable {K : Type} [LinearOrder K]

theorem argmaxAux_spec : ∀ (xs : List K) (pre : List K) (bi : Nat) (bv : K),
    bi < pre.length → pre[bi]? = some bv → (∀ x ∈ pre, x ≤ bv) → (∀ k, k < bi → ∀ x, pre[k]? = some x → x < bv) →
    let r := argmaxAux xs pre.length bi bv
    ∃ v, (pre ++ xs)[r]? = some v ∧ (∀ x ∈ pre ++ xs, x ≤ v) ∧ ∀ k, k < r → ∀ x, (pre ++ xs)[k]? = some x → x < v
  | [], pre, bi, bv, _, hget, hmax, hfirst => by
    simp only [argmaxAux, List.append_nil]
    exact ⟨bv, hget, hmax, hfirst⟩
  | x :: xs, pre, bi, bv, hbi, hget, hmax, hfirst => by
    simp only [argmaxAux]
    have hlen : (pre ++ [x]).length = pre.length + 1 := by simp
    split
    · rename_i hlt
      have := argmaxAux_spec xs (pre ++ [x]) pre.length x (by simp) (by simp)
        (by
          intro y hy
          rcases List.mem_append.mp hy with hy | hy
          · exact (hmax y hy).trans hlt.le
          · simp at hy; exact hy.le)
        (by
          intro k hk y hy
          rw [List.getElem?_append_left hk] at hy
          exact lt_of_le_of_lt (hmax y (List.mem_of_getElem? hy)) hlt)
      simpa [hlen, List.append_assoc] using this
    · rename_i hnlt
      have hle : x ≤ bv := not_lt.mp hnlt
      have := argmaxAux_spec xs (pre ++ [x]) bi bv (by simp; omega)
        (by rw [List.getElem?_append_left hbi]; exact hget)
        (by
          intro y hy
          rcases List.mem_append.mp hy with hy | hy
          · exact hmax y hy
          · simp at hy; exact hy ▸ hle)
        (by
          intro k hk y hy
          rw [List.getElem?_append_left (hk.trans hbi)] at hy
          exact hfirst k hk y hy)
      simpa [hlen, List.append_assoc] using this

/-- `argmax?` is the index of the FIRST maximum -/
theorem argmax?_spec {xs : List K} {r : Nat} (h : argmax? xs = some r) :
    ∃ v, xs[r]? = some v ∧ (∀ x ∈ xs, x ≤ v) ∧ ∀ k, k < r → ∀ x, xs[k]? = some x → x < v := by
  cases xs with
  | nil => simp [argmax?] at h
  | cons a t =>
    simp only [argmax?, Option.some.injEq] at h
    subst h
    have := argmaxAux_spec t [a] 0 a (by simp) (by simp) (by simp) (by simp)
    simpa using this

theorem argmax?_isSome (xs : List K) : (argmax? xs).isSome = !xs.isEmpty := by
  cases xs <;> simp [argmax?]

end argmax

end PersimVerif.Plot
