import PersimVerif.Model.Rows
import PersimVerif.Spec.Matching
import PersimVerif.Lemmas.MatchingLaws
import Mathlib.Algebra.BigOperators.Fin
import Mathlib.Data.Finset.Card
import Mathlib.Algebra.BigOperators.Group.Finset.Basic
import Mathlib.Algebra.Order.BigOperators.Group.Finset
import Mathlib.Tactic.Choose

/-!
# Soundness of the row-certificate checker (helper lemmas for C06)

`checkCore M N c u v rows = true` is unpacked into a `Table` (the rows indexed by their position,
with the unique row of every point of either diagram); the table yields a partial matching
`PM (Fin M) (Fin N)` whose row / column costs are the third entries.
-/
namespace PersimVerif.Rows
open PersimVerif.Spec Finset

/-! ### list facts -/

theorem countP_eq_sum_map {β : Type} (p : β → Bool) (l : List β) :
    l.countP p = (l.map fun x => if p x then 1 else 0).sum := by
  induction l with
  | nil => simp
  | cons a t ih =>
    simp only [List.countP_cons, List.map_cons, List.sum_cons, ih]
    split <;> simp [*, Nat.add_comm]

theorem countP_eq_card {β : Type} (p : β → Bool) (l : List β) :
    l.countP p = #(univ.filter fun a : Fin l.length => p l[a] = true) := by
  rw [countP_eq_sum_map, ← Fin.sum_univ_fun_getElem, Finset.card_filter]
  rfl

/-- "exactly one element satisfies `p`" as a statement about positions -/
theorem countP_eq_one {β : Type} (p : β → Bool) (l : List β) (h : l.countP p = 1) :
    ∃ a : Fin l.length, ∀ b : Fin l.length, p l[b] = true ↔ b = a := by
  rw [countP_eq_card, Finset.card_eq_one] at h
  obtain ⟨a, ha⟩ := h
  refine ⟨a, fun b => ?_⟩
  have := Finset.ext_iff.mp ha b
  simpa using this

theorem inRange_iff (M N : Nat) (i j : Int) :
    inRange M N i j = true ↔ -1 ≤ i ∧ i < M ∧ -1 ≤ j ∧ j < N ∧ ¬(i = -1 ∧ j = -1) := by
  simp only [inRange, Bool.and_eq_true, decide_eq_true_eq, Bool.not_eq_true', Bool.and_eq_false_iff,
    beq_eq_false_iff_ne, ne_eq, and_assoc, not_and_or]

variable {K : Type}

/-! ### the aggregates -/

theorem foldl_max_spec [LinearOrder K] (l : List (Row K)) (init : K) :
    init ≤ l.foldl (fun acc x => max acc x.cost) init
    ∧ (∀ r ∈ l, r.cost ≤ l.foldl (fun acc x => max acc x.cost) init)
    ∧ (l.foldl (fun acc x => max acc x.cost) init = init
        ∨ ∃ r ∈ l, r.cost = l.foldl (fun acc x => max acc x.cost) init) := by
  induction l generalizing init with
  | nil => simp
  | cons a t ih =>
    obtain ⟨h1, h2, h3⟩ := ih (max init a.cost)
    simp only [List.foldl_cons, List.mem_cons, forall_eq_or_imp, exists_eq_or_imp]
    refine ⟨le_trans (le_max_left _ _) h1, ⟨le_trans (le_max_right _ _) h1, h2⟩, ?_⟩
    rcases h3 with h3 | ⟨r, hr, h3⟩
    · rcases max_choice init a.cost with hm | hm
      · left; rw [h3, hm]
      · right; left; rw [h3, hm]
    · right; right; exact ⟨r, hr, h3⟩

/-- `rowsMax rows = some d` says: `d` is the third entry of some row and bounds all of them -/
theorem rowsMax_eq_some_iff [LinearOrder K] (rows : List (Row K)) (d : K) :
    rowsMax rows = some d ↔ (∃ r ∈ rows, r.cost = d) ∧ ∀ r ∈ rows, r.cost ≤ d := by
  cases rows with
  | nil => simp [rowsMax]
  | cons a t =>
    obtain ⟨h1, h2, h3⟩ := foldl_max_spec t a.cost
    simp only [rowsMax, Option.some.injEq, List.mem_cons, exists_eq_or_imp, forall_eq_or_imp]
    constructor
    · rintro rfl
      refine ⟨?_, h1, h2⟩
      rcases h3 with h3 | h3
      · left; exact h3.symm
      · right; exact h3
    · rintro ⟨hex, ha, ht⟩
      apply le_antisymm
      · rcases h3 with h3 | ⟨r, hr, h3⟩
        · rw [h3]; exact ha
        · rw [← h3]; exact ht r hr
      · rcases hex with rfl | ⟨r, hr, rfl⟩
        · exact h1
        · exact h2 r hr

theorem rowsSum_eq_sum_map [AddCommMonoid K] (rows : List (Row K)) :
    rowsSum rows = (rows.map Row.cost).sum := by
  have : ∀ (l : List (Row K)) (init : K),
      l.foldl (fun acc r => acc + r.cost) init = init + (l.map Row.cost).sum := by
    intro l
    induction l with
    | nil => simp
    | cons a t ih => intro init; simp [ih, add_assoc]
  simp [rowsSum, this]

theorem rowsSum_eq_sum_fin [AddCommMonoid K] (rows : List (Row K)) :
    rowsSum rows = ∑ a : Fin rows.length, rows[a].cost := by
  rw [rowsSum_eq_sum_map, ← Fin.sum_univ_fun_getElem]
  rfl

/-- accepted rows as a table: `R` the row positions, with the unique row of every point -/
structure Table (M N : Nat) (R : Type) where
  ri : R → Int
  rj : R → Int
  rowOf : Fin M → R
  colOf : Fin N → R
  range : ∀ a, -1 ≤ ri a ∧ ri a < M ∧ -1 ≤ rj a ∧ rj a < N ∧ ¬(ri a = -1 ∧ rj a = -1)
  rowOf_spec : ∀ (k : Fin M) (a : R), ri a = ((k : Nat) : Int) ↔ a = rowOf k
  colOf_spec : ∀ (k : Fin N) (a : R), rj a = ((k : Nat) : Int) ↔ a = colOf k

namespace Table
variable {M N : Nat} {R : Type} (t : Table M N R)

theorem ri_rowOf (k : Fin M) : t.ri (t.rowOf k) = ((k : Nat) : Int) := (t.rowOf_spec k _).mpr rfl
theorem rj_colOf (k : Fin N) : t.rj (t.colOf k) = ((k : Nat) : Int) := (t.colOf_spec k _).mpr rfl

/-- the partial matching read off the rows -/
def toPM : PM (Fin M) (Fin N) where
  f k := if h : 0 ≤ t.rj (t.rowOf k) then
      some ⟨(t.rj (t.rowOf k)).toNat, by have := t.range (t.rowOf k); omega⟩ else none
  g k := if h : 0 ≤ t.ri (t.colOf k) then
      some ⟨(t.ri (t.colOf k)).toNat, by have := t.range (t.colOf k); omega⟩ else none
  fg i j := by
    have hf : (if h : 0 ≤ t.rj (t.rowOf i) then
        some (⟨(t.rj (t.rowOf i)).toNat, by have := t.range (t.rowOf i); omega⟩ : Fin N) else none) = some j
        ↔ t.rj (t.rowOf i) = ((j : Nat) : Int) := by
      split
      · simp only [Option.some.injEq, Fin.ext_iff]; omega
      · simp only [reduceCtorEq, false_iff]; omega
    have hg : (if h : 0 ≤ t.ri (t.colOf j) then
        some (⟨(t.ri (t.colOf j)).toNat, by have := t.range (t.colOf j); omega⟩ : Fin M) else none) = some i
        ↔ t.ri (t.colOf j) = ((i : Nat) : Int) := by
      split
      · simp only [Option.some.injEq, Fin.ext_iff]; omega
      · simp only [reduceCtorEq, false_iff]; omega
    rw [hf, hg, t.colOf_spec j, t.rowOf_spec i]
    exact eq_comm

theorem toPM_f_some {i : Fin M} {j : Fin N} : t.toPM.f i = some j ↔ t.rj (t.rowOf i) = ((j : Nat) : Int) := by
  unfold toPM; simp only
  split
  · simp only [Option.some.injEq, Fin.ext_iff]; omega
  · simp only [reduceCtorEq, false_iff]; omega

theorem toPM_f_none {i : Fin M} : t.toPM.f i = none ↔ t.rj (t.rowOf i) = -1 := by
  unfold toPM; simp only
  have := t.range (t.rowOf i)
  split
  · simp only [reduceCtorEq, false_iff]; omega
  · simp only [true_iff]; omega

theorem toPM_g_none {j : Fin N} : t.toPM.g j = none ↔ t.ri (t.colOf j) = -1 := by
  unfold toPM; simp only
  have := t.range (t.colOf j)
  split
  · simp only [reduceCtorEq, false_iff]; omega
  · simp only [true_iff]; omega

end Table

section Expected
variable {M N : Nat} (c : Fin M → Fin N → K) (u : Fin M → K) (v : Fin N → K)

theorem expected_pair (i : Fin M) (j : Fin N) :
    expected M N c u v ((i : Nat) : Int) ((j : Nat) : Int) = some (c i j) := by
  have hi : (0 : Int) ≤ (i : Nat) ∧ ((i : Nat) : Int) < M := by omega
  have hj : (0 : Int) ≤ (j : Nat) ∧ ((j : Nat) : Int) < N := by omega
  simp [expected, hi, hj]

theorem expected_left (i : Fin M) :
    expected M N c u v ((i : Nat) : Int) (-1) = some (u i) := by
  have hi : (0 : Int) ≤ (i : Nat) ∧ ((i : Nat) : Int) < M := by omega
  simp [expected, hi]

theorem expected_right (j : Fin N) :
    expected M N c u v (-1) ((j : Nat) : Int) = some (v j) := by
  have hj : (0 : Int) ≤ (j : Nat) ∧ ((j : Nat) : Int) < N := by omega
  simp [expected, hj]

/-- a row with a prescribed cost is well-formed -/
theorem inRange_of_expected {i j : Int} {x : K} (h : expected M N c u v i j = some x) :
    -1 ≤ i ∧ i < M ∧ -1 ≤ j ∧ j < N ∧ ¬(i = -1 ∧ j = -1) := by
  unfold expected at h
  split at h
  · split at h
    · omega
    · split at h
      · omega
      · simp at h
  · split at h
    · split at h
      · omega
      · simp at h
    · simp at h

/-- every prescribed cost is one of the costs of the cost system -/
theorem expected_cases {i j : Int} {x : K} (h : expected M N c u v i j = some x) :
    (∃ (a : Fin M) (b : Fin N), i = (a : Nat) ∧ j = (b : Nat) ∧ x = c a b)
    ∨ (∃ a : Fin M, i = (a : Nat) ∧ j = -1 ∧ x = u a)
    ∨ (∃ b : Fin N, i = -1 ∧ j = (b : Nat) ∧ x = v b) := by
  unfold expected at h
  split at h
  next hi =>
    split at h
    next hj =>
      left
      refine ⟨⟨i.toNat, by omega⟩, ⟨j.toNat, by omega⟩, by simp; omega, by simp; omega, ?_⟩
      simpa using h.symm
    next hj =>
      split at h
      next hj1 =>
        right; left
        exact ⟨⟨i.toNat, by omega⟩, by simp; omega, hj1, by simpa using h.symm⟩
      · simp at h
  next hi =>
    split at h
    next hi1 =>
      split at h
      next hj =>
        right; right
        exact ⟨⟨j.toNat, by omega⟩, hi1, by simp; omega, by simpa using h.symm⟩
      · simp at h
    · simp at h

end Expected

namespace Table
variable {M N : Nat} {R : Type} (t : Table M N R)
variable (c : Fin M → Fin N → K) (u : Fin M → K) (v : Fin N → K) (rc : R → K)

/-- the cost the matching pays for point `i` of the first diagram is the third entry of its row -/
theorem rowCost_eq (hc : ∀ a, expected M N c u v (t.ri a) (t.rj a) = some (rc a)) (i : Fin M) :
    t.toPM.rowCost c u i = rc (t.rowOf i) := by
  have h := hc (t.rowOf i)
  rw [t.ri_rowOf] at h
  cases hf : t.toPM.f i with
  | none =>
    rw [PM.rowCost_none _ _ _ hf]
    rw [t.toPM_f_none.mp hf, expected_left] at h
    exact Option.some.inj h
  | some j =>
    rw [PM.rowCost_some _ _ _ hf]
    rw [t.toPM_f_some.mp hf, expected_pair] at h
    exact Option.some.inj h

/-- an unmatched point `j` of the second diagram pays the third entry of its row -/
theorem colCost_eq (hc : ∀ a, expected M N c u v (t.ri a) (t.rj a) = some (rc a)) (j : Fin N)
    (hg : t.toPM.g j = none) : v j = rc (t.colOf j) := by
  have h := hc (t.colOf j)
  rw [t.rj_colOf, t.toPM_g_none.mp hg, expected_right] at h
  exact Option.some.inj h

end Table

namespace Table
variable {M N : Nat} {R : Type} (t : Table M N R)
variable (c : Fin M → Fin N → K) (u : Fin M → K) (v : Fin N → K) (rc : R → K)

/-- every row is the row of a point of the first diagram, or of an unmatched point of the second -/
theorem row_cases (a : R) :
    (∃ i : Fin M, a = t.rowOf i) ∨ (∃ j : Fin N, a = t.colOf j ∧ t.toPM.g j = none) := by
  have hr := t.range a
  by_cases h : 0 ≤ t.ri a
  · left
    exact ⟨⟨(t.ri a).toNat, by omega⟩, (t.rowOf_spec _ a).mp (by simp; omega)⟩
  · right
    have ha : a = t.colOf ⟨(t.rj a).toNat, by omega⟩ := (t.colOf_spec _ a).mp (by simp; omega)
    refine ⟨⟨(t.rj a).toNat, by omega⟩, ha, ?_⟩
    rw [t.toPM_g_none, ← ha]; omega

theorem maxLE [LinearOrder K] [Zero K]
    (hc : ∀ a, expected M N c u v (t.ri a) (t.rj a) = some (rc a)) {d : K} (h0 : 0 ≤ d)
    (hle : ∀ a, rc a ≤ d) : t.toPM.MaxLE c u v d := by
  refine ⟨h0, fun i => ?_, fun j hj => ?_⟩
  · rw [t.rowCost_eq c u v rc hc]; exact hle _
  · rw [t.colCost_eq c u v rc hc j hj]; exact hle _

theorem attains (hc : ∀ a, expected M N c u v (t.ri a) (t.rj a) = some (rc a)) (a : R) :
    (∃ i, t.toPM.rowCost c u i = rc a) ∨ (∃ j, t.toPM.g j = none ∧ v j = rc a) := by
  rcases t.row_cases a with ⟨i, rfl⟩ | ⟨j, rfl, hj⟩
  · left; exact ⟨i, t.rowCost_eq c u v rc hc i⟩
  · right; exact ⟨j, hj, t.colCost_eq c u v rc hc j hj⟩

theorem rowOf_injective : Function.Injective t.rowOf := by
  intro i i' h
  have := t.ri_rowOf i
  rw [h, t.ri_rowOf] at this
  exact Fin.ext (by omega)

theorem colOf_injective : Function.Injective t.colOf := by
  intro i i' h
  have := t.rj_colOf i
  rw [h, t.rj_colOf] at this
  exact Fin.ext (by omega)

/-- the total cost of the matching is the sum of all third entries -/
theorem sum_eq [Fintype R] [DecidableEq R] [AddCommMonoid K]
    (hc : ∀ a, expected M N c u v (t.ri a) (t.rj a) = some (rc a)) :
    t.toPM.sumCost c u v = ∑ a, rc a := by
  classical
  unfold PM.sumCost
  have h1 : ∑ i, t.toPM.rowCost c u i = ∑ a ∈ univ.filter (fun a => 0 ≤ t.ri a), rc a := by
    have himg : univ.filter (fun a => 0 ≤ t.ri a) = univ.image t.rowOf := by
      ext a
      simp only [mem_filter, mem_univ, true_and, mem_image]
      constructor
      · intro h
        have hr := t.range a
        exact ⟨⟨(t.ri a).toNat, by omega⟩, ((t.rowOf_spec _ a).mp (by simp; omega)).symm⟩
      · rintro ⟨k, rfl⟩; rw [t.ri_rowOf]; omega
    rw [himg, Finset.sum_image (fun x _ y _ h => t.rowOf_injective h)]
    exact Finset.sum_congr rfl fun i _ => t.rowCost_eq c u v rc hc i
  have h2 : ∑ j, t.toPM.colCost v j = ∑ a ∈ univ.filter (fun a => ¬ 0 ≤ t.ri a), rc a := by
    have himg : univ.filter (fun a => ¬ 0 ≤ t.ri a)
        = (univ.filter (fun j => t.toPM.g j = none)).image t.colOf := by
      ext a
      simp only [mem_filter, mem_univ, true_and, mem_image]
      constructor
      · intro h
        rcases t.row_cases a with ⟨i, rfl⟩ | ⟨j, rfl, hj⟩
        · rw [t.ri_rowOf] at h; omega
        · exact ⟨j, hj, rfl⟩
      · rintro ⟨j, hj, rfl⟩
        rw [t.toPM_g_none.mp hj]; omega
    rw [himg, Finset.sum_image (fun x _ y _ h => t.colOf_injective h), Finset.sum_filter]
    refine Finset.sum_congr rfl fun j _ => ?_
    unfold PM.colCost
    split
    next i hg => simp [hg]
    next hg => simp [hg, t.colCost_eq c u v rc hc j hg]
  rw [h1, h2, Finset.sum_filter_add_sum_filter_not]

end Table

/-! ### from the Boolean checker to a table -/

theorem structOk_iff {M N : Nat} (rows : List (Row K)) :
    structOk M N rows = true ↔
      (∀ r ∈ rows, inRange M N r.i r.j = true)
      ∧ (∀ k < M, rows.countP (fun r => r.i == ((k : Nat) : Int)) = 1)
      ∧ (∀ k < N, rows.countP (fun r => r.j == ((k : Nat) : Int)) = 1) := by
  simp [structOk, List.all_eq_true, and_assoc]

theorem costsExact_iff [DecidableEq K] {M N : Nat} (c : Fin M → Fin N → K) (u : Fin M → K)
    (v : Fin N → K) (rows : List (Row K)) :
    costsExact M N c u v rows = true ↔ ∀ r ∈ rows, expected M N c u v r.i r.j = some r.cost := by
  simp [costsExact, List.all_eq_true]

/-- accepted structure gives the table of the rows (positions `Fin rows.length`) -/
theorem exists_table {M N : Nat} (rows : List (Row K)) (h : structOk M N rows = true) :
    ∃ t : Table M N (Fin rows.length), (∀ a, t.ri a = rows[a].i) ∧ (∀ a, t.rj a = rows[a].j) := by
  obtain ⟨hr, hM, hN⟩ := (structOk_iff rows).mp h
  choose rowOf hrow using fun k : Fin M => countP_eq_one _ rows (hM k k.2)
  choose colOf hcol using fun k : Fin N => countP_eq_one _ rows (hN k k.2)
  refine ⟨⟨fun a => rows[a].i, fun a => rows[a].j, rowOf, colOf, fun a => ?_, fun k a => ?_, fun k a => ?_⟩,
    fun _ => rfl, fun _ => rfl⟩
  · exact (inRange_iff M N _ _).mp (hr _ (List.getElem_mem a.2))
  · rw [← hrow k a]; simp
  · rw [← hcol k a]; simp

end PersimVerif.Rows
