import PersimVerif.Model.Graph
/-!
  C17 helper lemmas, part 1 (core Lean only): tables and entries, the undirected adjacency,
  one BFS level (`ballNext`) as a statement about indices.
-/
namespace PersimVerif.Graph

/-! ### tables -/

@[simp] theorem length_tab {α : Type} (n m : Nat) (f : Nat → Nat → α) : (tab n m f).length = n := by
  simp [tab]

theorem getD_tab {α : Type} (n m : Nat) (f : Nat → Nat → α) (i : Nat) (h : i < n) :
    (tab n m f).getD i [] = (List.range m).map fun j => f i j := by
  simp [tab, List.getD_eq_getElem?_getD, List.getElem?_map, List.getElem?_range h]

theorem ent_tab {α : Type} (d : α) {n m : Nat} (f : Nat → Nat → α) {i j : Nat} (hi : i < n) (hj : j < m) :
    ent d (tab n m f) i j = f i j := by
  rw [ent, getD_tab n m f i hi]
  simp [List.getD_eq_getElem?_getD, hj]

theorem ent_tab_of_ge_left {α : Type} (d : α) {n m : Nat} (f : Nat → Nat → α) {i j : Nat} (hi : n ≤ i) :
    ent d (tab n m f) i j = d := by
  simp [ent, tab, List.getD_eq_getElem?_getD, List.getElem?_map, List.getElem?_eq_none (l := List.range n) (by simpa using hi)]

theorem ent_tab_of_ge_right {α : Type} (d : α) {n m : Nat} (f : Nat → Nat → α) {i j : Nat} (hj : m ≤ j) :
    ent d (tab n m f) i j = d := by
  by_cases hi : i < n
  · rw [ent, getD_tab n m f i hi]
    simp [List.getD_eq_getElem?_getD, List.getElem?_eq_none (l := List.range m) (by simpa using hj)]
  · exact ent_tab_of_ge_left d f (Nat.le_of_not_lt hi)

theorem row_length_tab {α : Type} {n m : Nat} (f : Nat → Nat → α) : ∀ r ∈ tab n m f, r.length = m := by
  intro r hr
  simp only [tab, List.mem_map] at hr
  obtain ⟨i, _, rfl⟩ := hr
  simp

theorem isSquare_tab {α : Type} {n : Nat} (f : Nat → Nat → α) (hn : 0 < n) : isSquare (tab n n f) = true := by
  simp only [isSquare, length_tab, Bool.and_eq_true, bne_iff_ne, ne_eq, List.all_eq_true, beq_iff_eq]
  exact ⟨by omega, fun r hr => row_length_tab f r hr⟩

theorem isSquare_iff {α : Type} (A : List (List α)) :
    isSquare A = true ↔ 0 < A.length ∧ ∀ r ∈ A, r.length = A.length := by
  simp only [isSquare, Bool.and_eq_true, bne_iff_ne, ne_eq, List.all_eq_true, beq_iff_eq]
  constructor
  · rintro ⟨h, h2⟩; exact ⟨by omega, h2⟩
  · rintro ⟨h, h2⟩; exact ⟨by omega, h2⟩

/-- two matrices of the same shape with the same entries are equal -/
theorem mat_ext {α : Type} (d : α) {n m : Nat} (A B : List (List α))
    (hA : A.length = n) (hB : B.length = n)
    (hAr : ∀ r ∈ A, r.length = m) (hBr : ∀ r ∈ B, r.length = m)
    (h : ∀ i j, i < n → j < m → ent d A i j = ent d B i j) : A = B := by
  apply List.ext_getElem (by omega)
  intro i h1 h2
  have hra := hAr A[i] (List.getElem_mem h1)
  have hrb := hBr B[i] (List.getElem_mem h2)
  apply List.ext_getElem (by omega)
  intro j h3 h4
  have := h i j (by omega) (by omega)
  simpa [ent, List.getD_eq_getElem?_getD, List.getElem?_eq_getElem h1, List.getElem?_eq_getElem h2,
    List.getElem?_eq_getElem h3, List.getElem?_eq_getElem h4] using this

/-- a square matrix is the table of its entries -/
theorem eq_tab_of_isSquare {α : Type} (d : α) (A : List (List α)) (h : isSquare A = true) :
    A = tab A.length A.length fun i j => ent d A i j := by
  have h' := (isSquare_iff A).1 h
  refine mat_ext d (n := A.length) (m := A.length) A _ rfl (by simp) h'.2 (row_length_tab _) ?_
  intro i j hi hj
  rw [ent_tab d _ hi hj]

/-! ### the undirected adjacency -/

@[simp] theorem length_adjOf (A : Mat) : (adjOf A).length = A.length := by simp [adjOf]

theorem ent_adjOf (A : Mat) {i j : Nat} (hi : i < A.length) (hj : j < A.length) :
    ent false (adjOf A) i j = (entry A i j != 0 || entry A j i != 0) := by
  simp [adjOf, ent_tab false _ hi hj]

theorem ent_adjOf_ge (A : Mat) {i j : Nat} (h : A.length ≤ i ∨ A.length ≤ j) :
    ent false (adjOf A) i j = false := by
  rcases h with h | h
  · exact ent_tab_of_ge_left false _ h
  · exact ent_tab_of_ge_right false _ h

/-- the adjacency is symmetric whatever the orientation of the input -/
theorem adjOf_symm (A : Mat) (i j : Nat) : ent false (adjOf A) i j = ent false (adjOf A) j i := by
  by_cases hi : i < A.length
  · by_cases hj : j < A.length
    · rw [ent_adjOf A hi hj, ent_adjOf A hj hi, Bool.or_comm]
    · rw [ent_adjOf_ge A (Or.inr (Nat.le_of_not_lt hj)), ent_adjOf_ge A (Or.inl (Nat.le_of_not_lt hj))]
  · rw [ent_adjOf_ge A (Or.inl (Nat.le_of_not_lt hi)), ent_adjOf_ge A (Or.inr (Nat.le_of_not_lt hi))]

/-- equal size and equal "non-zero in either direction" pattern ⇒ equal adjacency -/
theorem adjOf_congr (A B : Mat) (hl : A.length = B.length)
    (h : ∀ i j, i < A.length → j < A.length →
      (entry A i j != 0 || entry A j i != 0) = (entry B i j != 0 || entry B j i != 0)) :
    adjOf A = adjOf B := by
  refine mat_ext false (n := A.length) (m := A.length) _ _ (by simp) (by simp [hl]) ?_ ?_ ?_
  · exact row_length_tab _
  · rw [adjOf, ← hl]; exact row_length_tab _
  · intro i j hi hj
    rw [ent_adjOf A hi hj, ent_adjOf B (hl ▸ hi) (hl ▸ hj), h i j hi hj]

/-! ### one BFS level, by indices -/

/-- `t` belongs to the set with characteristic vector `B` -/
def Mem (B : List Bool) (t : Nat) : Prop := B.getD t false = true

instance (B : List Bool) (t : Nat) : Decidable (Mem B t) := by unfold Mem; infer_instance

theorem Mem.lt {B : List Bool} {t : Nat} (h : Mem B t) : t < B.length := by
  unfold Mem at h
  by_cases ht : t < B.length
  · exact ht
  · simp [List.getD_eq_getElem?_getD, List.getElem?_eq_none (Nat.le_of_not_lt ht)] at h

theorem mem_nil (t : Nat) : ¬ Mem [] t := by simp [Mem]

@[simp] theorem mem_cons_zero (b : Bool) (B : List Bool) : Mem (b :: B) 0 ↔ b = true := by simp [Mem]

@[simp] theorem mem_cons_succ (b : Bool) (B : List Bool) (t : Nat) : Mem (b :: B) (t + 1) ↔ Mem B t := by
  simp [Mem]

theorem hits_iff (row B : List Bool) : hits row B = true ↔ ∃ u, Mem row u ∧ Mem B u := by
  induction row generalizing B with
  | nil => simp [hits, mem_nil]
  | cons a r ih =>
    cases B with
    | nil => simp [hits, mem_nil]
    | cons b s =>
      simp only [hits, Bool.or_eq_true, Bool.and_eq_true, ih]
      constructor
      · rintro (⟨ha, hb⟩ | ⟨u, h1, h2⟩)
        · exact ⟨0, by simpa using ha, by simpa using hb⟩
        · exact ⟨u + 1, by simpa using h1, by simpa using h2⟩
      · rintro ⟨u, h1, h2⟩
        cases u with
        | zero => left; exact ⟨by simpa using h1, by simpa using h2⟩
        | succ u => right; exact ⟨u, by simpa using h1, by simpa using h2⟩

/-- the edge relation of an adjacency matrix -/
def Adj (rows : BMat) (u t : Nat) : Prop := ent false rows u t = true

theorem Adj.lt_left {rows : BMat} {u t : Nat} (h : Adj rows u t) : u < rows.length := by
  unfold Adj ent at h
  by_cases hu : u < rows.length
  · exact hu
  · simp [List.getD_eq_getElem?_getD, List.getElem?_eq_none (Nat.le_of_not_lt hu)] at h

@[simp] theorem length_ballNext (rows : BMat) (B : List Bool) :
    (ballNext rows B).length = min rows.length B.length := by simp [ballNext]

theorem mem_ballNext (rows : BMat) (B : List Bool) (hl : rows.length = B.length) (t : Nat) :
    Mem (ballNext rows B) t ↔ Mem B t ∨ ∃ u, Adj rows t u ∧ Mem B u := by
  by_cases ht : t < B.length
  · have ht' : t < rows.length := by omega
    have e : (ballNext rows B).getD t false = (B[t] || hits rows[t] B) := by
      simp [ballNext, List.getD_eq_getElem?_getD, List.getElem?_zipWith, List.getElem?_eq_getElem ht,
        List.getElem?_eq_getElem ht']
    have e1 : Mem B t ↔ B[t] = true := by
      simp [Mem, List.getD_eq_getElem?_getD, List.getElem?_eq_getElem ht]
    have e2 : ∀ u, Adj rows t u ↔ Mem rows[t] u := by
      intro u
      simp [Adj, ent, Mem, List.getD_eq_getElem?_getD, List.getElem?_eq_getElem ht']
    unfold Mem at e1 ⊢
    rw [e, Bool.or_eq_true, hits_iff]
    simp only [e2]
    constructor
    · rintro (h | h)
      · left; exact e1.2 h
      · right; exact h
    · rintro (h | h)
      · left; exact e1.1 h
      · right; exact h
  · constructor
    · intro h
      have := h.lt
      simp at this
      omega
    · rintro (h | ⟨u, h, _⟩)
      · exact absurd h.lt ht
      · exact absurd (hl ▸ h.lt_left) ht

theorem mem_unit (n s t : Nat) : Mem (unit n s) t ↔ t < n ∧ t = s := by
  unfold Mem unit
  by_cases ht : t < n
  · simp [List.getD_eq_getElem?_getD, ht]
  · simp [List.getD_eq_getElem?_getD, ht]

@[simp] theorem length_unit (n s : Nat) : (unit n s).length = n := by simp [unit]

end PersimVerif.Graph
