import PersimVerif.Lemmas.Imager

/-!
# Helper lemmas for C12: the mesh of a consistent state is the regular grid of step `pixel_size`
-/
namespace PersimVerif.Imager
set_option linter.unusedSectionVars false

variable {K : Type} [Field K] [LinearOrder K] [IsStrictOrderedRing K] [FloorRing K]

/-- the regular grid `a, a+ps, …, a+n·ps` -/
def grid (a ps : K) (n : Int) : List K := (List.range (n.toNat + 1)).map fun (i : Nat) => a + (i : K) * ps

/-- `np.linspace(a, a + n·ps + ps, n+1, endpoint=False)` is that grid -/
theorem linspace_grid (a ps : K) {n : Int} (hn : 0 ≤ n) :
    linspace a (a + (n : K) * ps + ps) (n + 1) = grid a ps n := by
  have hcast : (((n + 1 : Int)) : K) ≠ 0 := by
    have : (0 : K) < ((n + 1 : Int) : K) := by exact_mod_cast (by omega : (0 : Int) < n + 1)
    exact this.ne'
  have hstep : (a + (n : K) * ps + ps - a) / ((n + 1 : Int) : K) = ps := by
    rw [div_eq_iff hcast]; push_cast; ring
  have hlen : (n + 1).toNat = n.toNat + 1 := by omega
  simp only [linspace, grid, hstep, hlen]
  apply List.map_congr_left
  intro i _
  simp only [Int.cast_natCast]
  ring

theorem meshB_eq {s : State K} (hs : Inv s) : meshB s = grid s.b0 s.ps s.rx := by
  have h1 : s.b1 = s.b0 + (s.rx : K) * s.ps := by rw [← hs.w_eq, ← hs.bw]; ring
  unfold meshB
  rw [h1]
  exact linspace_grid _ _ (by have := hs.rx_pos; omega)

theorem meshP_eq {s : State K} (hs : Inv s) : meshP s = grid s.p0 s.ps s.ry := by
  have h1 : s.p1 = s.p0 + (s.ry : K) * s.ps := by rw [← hs.h_eq, ← hs.ph]; ring
  unfold meshP
  rw [h1]
  exact linspace_grid _ _ (by have := hs.ry_pos; omega)

theorem grid_length (a ps : K) (n : Int) : (grid a ps n).length = n.toNat + 1 := by simp [grid]

theorem grid_get (a ps : K) (n : Int) (i : Nat) (hi : i < (grid a ps n).length) :
    (grid a ps n)[i] = a + (i : K) * ps := by simp [grid]

theorem grid_step (a ps : K) (n : Int) (i : Nat) (hi : i + 1 < (grid a ps n).length) :
    (grid a ps n)[i + 1] - (grid a ps n)[i] = ps := by
  rw [grid_get, grid_get]; push_cast; ring

theorem grid_head (a ps : K) (n : Int) : (grid a ps n).head? = some a := by
  simp [grid, List.range_succ_eq_map]

theorem grid_last (a ps : K) {n : Int} (hn : 0 ≤ n) : (grid a ps n).getLast? = some (a + (n : K) * ps) := by
  have h : ((n.toNat : Nat) : K) = (n : K) := by
    have : ((n.toNat : Int) : K) = (n : K) := by rw [Int.toNat_of_nonneg hn]
    rwa [Int.cast_natCast] at this
  rw [← h]
  simp [grid, List.range_succ]

end PersimVerif.Imager
