import PersimVerif.Lemmas.GraphFallback
/-!
  C17 helper lemmas, part 7 (core Lean only): self-loops never change a distance; the labelling is in the
  order of first vertices; `argmaxFirst` is the first maximum; relabelling a connected graph.
-/
namespace PersimVerif.Graph

/-! ### self-loops -/

theorem Walk.drop_loops {R R' : Nat → Nat → Prop} (h : ∀ u t, u ≠ t → R u t → R' u t) {k s t : Nat}
    (hw : Walk R k s t) : ∃ j, j ≤ k ∧ Walk R' j s t := by
  induction hw with
  | refl => exact ⟨0, Nat.le_refl 0, .refl _⟩
  | step _ hr ih =>
    obtain ⟨j, hj, hw'⟩ := ih
    rename_i k s u t _
    by_cases hut : u = t
    · subst hut; exact ⟨j, by omega, hw'⟩
    · exact ⟨j + 1, by omega, .step hw' (h _ _ hut hr)⟩

theorem IsDist.of_offdiag {R R' : Nat → Nat → Prop} (h : ∀ u t, u ≠ t → R u t → R' u t)
    (h' : ∀ u t, u ≠ t → R' u t → R u t) {s t d : Nat} (hd : IsDist R s t d) : IsDist R' s t d := by
  obtain ⟨j, hj, hw⟩ := hd.1.drop_loops h
  obtain ⟨j', hj', hw'⟩ := hw.drop_loops h'
  have : j = d := by
    rcases Nat.lt_or_ge j' d with hlt | hge
    · exact absurd hw' (hd.2 j' hlt)
    · omega
  subst this
  refine ⟨hw, fun i hi hwi => ?_⟩
  obtain ⟨i', hi', hwi'⟩ := hwi.drop_loops h'
  exact hd.2 i' (by omega) hwi'

/-- two symmetric adjacency matrices of the same size that agree off the diagonal have the same BFS matrix -/
theorem bfsAll_congr_offdiag (rows rows' : BMat) (hs : Symm rows) (hs' : Symm rows')
    (hl : rows.length = rows'.length) (h : ∀ i j, i ≠ j → ent false rows i j = ent false rows' i j) :
    bfsAll rows = bfsAll rows' := by
  refine mat_ext none (n := rows.length) (m := rows.length) _ _ (by simp) (by simp [hl])
    (row_length_bfsAll rows) (by intro r hr; rw [hl]; exact row_length_bfsAll rows' r hr) ?_
  intro s t hs1 ht1
  show dist rows s t = dist rows' s t
  apply Option.ext
  intro d
  rw [dist_eq_some_iff rows hs hs1 ht1, dist_eq_some_iff rows' hs' (hl ▸ hs1) (hl ▸ ht1)]
  have f : ∀ u t, u ≠ t → Adj rows u t → Adj rows' u t := fun u t hut hr => by
    unfold Adj at hr ⊢; rwa [← h u t hut]
  have b : ∀ u t, u ≠ t → Adj rows' u t → Adj rows u t := fun u t hut hr => by
    unfold Adj at hr ⊢; rwa [h u t hut]
  exact ⟨IsDist.of_offdiag f b, IsDist.of_offdiag b f⟩

/-! ### first maximum -/

theorem argmaxFirst_spec (l : List Nat) (hne : l ≠ []) :
    ∃ h : argmaxFirst l < l.length,
      (∀ i (hi : i < l.length), l[i] ≤ l[argmaxFirst l]) ∧
      (∀ i (hi : i < argmaxFirst l), l[i]'(by omega) < l[argmaxFirst l]) := by
  have hmem : maxList l ∈ l := maxList_mem hne
  have hlt : argmaxFirst l < l.length := List.idxOf_lt_length_of_mem hmem
  have hget : l[argmaxFirst l] = maxList l := List.getElem_idxOf hlt
  refine ⟨hlt, ?_, ?_⟩
  · intro i hi
    rw [hget]; exact le_maxList (List.getElem_mem hi)
  · intro i hi
    have hle : l[i]'(by omega) ≤ maxList l := le_maxList (List.getElem_mem _)
    have hne' : l[i]'(by omega) ≠ maxList l := by
      have := List.not_of_lt_findIdx (p := (· == maxList l)) (xs := l) (i := i) hi
      simpa using this
    rw [hget]; omega

/-! ### relabelling a connected graph -/

theorem maxEntry_sub_perm (M : Mat) (n : Nat) (hM : M.length = n) (hr : ∀ r ∈ M, r.length = n)
    (p : List Nat) (hp : p.Perm (List.range n)) : maxEntry (sub 0 p M) = maxEntry M := by
  apply Nat.le_antisymm
  · apply maxEntry_le
    intro r hr' x hx
    simp only [sub, List.mem_map] at hr'
    obtain ⟨i, _, rfl⟩ := hr'
    obtain ⟨j, _, rfl⟩ := List.mem_map.1 hx
    exact entry_le_maxEntry M i j
  · apply maxEntry_le
    intro r hr' x hx
    obtain ⟨i, hi, rfl⟩ := List.mem_iff_getElem.1 hr'
    obtain ⟨j, hj, rfl⟩ := List.mem_iff_getElem.1 hx
    have hjn : j < n := by rw [← hr _ (List.getElem_mem hi)]; exact hj
    have hin : i < n := by omega
    have hpl : p.length = n := by simpa using hp.length_eq
    obtain ⟨a, ha, ea⟩ := List.mem_iff_getElem.1 (hp.mem_iff.2 (List.mem_range.2 hin))
    obtain ⟨b, hb, eb⟩ := List.mem_iff_getElem.1 (hp.mem_iff.2 (List.mem_range.2 hjn))
    have e : M[i][j] = entry (sub 0 p M) a b := by
      unfold entry
      rw [ent_sub 0 p M ha hb]
      simp [ent, List.getD_eq_getElem?_getD, List.getElem?_eq_getElem ha, List.getElem?_eq_getElem hb, ea, eb,
        List.getElem?_eq_getElem hi, List.getElem?_eq_getElem hj]
    rw [e]
    exact entry_le_maxEntry _ a b

theorem connected_sub (rows : BMat) (hs : Symm rows) (p : List Nat) (hp : p.Perm (List.range rows.length))
    (hc : Connected rows) : Connected (sub false p rows) := by
  have hl := perm_length rows p hp
  intro s t hs1 ht1
  have hs2 : s < rows.length := by simpa [hl] using hs1
  have ht2 : t < rows.length := by simpa [hl] using ht1
  obtain ⟨k, hw⟩ := hc _ _ (perm_lt rows p hp hs2) (perm_lt rows p hp ht2)
  exact ⟨k, (walk_sub_iff rows p hp hs hs2 ht2).2 hw⟩

theorem blockOf_connected (rows : BMat) (h : hasInf (bfsAll rows) = false) :
    blockOf rows = tab rows.length rows.length fun i j => (dist rows i j).getD 0 := by
  have hsel : selected (bfsAll rows) = List.range rows.length := by
    unfold selected; rw [h]; simp
  unfold blockOf tab
  rw [hsel]

end PersimVerif.Graph
