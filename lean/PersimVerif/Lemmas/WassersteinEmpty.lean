import PersimVerif.Spec.Matching
import Mathlib.Algebra.BigOperators.Group.Finset.Basic
import Mathlib.Algebra.Order.BigOperators.Group.Finset
import Mathlib.Data.Fintype.BigOperators

/-!
# The `(0,0)` placeholder of an empty diagram never changes the min-sum cost

`persim/wasserstein.py:67-72` replaces an empty side by the single point `(0,0)`.  At the level of
partial matchings: if one side has exactly one point whose diagonal cost is `0` and whose distance
to every point of the other side is at least that point's diagonal cost, then the min-sum cost is
the sum of the other side's diagonal costs — the same as when that side is empty.
-/
namespace PersimVerif.Aug
open PersimVerif.Spec

variable {M N K : Type} [Fintype M] [Fintype N] [AddCommMonoid K] [LinearOrder K]

omit [LinearOrder K] in
theorem sumCost_empty (c : M → N → K) (u : M → K) (v : N → K) :
    (PM.empty : PM M N).sumCost c u v = (∑ i, u i) + ∑ j, v j := by
  simp [PM.sumCost, PM.rowCost, PM.colCost, PM.empty]

/-- a value that bounds every matching from below and is attained is *the* min-sum cost -/
theorem isMinSum_iff_eq (c : M → N → K) (u : M → K) (v : N → K) (X : K)
    (hlb : ∀ p : PM M N, X ≤ p.sumCost c u v) (hatt : ∃ p : PM M N, p.sumCost c u v = X) (w : K) :
    IsMinSum c u v w ↔ w = X := by
  constructor
  · rintro ⟨⟨p, hp⟩, hle⟩
    obtain ⟨q, hq⟩ := hatt
    exact le_antisymm (hq ▸ hle q) (hp ▸ hlb p)
  · rintro rfl
    exact ⟨hatt, hlb⟩

theorem isMinSum_isEmpty_left [IsEmpty M] (c : M → N → K) (u : M → K) (v : N → K) (w : K) :
    IsMinSum c u v w ↔ w = ∑ j, v j := by
  have key : ∀ p : PM M N, p.sumCost c u v = ∑ j, v j := by
    intro p
    have hg : ∀ j, p.g j = none := fun j => by
      cases h : p.g j with
      | none => rfl
      | some i => exact isEmptyElim i
    simp [PM.sumCost, PM.colCost, hg]
  exact isMinSum_iff_eq c u v _ (fun p => (key p).ge) ⟨PM.empty, key _⟩ w

theorem isMinSum_isEmpty_right [IsEmpty N] (c : M → N → K) (u : M → K) (v : N → K) (w : K) :
    IsMinSum c u v w ↔ w = ∑ i, u i := by
  have key : ∀ p : PM M N, p.sumCost c u v = ∑ i, u i := by
    intro p
    have hf : ∀ i, p.f i = none := fun i => by
      cases h : p.f i with
      | none => rfl
      | some j => exact isEmptyElim j
    simp [PM.sumCost, PM.rowCost, hf]
  exact isMinSum_iff_eq c u v _ (fun p => (key p).ge) ⟨PM.empty, key _⟩ w

variable [IsOrderedAddMonoid K] [DecidableEq M] [DecidableEq N]

omit [DecidableEq M] in
/-- one placeholder point on the left -/
theorem isMinSum_unique_left [Unique M] (c : M → N → K) (u : M → K) (v : N → K)
    (hu : u default = 0) (hc : ∀ j, v j ≤ c default j) (w : K) :
    IsMinSum c u v w ↔ w = ∑ j, v j := by
  refine isMinSum_iff_eq c u v _ (fun p => ?_) ⟨PM.empty, by simp [sumCost_empty, hu]⟩ w
  simp only [PM.sumCost, Fintype.sum_unique]
  cases hf : p.f default with
  | none =>
    have hg : ∀ j, p.g j = none := fun j => by
      cases h : p.g j with
      | none => rfl
      | some i =>
        have := (p.fg i j).mpr h
        rw [Unique.eq_default i, hf] at this
        cases this
    simp [PM.rowCost, PM.colCost, hf, hg, hu]
  | some j0 =>
    have hg0 : p.g j0 = some default := (p.fg _ _).mp hf
    have hg : ∀ j, j ≠ j0 → p.g j = none := fun j hj => by
      cases h : p.g j with
      | none => rfl
      | some i =>
        have := (p.fg i j).mpr h
        rw [Unique.eq_default i, hf] at this
        exact absurd (Option.some.inj this).symm hj
    have e1 : ∑ j, p.colCost v j = ∑ j ∈ Finset.univ.erase j0, v j := by
      rw [← Finset.add_sum_erase _ _ (Finset.mem_univ j0)]
      have : p.colCost v j0 = 0 := by simp [PM.colCost, hg0]
      rw [this, zero_add]
      refine Finset.sum_congr rfl fun j hj => ?_
      simp [PM.colCost, hg j (Finset.ne_of_mem_erase hj)]
    have e2 : p.rowCost c u default = c default j0 := by simp [PM.rowCost, hf]
    rw [e1, e2, ← Finset.add_sum_erase _ _ (Finset.mem_univ j0)]
    exact add_le_add_left (hc j0) _

omit [DecidableEq N] in
/-- one placeholder point on the right -/
theorem isMinSum_unique_right [Unique N] (c : M → N → K) (u : M → K) (v : N → K)
    (hv : v default = 0) (hc : ∀ i, u i ≤ c i default) (w : K) :
    IsMinSum c u v w ↔ w = ∑ i, u i := by
  refine isMinSum_iff_eq c u v _ (fun p => ?_) ⟨PM.empty, by simp [sumCost_empty, hv]⟩ w
  simp only [PM.sumCost, Fintype.sum_unique]
  cases hg : p.g default with
  | none =>
    have hf : ∀ i, p.f i = none := fun i => by
      cases h : p.f i with
      | none => rfl
      | some j =>
        have := (p.fg i j).mp h
        rw [Unique.eq_default j, hg] at this
        cases this
    simp [PM.rowCost, PM.colCost, hf, hg, hv]
  | some i0 =>
    have hf0 : p.f i0 = some default := (p.fg _ _).mpr hg
    have hf : ∀ i, i ≠ i0 → p.f i = none := fun i hi => by
      cases h : p.f i with
      | none => rfl
      | some j =>
        have := (p.fg i j).mp h
        rw [Unique.eq_default j, hg] at this
        exact absurd (Option.some.inj this).symm hi
    have e1 : ∑ i, p.rowCost c u i = c i0 default + ∑ i ∈ Finset.univ.erase i0, u i := by
      rw [← Finset.add_sum_erase _ _ (Finset.mem_univ i0)]
      have : p.rowCost c u i0 = c i0 default := by simp [PM.rowCost, hf0]
      rw [this]
      congr 1
      refine Finset.sum_congr rfl fun i hi => ?_
      simp [PM.rowCost, hf i (Finset.ne_of_mem_erase hi)]
    have e2 : p.colCost v default = 0 := by simp [PM.colCost, hg]
    rw [e1, e2, add_zero, ← Finset.add_sum_erase _ _ (Finset.mem_univ i0)]
    exact add_le_add_left (hc i0) _

end PersimVerif.Aug
