import PersimVerif.Lemmas.PLArithEval

/-!
# Operator-level lemmas for C09: scalar maps, zip-longest, the `Exact` operators, expression trees
-/
namespace PersimVerif.PLArith
open PersimVerif.PL
set_option linter.unusedSectionVars false
variable {K : Type} [Field K] [LinearOrder K] [IsStrictOrderedRing K]

/-! ### scalar maps on one depth -/

theorem evalPL_mulDepth (c : K) : ∀ (l : List (K × K)) (t : K), evalPL (mulDepth c l) t = c * evalPL l t
  | [], t => by simp [mulDepth, evalPL_nil]
  | [p], t => by simp [mulDepth, evalPL_single]
  | p :: q :: r, t => by
    have ih := evalPL_mulDepth c (q :: r) t
    simp only [mulDepth, List.map_cons] at ih ⊢
    rw [evalPL_cons2, evalPL_cons2]
    simp only
    split
    · simp
    · split
      · ring
      · exact ih

theorem negDepth_eq_mulDepth (l : List (K × K)) : negDepth l = mulDepth (-1) l := by
  simp [negDepth, mulDepth]

theorem evalPL_negDepth (l : List (K × K)) (t : K) : evalPL (negDepth l) t = -evalPL l t := by
  rw [negDepth_eq_mulDepth, evalPL_mulDepth]; ring

theorem chain_mulDepth (c : K) : ∀ (l : List (K × K)), Chain l → Chain (mulDepth c l)
  | [], _ => by simp [mulDepth]
  | [p], _ => by simp [mulDepth]
  | p :: q :: r, h => by
    have ih := chain_mulDepth c (q :: r) h.2
    simp only [mulDepth, List.map_cons] at ih ⊢
    refine ⟨?_, ih⟩
    rcases h.1 with h1 | h1
    · exact Or.inl h1
    · exact Or.inr (by rw [h1])

theorem wf_mulDepth (c : K) (l : List (K × K)) (h : WF l) : WF (mulDepth c l) := by
  refine ⟨by simpa [mulDepth] using h.ne, ?_, ?_, chain_mulDepth c l h.chain⟩
  · intro p hp
    simp only [mulDepth, List.head?_map, Option.map_eq_some_iff] at hp
    obtain ⟨p', hp', rfl⟩ := hp
    simp [h.first p' hp']
  · intro q hq
    simp only [mulDepth, List.getLast?_map, Option.map_eq_some_iff] at hq
    obtain ⟨q', hq', rfl⟩ := hq
    simp [h.last q' hq']

theorem wf_negDepth (l : List (K × K)) (h : WF l) : WF (negDepth l) := by
  rw [negDepth_eq_mulDepth]; exact wf_mulDepth _ l h

/-! ### zip-longest: a missing depth counts as the zero function -/

/-- every depth of a landscape is well-formed -/
def AllWF (cps : List (List (K × K))) : Prop := ∀ d ∈ cps, WF d

theorem evalDepth_nil (k : Nat) (t : K) : evalDepth ([] : List (List (K × K))) k t = 0 := by
  simp [evalDepth]

theorem evalDepth_zero (d : List (K × K)) (ds : List (List (K × K))) (t : K) :
    evalDepth (d :: ds) 0 t = evalPL d t := by simp [evalDepth]

theorem evalDepth_succ (d : List (K × K)) (ds : List (List (K × K))) (k : Nat) (t : K) :
    evalDepth (d :: ds) (k + 1) t = evalDepth ds k t := by simp [evalDepth]

theorem unionCritPairs_nil_left (bs : List (List (K × K))) : unionCritPairs [] bs = bs := by
  simp [unionCritPairs]

theorem unionCritPairs_nil_right (as : List (List (K × K))) : unionCritPairs as [] = as := by
  cases as <;> simp [unionCritPairs]

theorem unionCritPairs_cons (a b : List (K × K)) (as bs : List (List (K × K))) :
    unionCritPairs (a :: as) (b :: bs) = addDepth a b :: unionCritPairs as bs := by
  simp [unionCritPairs]

theorem unionCritPairs_spec : ∀ (as bs : List (List (K × K))), AllWF as → AllWF bs →
    AllWF (unionCritPairs as bs) ∧ (unionCritPairs as bs).length = max as.length bs.length ∧
      ∀ k t, evalDepth (unionCritPairs as bs) k t = evalDepth as k t + evalDepth bs k t
  | [], bs, _, hb => by
    rw [unionCritPairs_nil_left]
    exact ⟨hb, by simp, fun k t => by rw [evalDepth_nil, zero_add]⟩
  | a :: as, [], ha, _ => by
    rw [unionCritPairs_nil_right]
    exact ⟨ha, by simp, fun k t => by rw [evalDepth_nil, add_zero]⟩
  | a :: as, b :: bs, ha, hb => by
    rw [unionCritPairs_cons]
    obtain ⟨h1, h2, h3⟩ := unionCritPairs_spec as bs (fun d hd => ha d (by simp [hd])) (fun d hd => hb d (by simp [hd]))
    obtain ⟨w, _, e⟩ := addDepth_spec a b (ha a (by simp)) (hb b (by simp))
    refine ⟨?_, ?_, ?_⟩
    · intro d hd
      rcases List.mem_cons.mp hd with rfl | hd
      · exact w
      · exact h1 d hd
    · simp only [List.length_cons, h2]; omega
    · intro k t
      cases k with
      | zero => rw [evalDepth_zero, evalDepth_zero, evalDepth_zero, e]
      | succ k => rw [evalDepth_succ, evalDepth_succ, evalDepth_succ, h3]

theorem hasEmptyDepth_false : ∀ (as bs : List (List (K × K))), AllWF as → AllWF bs → hasEmptyDepth as bs = false
  | [], _, _, _ => by simp [hasEmptyDepth]
  | _ :: _, [], _, _ => by simp [hasEmptyDepth]
  | a :: as, b :: bs, ha, hb => by
    have h1 : a ≠ [] := (ha a (by simp)).ne
    have h2 : b ≠ [] := (hb b (by simp)).ne
    have ih := hasEmptyDepth_false as bs (fun d hd => ha d (by simp [hd])) (fun d hd => hb d (by simp [hd]))
    simp [hasEmptyDepth, ih, h1, h2]

theorem evalDepth_map (f : List (K × K) → List (K × K)) (g : K → K) (hg : g 0 = 0)
    (hf : ∀ l t, evalPL (f l) t = g (evalPL l t)) :
    ∀ (cps : List (List (K × K))) (k : Nat) (t : K), evalDepth (cps.map f) k t = g (evalDepth cps k t)
  | [], k, t => by simp [evalDepth, hg]
  | d :: ds, 0, t => by simp only [List.map_cons]; rw [evalDepth_zero, evalDepth_zero, hf]
  | d :: ds, k + 1, t => by
    simp only [List.map_cons]; rw [evalDepth_succ, evalDepth_succ]; exact evalDepth_map f g hg hf ds k t

/-! ### the operators on `Exact` -/

/-- a well-formed exact landscape: at least one depth, every depth well-formed -/
def Exact.WF (p : Exact K) : Prop := p.cps ≠ [] ∧ AllWF p.cps

theorem Exact.mk'_ok (hd : Nat) (cps : List (List (K × K))) (h : cps ≠ []) :
    Exact.mk' hd cps = .ok ⟨hd, cps⟩ := by
  cases cps with
  | nil => exact absurd rfl h
  | cons d ds => simp [Exact.mk']

theorem Exact.smul_spec (c : K) (p : Exact K) (hp : p.WF) :
    ∃ r, p.smul c = .ok r ∧ r.WF ∧ r.homDeg = p.homDeg ∧ r.cps.length = p.cps.length ∧
      ∀ k t, evalDepth r.cps k t = c * evalDepth p.cps k t := by
  refine ⟨⟨p.homDeg, p.cps.map (mulDepth c)⟩, ?_, ⟨?_, ?_⟩, rfl, by simp, ?_⟩
  · unfold Exact.smul; exact Exact.mk'_ok _ _ (by simpa using hp.1)
  · simpa using hp.1
  · intro d hd
    obtain ⟨d', hd', rfl⟩ := List.mem_map.mp hd
    exact wf_mulDepth c d' (hp.2 d' hd')
  · exact evalDepth_map (mulDepth c) (c * ·) (by simp) (evalPL_mulDepth c) p.cps

theorem Exact.neg_spec (p : Exact K) (hp : p.WF) :
    ∃ r, p.neg = .ok r ∧ r.WF ∧ r.homDeg = p.homDeg ∧ r.cps.length = p.cps.length ∧
      ∀ k t, evalDepth r.cps k t = -evalDepth p.cps k t := by
  refine ⟨⟨p.homDeg, p.cps.map negDepth⟩, ?_, ⟨?_, ?_⟩, rfl, by simp, ?_⟩
  · unfold Exact.neg; exact Exact.mk'_ok _ _ (by simpa using hp.1)
  · simpa using hp.1
  · intro d hd
    obtain ⟨d', hd', rfl⟩ := List.mem_map.mp hd
    exact wf_negDepth d' (hp.2 d' hd')
  · exact evalDepth_map negDepth (fun x => -x) (by simp) evalPL_negDepth p.cps

theorem Exact.add_spec (p q : Exact K) (hp : p.WF) (hq : q.WF) (hd : p.homDeg = q.homDeg) :
    ∃ r, p.add q = .ok r ∧ r.WF ∧ r.homDeg = p.homDeg ∧ r.cps.length = max p.cps.length q.cps.length ∧
      ∀ k t, evalDepth r.cps k t = evalDepth p.cps k t + evalDepth q.cps k t := by
  obtain ⟨h1, h2, h3⟩ := unionCritPairs_spec p.cps q.cps hp.2 hq.2
  have hne : unionCritPairs p.cps q.cps ≠ [] := by
    intro h0
    have := h2; rw [h0] at this
    have hpl : 0 < p.cps.length := List.length_pos_iff.mpr hp.1
    simp only [List.length_nil] at this; omega
  refine ⟨⟨p.homDeg, unionCritPairs p.cps q.cps⟩, ?_, ⟨hne, h1⟩, rfl, h2, h3⟩
  unfold Exact.add
  rw [if_neg (by simpa using hd), hasEmptyDepth_false p.cps q.cps hp.2 hq.2]
  simp only [Bool.false_eq_true, if_false]
  exact Exact.mk'_ok _ _ hne

theorem Exact.sub_spec (p q : Exact K) (hp : p.WF) (hq : q.WF) (hd : p.homDeg = q.homDeg) :
    ∃ r, p.sub q = .ok r ∧ r.WF ∧ r.homDeg = p.homDeg ∧ r.cps.length = max p.cps.length q.cps.length ∧
      ∀ k t, evalDepth r.cps k t = evalDepth p.cps k t - evalDepth q.cps k t := by
  obtain ⟨nq, e1, w1, d1, l1, v1⟩ := Exact.neg_spec q hq
  obtain ⟨r, e2, w2, d2, l2, v2⟩ := Exact.add_spec p nq hp w1 (by rw [d1]; exact hd)
  refine ⟨r, ?_, w2, d2, by rw [l2, l1], fun k t => by rw [v2, v1]; ring⟩
  unfold Exact.sub
  rw [e1]; exact e2

theorem Exact.sdiv_spec (p : Exact K) (c : K) (hp : p.WF) (hc : c ≠ 0) :
    ∃ r, p.sdiv c = .ok r ∧ r.WF ∧ r.homDeg = p.homDeg ∧ r.cps.length = p.cps.length ∧
      ∀ k t, evalDepth r.cps k t = evalDepth p.cps k t / c := by
  obtain ⟨r, e, w, d, l, v⟩ := Exact.smul_spec (1 / c) p hp
  refine ⟨r, ?_, w, d, l, fun k t => by rw [v]; field_simp⟩
  unfold Exact.sdiv; rw [if_neg hc]; exact e

/-! ### expression trees: every sequence of operations on shared operands -/

/-- every leaf index used by the expression satisfies `P` -/
def Expr.leavesAll (P : Nat → Prop) : Expr K → Prop
  | .leaf i => P i
  | .add e f => e.leavesAll P ∧ f.leavesAll P
  | .sub e f => e.leavesAll P ∧ f.leavesAll P
  | .neg e => e.leavesAll P
  | .smul _ e => e.leavesAll P
  | .sdiv e _ => e.leavesAll P

/-- no division by zero anywhere in the expression (the guard `__truediv__` enforces) -/
def Expr.divisorsNonzero : Expr K → Prop
  | .leaf _ => True
  | .add e f => e.divisorsNonzero ∧ f.divisorsNonzero
  | .sub e f => e.divisorsNonzero ∧ f.divisorsNonzero
  | .neg e => e.divisorsNonzero
  | .smul _ e => e.divisorsNonzero
  | .sdiv e c => c ≠ 0 ∧ e.divisorsNonzero

theorem run_spec (ρ : Nat → Exact K) (h : Nat) : ∀ (e : Expr K),
    e.leavesAll (fun i => (ρ i).WF ∧ (ρ i).homDeg = h) → e.divisorsNonzero →
    ∃ r, run ρ e = .ok r ∧ r.WF ∧ r.homDeg = h ∧ ∀ k t, evalDepth r.cps k t = denote ρ e k t
  | .leaf i, hl, _ => ⟨ρ i, rfl, hl.1, hl.2, fun _ _ => rfl⟩
  | .add e f, hl, hd => by
    obtain ⟨p, e1, w1, d1, v1⟩ := run_spec ρ h e hl.1 hd.1
    obtain ⟨q, e2, w2, d2, v2⟩ := run_spec ρ h f hl.2 hd.2
    obtain ⟨r, e3, w3, d3, _, v3⟩ := Exact.add_spec p q w1 w2 (by rw [d1, d2])
    refine ⟨r, ?_, w3, by rw [d3, d1], fun k t => ?_⟩
    · simp only [run, e1, e2]; exact e3
    · rw [v3, v1, v2]; rfl
  | .sub e f, hl, hd => by
    obtain ⟨p, e1, w1, d1, v1⟩ := run_spec ρ h e hl.1 hd.1
    obtain ⟨q, e2, w2, d2, v2⟩ := run_spec ρ h f hl.2 hd.2
    obtain ⟨r, e3, w3, d3, _, v3⟩ := Exact.sub_spec p q w1 w2 (by rw [d1, d2])
    refine ⟨r, ?_, w3, by rw [d3, d1], fun k t => ?_⟩
    · simp only [run, e1, e2]; exact e3
    · rw [v3, v1, v2]; rfl
  | .neg e, hl, hd => by
    obtain ⟨p, e1, w1, d1, v1⟩ := run_spec ρ h e hl hd
    obtain ⟨r, e3, w3, d3, _, v3⟩ := Exact.neg_spec p w1
    refine ⟨r, ?_, w3, by rw [d3, d1], fun k t => ?_⟩
    · simp only [run, e1]; exact e3
    · rw [v3, v1]; rfl
  | .smul c e, hl, hd => by
    obtain ⟨p, e1, w1, d1, v1⟩ := run_spec ρ h e hl hd
    obtain ⟨r, e3, w3, d3, _, v3⟩ := Exact.smul_spec c p w1
    refine ⟨r, ?_, w3, by rw [d3, d1], fun k t => ?_⟩
    · simp only [run, e1]; exact e3
    · rw [v3, v1]; rfl
  | .sdiv e c, hl, hd => by
    obtain ⟨p, e1, w1, d1, v1⟩ := run_spec ρ h e hl hd.2
    obtain ⟨r, e3, w3, d3, _, v3⟩ := Exact.sdiv_spec p c w1 hd.1
    refine ⟨r, ?_, w3, by rw [d3, d1], fun k t => ?_⟩
    · simp only [run, e1]; exact e3
    · rw [v3, v1]; rfl

/-! ### the executable guards decide the classes used above -/

theorem chainOk_iff : ∀ (l : List (K × K)), chainOk l = true ↔ Chain l
  | [] => by simp [chainOk]
  | [_] => by simp [chainOk]
  | p :: q :: r => by
    have ih := chainOk_iff (q :: r)
    simp only [chainOk, Bool.and_eq_true, Bool.or_eq_true, decide_eq_true_eq, ih, chain_cons2]
    constructor
    · rintro ⟨h1 | h1, h2⟩
      · exact ⟨Or.inl h1, h2⟩
      · exact ⟨Or.inr (Prod.ext h1.1 h1.2), h2⟩
    · rintro ⟨h1 | h1, h2⟩
      · exact ⟨Or.inl h1, h2⟩
      · exact ⟨Or.inr ⟨by rw [h1], by rw [h1]⟩, h2⟩

theorem wfDepth_iff (l : List (K × K)) : wfDepth l = true ↔ WF l := by
  cases l with
  | nil => simp [wfDepth]; intro h; exact h.ne rfl
  | cons p r =>
    have hl : ∃ q, (p :: r).getLast? = some q := ⟨_, List.getLast?_eq_some_getLast (by simp)⟩
    obtain ⟨q, hq⟩ := hl
    simp only [wfDepth, List.head?_cons, hq, Bool.and_eq_true, decide_eq_true_eq, chainOk_iff]
    constructor
    · rintro ⟨⟨h1, h2⟩, h3⟩
      refine ⟨by simp, ?_, ?_, h3⟩
      · intro p' hp'; simp only [List.head?_cons, Option.some.injEq] at hp'; rw [← hp']; exact h1
      · intro q' hq'; rw [hq] at hq'; simp only [Option.some.injEq] at hq'; rw [← hq']; exact h2
    · intro h
      exact ⟨⟨h.first p rfl, h.last q hq⟩, h.chain⟩

theorem Exact.wf_iff (p : Exact K) : p.wf = true ↔ p.WF := by
  simp only [Exact.wf, Bool.and_eq_true, Bool.not_eq_true', List.isEmpty_eq_false_iff, List.all_eq_true, wfDepth_iff]
  rfl

theorem chain_of_zip : ∀ (l : List (K × K)),
    ((l.zip l.tail).all fun pq => decide (pq.1.1 < pq.2.1)) = true → Chain l
  | [], _ => trivial
  | [_], _ => trivial
  | p :: q :: r, h => by
    simp only [List.tail_cons, List.zip_cons_cons, List.all_cons, Bool.and_eq_true, decide_eq_true_eq] at h
    exact ⟨Or.inl h.1, chain_of_zip (q :: r) (by simpa using h.2)⟩

/-- the strict class of `PLBase.wellFormed` (≥ 2 points, strictly increasing abscissae, zero ends) is
    contained in the class `WF` the C09 theorems are stated for -/
theorem wf_of_wellFormed (l : List (K × K)) (h : wellFormed l = true) : WF l := by
  match l, h with
  | (x0, y0) :: q :: r, h =>
    simp only [wellFormed, Bool.and_eq_true, beq_iff_eq] at h
    obtain ⟨⟨h1, h2⟩, h3⟩ := h
    refine ⟨by simp, ?_, ?_, chain_of_zip _ (by simpa using h3)⟩
    · intro p hp; simp only [List.head?_cons, Option.some.injEq] at hp; rw [← hp]; exact h1
    · intro q' hq'
      rw [hq'] at h2
      simpa using h2

end PersimVerif.PLArith
