import PersimVerif.Lemmas.WassersteinDual
import Mathlib.Algebra.Order.Monoid.Defs
import Mathlib.Tactic.Linarith

/-!
# The exhaustive assignment solver `exhLsa` meets the contract of `linear_sum_assignment`

`exhGo rows used` (Model/Wasserstein.lean, driver op `ws.exh`) walks the rows, tries every finite
entry in a column not used yet, and keeps the cheapest completion.  `Valid rows used cols w` says
that `cols` is such a completion of cost `w`; `exhGo_sound` / `exhGo_min` say that `exhGo` returns
a valid completion that is no more expensive than any other; `exhLsa_contract` turns this into
`LsaContract exhLsa`, a *computable* witness of the hypothesis of `wasserstein_eq_spec`.
-/
namespace PersimVerif.WsLemmas
open PersimVerif.Wasserstein

section
variable {K : Type} [AddCommMonoid K] [LinearOrder K] [IsOrderedAddMonoid K]

/-- `cols` assigns to the rows, in order, pairwise different columns outside `used`, every selected
    entry finite; `w` is the sum of the selected entries -/
inductive Valid : List (List (Option K)) → List Nat → List Nat → K → Prop
  | nil (used : List Nat) : Valid [] used [] 0
  | cons (r : List (Option K)) (rs : List (List (Option K))) (used : List Nat) (j : Nat)
      (cols : List Nat) (x w : K) :
      r[j]? = some (some x) → j ∉ used → Valid rs (j :: used) cols w →
      Valid (r :: rs) used (j :: cols) (x + w)

omit [AddCommMonoid K] [IsOrderedAddMonoid K] in
theorem better_eq_some {a b : Option (K × List Nat)} {y : K × List Nat} (h : better a b = some y) :
    a = some y ∨ b = some y := by
  cases a with
  | none => right; simpa [better] using h
  | some x =>
    cases b with
    | none => left; simpa [better] using h
    | some z =>
      simp only [better] at h
      split at h
      · right; exact h
      · left; exact h

omit [AddCommMonoid K] [IsOrderedAddMonoid K] in
theorem better_le_left {a b : Option (K × List Nat)} {z : K × List Nat} (h : a = some z) :
    ∃ y, better a b = some y ∧ y.1 ≤ z.1 := by
  subst h
  cases b with
  | none => exact ⟨z, by simp [better], le_rfl⟩
  | some t =>
    simp only [better]
    split
    · rename_i hlt; exact ⟨t, rfl, hlt.le⟩
    · exact ⟨z, rfl, le_rfl⟩

omit [AddCommMonoid K] [IsOrderedAddMonoid K] in
theorem better_le_right {a b : Option (K × List Nat)} {z : K × List Nat} (h : b = some z) :
    ∃ y, better a b = some y ∧ y.1 ≤ z.1 := by
  subst h
  cases a with
  | none => exact ⟨z, by simp [better], le_rfl⟩
  | some t =>
    simp only [better]
    split
    · exact ⟨z, rfl, le_rfl⟩
    · rename_i hlt; exact ⟨t, rfl, not_lt.mp hlt⟩

variable {β : Type}

omit [AddCommMonoid K] [IsOrderedAddMonoid K] in
theorem foldl_better_mem (c : β → Option (K × List Nat)) (l : List β) (init : Option (K × List Nat))
    (y : K × List Nat) (h : l.foldl (fun b p => better b (c p)) init = some y) :
    init = some y ∨ ∃ p ∈ l, c p = some y := by
  induction l generalizing init with
  | nil => left; simpa using h
  | cons p l ih =>
    rw [List.foldl_cons] at h
    rcases ih _ h with h1 | ⟨q, hq, hc⟩
    · rcases better_eq_some h1 with h2 | h2
      · left; exact h2
      · right; exact ⟨p, by simp, h2⟩
    · right; exact ⟨q, by simp [hq], hc⟩

omit [AddCommMonoid K] [IsOrderedAddMonoid K] in
theorem foldl_better_le (c : β → Option (K × List Nat)) (l : List β) (init : Option (K × List Nat))
    (z : K × List Nat) (h : init = some z ∨ ∃ p ∈ l, c p = some z) :
    ∃ y, l.foldl (fun b p => better b (c p)) init = some y ∧ y.1 ≤ z.1 := by
  induction l generalizing init z with
  | nil =>
    rcases h with h | ⟨p, hp, _⟩
    · exact ⟨z, by simpa using h, le_rfl⟩
    · simp at hp
  | cons p l ih =>
    rw [List.foldl_cons]
    rcases h with h | ⟨q, hq, hc⟩
    · obtain ⟨y, hy, hle⟩ := better_le_left (b := c p) h
      obtain ⟨y', hy', hle'⟩ := ih (better init (c p)) y (Or.inl hy)
      exact ⟨y', hy', hle'.trans hle⟩
    · rcases List.mem_cons.mp hq with rfl | hq
      · obtain ⟨y, hy, hle⟩ := better_le_right (a := init) hc
        obtain ⟨y', hy', hle'⟩ := ih (better init (c q)) y (Or.inl hy)
        exact ⟨y', hy', hle'.trans hle⟩
      · exact ih _ z (Or.inr ⟨q, hq, hc⟩)

/-- the candidate produced by one entry `(e, j)` of the current row -/
def cand (rs : List (List (Option K))) (used : List Nat) (p : Option K × Nat) :
    Option (K × List Nat) :=
  match p.1 with
  | none => none
  | some x =>
    if used.contains p.2 then none
    else match exhGo rs (p.2 :: used) with
      | none => none
      | some (w, cols) => some (x + w, p.2 :: cols)

omit [AddCommMonoid K] [IsOrderedAddMonoid K] in
theorem better_none_right (a : Option (K × List Nat)) : better a none = a := by
  cases a <;> rfl

omit [IsOrderedAddMonoid K] in
theorem exhGo_cons (r : List (Option K)) (rs : List (List (Option K))) (used : List Nat) :
    exhGo (r :: rs) used = (r.zipIdx).foldl (fun b p => better b (cand rs used p)) none := by
  rw [exhGo]
  congr 1
  funext best p
  rcases p with ⟨e, j⟩
  cases e with
  | none => simp [cand, better_none_right]
  | some x =>
    simp only [cand]
    split
    · simp [better_none_right]
    · cases exhGo rs (j :: used) with
      | none => simp [better_none_right]
      | some wc => rfl

omit [IsOrderedAddMonoid K] in
/-- what `exhGo` returns is a valid completion of the cost it reports -/
theorem exhGo_sound (rows : List (List (Option K))) (used : List Nat) (w : K) (cols : List Nat)
    (h : exhGo rows used = some (w, cols)) : Valid rows used cols w := by
  induction rows generalizing used w cols with
  | nil =>
    simp only [exhGo, Option.some.injEq, Prod.mk.injEq] at h
    obtain ⟨rfl, rfl⟩ := h
    exact Valid.nil used
  | cons r rs ih =>
    rw [exhGo_cons] at h
    rcases foldl_better_mem _ _ _ _ h with h0 | ⟨⟨e, j⟩, hp, hc⟩
    · cases h0
    · have hrj : r[j]? = some e := List.mem_zipIdx_iff_getElem?.mp hp
      simp only [cand] at hc
      cases e with
      | none => simp at hc
      | some x =>
        simp only at hc
        split at hc
        · cases hc
        · rename_i hused
          cases hgo : exhGo rs (j :: used) with
          | none => rw [hgo] at hc; cases hc
          | some wc =>
            rw [hgo] at hc
            simp only [Option.some.injEq, Prod.mk.injEq] at hc
            obtain ⟨rfl, rfl⟩ := hc
            refine Valid.cons r rs used j wc.2 x wc.1 hrj ?_ (ih _ _ _ hgo)
            simpa using hused

/-- `exhGo` finds a completion whenever one exists, and none is cheaper than the one it returns -/
theorem exhGo_min (rows : List (List (Option K))) (used : List Nat) (w' : K) (cols' : List Nat)
    (h : Valid rows used cols' w') : ∃ w cols, exhGo rows used = some (w, cols) ∧ w ≤ w' := by
  induction h with
  | nil used => exact ⟨0, [], rfl, le_rfl⟩
  | cons r rs used j cols x w hrj hj _ ih =>
    obtain ⟨w0, cs0, hgo, hle⟩ := ih
    rw [exhGo_cons]
    have hmem : (some x, j) ∈ r.zipIdx := List.mem_zipIdx_iff_getElem?.mpr hrj
    have hc : cand rs used (some x, j) = some (x + w0, j :: cs0) := by
      simp [cand, hj, hgo]
    obtain ⟨y, hy, hyle⟩ := foldl_better_le (cand rs used) r.zipIdx none _ (Or.inr ⟨_, hmem, hc⟩)
    exact ⟨y.1, y.2, hy, hyle.trans (add_le_add_right hle x)⟩

/-! ### from valid completions to permutations -/

/-- cost of the entries selected by `cols`, in `WithTop K` -/
def selCost (rows : List (List (Option K))) (cols : List Nat) : WithTop K :=
  ((rows.zip cols).map fun p => toTop ((p.1[p.2]?).getD none)).sum

omit [LinearOrder K] [IsOrderedAddMonoid K] in
theorem selCost_cons (r : List (Option K)) (rs : List (List (Option K))) (j : Nat) (cols : List Nat) :
    selCost (r :: rs) (j :: cols) = toTop ((r[j]?).getD none) + selCost rs cols := by
  simp [selCost]

omit [LinearOrder K] [IsOrderedAddMonoid K] in
theorem valid_length {rows : List (List (Option K))} {used cols : List Nat} {w : K}
    (h : Valid rows used cols w) : cols.length = rows.length := by
  induction h with
  | nil => rfl
  | cons r rs used j cols x w _ _ _ ih => simp [ih]

omit [LinearOrder K] [IsOrderedAddMonoid K] in
theorem valid_nodup {rows : List (List (Option K))} {used cols : List Nat} {w : K}
    (h : Valid rows used cols w) : cols.Nodup ∧ ∀ j ∈ cols, j ∉ used := by
  induction h with
  | nil => simp
  | cons r rs used j cols x w _ hj _ ih =>
    obtain ⟨hnd, hdis⟩ := ih
    refine ⟨List.nodup_cons.mpr ⟨fun hmem => ?_, hnd⟩, fun j' hj' => ?_⟩
    · exact hdis j hmem (by simp)
    · rcases List.mem_cons.mp hj' with rfl | hj'
      · exact hj
      · exact fun hu => hdis j' hj' (by simp [hu])

omit [LinearOrder K] [IsOrderedAddMonoid K] in
theorem valid_lt {rows : List (List (Option K))} {used cols : List Nat} {w : K} (n : Nat)
    (h : Valid rows used cols w) (hn : ∀ r ∈ rows, r.length = n) : ∀ j ∈ cols, j < n := by
  induction h with
  | nil => simp
  | cons r rs used j cols x w hrj _ _ ih =>
    intro j' hj'
    rcases List.mem_cons.mp hj' with rfl | hj'
    · have : j' < r.length := by
        by_contra hge
        rw [List.getElem?_eq_none (not_lt.mp hge)] at hrj
        cases hrj
      rwa [hn r (by simp)] at this
    · exact ih (fun r' hr' => hn r' (by simp [hr'])) j' hj'

omit [LinearOrder K] [IsOrderedAddMonoid K] in
theorem valid_cost {rows : List (List (Option K))} {used cols : List Nat} {w : K}
    (h : Valid rows used cols w) : selCost rows cols = (w : WithTop K) := by
  induction h with
  | nil => simp [selCost]
  | cons r rs used j cols x w hrj _ _ ih =>
    rw [selCost_cons, ih, hrj]
    simp [WithTop.coe_add]

omit [LinearOrder K] [IsOrderedAddMonoid K] in
/-- conversely: pairwise different columns outside `used` whose selected entries are all finite
    form a valid completion -/
theorem valid_of_finite (rows : List (List (Option K))) (used cols : List Nat)
    (hlen : cols.length = rows.length) (hnd : cols.Nodup) (hdis : ∀ j ∈ cols, j ∉ used)
    (hfin : selCost rows cols ≠ ⊤) : ∃ w : K, Valid rows used cols w := by
  induction rows generalizing used cols with
  | nil =>
    have : cols = [] := List.length_eq_zero_iff.mp hlen
    subst this
    exact ⟨0, Valid.nil used⟩
  | cons r rs ih =>
    cases cols with
    | nil => simp at hlen
    | cons j cols =>
      rw [selCost_cons] at hfin
      have h1 : toTop ((r[j]?).getD none) ≠ ⊤ := fun h => hfin (by rw [h]; exact WithTop.top_add _)
      have h2 : selCost rs cols ≠ ⊤ := fun h => hfin (by rw [h]; exact WithTop.add_top _)
      obtain ⟨hjn, hnd'⟩ := List.nodup_cons.mp hnd
      obtain ⟨w, hw⟩ := ih (j :: used) cols (by simpa using hlen) hnd'
        (fun j' hj' hu => by
          rcases List.mem_cons.mp hu with rfl | hu
          · exact hjn hj'
          · exact hdis j' (by simp [hj']) hu) h2
      cases hrj : r[j]? with
      | none => rw [hrj] at h1; exact absurd rfl h1
      | some e =>
        cases e with
        | none => rw [hrj] at h1; exact absurd rfl h1
        | some x => exact ⟨x + w, Valid.cons r rs used j cols x w hrj (hdis j (by simp)) hw⟩

end

section perm
variable {K : Type}

theorem perm_of_nodup_lt (n : Nat) (cols : List Nat) (hlen : cols.length = n) (hnd : cols.Nodup)
    (hlt : ∀ x ∈ cols, x < n) :
    ∃ σ : Equiv.Perm (Fin n), cols = List.ofFn fun i => (σ i).val := by
  let f : Fin n → Fin n := fun i => ⟨cols[i.val]'(hlen ▸ i.isLt), hlt _ (List.getElem_mem _)⟩
  have finj : Function.Injective f := fun i j hij => by
    have := congrArg Fin.val hij
    simp only [f] at this
    exact Fin.ext ((hnd.getElem_inj_iff).mp this)
  refine ⟨Equiv.ofBijective f (Finite.injective_iff_bijective.mp finj), ?_⟩
  apply List.ext_getElem
  · simp [hlen]
  · intro i h1 h2
    simp [f]

variable [AddCommMonoid K]

/-- the cost selected in an `n × n` matrix given by `List.ofFn` by a function `σ` -/
theorem selCost_ofFn {n : Nat} (D : Fin n → Fin n → Option K) (σ : Fin n → Fin n) :
    selCost (List.ofFn fun i => List.ofFn fun j => D i j) (List.ofFn fun i => (σ i).val)
      = ∑ i, toTop (D i (σ i)) := by
  have hz : (List.ofFn fun i => List.ofFn fun j => D i j).zip (List.ofFn fun i => (σ i).val)
      = List.ofFn fun i : Fin n => ((List.ofFn fun j => D i j), (σ i).val) := by
    apply List.ext_getElem
    · simp
    · intro i h1 h2
      simp
  rw [selCost, hz, List.map_ofFn, List.sum_ofFn]
  refine Finset.sum_congr rfl fun i _ => ?_
  simp

end perm

section contract
variable {K : Type} [AddCommMonoid K] [LinearOrder K] [IsOrderedAddMonoid K]

/-- **the exhaustive solver meets the contract of `linear_sum_assignment`** -/
theorem exhLsa_contract' : LsaContract (K := K) exhLsa := by
  intro n D ⟨σ0, hσ0⟩
  set rows : Mat K := List.ofFn fun i => List.ofFn fun j => D i j with hrows
  have hrl : rows.length = n := by simp [hrows]
  have hrn : ∀ r ∈ rows, r.length = n := by
    intro r hr
    obtain ⟨i, rfl⟩ := (List.mem_ofFn' _ _).mp hr
    simp
  -- every finite permutation is a valid completion
  have hvalid : ∀ τ : Equiv.Perm (Fin n), (∑ i, toTop (D i (τ i))) ≠ ⊤ →
      ∃ w : K, Valid rows [] (List.ofFn fun i => (τ i).val) w ∧
        (w : WithTop K) = ∑ i, toTop (D i (τ i)) := by
    intro τ hfin
    have hc := selCost_ofFn D τ
    obtain ⟨w, hw⟩ := valid_of_finite rows [] (List.ofFn fun i => (τ i).val) (by simp [hrl])
      (by
        rw [List.nodup_ofFn]
        exact fun i j hij => τ.injective (Fin.ext hij))
      (by simp) (by rw [hc]; exact hfin)
    exact ⟨w, hw, by rw [← valid_cost hw, hc]⟩
  have hfin0 : (∑ i, toTop (D i (σ0 i))) ≠ ⊤ := by
    rw [Ne, WithTop.sum_eq_top]
    rintro ⟨i, -, hi⟩
    exact hσ0 i hi
  obtain ⟨w0, hv0, -⟩ := hvalid σ0 hfin0
  obtain ⟨w, cols, hgo, -⟩ := exhGo_min rows [] w0 _ hv0
  have hv := exhGo_sound rows [] w cols hgo
  obtain ⟨σ, hσ⟩ := perm_of_nodup_lt n cols ((valid_length hv).trans hrl) (valid_nodup hv).1
    (valid_lt n hv hrn)
  have hcost : (w : WithTop K) = ∑ i, toTop (D i (σ i)) := by
    rw [← valid_cost hv, hσ, selCost_ofFn]
  refine ⟨σ, ?_, fun τ => ?_⟩
  · simp only [exhLsa, hgo, hrl]
    rw [zip_range_eq_ofFn n cols ((valid_length hv).trans hrl)]
    congr 1
    funext i
    simp [hσ]
  · rw [← hcost]
    by_cases hfin : (∑ i, toTop (D i (τ i))) = ⊤
    · rw [hfin]; exact le_top
    · obtain ⟨wτ, hvτ, hwτ⟩ := hvalid τ hfin
      obtain ⟨w', cols', hgo', hle⟩ := exhGo_min rows [] wτ _ hvτ
      rw [hgo] at hgo'
      cases hgo'
      rw [← hwτ]
      exact WithTop.coe_le_coe.mpr hle

end contract
end PersimVerif.WsLemmas
