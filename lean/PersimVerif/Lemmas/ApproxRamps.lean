import PersimVerif.Lemmas.ApproxSnap
import Mathlib.Algebra.Order.Field.Basic
import Mathlib.Tactic.Linarith
import Mathlib.Tactic.Ring

/-!
# The two ramp loops of `compute_landscape` (helpers for C08)

After the loop over all bars, `W[i]` is the concatenation over the bars of `contrib`: the value
written at node `i` by the ascending ramp (nodes `ib < i ≤ mid`) or by the descending ramp
(nodes `mid < i < id`), and nothing otherwise.  With a positive step (or `ib = id`) this is the
list of positive tent values of the snapped bars at node `i`.
-/
namespace PersimVerif.ApproxLemmas
open PersimVerif.PL PersimVerif.Approx List

set_option linter.unusedSectionVars false

variable {K : Type} [Field K] [LinearOrder K] [IsStrictOrderedRing K]

/-- a loop `for t in range(m): W[f t].append(g t)` appends at `i` the `g t` with `f t = i`, in order -/
theorem foldl_appendAt_getElem? (f : Nat → Nat) (g : Nat → K) (m : Nat) (W : List (List K)) (i : Nat) :
    ((List.range m).foldl (fun W t => appendAt W (f t) (g t)) W)[i]? =
      (W[i]?).map (· ++ ((List.range m).filter (fun t => decide (f t = i))).map g) := by
  induction m with
  | zero => simp
  | succ m ih =>
    simp only [List.range_succ, List.foldl_append, List.foldl_cons, List.foldl_nil,
      List.filter_append, List.map_append]
    rw [appendAt, List.getElem?_modify, ih]
    cases W[i]? with
    | none => simp
    | some w =>
      by_cases h : f m = i
      · simp [h]
      · simp [h]

theorem foldl_appendAt_length (f : Nat → Nat) (g : Nat → K) (m : Nat) (W : List (List K)) :
    ((List.range m).foldl (fun W t => appendAt W (f t) (g t)) W).length = W.length := by
  induction m with
  | zero => simp
  | succ m ih =>
    simp only [List.range_succ, List.foldl_append, List.foldl_cons, List.foldl_nil, appendAt,
      List.length_modify]
    exact ih

theorem filter_range_up (a c i : Nat) :
    (List.range c).filter (fun t => decide (a + (t + 1) = i)) =
      if a < i ∧ i ≤ a + c then [i - a - 1] else [] := by
  induction c with
  | zero =>
    simp
  | succ c ih =>
    rw [List.range_succ, List.filter_append, ih]
    by_cases h1 : a < i ∧ i ≤ a + c
    · have h2 : a < i ∧ i ≤ a + (c + 1) := by omega
      have h3 : ¬ (a + (c + 1) = i) := by omega
      simp [h1, h2, h3]
    · by_cases h3 : a + (c + 1) = i
      · have h2 : a < i ∧ i ≤ a + (c + 1) := by omega
        have h4 : i - a - 1 = c := by omega
        simp [h2, h3, h4]; omega
      · have h2 : ¬ (a < i ∧ i ≤ a + (c + 1)) := by omega
        simp [h1, h2, h3]

theorem filter_range_down (d c i : Nat) (hc : c ≤ d) :
    (List.range c).filter (fun t => decide (d - (t + 1) = i)) =
      if i < d ∧ d ≤ i + c then [d - i - 1] else [] := by
  induction c with
  | zero =>
    simp
  | succ c ih =>
    rw [List.range_succ, List.filter_append, ih (by omega)]
    by_cases h1 : i < d ∧ d ≤ i + c
    · have h2 : i < d ∧ d ≤ i + (c + 1) := by omega
      have h3 : ¬ (d - (c + 1) = i) := by omega
      simp [h1, h2, h3]
    · by_cases h3 : d - (c + 1) = i
      · have h2 : i < d ∧ d ≤ i + (c + 1) := by omega
        have h4 : d - i - 1 = c := by omega
        simp [h2, h3, h4]; omega
      · have h2 : ¬ (i < d ∧ d ≤ i + (c + 1)) := by omega
        simp [h1, h2, h3]

/-- what one bar with snapped indices `ib`, `id` writes at node `i` -/
def contrib (step : K) (ib id i : Nat) : List K :=
  (if ib < i ∧ (i : Int) ≤ midPt ib id then [((i - ib : Nat) : K) * step] else []) ++
  (if midPt ib id < (i : Int) ∧ i < id then [((id - i : Nat) : K) * step] else [])

theorem rampUp_getElem? (step : K) (ib : Nat) (mid : Int) (W : List (List K)) (i : Nat) :
    (rampUp step ib mid W)[i]? =
      (W[i]?).map (· ++ (if ib < i ∧ (i : Int) ≤ mid then [((i - ib : Nat) : K) * step] else [])) := by
  unfold rampUp
  rw [foldl_appendAt_getElem? (fun t => ib + (t + 1)) (fun t => ((t + 1 : Nat) : K) * step), filter_range_up]
  congr 1
  funext w
  congr 1
  by_cases h : ib < i ∧ (i : Int) ≤ mid
  · have h' : ib < i ∧ i ≤ ib + (mid - (ib : Int)).toNat := by omega
    have h'' : i - ib - 1 + 1 = i - ib := by omega
    rw [if_pos h', if_pos h]
    simp only [List.map_cons, List.map_nil, h'']
  · have h' : ¬ (ib < i ∧ i ≤ ib + (mid - (ib : Int)).toNat) := by omega
    rw [if_neg h', if_neg h]
    rfl

theorem rampDown_getElem? (step : K) (mid : Int) (id : Nat) (hmid : 0 ≤ mid) (W : List (List K)) (i : Nat) :
    (rampDown step mid id W)[i]? =
      (W[i]?).map (· ++ (if mid < (i : Int) ∧ i < id then [((id - i : Nat) : K) * step] else [])) := by
  unfold rampDown
  rw [foldl_appendAt_getElem? (fun t => id - (t + 1)) (fun t => ((t + 1 : Nat) : K) * step),
    filter_range_down _ _ _ (by omega)]
  congr 1
  funext w
  congr 1
  by_cases h : mid < (i : Int) ∧ i < id
  · have h' : i < id ∧ id ≤ i + ((id : Int) - (mid + 1)).toNat := by omega
    have h'' : id - i - 1 + 1 = id - i := by omega
    rw [if_pos h', if_pos h]
    simp only [List.map_cons, List.map_nil, h'']
  · have h' : ¬ (i < id ∧ id ≤ i + ((id : Int) - (mid + 1)).toNat) := by omega
    rw [if_neg h', if_neg h]
    rfl

theorem midPt_nonneg (ib id : Nat) : 0 ≤ midPt ib id := by unfold midPt; omega

/-- one iteration of the loop over the bars -/
theorem addBar_getElem? (step : K) (grid : List K) (W : List (List K)) (p : K × K) (i : Nat) :
    (addBar step grid W p)[i]? =
      (W[i]?).map (· ++ contrib step (gridIndex grid p.1) (gridIndex grid p.2) i) := by
  simp only [addBar]
  rw [rampDown_getElem? _ _ _ (midPt_nonneg _ _), rampUp_getElem?]
  cases W[i]? with
  | none => simp
  | some w => simp [contrib, List.append_assoc]

/-- the whole loop: `W[i]` is the concatenation of the contributions of the bars, in order -/
theorem foldl_addBar_getElem? (step : K) (grid : List K) (bars : List (K × K)) (W : List (List K)) (i : Nat) :
    (bars.foldl (addBar step grid) W)[i]? =
      (W[i]?).map (· ++ bars.flatMap fun p => contrib step (gridIndex grid p.1) (gridIndex grid p.2) i) := by
  induction bars generalizing W with
  | nil =>
    simp only [List.foldl_nil, List.flatMap_nil, List.append_nil]
    cases W[i]? <;> rfl
  | cons p t ih =>
    rw [List.foldl_cons, ih, addBar_getElem?]
    cases W[i]? with
    | none => simp
    | some w => simp [List.flatMap_cons, List.append_assoc]

theorem rampsW_getElem? (bars : List (K × K)) (s e : K) (n i : Nat) (hi : i < n) :
    (rampsW bars s e n)[i]? =
      some (bars.flatMap fun p => contrib (stepOf s e n) (gridIndex (linspace s e n) p.1)
        (gridIndex (linspace s e n) p.2) i) := by
  unfold rampsW
  rw [foldl_addBar_getElem?]
  simp [hi]

theorem addBar_length (step : K) (grid : List K) (W : List (List K)) (p : K × K) :
    (addBar step grid W p).length = W.length := by
  simp only [addBar, rampDown, rampUp, foldl_appendAt_length]

theorem rampsW_length (bars : List (K × K)) (s e : K) (n : Nat) : (rampsW bars s e n).length = n := by
  unfold rampsW
  have : ∀ (W : List (List K)), (bars.foldl (addBar (stepOf s e n) (linspace s e n)) W).length = W.length := by
    induction bars with
    | nil => intro W; rfl
    | cons p t ih => intro W; rw [List.foldl_cons, ih, addBar_length]
  rw [this, List.length_replicate]

/-- the contribution of one bar is the positive part of the tent of its snapped copy
    (`step > 0`, or both endpoints snapped to the same node) -/
theorem contrib_eq_tent (s e : K) (n ib id i : Nat) (h : 0 < stepOf s e n ∨ ib = id) :
    contrib (stepOf s e n) ib id i =
      [tent (node s e n ib) (node s e n id) (node s e n i)].filter (fun x => decide (0 < x)) := by
  have e1 : node s e n i - node s e n ib = ((i : K) - (ib : K)) * stepOf s e n := node_sub_node s e n i ib
  have e2 : node s e n id - node s e n i = ((id : K) - (i : K)) * stepOf s e n := node_sub_node s e n id i
  unfold tent contrib
  rw [e1, e2]
  rcases h with hpos | heq
  · by_cases c1 : ib < i ∧ (i : Int) ≤ midPt ib id
    · -- ascending ramp
      have c2 : ¬ (midPt ib id < (i : Int) ∧ i < id) := by omega
      have hle : 2 * i ≤ ib + id := by unfold midPt at c1; omega
      have hK : (i : K) - ib ≤ (id : K) - i := by
        have : ((2 * i : Nat) : K) ≤ ((ib + id : Nat) : K) := by exact_mod_cast hle
        push_cast at this; linarith
      have hcast : ((i - ib : Nat) : K) = (i : K) - ib := Nat.cast_sub c1.1.le
      have hpos1 : (0 : K) < (i : K) - ib := by
        have : (ib : K) < (i : K) := by exact_mod_cast c1.1
        linarith
      have hmin : min (((i : K) - ib) * stepOf s e n) (((id : K) - i) * stepOf s e n) = ((i : K) - ib) * stepOf s e n :=
        min_eq_left (mul_le_mul_of_nonneg_right hK hpos.le)
      have hp : 0 < ((i : K) - ib) * stepOf s e n := mul_pos hpos1 hpos
      rw [hmin, max_eq_right hp.le]
      simp [c1, c2, hcast, hp]
    · by_cases c2 : midPt ib id < (i : Int) ∧ i < id
      · -- descending ramp
        have hlt : ib + id < 2 * i := by unfold midPt at c2; omega
        have hK : (id : K) - i ≤ (i : K) - ib := by
          have : ((ib + id : Nat) : K) < ((2 * i : Nat) : K) := by exact_mod_cast hlt
          push_cast at this; linarith
        have hcast : ((id - i : Nat) : K) = (id : K) - i := Nat.cast_sub c2.2.le
        have hpos1 : (0 : K) < (id : K) - i := by
          have : (i : K) < (id : K) := by exact_mod_cast c2.2
          linarith
        have hmin : min (((i : K) - ib) * stepOf s e n) (((id : K) - i) * stepOf s e n) = ((id : K) - i) * stepOf s e n :=
          min_eq_right (mul_le_mul_of_nonneg_right hK hpos.le)
        have hp : 0 < ((id : K) - i) * stepOf s e n := mul_pos hpos1 hpos
        rw [hmin, max_eq_right hp.le]
        simp [c1, c2, hcast, hp]
      · -- outside the open interval of nodes
        have hout : i ≤ ib ∨ id ≤ i := by unfold midPt at c1 c2; omega
        have hnp : min (((i : K) - ib) * stepOf s e n) (((id : K) - i) * stepOf s e n) ≤ 0 := by
          rcases hout with h1 | h1
          · have : (i : K) ≤ (ib : K) := by exact_mod_cast h1
            exact le_trans (min_le_left _ _) (mul_nonpos_of_nonpos_of_nonneg (by linarith) hpos.le)
          · have : (id : K) ≤ (i : K) := by exact_mod_cast h1
            exact le_trans (min_le_right _ _) (mul_nonpos_of_nonpos_of_nonneg (by linarith) hpos.le)
        rw [max_eq_left hnp]
        simp [c1, c2]
  · subst heq
    have c1 : ¬ (ib < i ∧ (i : Int) ≤ midPt ib ib) := by unfold midPt; omega
    have c2 : ¬ (midPt ib ib < (i : Int) ∧ i < ib) := by unfold midPt; omega
    have hnp : min (((i : K) - ib) * stepOf s e n) (((ib : K) - i) * stepOf s e n) ≤ 0 := by
      rcases le_total (((i : K) - ib) * stepOf s e n) 0 with h1 | h1
      · exact le_trans (min_le_left _ _) h1
      · refine le_trans (min_le_right _ _) ?_
        have : ((ib : K) - i) * stepOf s e n = -(((i : K) - ib) * stepOf s e n) := by ring
        rw [this]; linarith
    rw [max_eq_left hnp]
    simp [c1, c2]

end PersimVerif.ApproxLemmas
