import PersimVerif.Model.PLBase
import PersimVerif.Spec.Matching
import Mathlib.Data.Real.Basic
import Mathlib.Data.List.FinRange
import Mathlib.Data.List.GetD
import Mathlib.Data.Finset.Card
import Mathlib.Data.Fintype.Card
import Mathlib.Order.Interval.Finset.Fin
import Mathlib.Algebra.Order.Group.Abs
import Mathlib.Algebra.Order.Group.MinMax
import Mathlib.Tactic.Linarith
import Mathlib.Tactic.Ring

/-!
# C10 helper lemmas, part 4: stability of the mathematical landscape under a partial matching

`λ_k(t)` (`PL.landscape`) is the k-th largest tent value.  If a partial matching of cost `≤ ε`
(L∞ between matched points, L∞ distance to the diagonal for unmatched ones) exists, then
`|λ_k(t) − λ'_k(t)| ≤ ε` for every depth and abscissa.
-/
namespace PersimVerif.PNormLemmas
open PersimVerif.PL PersimVerif.Spec

noncomputable section

/-! ### the k-th largest entry through counting -/

/-- counting characterisation of the k-th entry of a descending list (calibration file K) -/
theorem countP_sorted_desc (l : List ℝ) (h : l.Pairwise (· ≥ ·)) (v : ℝ) (k : ℕ) (hk : k < l.length) :
    v ≤ l[k] ↔ k < l.countP (fun x => decide (v ≤ x)) := by
  induction l generalizing k with
  | nil => simp at hk
  | cons a t ih =>
    rw [List.pairwise_cons] at h
    obtain ⟨ha, ht⟩ := h
    cases k with
    | zero =>
      simp only [List.getElem_cons_zero, List.countP_cons]
      constructor
      · intro hv; simp [hv]
      · intro hc
        by_contra hna
        have : t.countP (fun x => decide (v ≤ x)) = 0 := by
          rw [List.countP_eq_zero]
          intro x hx
          have := ha x hx
          simp only [decide_eq_true_eq]
          intro hvx; exact hna (le_trans hvx this)
        simp [this, hna] at hc
    | succ k =>
      have hk' : k < t.length := by simpa using hk
      simp only [List.getElem_cons_succ, List.countP_cons]
      rw [ih ht k hk']
      constructor
      · intro hc
        have hv : v ≤ a := by
          have := (ih ht k hk').mpr hc
          exact le_trans this (ha _ (List.getElem_mem hk'))
        simp [hv]; omega
      · intro hc
        split at hc <;> omega

theorem sortDesc_perm (vs : List ℝ) : (sortDesc vs).Perm vs := List.mergeSort_perm _ _

theorem sortDesc_sorted (vs : List ℝ) : (sortDesc vs).Pairwise (· ≥ ·) := by
  have := List.pairwise_mergeSort (le := fun a b : ℝ => decide (b ≤ a))
    (fun a b c hab hbc => by
      simp only [decide_eq_true_eq] at hab hbc ⊢; exact le_trans hbc hab)
    (fun a b => by
      simp only [Bool.or_eq_true, decide_eq_true_eq]; exact le_total b a) vs
  unfold sortDesc
  exact this.imp (fun h => by simpa using h)

/-- for non-negative entries and a positive threshold: `v ≤ kth vs k ↔ more than k entries are ≥ v` -/
theorem le_kth_iff (vs : List ℝ) (k : ℕ) (v : ℝ) (hv : 0 < v) :
    v ≤ kth vs k ↔ k < vs.countP (fun x => decide (v ≤ x)) := by
  rw [← (sortDesc_perm vs).countP_eq]
  unfold kth
  by_cases hk : k < (sortDesc vs).length
  · rw [List.getD_eq_getElem _ _ hk]
    exact countP_sorted_desc _ (sortDesc_sorted vs) v k hk
  · rw [List.getD_eq_default _ _ (not_lt.mp hk)]
    constructor
    · intro h; exact absurd h (not_le.mpr hv)
    · intro h
      exact absurd (lt_of_lt_of_le h (List.countP_le_length)) hk

theorem kth_nonneg (vs : List ℝ) (h : ∀ x ∈ vs, 0 ≤ x) (k : ℕ) : 0 ≤ kth vs k := by
  unfold kth
  by_cases hk : k < (sortDesc vs).length
  · rw [List.getD_eq_getElem _ _ hk]
    exact h _ ((sortDesc_perm vs).mem_iff.mp (List.getElem_mem hk))
  · rw [List.getD_eq_default _ _ (not_lt.mp hk)]

/-! ### tents -/

theorem tent_nonneg (b d t : ℝ) : 0 ≤ tent b d t := le_max_left _ _

theorem tent_le_half (b d t : ℝ) (h : b ≤ d) : tent b d t ≤ (d - b) / 2 := by
  unfold tent
  apply max_le
  · linarith
  · rcases le_total (t - b) (d - t) with h' | h'
    · rw [min_eq_left h']; linarith
    · rw [min_eq_right h']; linarith

theorem tent_lipschitz (b d b' d' t ε : ℝ) (hb : |b - b'| ≤ ε) (hd : |d - d'| ≤ ε) :
    tent b d t ≤ tent b' d' t + ε := by
  have hb' := abs_le.mp hb
  have hd' := abs_le.mp hd
  have hε : 0 ≤ ε := le_trans (abs_nonneg _) hb
  unfold tent
  apply max_le
  · have := le_max_left 0 (min (t - b') (d' - t)); linarith
  · have h1 : min (t - b) (d - t) ≤ min (t - b') (d' - t) + ε := by
      rw [← min_add_add_right]
      apply min_le_min <;> linarith [hb'.1, hb'.2, hd'.1, hd'.2]
    have := le_max_right 0 (min (t - b') (d' - t))
    linarith

/-! ### counting through the matching -/

/-- a list as a map over its indices -/
theorem map_eq_finRange_map {β : Type} (D : List (ℝ × ℝ)) (f : ℝ × ℝ → β) :
    D.map f = (List.finRange D.length).map fun i => f D[i] := by
  apply List.ext_getElem
  · simp
  · intro i h1 h2; simp

theorem countP_eq_card (D : List (ℝ × ℝ)) (f : ℝ × ℝ → ℝ) (v : ℝ) :
    (D.map f).countP (fun x => decide (v ≤ x))
      = (Finset.univ.filter fun i : Fin D.length => v ≤ f D[i]).card := by
  rw [map_eq_finRange_map, List.countP_map]
  have h := List.Nodup.card_eq_countP (P := fun i : Fin D.length => v ≤ f D[i]) (List.nodup_finRange D.length)
  rw [List.toFinset_finRange] at h
  rw [h]
  congr 1

/-- **one-sided stability**: a partial matching of cost `≤ ε` moves the k-th largest tent down by at most `ε` -/
theorem landscape_le_add (D D' : List (ℝ × ℝ)) (ε : ℝ)
    (p : PM (Fin D.length) (Fin D'.length))
    (hp : p.MaxLE (fun i j => linf D[i] D'[j]) (fun i => diagInf D[i]) (fun j => diagInf D'[j]) ε)
    (hD : ∀ q ∈ D, q.1 ≤ q.2) (k : ℕ) (t : ℝ) :
    landscape D k t ≤ landscape D' k t + ε := by
  obtain ⟨hε, hrow, _⟩ := hp
  set a := landscape D k t with ha
  have hb0 : 0 ≤ landscape D' k t := by
    apply kth_nonneg
    intro x hx
    obtain ⟨q, _, rfl⟩ := List.mem_map.mp hx
    exact tent_nonneg _ _ _
  by_cases hae : a ≤ ε
  · linarith
  have hv : 0 < a - ε := by linarith
  rw [← sub_le_iff_le_add]
  unfold landscape
  rw [le_kth_iff _ _ _ hv, countP_eq_card D' (fun q => tent q.1 q.2 t)]
  have ha0 : 0 < a := lt_of_le_of_lt hε (not_le.mp hae)
  have hk : k < (Finset.univ.filter fun i : Fin D.length => a ≤ tent D[i].1 D[i].2 t).card := by
    rw [← countP_eq_card D (fun q => tent q.1 q.2 t), ← le_kth_iff _ _ _ ha0]
    exact le_refl _
  refine lt_of_lt_of_le hk ?_
  -- the matching injects the bars with tent ≥ a into the bars of D' with tent ≥ a - ε
  set A := Finset.univ.filter fun i : Fin D.length => a ≤ tent D[i].1 D[i].2 t with hA
  set B := Finset.univ.filter fun j : Fin D'.length => a - ε ≤ tent D'[j].1 D'[j].2 t with hB
  have hsub : A.image p.f ⊆ B.image some := by
    intro o ho
    obtain ⟨i, hi, rfl⟩ := Finset.mem_image.mp ho
    have hi' : a ≤ tent D[i].1 D[i].2 t := (Finset.mem_filter.mp hi).2
    have hr := hrow i
    unfold PM.rowCost at hr
    cases hf : p.f i with
    | none =>
      exfalso
      rw [hf] at hr
      have := tent_le_half D[i].1 D[i].2 t (hD _ (List.getElem_mem _))
      simp only [diagInf] at hr
      linarith
    | some j =>
      rw [hf] at hr
      simp only [linf] at hr
      have h1 := tent_lipschitz D[i].1 D[i].2 D'[j].1 D'[j].2 t ε
        (le_trans (le_max_left _ _) hr) (le_trans (le_max_right _ _) hr)
      exact Finset.mem_image.mpr ⟨j, Finset.mem_filter.mpr ⟨Finset.mem_univ _, by linarith⟩, rfl⟩
  have hinj : Set.InjOn p.f A := by
    intro i hi i' hi' heq
    have hi2 : a ≤ tent D[i].1 D[i].2 t := (Finset.mem_filter.mp hi).2
    cases hf : p.f i with
    | none =>
      exfalso
      have hr := hrow i
      unfold PM.rowCost at hr
      rw [hf] at hr
      have := tent_le_half D[i].1 D[i].2 t (hD _ (List.getElem_mem _))
      simp only [diagInf] at hr
      linarith
    | some j =>
      have h1 : p.g j = some i := (p.fg i j).mp hf
      have h2 : p.g j = some i' := (p.fg i' j).mp (by rw [← heq, hf])
      rw [h1] at h2
      exact Option.some.inj h2
  calc A.card = (A.image p.f).card := (Finset.card_image_of_injOn hinj).symm
    _ ≤ (B.image some).card := Finset.card_le_card hsub
    _ = B.card := Finset.card_image_of_injective _ (Option.some_injective _)

end
end PersimVerif.PNormLemmas
