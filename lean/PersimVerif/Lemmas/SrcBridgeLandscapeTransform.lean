import PersimVerif.Model.Transformers

/-!
# Bridge between the translated `PersistenceLandscaper.transform` and Model/Transformers.lean (C08, C18)

`Generated/SrcPLTransform.lean` (written by harness/translator/py2lean_landscape.py from persim/landscapes/transformer.py on
every run) holds `PersistenceLandscaper.transform`, translated statement by statement.  This hand-written file has the
REVIEWED Lean text of that translation (`Ref.transform`; the generated file proves `generated = Ref.transform` by `rfl`) and the
proof that it is the model's `ltransform`: the constructor call `PersLandscapeApprox(dgms=X, start=self.start,
stop=self.stop, num_steps=self.num_steps, hom_deg=self.hom_deg)` is the parameter `approx` (its model is
`Approx.persLandscapeApprox`, C08), `result.values` the parameter `values`, `ndarray.flatten()` the parameter `flatten`.
Mathlib-free.
-/
set_option linter.unusedVariables false

namespace PersimVerif.SrcBridge.LandscapeTransform
open PersimVerif.Transformers

namespace Ref

/-- `PersistenceLandscaper.transform` -/
def transform {α δ ρ ν : Type} (approx : List δ → Option α → Option α → Int → Int → ρ) (values : ρ → ν) (flatten : ν → ν)
    (self : LState α) (X : List δ) : ν :=
  let result : ρ := approx X self.start self.stop self.numSteps self.homDeg
  if self.flatten then
    flatten (values result)
  else
    values result

end Ref

/-- the translated method is the model's `ltransform` (the landscape object and its `values` fused into the model's
    `approx`), for every state -- fitted or not, `start` / `stop` fixed or learnt -- and every input -/
theorem transform_eq_model {α ρ ν : Type} (approx : List (PersimVerif.Imager.Dgm α) → Option α → Option α → Int → Int → ρ)
    (values : ρ → ν) (flatten : ν → ν) (self : LState α) (X : List (PersimVerif.Imager.Dgm α)) :
    Ref.transform approx values flatten self X =
      ltransform (fun X s e n h => values (approx X s e n h)) flatten self X := rfl

end PersimVerif.SrcBridge.LandscapeTransform
