import PersimVerif.Spec.Matching
import Mathlib.Algebra.Order.Field.Basic
import Mathlib.Tactic.Ring
import Mathlib.Tactic.Linarith
import Mathlib.Tactic.FieldSimp
import Mathlib.Tactic.Positivity

/-!
# Costs of the Wasserstein specification: Euclidean distance and distance to the diagonal

`sqrt` is a function with the defining properties of the square root (`SqrtSpec`), so the same
statements hold over every ordered field that has one — in particular over `ℝ` with `Real.sqrt`.
`CosSpec c` is the algebraic contract of `c = cos(π/4) = sin(π/4)` (what persim/wasserstein.py computed the diagonal cost with
until the /repo fix of the diagonal cost; the Wasserstein model no longer has the parameter).
-/
namespace PersimVerif.Spec

variable {K : Type} [Field K] [LinearOrder K]

/-- Euclidean distance between two diagram points -/
def euclid (sqrt : K → K) (p q : K × K) : K := sqrt ((p.1 - q.1) ^ 2 + (p.2 - q.2) ^ 2)

/-- perpendicular distance of `(b,d)` to the diagonal: `(d-b)/√2` -/
def diagL2 (sqrt : K → K) (p : K × K) : K := (p.2 - p.1) / sqrt 2

/-- index-level costs of two diagrams given as lists -/
def pairCost (sqrt : K → K) (S T : List (K × K)) (i : Idx S) (j : Idx T) : K :=
  euclid sqrt (S.get i) (T.get j)

def diagCost (sqrt : K → K) (S : List (K × K)) (i : Idx S) : K := diagL2 sqrt (S.get i)

/-- the defining properties of a square-root function -/
structure SqrtSpec (sqrt : K → K) : Prop where
  nonneg : ∀ x, 0 ≤ x → 0 ≤ sqrt x
  sq : ∀ x, 0 ≤ x → sqrt x * sqrt x = x

/-- the algebraic contract of `c = cos(π/4) = sin(π/4)` -/
structure CosSpec (c : K) : Prop where
  nonneg : 0 ≤ c
  sq : c * c = 1 / 2

variable [IsStrictOrderedRing K] {sqrt : K → K} {c : K}

theorem SqrtSpec.sqrt_two_pos (hs : SqrtSpec sqrt) : 0 < sqrt 2 := by
  have h0 := hs.nonneg 2 (by norm_num)
  have h2 := hs.sq 2 (by norm_num)
  rcases h0.lt_or_eq with h | h
  · exact h
  · rw [← h] at h2; norm_num at h2

/-- `cos(π/4) = 1/√2`, from the two algebraic contracts alone -/
theorem CosSpec.mul_sqrt_two (hc : CosSpec c) (hs : SqrtSpec sqrt) : c * sqrt 2 = 1 := by
  have hpos := hs.sqrt_two_pos
  have h2 := hs.sq 2 (by norm_num)
  have hsq : (c * sqrt 2) * (c * sqrt 2) = 1 := by
    calc (c * sqrt 2) * (c * sqrt 2) = (c * c) * (sqrt 2 * sqrt 2) := by ring
      _ = 1 := by rw [hc.sq, h2]; norm_num
  have hn : 0 ≤ c * sqrt 2 := mul_nonneg hc.nonneg hpos.le
  nlinarith [sq_nonneg (c * sqrt 2 - 1), sq_nonneg (c * sqrt 2 + 1)]

/-- `c·(d−b) = (d−b)/√2` -/
theorem CosSpec.mul_eq_diagL2 (hc : CosSpec c) (hs : SqrtSpec sqrt) (p : K × K) :
    c * (p.2 - p.1) = diagL2 sqrt p := by
  have hpos := hs.sqrt_two_pos
  have h1 := hc.mul_sqrt_two hs
  unfold diagL2
  rw [eq_div_iff hpos.ne']
  calc c * (p.2 - p.1) * sqrt 2 = (c * sqrt 2) * (p.2 - p.1) := by ring
    _ = p.2 - p.1 := by rw [h1, one_mul]

theorem diagL2_nonneg (hs : SqrtSpec sqrt) (p : K × K) (h : p.1 ≤ p.2) : 0 ≤ diagL2 sqrt p :=
  div_nonneg (sub_nonneg.mpr h) hs.sqrt_two_pos.le

omit [LinearOrder K] [IsStrictOrderedRing K] in
theorem diagL2_zero (sqrt : K → K) : diagL2 sqrt ((0, 0) : K × K) = 0 := by simp [diagL2]

theorem euclid_nonneg (hs : SqrtSpec sqrt) (p q : K × K) : 0 ≤ euclid sqrt p q :=
  hs.nonneg _ (by positivity)

omit [LinearOrder K] [IsStrictOrderedRing K] in
theorem euclid_comm (sqrt : K → K) (p q : K × K) : euclid sqrt p q = euclid sqrt q p := by
  unfold euclid; congr 1; ring

/-- key inequality behind the placeholder: the distance to the diagonal point `(x,x)` is at least the
    distance to the diagonal -/
theorem diagL2_le_euclid_diag (hs : SqrtSpec sqrt) (p : K × K) (x : K) :
    diagL2 sqrt p ≤ euclid sqrt (x, x) p := by
  have hpos := hs.sqrt_two_pos
  have h2 := hs.sq 2 (by norm_num)
  have hr0 := euclid_nonneg hs (x, x) p
  have hrr : euclid sqrt (x, x) p * euclid sqrt (x, x) p = (x - p.1) ^ 2 + (x - p.2) ^ 2 :=
    hs.sq _ (by positivity)
  unfold diagL2
  rw [div_le_iff₀ hpos]
  by_contra hlt
  push Not at hlt
  have hn : 0 ≤ euclid sqrt (x, x) p * sqrt 2 := mul_nonneg hr0 hpos.le
  have hsq : (euclid sqrt (x, x) p * sqrt 2) * (euclid sqrt (x, x) p * sqrt 2)
      = 2 * ((x - p.1) ^ 2 + (x - p.2) ^ 2) := by
    calc _ = (euclid sqrt (x, x) p * euclid sqrt (x, x) p) * (sqrt 2 * sqrt 2) := by ring
      _ = _ := by rw [hrr, h2]; ring
  nlinarith [sq_nonneg ((x - p.1) + (x - p.2)), mul_self_lt_mul_self hn hlt]

theorem diagL2_le_euclid_diag' (hs : SqrtSpec sqrt) (p : K × K) (x : K) :
    diagL2 sqrt p ≤ euclid sqrt p (x, x) := by
  rw [euclid_comm]; exact diagL2_le_euclid_diag hs p x

/-- for `b ≤ d` the diagonal cost is attained at the foot of the perpendicular: it *is* the
    distance to the diagonal -/
theorem euclid_foot (hs : SqrtSpec sqrt) (p : K × K) (h : p.1 ≤ p.2) :
    euclid sqrt p ((p.1 + p.2) / 2, (p.1 + p.2) / 2) = diagL2 sqrt p := by
  have hpos := hs.sqrt_two_pos
  have h2 := hs.sq 2 (by norm_num)
  set r := euclid sqrt p ((p.1 + p.2) / 2, (p.1 + p.2) / 2) with hr
  have hr0 : 0 ≤ r := euclid_nonneg hs _ _
  have hrr : r * r = (p.1 - (p.1 + p.2) / 2) ^ 2 + (p.2 - (p.1 + p.2) / 2) ^ 2 :=
    hs.sq _ (by positivity)
  unfold diagL2
  rw [eq_div_iff hpos.ne']
  have hd : 0 ≤ p.2 - p.1 := sub_nonneg.mpr h
  have hn : 0 ≤ r * sqrt 2 := mul_nonneg hr0 hpos.le
  have hsq : (r * sqrt 2) * (r * sqrt 2) = (p.2 - p.1) * (p.2 - p.1) := by
    calc _ = (r * r) * (sqrt 2 * sqrt 2) := by ring
      _ = _ := by rw [hrr, h2]; ring
  nlinarith [sq_nonneg (r * sqrt 2 - (p.2 - p.1)), sq_nonneg (r * sqrt 2 + (p.2 - p.1))]

end PersimVerif.Spec
