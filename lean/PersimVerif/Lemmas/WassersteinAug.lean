import PersimVerif.Spec.Matching
import Mathlib.Algebra.BigOperators.WithTop
import Mathlib.Data.Fintype.Sum
import Mathlib.Data.Fintype.BigOperators
import Mathlib.Logic.Equiv.Basic
import Mathlib.Data.Finset.Max
import Mathlib.Data.Fintype.Perm

/-!
# The augmented square matrix and partial matchings (DESIGN.md A.3), sum version

Rows `M ⊕ N`, columns `N ⊕ M`, entries in `WithTop K` (`⊤` = `np.inf`):
`(inl i, inl j) ↦ c i j`, `(inl i, inr i') ↦ u i` if `i = i'` else `⊤`,
`(inr j, inl j') ↦ v j` if `j = j'` else `⊤`, `(inr _, inr _) ↦ 0`.

* `toEquiv p` : the perfect assignment induced by a partial matching `p`; its cost is `p.sumCost`.
* `ofEquiv σ` : the partial matching read off a perfect assignment; when every selected entry of
  `σ` is finite, its `sumCost` is the cost of `σ` (the zero block contributes nothing).
* `isMinSum_iff_aug` : `w` is the min-sum matching cost iff `w` is the minimum cost of a perfect
  assignment of the augmented matrix.
-/
namespace PersimVerif.Aug
open PersimVerif.Spec

variable {M N K : Type} [DecidableEq M] [DecidableEq N]

/-- augmented square matrix of persim/wasserstein.py:84-92 -/
def augD [Zero K] (c : M → N → K) (u : M → K) (v : N → K) : M ⊕ N → N ⊕ M → WithTop K
  | .inl i, .inl j => (c i j : K)
  | .inl i, .inr i' => if i = i' then (u i : K) else ⊤
  | .inr j, .inl j' => if j = j' then (v j : K) else ⊤
  | .inr _, .inr _ => ((0 : K) : WithTop K)

/-- the perfect assignment induced by a partial matching: matched pairs; an unmatched `i` takes its
    diagonal slot; the diagonal slot of an unmatched `j` takes `j`; the diagonal slot of a matched
    `j` takes the diagonal slot of its partner -/
def toEquiv (p : PM M N) : M ⊕ N ≃ N ⊕ M where
  toFun
    | .inl i => match p.f i with | some j => .inl j | none => .inr i
    | .inr j => match p.g j with | some i => .inr i | none => .inl j
  invFun
    | .inl j => match p.g j with | some i => .inl i | none => .inr j
    | .inr i => match p.f i with | some j => .inr j | none => .inl i
  left_inv := by
    rintro (i | j)
    · cases h : p.f i with
      | none => simp [h]
      | some j => simp [h, (p.fg i j).mp h]
    · cases h : p.g j with
      | none => simp [h]
      | some i => simp [h, (p.fg i j).mpr h]
  right_inv := by
    rintro (j | i)
    · cases h : p.g j with
      | none => simp [h]
      | some i => simp [h, (p.fg i j).mpr h]
    · cases h : p.f i with
      | none => simp [h]
      | some j => simp [h, (p.fg i j).mp h]

section
variable [Zero K] (c : M → N → K) (u : M → K) (v : N → K)

theorem aug_toEquiv_inl (p : PM M N) (i : M) :
    augD c u v (.inl i) (toEquiv p (.inl i)) = (p.rowCost c u i : K) := by
  cases h : p.f i with
  | none => simp [toEquiv, PM.rowCost, augD, h]
  | some j => simp [toEquiv, PM.rowCost, augD, h]

theorem aug_toEquiv_inr (p : PM M N) (j : N) :
    augD c u v (.inr j) (toEquiv p (.inr j)) = (p.colCost v j : K) := by
  cases h : p.g j with
  | none => simp [toEquiv, PM.colCost, augD, h]
  | some i => simp [toEquiv, PM.colCost, augD, h]

/-- the partial matching read off a perfect assignment -/
def ofEquiv (σ : M ⊕ N ≃ N ⊕ M) : PM M N where
  f i := (σ (.inl i)).getLeft?
  g j := (σ.symm (.inl j)).getLeft?
  fg i j := by
    simp only [Sum.getLeft?_eq_some_iff]
    constructor
    · intro h; rw [← h]; simp
    · intro h; rw [← h]; simp

theorem aug_ofEquiv_inl (σ : M ⊕ N ≃ N ⊕ M) (i : M) (h : augD c u v (.inl i) (σ (.inl i)) ≠ ⊤) :
    augD c u v (.inl i) (σ (.inl i)) = ((ofEquiv σ).rowCost c u i : K) := by
  cases hs : σ (.inl i) with
  | inl j => simp [ofEquiv, PM.rowCost, augD, hs]
  | inr i' =>
    rw [hs] at h
    by_cases e : i = i'
    · subst e; simp [ofEquiv, PM.rowCost, augD, hs]
    · simp [augD, e] at h

theorem aug_ofEquiv_inr (σ : M ⊕ N ≃ N ⊕ M) (hfin : ∀ x, augD c u v x (σ x) ≠ ⊤) (j : N) :
    augD c u v (.inr j) (σ (.inr j)) = ((ofEquiv σ).colCost v j : K) := by
  cases hs : σ (.inr j) with
  | inl j' =>
    have h := hfin (.inr j)
    rw [hs] at h
    by_cases e : j = j'
    · subst e
      have : σ.symm (.inl j) = .inr j := by rw [← hs]; simp
      simp [ofEquiv, PM.colCost, augD, this]
    · simp [augD, e] at h
  | inr i =>
    -- zero block: `j` must be matched, otherwise its column would be taken by its own diagonal slot
    cases hg : σ.symm (.inl j) with
    | inl i' => simp [ofEquiv, PM.colCost, augD, hg]
    | inr j'' =>
      exfalso
      have h := hfin (.inr j'')
      have e1 : σ (.inr j'') = .inl j := by rw [← hg]; simp
      rw [e1] at h
      by_cases e : j'' = j
      · subst e; rw [hs] at e1; cases e1
      · simp [augD, e] at h

end

section sums
variable [Fintype M] [Fintype N] [AddCommMonoid K] (c : M → N → K) (u : M → K) (v : N → K)

/-- the assignment induced by a partial matching costs exactly its `sumCost` -/
theorem sum_aug_toEquiv (p : PM M N) :
    ∑ x, augD c u v x (toEquiv p x) = (p.sumCost c u v : K) := by
  rw [Fintype.sum_sum_type]
  simp only [aug_toEquiv_inl, aug_toEquiv_inr, PM.sumCost, WithTop.coe_add, WithTop.coe_sum]

/-- a perfect assignment with finite selected entries costs exactly the `sumCost` of the partial
    matching read off it -/
theorem sum_aug_ofEquiv (σ : M ⊕ N ≃ N ⊕ M) (hfin : ∀ x, augD c u v x (σ x) ≠ ⊤) :
    ∑ x, augD c u v x (σ x) = ((ofEquiv σ).sumCost c u v : K) := by
  rw [Fintype.sum_sum_type]
  simp only [PM.sumCost, WithTop.coe_add, WithTop.coe_sum]
  congr 1
  · exact Finset.sum_congr rfl fun i _ => aug_ofEquiv_inl c u v σ i (hfin _)
  · exact Finset.sum_congr rfl fun j _ => aug_ofEquiv_inr c u v σ hfin j

/-- every perfect assignment costs at least the `sumCost` of some partial matching -/
theorem exists_pm_le [LinearOrder K] (σ : M ⊕ N ≃ N ⊕ M) :
    ∃ p : PM M N, ((p.sumCost c u v : K) : WithTop K) ≤ ∑ x, augD c u v x (σ x) := by
  by_cases hfin : ∀ x, augD c u v x (σ x) ≠ ⊤
  · exact ⟨ofEquiv σ, (sum_aug_ofEquiv c u v σ hfin).ge⟩
  · push Not at hfin
    obtain ⟨x, hx⟩ := hfin
    refine ⟨PM.empty, ?_⟩
    have : ∑ x, augD c u v x (σ x) = ⊤ := WithTop.sum_eq_top.mpr ⟨x, Finset.mem_univ _, hx⟩
    rw [this]; exact le_top

/-- a perfect assignment of the augmented matrix is *minimum-cost with value `w`* -/
def IsMinAssign [LinearOrder K] (D : M ⊕ N → N ⊕ M → WithTop K) (w : WithTop K) : Prop :=
  (∃ σ : M ⊕ N ≃ N ⊕ M, ∑ x, D x (σ x) = w) ∧ ∀ σ : M ⊕ N ≃ N ⊕ M, w ≤ ∑ x, D x (σ x)

/-- **min over perfect assignments of the augmented matrix = min over partial matchings** -/
theorem isMinSum_iff_aug [LinearOrder K] (w : K) :
    IsMinSum c u v w ↔ IsMinAssign (augD c u v) (w : WithTop K) := by
  constructor
  · rintro ⟨⟨p, hp⟩, hle⟩
    refine ⟨⟨toEquiv p, by rw [sum_aug_toEquiv, hp]⟩, fun σ => ?_⟩
    obtain ⟨q, hq⟩ := exists_pm_le c u v σ
    exact le_trans (WithTop.coe_le_coe.mpr (hle q)) hq
  · rintro ⟨⟨σ, hσ⟩, hle⟩
    have hfin : ∀ x, augD c u v x (σ x) ≠ ⊤ := by
      intro x hx
      have : ∑ x, augD c u v x (σ x) = ⊤ := WithTop.sum_eq_top.mpr ⟨x, Finset.mem_univ _, hx⟩
      rw [this] at hσ
      exact WithTop.coe_ne_top hσ.symm
    refine ⟨⟨ofEquiv σ, ?_⟩, fun p => ?_⟩
    · have := sum_aug_ofEquiv c u v σ hfin
      rw [hσ] at this
      exact (WithTop.coe_eq_coe.mp this).symm
    · have := hle (toEquiv p)
      rw [sum_aug_toEquiv] at this
      exact WithTop.coe_le_coe.mp this

/-- the minimum of the augmented matrix is always finite and attained: a min-sum cost exists -/
theorem exists_isMinSum [LinearOrder K] : ∃ w : K, IsMinSum c u v w := by
  classical
  obtain ⟨σ, -, hσ⟩ := Finset.exists_min_image (Finset.univ : Finset (M ⊕ N ≃ N ⊕ M))
    (fun σ => ∑ x, augD c u v x (σ x)) ⟨toEquiv PM.empty, Finset.mem_univ _⟩
  have hle : ∑ x, augD c u v x (σ x) ≤ ((PM.empty : PM M N).sumCost c u v : K) := by
    rw [← sum_aug_toEquiv]; exact hσ _ (Finset.mem_univ _)
  obtain ⟨w, hw⟩ := WithTop.ne_top_iff_exists.mp (ne_top_of_le_ne_top WithTop.coe_ne_top hle)
  exact ⟨w, (isMinSum_iff_aug c u v w).mpr ⟨⟨σ, hw.symm⟩, fun τ => hw ▸ hσ τ (Finset.mem_univ _)⟩⟩

end sums
end PersimVerif.Aug
