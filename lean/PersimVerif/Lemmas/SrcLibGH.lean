import PersimVerif.Model.Graph
import PersimVerif.Lemmas.SrcLib
import PersimVerif.Lemmas.SrcLibNp
/-
  Runtime library of the source translator of the mGH ENTRY POINT (harness/translator/py2lean_ghentry.py, DESIGN.md 3.2):
  the Lean meaning of the containers, Python builtins and NumPy / SciPy idioms that the generated definitions of
  `Generated/SrcGHEntry.lean` use as TABLE ENTRIES (each with the convention stated at its definition).  Core Lean only.
  Part of the translator's conventions (trusted like them); the lemmas relating these definitions to `Model/Graph.lean`
  are in `Lemmas/SrcBridgeGHEntry.lean`.
-/
namespace PersimVerif.SrcGH
open PersimVerif.Graph

/-- what a generated definition can fail with.  `value k`: a `ValueError`, tagged with the error kind of `Model/Graph.lean`
    that the translator's table gives for the raise site (`raise ValueError(...)` of `gromov_hausdorff` is `tooFewGraphs`, of
    `determine_optimal_int_type` is `tooLarge`; what scipy's `validate_graph` / `np.max` of nothing raise is `notSquare`).
    `index`: `IndexError` of a subscript.  `attribute`: `AttributeError` (`.tocsr()` of something that is not sparse).
    `shape`: NumPy's `ValueError: shape mismatch` of an index assignment.  `infinite`: an `inf` reached `astype(<integer type>)`
    (NumPy stores an unspecified integer and warns; flagged, not modelled).  `engine e`: what the translated `estimate` of
    `Generated/SrcMGH.lean` fails with. -/
inductive GhErr where
  | value (kind : Graph.Err)
  | index
  | attribute
  | shape
  | infinite
  | engine (e : PersimVerif.SrcNp.PyErr)
  deriving DecidableEq, Repr

deriving instance DecidableEq for Except

/-- a result of the model, as a result of a generated definition (the model's errors are all `ValueError`s) -/
def liftE {α : Type} : Except Graph.Err α → Except GhErr α
  | .ok a => .ok a
  | .error e => .error (.value e)

/-! ### containers of an adjacency matrix

  `Model/Graph.lean` takes the matrix of entries; the code takes a CONTAINER of it.  The translation distinguishes what the
  code distinguishes (`sps.issparse`, the sparse format, which `.tocsr()` changes; nested lists from an `ndarray`, which
  `np.ascontiguousarray` maps to one `ndarray` of the same entries). -/

/-- scipy's sparse formats -/
inductive Fmt where
  | csr | csc | coo | lil | dok | bsr | dia
  deriving DecidableEq, Repr

inductive Container where
  /-- nested lists / tuples: neither sparse nor an `ndarray` -/
  | nested (A : Mat)
  /-- an `np.ndarray` (of any dtype and any memory layout: C- or Fortran-ordered, a transposed / strided view, the copy a
      fancy index makes, read-only; `np.matrix` is one) -/
  | dense (A : Mat)
  /-- a scipy sparse matrix without explicitly stored zeros (the assumption of `Model/Graph.lean`) -/
  | sparse (f : Fmt) (A : Mat)
  /-- anything else (what `np.ascontiguousarray` makes of a sparse matrix: an object array); nothing is known about it -/
  | other
  deriving DecidableEq, Repr

/-- the matrix of entries -/
def Container.mat : Container → Mat
  | .nested A => A
  | .dense A => A
  | .sparse _ A => A
  | .other => []

/-- `sps.issparse(c)` -/
def issparse : Container → Bool
  | .sparse _ _ => true
  | _ => false

/-- `np.ascontiguousarray(c)`: the SAME matrix of entries as a C-contiguous `ndarray`.  Nested lists become an array of their
    entries (a ragged nesting is still rejected later, by `shortest_path`: the contract puts that rejection there); an array
    keeps its entries whatever its memory layout was (transposed, Fortran-ordered, fancy-indexed, strided, read-only), whatever
    its dtype.  MEMORY LAYOUT IS NOT MODELLED: `dense A` stands for every `ndarray` holding `A`, and the contract of the
    csgraph routines below is for the C-contiguous one that this call returns.  ALIASING: the result may be the argument
    itself (an array that already is C-contiguous); the translated subset has no statement that writes into a container.
    Of a sparse matrix it makes a 1-d object array (`other`); the reviewed code calls it for what is not sparse only. -/
def ascontiguousarray : Container → Container
  | .nested A => .dense A
  | .dense A => .dense A
  | .sparse _ _ => .other
  | .other => .other

/-- `c.tocsr()`: the same entries in CSR format (duplicates of a COO matrix are summed: non-negative entries keep their
    non-zero-ness) -/
def tocsr : Container → Except GhErr Container
  | .sparse _ A => .ok (.sparse .csr A)
  | _ => .error .attribute

/-- what the csgraph routines are CALLED WITH by the reviewed code: a (C-contiguous) dense array or a CSR matrix.  The
    contract of `shortest_path` / `connected_components` is stated for these only (before /repo commit f0487ca other sparse
    formats reached csgraph and some of them were rejected; before fc69e2e a dense array reached it in the memory layout the
    caller gave it, and scipy's Floyd-Warshall rejects one that is not C-contiguous). -/
def Container.accepted : Container → Bool
  | .dense _ => true
  | .sparse .csr _ => true
  | _ => false

/-- **the contract of the two csgraph PARAMETERS** (`Model/Graph.lean`, where BFS correctness and the labelling are proved
    separately; compared with scipy on every harness case):
    `shortest_path(c, directed=False, unweighted=True)` raises `ValueError` unless the matrix is square and non-empty, and
    otherwise returns the matrix of BFS distances of `adjOf` (`none` = `inf`);
    `connected_components(c, directed=False)` returns the number of components and the labels in order of first vertex. -/
structure CsgraphContract (sp : Container → Except GhErr DMat) (cc : Container → Except GhErr (Nat × List Nat)) : Prop where
  sp_ok : ∀ c, c.accepted = true →
    sp c = if isSquare c.mat then .ok (bfsAll (adjOf c.mat)) else .error (.value .notSquare)
  cc_ok : ∀ c, c.accepted = true → isSquare c.mat = true →
    cc c = .ok (numComponents (bfsAll (adjOf c.mat)), labels (bfsAll (adjOf c.mat)))

/-! ### Python / NumPy table entries -/

/-- `l[k]` for a list / tuple and an index `k ≥ 0` -/
def getItem {α : Type} (l : List α) (k : Nat) : Except GhErr α :=
  match l[k]? with
  | some x => .ok x
  | none => .error .index

/-- `range(a, b)` for `a, b ≥ 0` -/
def pyRange (a b : Nat) : List Nat := List.range' a (b - a)

/-- `np.zeros((a, b))`: `z` is the float `0.0` of the result type -/
def zeros2 {β : Type} (a b : Nat) (z : β) : List (List β) := List.replicate a (List.replicate b z)

/-- `M[i, j]` for `i, j ≥ 0` -/
def getItem2 {β : Type} (M : List (List β)) (i j : Nat) : Except GhErr β :=
  match M[i]? with
  | none => .error .index
  | some row =>
    match row[j]? with
    | none => .error .index
    | some x => .ok x

/-- `M[i, j] = v` for `i, j ≥ 0` (the updated array) -/
def setItem2 {β : Type} (M : List (List β)) (i j : Nat) (v : β) : Except GhErr (List (List β)) :=
  match M[i]? with
  | none => .error .index
  | some row => if j < row.length then .ok (M.set i (row.set j v)) else .error .index

/-- `np.tril_indices(N, -1)`: the positions strictly below the diagonal in row-major order.  The pair of index arrays
    `(rows, cols)` is the list of the pairs `(rows[k], cols[k])`. -/
def trilIndices (N : Nat) : List (Nat × Nat) :=
  (List.range N).flatMap fun r => (List.range r).map fun c => (r, c)

/-- `M.T[idx]` (integer-array indexing of the transposed view with a pair of index arrays): a NEW array holding
    `M[c, r]` for every `(r, c)` of `idx` -/
def gatherT {β : Type} (M : List (List β)) : List (Nat × Nat) → Except GhErr (List β)
  | [] => .ok []
  | p :: ps =>
    match getItem2 M p.2 p.1 with
    | .error e => .error e
    | .ok v =>
      match gatherT M ps with
      | .error e => .error e
      | .ok vs => .ok (v :: vs)

/-- `M[idx] = vals` (integer-array indexing with a pair of index arrays): the assignments `M[r_k, c_k] = vals[k]` in order of
    `k`; lengths that differ do not broadcast (`shape`) -/
def scatterIdx {β : Type} : List (List β) → List (Nat × Nat) → List β → Except GhErr (List (List β))
  | M, [], [] => .ok M
  | M, p :: ps, v :: vs =>
    match setItem2 M p.1 p.2 v with
    | .error e => .error e
    | .ok M' => scatterIdx M' ps vs
  | _, _, _ => .error .shape

/-- the larger of two floats that may be `inf` (`none`) -/
def maxTop : Option Nat → Option Nat → Option Nat
  | some a, some b => some (max a b)
  | _, _ => none

/-- `np.max(D)` of a 2-D float array whose entries are non-negative integers or `inf` (`none`): `ValueError` for an array
    without entries -/
def npMaxTop (D : DMat) : Except GhErr (Option Nat) :=
  match D.flatten with
  | [] => .error (.value .notSquare)
  | x :: xs => .ok (xs.foldl maxTop x)

/-- an integer array: its entries and its dtype -/
abbrev IntArr := Mat × IntType

/-- `D.astype(t)` for a float array of non-negative integers and an integer dtype `t` wide enough for them (that it is: the
    caller chose `t` with `determine_optimal_int_type(np.max(D))`); an `inf` entry is flagged -/
def astypeInt (D : DMat) (t : IntType) : Except GhErr IntArr :=
  match finMat D with
  | some M => .ok (M, t)
  | none => .error .infinite

/-- `np.unique(l, return_counts=True)` of a 1-D array of non-negative integers -/
def uniqueCountsNat (l : List Nat) : List Nat × List Nat :=
  PersimVerif.SrcNp.uniqueCounts (fun a b => decide (a < b)) l

/-- `a == x` for a 1-D integer array `a` and an integer `x`: the Boolean mask -/
def eqMask (a : List Nat) (x : Nat) : List Bool := a.map fun y => y == x

/-! ### the two call forms of `gromov_hausdorff` -/

/-- the arguments of `gromov_hausdorff(AG, AH=None, …)`: with `AH` given, `AG` and `AH` are one container each; with
    `AH is None`, `AG` is a sequence of containers (`len(AG)`, `AG[i]`).  The function is translated once per form (the test
    `AH is None` is the constant it is in that form). -/
inductive GHArgs where
  | pair (AG AH : Container)
  | coll (AG : List Container)

/-- the input of the model: the matrices of entries -/
def GHArgs.input : GHArgs → Graph.Input
  | .pair AG AH => .pair AG.mat AH.mat
  | .coll AG => .coll (AG.map Container.mat)

/-- no container of the call is of the unknown kind -/
def GHArgs.Known : GHArgs → Prop
  | .pair AG AH => AG ≠ .other ∧ AH ≠ .other
  | .coll AG => ∀ c ∈ AG, c ≠ .other

end PersimVerif.SrcGH
