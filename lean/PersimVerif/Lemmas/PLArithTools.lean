import PersimVerif.Lemmas.PLArithGrid
import PersimVerif.Lemmas.PLArithOps

/-!
# Grid expression trees, `snap_pl`, `lc_approx`, `average_approx` (helper lemmas for C09)
-/
namespace PersimVerif.PLArith
open PersimVerif.PL
set_option linter.unusedSectionVars false
variable {K : Type} [Field K] [LinearOrder K] [IsStrictOrderedRing K]

/-! ### expression trees over grid landscapes -/

theorem runG_spec (ρ : Nat → Grid K) (g0 : Grid K) : ∀ (e : Expr K),
    e.leavesAll (fun i => (ρ i).WF ∧ Compat (ρ i) g0) → e.divisorsNonzero →
    ∃ r, runG ρ e = .ok r ∧ r.WF ∧ Compat r g0 ∧ ∀ k j, valAt r.values k j = denoteG ρ e k j
  | .leaf i, hl, _ => ⟨ρ i, rfl, hl.1, hl.2, fun _ _ => rfl⟩
  | .add e f, hl, hd => by
    obtain ⟨p, e1, w1, c1, v1⟩ := runG_spec ρ g0 e hl.1 hd.1
    obtain ⟨q, e2, w2, c2, v2⟩ := runG_spec ρ g0 f hl.2 hd.2
    obtain ⟨r, e3, w3, c3, _, v3⟩ := Grid.add_spec p q w1 w2 (c1.trans c2.symm)
    refine ⟨r, ?_, w3, c3.trans c1, fun k j => ?_⟩
    · simp only [runG, e1, e2]; exact e3
    · rw [v3, v1, v2]; rfl
  | .sub e f, hl, hd => by
    obtain ⟨p, e1, w1, c1, v1⟩ := runG_spec ρ g0 e hl.1 hd.1
    obtain ⟨q, e2, w2, c2, v2⟩ := runG_spec ρ g0 f hl.2 hd.2
    obtain ⟨r, e3, w3, c3, _, v3⟩ := Grid.sub_spec p q w1 w2 (c1.trans c2.symm)
    refine ⟨r, ?_, w3, c3.trans c1, fun k j => ?_⟩
    · simp only [runG, e1, e2]; exact e3
    · rw [v3, v1, v2]; rfl
  | .neg e, hl, hd => by
    obtain ⟨p, e1, w1, c1, v1⟩ := runG_spec ρ g0 e hl hd
    obtain ⟨r, e3, w3, c3, _, v3⟩ := Grid.neg_spec p w1
    refine ⟨r, ?_, w3, c3.trans c1, fun k j => ?_⟩
    · simp only [runG, e1]; exact e3
    · rw [v3, v1]; rfl
  | .smul c e, hl, hd => by
    obtain ⟨p, e1, w1, c1, v1⟩ := runG_spec ρ g0 e hl hd
    obtain ⟨r, e3, w3, c3, _, v3⟩ := Grid.smul_spec c p w1
    refine ⟨r, ?_, w3, c3.trans c1, fun k j => ?_⟩
    · simp only [runG, e1]; exact e3
    · rw [v3, v1]; rfl
  | .sdiv e c, hl, hd => by
    obtain ⟨p, e1, w1, c1, v1⟩ := runG_spec ρ g0 e hl hd.2
    obtain ⟨r, e3, w3, c3, _, v3⟩ := Grid.sdiv_spec p c w1 hd.1
    refine ⟨r, ?_, w3, c3.trans c1, fun k j => ?_⟩
    · simp only [runG, e1]; exact e3
    · rw [v3, v1]; rfl

/-! ### `np.sum` of compatible landscapes -/

theorem sumGrids_spec : ∀ (r : List (Grid K)) (p : Grid K), p.WF → (∀ q ∈ r, q.WF ∧ Compat q p) →
    ∃ g, sumGrids (p :: r) = .ok g ∧ g.WF ∧ Compat g p ∧
      ∀ k j, valAt g.values k j = ((p :: r).map fun q => valAt q.values k j).sum
  | [], p, hp, _ => ⟨p, rfl, hp, ⟨rfl, rfl, rfl, rfl⟩, fun k j => by simp⟩
  | q :: r, p, hp, h => by
    obtain ⟨hq, hc⟩ := h q (by simp)
    obtain ⟨s, e1, w1, c1, _, v1⟩ := Grid.add_spec p q hp hq hc.symm
    obtain ⟨g, e2, w2, c2, v2⟩ := sumGrids_spec r s w1 (fun x hx => by
      obtain ⟨hx1, hx2⟩ := h x (by simp [hx])
      exact ⟨hx1, hx2.trans c1.symm⟩)
    refine ⟨g, ?_, w2, c2.trans c1, fun k j => ?_⟩
    · simp only [sumGrids, List.foldlM_cons, e1] at e2 ⊢
      exact e2
    · rw [v2]
      simp only [List.map_cons, List.sum_cons, v1]
      ring

/-! ### `mapM` in `Except` -/

theorem mapM_ok_of_forall {α β : Type} (f : α → Except Err β) (g : α → β) :
    ∀ (l : List α), (∀ x ∈ l, f x = .ok (g x)) → l.mapM f = .ok (l.map g)
  | [], _ => rfl
  | x :: l, h => by
    rw [List.mapM_cons, h x (by simp), mapM_ok_of_forall f g l (fun y hy => h y (by simp [hy]))]
    rfl

theorem forall₂_of_mapM_ok {α β : Type} (f : α → Except Err β) :
    ∀ (l : List α) (r : List β), l.mapM f = .ok r → List.Forall₂ (fun x y => f x = .ok y) l r
  | [], r, h => by
    simp only [List.mapM_nil] at h
    cases h; exact List.Forall₂.nil
  | x :: l, r, h => by
    rw [List.mapM_cons] at h
    cases hx : f x with
    | error e => rw [hx] at h; cases h
    | ok y =>
      rw [hx] at h
      cases hl : l.mapM f with
      | error e => rw [hl] at h; cases h
      | ok ys =>
        rw [hl] at h
        cases h
        exact List.Forall₂.cons hx (forall₂_of_mapM_ok f l ys hl)

/-! ### `snap_pl` -/

theorem length_linspace (s e : K) (n : Nat) : (linspace s e n).length = n := by
  unfold linspace
  split
  · rename_i h; simp [h]
  · simp

/-- what one snapped landscape is: every depth interpolated at the nodes of the common grid -/
theorem snapOne_ok (S E : K) (N : Nat) (p g : Grid K) (h : snapOne S E N p = .ok g) :
    g.homDeg = p.homDeg ∧ g.start = S ∧ g.stop = E ∧ g.numSteps = N ∧
      g.values = (p.values.map fun row => (linspace S E N).map fun x =>
        interp x ((linspace p.start p.stop p.numSteps).zip row)) ∧ g.WF := by
  unfold snapOne Grid.mk' at h
  simp only at h
  split at h
  · cases h
  · rename_i hall
    split at h
    · cases h
    · rename_i hle
      cases h
      refine ⟨rfl, rfl, rfl, rfl, rfl, ?_⟩
      have hrect : Rect N (p.values.map fun row => (linspace S E N).map fun x =>
          interp x ((linspace p.start p.stop p.numSteps).zip row)) := by
        intro r hr
        obtain ⟨r', _, rfl⟩ := List.mem_map.mp hr
        simp [length_linspace]
      have hex : ∃ r ∈ (p.values.map fun row => (linspace S E N).map fun x =>
          interp x ((linspace p.start p.stop p.numSteps).zip row)), r ≠ [] := by
        by_contra hcon
        apply hall
        rw [List.all_eq_true]
        intro r hr
        by_contra hr'
        exact hcon ⟨r, hr, by simpa using hr'⟩
      obtain ⟨r, hr, hrne⟩ := hex
      refine ⟨List.ne_nil_of_mem hr, ?_, hrect, not_lt.mp hle⟩
      have := hrect r hr
      have hpos : 0 < r.length := List.length_pos_iff.mpr hrne
      show 0 < N
      omega

theorem snapPl_ok (ls : List (Grid K)) (s? e? : Option K) (n? : Option Nat) (ps : List (Grid K))
    (h : snapPl ls s? e? n? = .ok ps) :
    ∃ S E N, snapParams ls s? e? n? = .ok (S, E, N) ∧
      List.Forall₂ (fun l p => snapOne S E N l = .ok p) ls ps := by
  unfold snapPl at h
  cases hp : snapParams ls s? e? n? with
  | error e => rw [hp] at h; cases h
  | ok v =>
    obtain ⟨S, E, N⟩ := v
    rw [hp] at h
    exact ⟨S, E, N, rfl, forall₂_of_mapM_ok _ ls ps h⟩

/-! ### `lc_approx` -/

theorem broadcast_eq (cs : List (Scalar K)) (ps : List (Grid K)) (h : cs.length = ps.length) :
    broadcast cs ps = .ok (cs.zip ps) := by simp [broadcast, h]

/-- the products `c_i * p_i` -/
theorem prods_spec : ∀ (cs : List K) (ps : List (Grid K)), cs.length = ps.length → (∀ p ∈ ps, p.WF) →
    ∃ qs, ((cs.map Scalar.num).zip ps).mapM (fun cp => cp.2.mul cp.1) = .ok qs ∧ qs.length = ps.length ∧
      (∀ q ∈ qs, q.WF ∧ ∃ p ∈ ps, Compat q p) ∧
      ∀ k j, (qs.map fun q => valAt q.values k j) = List.zipWith (fun c (p : Grid K) => c * valAt p.values k j) cs ps
  | [], [], _, _ => ⟨[], rfl, rfl, by simp, by simp⟩
  | c :: cs, p :: ps, hl, hw => by
    obtain ⟨q, e1, w1, c1, _, v1⟩ := Grid.smul_spec c p (hw p (by simp))
    obtain ⟨qs, e2, l2, f2, v2⟩ := prods_spec cs ps (by simpa using hl) (fun x hx => hw x (by simp [hx]))
    refine ⟨q :: qs, ?_, by simp [l2], ?_, fun k j => ?_⟩
    · have hm : Grid.mul p (Scalar.num c) = .ok q := e1
      simp only [List.map_cons, List.zip_cons_cons, List.mapM_cons, hm, e2]
      rfl
    · intro x hx
      rcases List.mem_cons.mp hx with rfl | hx
      · exact ⟨w1, p, by simp, c1⟩
      · obtain ⟨a, b, hb, c⟩ := f2 x hx
        exact ⟨a, b, by simp [hb], c⟩
    · simp only [List.map_cons, List.zipWith_cons_cons, v1, v2 k j]
  | [], _ :: _, h, _ => by simp at h
  | _ :: _, [], h, _ => by simp at h

/-- **`lc_approx` is the same linear combination of the re-sampled values** -/
theorem lcApprox_spec (ls : List (Grid K)) (cs : List K) (s? e? : Option K) (n? : Option Nat) (ps : List (Grid K))
    (hs : snapPl ls s? e? n? = .ok ps) (hne : ls ≠ []) (hlen : cs.length = ls.length)
    (hdeg : ∀ p ∈ ls, ∀ q ∈ ls, p.homDeg = q.homDeg) :
    ∃ g, lcApprox ls (cs.map Scalar.num) s? e? n? = .ok g ∧ g.WF ∧
      (∀ p ∈ ps, Compat g p) ∧
      ∀ k j, valAt g.values k j = (List.zipWith (fun c (p : Grid K) => c * valAt p.values k j) cs ps).sum := by
  obtain ⟨S, E, N, _, hf⟩ := snapPl_ok ls s? e? n? ps hs
  have hlen2 : ls.length = ps.length := hf.length_eq
  -- every snapped landscape is well-formed, on the common grid, with its source's degree
  have hps : ∀ p ∈ ps, p.WF ∧ p.start = S ∧ p.stop = E ∧ p.numSteps = N ∧ ∃ l ∈ ls, p.homDeg = l.homDeg := by
    intro p hp
    obtain ⟨i, hi, rfl⟩ := List.mem_iff_getElem.mp hp
    have hi' : i < ls.length := by omega
    have := List.Forall₂.get hf hi' hi
    simp only [List.get_eq_getElem] at this
    obtain ⟨a, b, c, d, _, w⟩ := snapOne_ok S E N _ _ this
    exact ⟨w, b, c, d, ls[i], List.getElem_mem _, a⟩
  have hcompat : ∀ p ∈ ps, ∀ q ∈ ps, Compat p q := by
    intro p hp q hq
    obtain ⟨_, b1, c1, d1, l1, hl1, a1⟩ := hps p hp
    obtain ⟨_, b2, c2, d2, l2, hl2, a2⟩ := hps q hq
    exact ⟨by rw [a1, a2]; exact hdeg l1 hl1 l2 hl2, by rw [b1, b2], by rw [c1, c2], by rw [d1, d2]⟩
  obtain ⟨qs, eq, ql, fq, vq⟩ := prods_spec cs ps (hlen.trans hlen2) (fun p hp => (hps p hp).1)
  have hqne : qs ≠ [] := by
    intro h0; rw [h0] at ql
    exact hne (List.length_eq_zero_iff.mp (by rw [hlen2, ← ql]; rfl))
  obtain ⟨q0, qs', rfl⟩ := List.exists_cons_of_ne_nil hqne
  obtain ⟨w0, p0, hp0, c0⟩ := fq q0 (by simp)
  obtain ⟨g, e3, w3, c3, v3⟩ := sumGrids_spec qs' q0 w0 (fun q hq => by
    obtain ⟨w, p, hp, c⟩ := fq q (by simp [hq])
    exact ⟨w, (c.trans (hcompat p hp p0 hp0)).trans c0.symm⟩)
  refine ⟨g, ?_, w3, fun p hp => (c3.trans c0).trans (hcompat p0 hp0 p hp), fun k j => ?_⟩
  · unfold lcApprox
    rw [hs]
    simp only [bind, Except.bind]
    rw [broadcast_eq _ _ (by simpa using hlen.trans hlen2)]
    simp only
    rw [eq]
    exact e3
  · rw [v3, vq k j]

/-! ### `np.interp` is linear interpolation with constant extension -/

theorem interpFrom_single (x : K) (p : K × K) : interpFrom x [p] = p.2 := by simp only [interpFrom]
theorem interpFrom_cons2 (x : K) (p q : K × K) (r : List (K × K)) :
    interpFrom x (p :: q :: r) =
      if q.1 ≤ x then interpFrom x (q :: r)
      else if p.1 = x then p.2
      else (q.2 - p.2) / (q.1 - p.1) * (x - p.1) + p.2 := by simp only [interpFrom]

theorem interp_cons (x : K) (p : K × K) (r : List (K × K)) :
    interp x (p :: r) = if x < p.1 then p.2 else interpFrom x (p :: r) := by simp only [interp]

/-- left of the first node: the first value -/
theorem interp_left (x : K) (p : K × K) (r : List (K × K)) (h : x < p.1) : interp x (p :: r) = p.2 := by
  rw [interp_cons, if_pos h]

/-- at or right of the last node: the last value -/
theorem interpFrom_right (x : K) : ∀ (l : List (K × K)) (q : K × K), l.getLast? = some q →
    (∀ p ∈ l, p.1 ≤ x) → interpFrom x l = q.2
  | [], q, h, _ => by simp at h
  | [p], q, h, _ => by
    simp only [List.getLast?_singleton, Option.some.injEq] at h; rw [interpFrom_single, h]
  | p :: p' :: r, q, h, hx => by
    rw [interpFrom_cons2, if_pos (hx p' (by simp))]
    exact interpFrom_right x (p' :: r) q (by simpa [List.getLast?_cons_cons] using h) (fun y hy => hx y (by simp [hy]))

/-- between the first and the last node (strictly increasing nodes): the linear interpolant `evalPL` -/
theorem interpFrom_inside (x : K) : ∀ (p q : K × K) (r : List (K × K)), StrictX (p :: q :: r) → p.1 ≤ x →
    (∀ s, (p :: q :: r).getLast? = some s → x ≤ s.1) → interpFrom x (p :: q :: r) = evalPL (p :: q :: r) x
  | p, q, r, hs, hp, hl => by
    have hpq : p.1 < q.1 := by
      unfold StrictX at hs; simp only [xs, List.map_cons, List.pairwise_cons] at hs
      exact hs.1 q.1 (by simp)
    have hs' : StrictX (q :: r) := by
      unfold StrictX at hs ⊢; simp only [xs, List.map_cons, List.pairwise_cons] at hs ⊢; exact hs.2
    have hne : q.1 - p.1 ≠ 0 := sub_ne_zero.mpr (ne_of_gt hpq)
    rw [interpFrom_cons2, evalPL_cons2, if_neg (not_lt.mpr hp)]
    by_cases hq : q.1 ≤ x
    · rw [if_pos hq]
      rcases lt_or_eq_of_le hq with hlt | heq
      · -- strictly right of q: both recurse; r cannot be empty
        rw [if_neg (not_le.mpr hlt)]
        cases r with
        | nil =>
          have := hl q (by simp)
          exact absurd this (not_le.mpr hlt)
        | cons q' r' =>
          exact interpFrom_inside x q q' r' hs' hq (fun s hs2 => hl s (by simpa [List.getLast?_cons_cons] using hs2))
      · -- exactly at q
        rw [if_pos (le_of_eq heq.symm)]
        have hval : p.2 + (q.2 - p.2) * (x - p.1) / (q.1 - p.1) = q.2 := by
          rw [← heq]; field_simp; ring
        rw [hval]
        cases r with
        | nil => exact interpFrom_single x q
        | cons q' r' =>
          have hqq' : q.1 < q'.1 := by
            unfold StrictX at hs'; simp only [xs, List.map_cons, List.pairwise_cons] at hs'
            exact hs'.1 q'.1 (by simp)
          rw [interpFrom_cons2, if_neg (by rw [← heq]; exact not_le.mpr hqq'), if_pos heq]
    · rw [if_neg hq, if_pos (le_of_lt (not_le.mp hq))]
      by_cases hpx : p.1 = x
      · rw [if_pos hpx, ← hpx]; simp
      · rw [if_neg hpx]; field_simp; ring

/-! ### the default parameters of `snap_pl` -/

theorem minOf_le : ∀ (ys : List K) (x : K), minOf x ys ≤ x
  | [], x => le_refl x
  | y :: ys, x => by
    show minOf (if y < x then y else x) ys ≤ x
    refine le_trans (minOf_le ys _) ?_
    split
    · rename_i h; exact h.le
    · exact le_refl x

theorem le_maxOf : ∀ (ys : List K) (x : K), x ≤ maxOf x ys
  | [], x => le_refl x
  | y :: ys, x => by
    show x ≤ maxOf (if x < y then y else x) ys
    refine le_trans ?_ (le_maxOf ys _)
    split
    · rename_i h; exact h.le
    · exact le_refl x

theorem le_foldMax : ∀ (r : List (Grid K)) (n : Nat),
    n ≤ r.foldl (fun m q => if m < q.numSteps then q.numSteps else m) n
  | [], n => le_refl n
  | q :: r, n => by
    show n ≤ r.foldl _ (if n < q.numSteps then q.numSteps else n)
    refine le_trans ?_ (le_foldMax r _)
    split <;> omega

end PersimVerif.PLArith
