import Mathlib.Analysis.SpecialFunctions.Trigonometric.Basic

/-! the constants of the matching plots: `cp = cos (π/4)`, `sp = sin (π/4)` -/
namespace PersimVerif.Plot

theorem cos_pi_div_four_mul_self : Real.cos (Real.pi / 4) * Real.cos (Real.pi / 4) = 1 / 2 := by
  rw [Real.cos_pi_div_four]
  have h : Real.sqrt 2 * Real.sqrt 2 = 2 := Real.mul_self_sqrt (by norm_num)
  calc Real.sqrt 2 / 2 * (Real.sqrt 2 / 2) = (Real.sqrt 2 * Real.sqrt 2) / 4 := by ring
    _ = 1 / 2 := by rw [h]; norm_num

theorem sin_pi_div_four_eq_cos : Real.sin (Real.pi / 4) = Real.cos (Real.pi / 4) := by
  rw [Real.sin_pi_div_four, Real.cos_pi_div_four]

end PersimVerif.Plot
