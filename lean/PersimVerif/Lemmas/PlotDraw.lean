import PersimVerif.Lemmas.Plot

/-!
# Helper lemmas for C20: what `draw`, `plotDiagrams` and the matching loops produce
-/
set_option linter.unusedSectionVars false
namespace PersimVerif.Plot

variable {K : Type} [Field K] [LinearOrder K] [IsStrictOrderedRing K]

/-! ### `plotDiagrams` = select, range, draw -/

theorem plotDiagrams_ok {cast : K → K} {arg : DgmsArg K} {o : Opts K} {fig : Fig K}
    (h : plotDiagrams cast arg o = .ok fig) :
    ∃ sel labels r,
      select (asList arg) (labelList (asList arg).length o.labels) o.plotOnly = .ok (sel, labels) ∧
      sel ≠ [] ∧ rangeOf o.xyRange (finiteVals (sel.map (castDgm cast))) = some r ∧
      fig = draw o (sel.map (castDgm cast)) labels r := by
  unfold plotDiagrams at h
  simp only at h
  split at h
  · cases h
  · rename_i sel labels hsel
    split at h
    · cases h
    · rename_i hne
      split at h
      · cases h
      · rename_i r hr
        simp only [Except.ok.injEq] at h
        refine ⟨sel, labels, r, hsel, ?_, hr, h.symm⟩
        intro he; subst he; simp at hne

theorem plotDiagrams_of {cast : K → K} {arg : DgmsArg K} {o : Opts K} {sel : List (Dgm K)}
    {labels : List String} {r : Range K}
    (hsel : select (asList arg) (labelList (asList arg).length o.labels) o.plotOnly = .ok (sel, labels))
    (hne : sel ≠ []) (hr : rangeOf o.xyRange (finiteVals (sel.map (castDgm cast))) = some r) :
    plotDiagrams cast arg o = .ok (draw o (sel.map (castDgm cast)) labels r) := by
  unfold plotDiagrams
  simp only [hsel]
  cases sel with
  | nil => exact absurd rfl hne
  | cons d t => simp only [List.isEmpty_cons, Bool.false_eq_true, if_false, hr]

/-! ### the artists of `draw` -/

theorem scattersOf_guideLines (o : Opts K) (inf : Bool) (r : Range K) :
    scattersOf (guideLines o inf r) = [] := by
  unfold guideLines
  rcases o.lifetime <;> rcases o.diagonal <;> rcases inf <;> simp [scattersOf]

theorem linesOf_scatters (bInf : K) (ds : List (Dgm K)) (labels : List String) :
    linesOf (scatters bInf ds labels) = [] := by
  unfold scatters
  induction ds.zip labels with
  | nil => rfl
  | cons x t ih => simpa [linesOf] using ih

theorem scattersOf_scatters (bInf : K) (ds : List (Dgm K)) (labels : List String) :
    scattersOf (scatters bInf ds labels) =
      (ds.zip labels).map fun dl => (Axes.given, substInf bInf dl.1, dl.2) := by
  unfold scatters
  induction ds.zip labels with
  | nil => rfl
  | cons x t ih => simpa [scattersOf] using ih

theorem substInf_eq_drawPt (bInf : K) (d : Dgm K) : substInf bInf d = d.map (drawPt false bInf) := by
  unfold substInf
  apply List.map_congr_left
  intro p _
  unfold drawPt
  cases p.2 <;> simp

theorem substInf_lifeDgm (bInf : K) (d : Dgm K) :
    substInf bInf (lifeDgm d) = d.map (drawPt true bInf) := by
  unfold substInf lifeDgm
  rw [List.map_map]
  apply List.map_congr_left
  intro p _
  unfold drawPt
  cases h : p.2 <;> simp [h]

theorem substInf_shown (life : Bool) (bInf : K) (ds : List (Dgm K)) (labels : List String) :
    ((shown life ds).zip labels).map (fun dl => (Axes.given, substInf bInf dl.1, dl.2)) =
    (ds.zip labels).map fun dl => (Axes.given, dl.1.map (drawPt life bInf), dl.2) := by
  cases life with
  | false =>
    simp only [shown, Bool.false_eq_true, if_false]
    apply List.map_congr_left
    intro dl _
    rw [substInf_eq_drawPt]
  | true =>
    simp only [shown, if_true, List.zip_map_left, List.map_map]
    apply List.map_congr_left
    intro dl _
    simp [Function.comp, substInf_lifeDgm]

/-- the scatter collections of `draw`: one per zipped (diagram, label) pair, in order, on the given axes -/
theorem scattersOf_draw (o : Opts K) (ds : List (Dgm K)) (labels : List String) (r : Range K) :
    scattersOf (draw o ds labels r).artists =
      (ds.zip labels).map fun dl =>
        (Axes.given, dl.1.map (drawPt o.lifetime (bInfOf o.lifetime r)), dl.2) := by
  simp only [draw, scattersOf_append, scattersOf_guideLines, List.nil_append, scattersOf_scatters,
    substInf_shown]

theorem linesOf_draw (o : Opts K) (ds : List (Dgm K)) (labels : List String) (r : Range K) :
    linesOf (draw o ds labels r).artists = linesOf (guideLines o (hasInf ds) r) := by
  simp only [draw, linesOf_append, linesOf_scatters, List.append_nil]

theorem axesOf_draw (o : Opts K) (ds : List (Dgm K)) (labels : List String) (r : Range K) :
    ∀ a ∈ (draw o ds labels r).artists, axesOf a = .given := by
  intro a ha
  simp only [draw, guideLines, scatters, List.mem_append, List.mem_map] at ha
  rcases ha with (((ha | ha) | ha) | ⟨dl, _, rfl⟩)
  · split at ha <;> simp at ha; subst ha; rfl
  · split at ha <;> simp at ha; subst ha; rfl
  · split at ha <;> simp at ha; subst ha; rfl
  · rfl

/-! ### the diagonal foot -/

/-- with `c = s = cos π/4` (`c·c = 1/2`) the rotation–projection–rotation of the code is the
    perpendicular foot `((b+d)/2, (b+d)/2)` -/
theorem foot_eq {c s : K} (hc : c * c = 1 / 2) (hs : s = c) (p : K × K) :
    foot c s p = ((p.1 + p.2) / 2, (p.1 + p.2) / 2) := by
  subst hs
  have h1 : (p.1 * s + p.2 * s) * s + 0 * -s = (p.1 + p.2) * (s * s) := by ring
  have h2 : (p.1 * s + p.2 * s) * s + 0 * s = (p.1 + p.2) * (s * s) := by ring
  simp only [foot, rot, h1, h2, hc, Prod.mk.injEq]
  constructor <;> ring

/-- it lies on the diagonal and the segment to it is orthogonal to the diagonal direction `(1,1)` -/
theorem foot_perp (p : K × K) :
    ((p.1 + p.2) / 2 - p.1) * 1 + ((p.1 + p.2) / 2 - p.2) * 1 = 0 := by ring

/-! ### the loop over matching rows -/

theorem forall₂_mem_right {α β : Type} {R : α → β → Prop} {l1 : List α} {l2 : List β}
    (h : List.Forall₂ R l1 l2) : ∀ b ∈ l2, ∃ a ∈ l1, R a b := by
  induction h with
  | nil => intro b hb; cases hb
  | cons hab _ ih =>
    intro b hb
    rcases List.mem_cons.mp hb with rfl | hb
    · exact ⟨_, List.mem_cons_self, hab⟩
    · obtain ⟨a, ha, hr⟩ := ih b hb
      exact ⟨a, List.mem_cons_of_mem _ ha, hr⟩

/-- rows paired with their position in the matching -/
def indexed {α : Type} : Nat → List (Row α) → List (Nat × Row α)
  | _, [] => []
  | k, r :: rs => (k, r) :: indexed (k + 1) rs

/-- a row is drawn unless it is `(-1, -1)` -/
def drawn {α : Type} (ir : Nat × Row α) : Bool := ir.2.1 != -1 || ir.2.2.1 != -1

/-- the segment the statement asks for, for row `(i, j)` over diagrams `d1`, `d2` -/
def Joins (d1 d2 : FDgm K) (i j : Int) (xs ys : List K) : Prop :=
  (i = -1 ∧ ∃ q, pyGet d2 j = some q ∧ xs = [q.1, (q.1 + q.2) / 2] ∧ ys = [q.2, (q.1 + q.2) / 2]) ∨
  (i ≠ -1 ∧ j = -1 ∧ ∃ p, pyGet d1 i = some p ∧ xs = [p.1, (p.1 + p.2) / 2] ∧ ys = [p.2, (p.1 + p.2) / 2]) ∨
  (i ≠ -1 ∧ j ≠ -1 ∧ ∃ p q, pyGet d1 i = some p ∧ pyGet d2 j = some q ∧ xs = [p.1, q.1] ∧ ys = [p.2, q.2])

theorem segment_ok {c s : K} (hc : c * c = 1 / 2) (hs : s = c) {d1 d2 : FDgm K} {i j : Int}
    {o : Option (Bool × List K × List K)} (h : segment c s d1 d2 i j = .ok o) :
    (o = none ∧ i = -1 ∧ j = -1) ∨
    (∃ xs ys, o = some (decide (i = -1), xs, ys) ∧ (i ≠ -1 ∨ j ≠ -1) ∧ Joins d1 d2 i j xs ys) := by
  unfold segment at h
  simp only [foot_eq hc hs] at h
  by_cases hi : i = -1
  · by_cases hj : j = -1
    · subst hi hj
      simp at h
      exact Or.inl ⟨h.symm, rfl, rfl⟩
    · subst hi
      have : ((-1 : Int) != -1 || j != -1) = true := by simp [hj]
      simp only [this, if_true, beq_self_eq_true] at h
      split at h
      · rename_i q hq
        simp only [Except.ok.injEq] at h
        exact Or.inr ⟨[q.1, (q.1 + q.2) / 2], [q.2, (q.1 + q.2) / 2], h.symm.trans (by simp), Or.inr hj,
          Or.inl ⟨rfl, q, hq, rfl, rfl⟩⟩
      · cases h
  · have h1 : (i != -1 || j != -1) = true := by simp [hi]
    have h2 : (i == -1) = false := by simp [hi]
    simp only [h1, if_true, h2, Bool.false_eq_true, if_false] at h
    by_cases hj : j = -1
    · subst hj
      simp only [beq_self_eq_true, if_true] at h
      split at h
      · rename_i p hp
        simp only [Except.ok.injEq] at h
        exact Or.inr ⟨[p.1, (p.1 + p.2) / 2], [p.2, (p.1 + p.2) / 2], h.symm.trans (by simp [hi]), Or.inl hi,
          Or.inr (Or.inl ⟨hi, rfl, p, hp, rfl, rfl⟩)⟩
      · cases h
    · have h3 : (j == -1) = false := by simp [hj]
      simp only [h3, Bool.false_eq_true, if_false] at h
      split at h
      · rename_i p q hp hq
        simp only [Except.ok.injEq] at h
        exact Or.inr ⟨_, _, h.symm.trans (by simp [hi]), Or.inl hi,
          Or.inr (Or.inr ⟨hi, hj, p, q, hp, hq, rfl, rfl⟩)⟩
      · cases h

/-- the loop draws exactly one line per drawn row, in order, with the row's style and axes -/
theorem segments_ok {c s : K} (hc : c * c = 1 / 2) (hs : s = c) {d1 d2 : FDgm K}
    (styleOf : Nat → Style) (axOf : Bool → Axes) :
    ∀ (rows : List (Row K)) (idx : Nat) (segs : List (Artist K)),
      segments c s d1 d2 styleOf axOf idx rows = .ok segs →
      List.Forall₂ (fun (ir : Nat × Row K) a => ∃ xs ys,
          a = Artist.line (axOf (decide (ir.2.1 = -1))) xs ys (styleOf ir.1) none ∧
          Joins d1 d2 ir.2.1 ir.2.2.1 xs ys)
        ((indexed idx rows).filter drawn) segs
  | [], idx, segs, h => by
    simp only [segments, Except.ok.injEq] at h
    subst h
    exact List.Forall₂.nil
  | (i, j, d) :: rows, idx, segs, h => by
    simp only [segments] at h
    split at h
    · cases h
    · rename_i seg hseg
      split at h
      · cases h
      · rename_i rest hrest
        have ih := segments_ok hc hs styleOf axOf rows (idx + 1) rest hrest
        rcases segment_ok hc hs hseg with ⟨rfl, hi, hj⟩ | ⟨xs, ys, rfl, hne, hjoin⟩
        · simp only [Except.ok.injEq] at h
          subst h
          have : drawn (idx, (i, j, d)) = false := by simp [drawn, hi, hj]
          simpa [indexed, List.filter_cons, this] using ih
        · simp only [Except.ok.injEq] at h
          subst h
          have : drawn (idx, (i, j, d)) = true := by
            rcases hne with h | h <;> simp [drawn, h]
          simp only [indexed, List.filter_cons, this, if_true]
          exact List.Forall₂.cons ⟨xs, ys, rfl, hjoin⟩ ih

theorem segments_linesOnly {c s : K} {d1 d2 : FDgm K} (styleOf : Nat → Style) (axOf : Bool → Axes) :
    ∀ (rows : List (Row K)) (idx : Nat) (segs : List (Artist K)),
      segments c s d1 d2 styleOf axOf idx rows = .ok segs → scattersOf segs = []
  | [], idx, segs, h => by
    simp only [segments, Except.ok.injEq] at h
    subst h; rfl
  | (i, j, d) :: rows, idx, segs, h => by
    simp only [segments] at h
    split at h
    · cases h
    · split at h
      · cases h
      · rename_i rest hrest
        have ih := segments_linesOnly styleOf axOf rows (idx + 1) rest hrest
        split at h <;> simp only [Except.ok.injEq] at h <;> subst h
        · simpa [scattersOf] using ih
        · exact ih

theorem indexed_mem {α : Type} : ∀ (rows : List (Row α)) (idx : Nat) (ir : Nat × Row α),
    ir ∈ indexed idx rows ↔ idx ≤ ir.1 ∧ rows[ir.1 - idx]? = some ir.2
  | [], idx, ir => by simp [indexed]
  | r :: rows, idx, ir => by
    simp only [indexed, List.mem_cons, indexed_mem rows (idx + 1) ir]
    constructor
    · rintro (rfl | ⟨h1, h2⟩)
      · simp
      · refine ⟨by omega, ?_⟩
        have : ir.1 - idx = (ir.1 - (idx + 1)) + 1 := by omega
        rw [this, List.getElem?_cons_succ]; exact h2
    · rintro ⟨h1, h2⟩
      by_cases he : ir.1 = idx
      · left
        rw [he, Nat.sub_self, List.getElem?_cons_zero, Option.some.injEq] at h2
        exact Prod.ext he h2.symm
      · right
        refine ⟨by omega, ?_⟩
        have : ir.1 - idx = (ir.1 - (idx + 1)) + 1 := by omega
        rw [this, List.getElem?_cons_succ] at h2; exact h2

/-! ### small facts used by the property file -/

theorem hasInf_castDgm (cast : K → K) (ds : List (Dgm K)) :
    hasInf (ds.map (castDgm cast)) = hasInf ds := by
  unfold hasInf castDgm
  rw [← List.map_flatten, List.any_map]
  congr 1
  funext p
  cases h : p.2 <;> simp [h]

/-- the labelled artists in insertion order — what `Axes.legend` lists -/
def labelsOf : List (Artist K) → List String
  | [] => []
  | .scatter _ _ l :: as => l :: labelsOf as
  | .line _ _ _ _ (some l) :: as => l :: labelsOf as
  | .line _ _ _ _ none :: as => labelsOf as

theorem labelsOf_append (a b : List (Artist K)) : labelsOf (a ++ b) = labelsOf a ++ labelsOf b := by
  induction a with
  | nil => rfl
  | cons x t ih =>
    cases x with
    | scatter ax pts l => simp [labelsOf, ih]
    | line ax xs ys st l => cases l <;> simp [labelsOf, ih]

theorem isOk_iff {ε α : Type} (e : Except ε α) : e.isOk = true ↔ ∃ a, e = .ok a := by
  cases e <;> simp [Except.isOk, Except.toBool]

end PersimVerif.Plot
