import PersimVerif.Lemmas.RowsExtract
import PersimVerif.Lemmas.BottleneckSpec
import PersimVerif.Lemmas.WassersteinModel
import Mathlib.Data.Finset.Max
import Mathlib.Data.List.FinRange

/-!
# Bridge between the C01 / C02 models and C06's row checker (helper lemmas for `Props/C06Model.lean`)

C06 (`Model/Rows.lean`, `Lemmas/RowsExtract.lean`) talks about a matrix `Nat → Nat → Option K`, an
assignment given as a list `σ : List Nat` and rows `Rows.Row K`.  The C01 model
(`Model/Bottleneck.lean`) has a matrix with entries `Ext K`, the matching dict as a list of pairs read
with `List.lookup`, and rows `Int × Int × Ext K`; the C02 model (`Model/Wasserstein.lean`) has entries
`Option K`, the assignment as `zip(matchi, matchj)` and rows `Int × Int × Option K`.

This file provides the representation maps and the refinement lemmas:

* `extOpt`, `rowExt`, `rowOpt` — the representation maps (`Ext.top`/`none` = `np.inf`);
* `withPlaceholder_eq`, `orPlaceholder_eq` — the three `(0,0)`-placeholder functions coincide;
* `bnAug_isAug`, `wsAug_isAug` — the matrices of the two models satisfy C06's `IsAug`;
* `sigmaOf`, `sigmaOf_perm`, `sigmaOf_spec` — a perfect matching of a threshold graph, read through
  `List.lookup` as the code does, is a permutation list selecting entries `≤ d`;
* `extractRows_refines` — C01's extraction loop returns C06's rows (up to `rowExt`);
* `least_of_hasPerfect_least` — C01's "least threshold with a perfect matching" is C06's
  `LeastFeasible`;
* `lsa_selects`, `rowsOf_refines`, `optSum_selected` — the same for the Wasserstein model.
-/
set_option linter.unusedSectionVars false

namespace PersimVerif.RowsBridge
open PersimVerif.Rows PersimVerif.Spec

/-! ### generic list facts -/

theorem lookup_mem {mt : List (Nat × Nat)} {i j : Nat} (h : mt.lookup i = some j) : (i, j) ∈ mt := by
  induction mt with
  | nil => simp at h
  | cons a t ih =>
    rcases a with ⟨k, b⟩
    rw [List.lookup_cons] at h
    by_cases hik : i = k
    · subst hik
      simp only [beq_self_eq_true, Option.some.injEq] at h
      subst h; simp
    · have : (i == k) = false := by simpa using hik
      rw [this] at h
      exact List.mem_cons_of_mem _ (ih h)

theorem lookup_of_mem {mt : List (Nat × Nat)} (hn : (mt.map Prod.fst).Nodup) {i j : Nat}
    (h : (i, j) ∈ mt) : mt.lookup i = some j := by
  induction mt with
  | nil => simp at h
  | cons a t ih =>
    rcases a with ⟨k, b⟩
    rw [List.map_cons, List.nodup_cons] at hn
    rw [List.lookup_cons]
    rcases List.mem_cons.mp h with h' | h'
    · cases h'; simp
    · have hik : i ≠ k := by
        rintro rfl
        exact hn.1 (List.mem_map.mpr ⟨(i, j), h', rfl⟩)
      have : (i == k) = false := by simpa using hik
      rw [this]
      exact ih hn.2 h'

/-- filtering commutes with a representation map that respects the predicate -/
theorem filter_map_emb {ι A B : Type} (emb : B → A) (P : A → Bool) (P' : B → Bool)
    (hP : ∀ b, P (emb b) = P' b) (f : ι → A) (g : ι → B) (l : List ι)
    (h : ∀ x ∈ l, f x = emb (g x)) :
    (l.map f).filter P = (((l.map g).filter P').map emb) := by
  induction l with
  | nil => rfl
  | cons a t ih =>
    have ha := h a (by simp)
    have ht := ih fun x hx => h x (by simp [hx])
    simp only [List.map_cons, List.filter_cons, ha, hP, ht]
    split <;> simp

/-! ### bottleneck (C01 model) -/

section Bn
open PersimVerif.Bottleneck
variable {K : Type}

/-- an entry of the C01 matrix as an entry of the C06 matrix (`Ext.top` = `none` = `np.inf`) -/
def extOpt : Ext K → Option K
  | .fin a => some a
  | .top => none

@[simp] theorem extOpt_fin (a : K) : extOpt (Ext.fin a) = some a := rfl

/-- the C01 model's matrix seen as a C06 matrix -/
def optD (D : Nat → Nat → Ext K) : Nat → Nat → Option K := fun i j => extOpt (D i j)

/-- a C06 row in the representation of the C01 model (`[i, j, D[i, j]]`, a finite third entry) -/
def rowExt (r : Row K) : Int × Int × Ext K := (r.i, r.j, .fin r.cost)

theorem rowExt_injective : Function.Injective (rowExt : Row K → Int × Int × Ext K) := by
  rintro ⟨i, j, c⟩ ⟨i', j', c'⟩ h
  simp only [rowExt, Prod.mk.injEq, Ext.fin.injEq] at h
  obtain ⟨rfl, rfl, rfl⟩ := h
  rfl

/-- the three copies of `if M == 0: S = [[0, 0]]` coincide -/
theorem withPlaceholder_eq [Zero K] (S : List (K × K)) : withPlaceholder S = placeholder S := by
  cases S <;> rfl

/-- the dict `matching` read as the code reads it (`matching[str(i)]`), as the list of columns -/
def sigmaOf (n : Nat) (mt : Matching) : List Nat := (List.range n).map fun i => (mt.lookup i).getD 0

theorem sigmaOf_get {n : Nat} {mt : Matching} {i j : Nat} (hi : i < n) (h : mt.lookup i = some j) :
    (sigmaOf n mt)[i]? = some j := by
  simp [sigmaOf, hi, h]

section Perfect
variable [LinearOrder K] {n : Nat} {D : Nat → Nat → Ext K} {d : Ext K} {mt : Matching}
  (hm : IsMatching (thresholdGraph n D d) mt) (hlen : mt.length = n)
include hm hlen

/-- a perfect matching of a threshold graph has an entry for every row: the `KeyError` of
    `matching["{}".format(i)]` cannot happen, the entry is in range and selects a matrix entry `≤ d` -/
theorem perfect_lookup {i : Nat} (hi : i < n) :
    ∃ j, mt.lookup i = some j ∧ (i, j) ∈ mt ∧ j < n ∧ D i j ≤ d := by
  have hedge : ∀ {a b}, (a, b) ∈ mt → a < n ∧ b < n ∧ D a b ≤ d :=
    fun h => (edge_threshold _ _ _ _ _).mp (hm.edges _ h)
  have := mem_of_nodup_lt_full hm.rows (n := n) (by
    intro x hx
    obtain ⟨q, hq, rfl⟩ := List.mem_map.mp hx
    exact (hedge (a := q.1) (b := q.2) hq).1) (by simpa using hlen) hi
  obtain ⟨q, hq, rfl⟩ := List.mem_map.mp this
  exact ⟨q.2, lookup_of_mem hm.rows hq, hq, (hedge hq).2.1, (hedge hq).2.2⟩

/-- … and read row by row it is a permutation of the column indices -/
theorem sigmaOf_perm : (sigmaOf n mt).Perm (List.range n) := by
  have hnd : (sigmaOf n mt).Nodup := by
    refine List.Nodup.map_on (fun x hx y hy hxy => ?_) List.nodup_range
    obtain ⟨jx, hlx, hmx, -, -⟩ := perfect_lookup hm hlen (List.mem_range.mp hx)
    obtain ⟨jy, hly, hmy, -, -⟩ := perfect_lookup hm hlen (List.mem_range.mp hy)
    simp only [hlx, hly, Option.getD_some] at hxy
    subst hxy
    exact hm.col_unique hmx hmy
  have hsub : sigmaOf n mt ⊆ List.range n := by
    intro x hx
    obtain ⟨i, hi, rfl⟩ := List.mem_map.mp hx
    obtain ⟨j, hl, -, hj, -⟩ := perfect_lookup hm hlen (List.mem_range.mp hi)
    simp only [hl, Option.getD_some]
    exact List.mem_range.mpr hj
  exact (List.subperm_of_subset hnd hsub).perm_of_length_le (by simp [sigmaOf])

end Perfect

/-- everything the extraction needs, for a perfect matching of the threshold graph at a FINITE
    threshold `v`: every row has its dict entry, the list view has the same entry, and the selected
    matrix entry is finite and `≤ v` -/
theorem sigmaOf_spec [LinearOrder K] {n : Nat} {D : Nat → Nat → Ext K} {v : K} {mt : Matching}
    (hm : IsMatching (thresholdGraph n D (.fin v)) mt) (hlen : mt.length = n) {i : Nat} (hi : i < n) :
    ∃ j e, mt.lookup i = some j ∧ (sigmaOf n mt)[i]? = some j ∧ D i j = .fin e ∧ e ≤ v := by
  obtain ⟨j, hl, -, -, hle⟩ := perfect_lookup hm hlen hi
  cases hD : D i j with
  | top => rw [hD] at hle; exact absurd hle (Ext.top_le_fin v)
  | fin e =>
    rw [hD] at hle
    exact ⟨j, e, hl, sigmaOf_get hi hl, hD, Ext.fin_le_fin.mp hle⟩

/-- **refinement of the extraction loop, one list of row indices**: when every visited row has a dict
    entry (also present in the list view `σ`) selecting a finite matrix entry, the loop of
    bottleneck.py:120-133 (`Bottleneck.extractRows.go`) returns exactly the rows C06's model of the
    loop produces (`Rows.bnG`, per iteration), in the same order, in the `Ext` representation. -/
theorem extractRows_go_refines (M N : Nat) (D : Nat → Nat → Ext K) (mt : Matching) (σ : List Nat)
    (l : List Nat)
    (h : ∀ i ∈ l, ∃ j e, mt.lookup i = some j ∧ σ[i]? = some j ∧ D i j = .fin e) :
    extractRows.go M N D mt l = some ((l.flatMap (bnG M N (optD D) σ)).map rowExt) := by
  induction l with
  | nil => rfl
  | cons i rest ih =>
    obtain ⟨j, e, hl, hs, hD⟩ := h i (by simp)
    have hrest := ih fun x hx => h x (by simp [hx])
    have hG : bnG M N (optD D) σ i = stepRows M N i j e := by
      simp [bnG, bnStep_eq M N (optD D) σ i j e hs (by simp [optD, hD])]
    rw [extractRows.go]
    simp only [hl, hrest, List.flatMap_cons, List.map_append, hG, hD]
    by_cases hiM : i < M
    · simp [stepRows, hiM, rowExt]
    · by_cases hjN : j ≥ N
      · simp [stepRows, hiM, hjN]
      · simp [stepRows, hiM, hjN, rowExt]

/-- **C01's extraction loop returns C06's rows** (up to the representation of the third entry) -/
theorem extractRows_refines (M N : Nat) (D : Nat → Nat → Ext K) (mt : Matching) (σ : List Nat)
    (h : ∀ i < M + N, ∃ j e, mt.lookup i = some j ∧ σ[i]? = some j ∧ D i j = .fin e) :
    extractRows M N D mt
      = some (((List.range (M + N)).flatMap (bnG M N (optD D) σ)).map rowExt) :=
  extractRows_go_refines M N D mt σ _ fun i hi => h i (List.mem_range.mp hi)

/-- the selected entries of the list view are finite (C06's `AllFinite`, unfolded) -/
theorem selected_optD {D : Nat → Nat → Ext K} {σ : List Nat} {i j : Nat} {e : K}
    (hs : σ[i]? = some j) (hD : D i j = .fin e) : selected (optD D) σ i = some e := by
  simp [selected, hs, optD, hD]

/-- **C01's least threshold is C06's `LeastFeasible`** (stated unfolded): if `.fin v` is below every
    threshold whose graph has a perfect matching, then every perfect matching `τ` of the finite
    entries (as a permutation list) selects some entry `≥ v`. -/
theorem least_of_hasPerfect_least [LinearOrder K] {n : Nat} (hn : 0 < n) (D : Nat → Nat → Ext K) (v : K)
    (hleast : ∀ d, HasPerfect n D d → Ext.fin v ≤ d) (τ : List Nat) (hτ : τ.Perm (List.range n))
    (hfin : ∀ i < n, (selected (optD D) τ i).isSome = true) :
    ∃ i < n, ∃ e, selected (optD D) τ i = some e ∧ v ≤ e := by
  classical
  -- per row: the column, the finite entry
  have hrow : ∀ i < n, ∃ j e, τ[i]? = some j ∧ j < n ∧ D i j = .fin e ∧ selected (optD D) τ i = some e := by
    intro i hi
    obtain ⟨j, e, hj, he⟩ := selected_isSome (hfin i hi)
    obtain ⟨j', hj', hlt⟩ := perm_get hτ i hi
    have hjj : j' = j := by rw [hj] at hj'; exact (Option.some.inj hj').symm
    subst hjj
    have hD : D i j' = .fin e := by
      simp only [optD] at he
      cases hd : D i j' with
      | top => rw [hd] at he; cases he
      | fin a => rw [hd] at he; cases he; rfl
    exact ⟨j', e, hj, hlt, hD, selected_optD hj hD⟩
  -- the row with the largest selected entry
  obtain ⟨k, hk, hmax⟩ := Finset.exists_max_image (Finset.range n)
    (fun i => (selected (optD D) τ i).getD v) ⟨0, Finset.mem_range.mpr hn⟩
  have hk' := Finset.mem_range.mp hk
  obtain ⟨jk, ek, -, -, -, hsk⟩ := hrow k hk'
  refine ⟨k, hk', ek, hsk, ?_⟩
  -- `τ` is a perfect matching of the threshold graph at `ek`
  have hperf : HasPerfect n D (.fin ek) := by
    have hlen : τ.length = n := perm_length hτ
    refine ⟨τ.zipIdx.map fun p => (p.2, p.1), ⟨?_, ?_, ?_⟩, by simp [hlen]⟩
    · intro p hp
      obtain ⟨q, hq, rfl⟩ := List.mem_map.mp hp
      have hq' := List.mem_zipIdx_iff_getElem?.mp hq
      have hi : q.2 < n := by
        rw [← hlen]; exact (List.getElem?_eq_some_iff.mp hq').1
      obtain ⟨j, e, hj, hjn, hD, hs⟩ := hrow q.2 hi
      have hjq : q.1 = j := by rw [hq'] at hj; exact Option.some.inj hj
      rw [edge_threshold]
      refine ⟨hi, hjq ▸ hjn, ?_⟩
      show D q.2 q.1 ≤ .fin ek
      rw [hjq, hD]
      have := hmax q.2 (Finset.mem_range.mpr hi)
      simp only [hs, hsk, Option.getD_some] at this
      exact Ext.fin_le_fin.mpr this
    · simp only [List.map_map]
      have : (Prod.fst ∘ fun p : Nat × Nat => (p.2, p.1)) = Prod.snd := rfl
      rw [this, List.zipIdx_map_snd]
      exact List.nodup_range'
    · simp only [List.map_map]
      have : (Prod.snd ∘ fun p : Nat × Nat => (p.2, p.1)) = Prod.fst := rfl
      rw [this, List.zipIdx_map_fst]
      exact hτ.nodup_iff.mpr List.nodup_range
  exact Ext.fin_le_fin.mp (hleast _ hperf)

/-- **C01's matrix satisfies C06's `IsAug`** for the L∞ cost rule of `Model/Rows.lean` -/
theorem bnAug_isAug [Field K] [LinearOrder K] (S T : List (K × K)) :
    IsAug S.length T.length (cOf Rows.linfM S T) (uOf Rows.diagInfM S) (uOf Rows.diagInfM T)
      (optD (Bottleneck.augD S T)) where
  ul i j := by
    simp only [optD, Bottleneck.augD, i.2, j.2, dite_true, extOpt_fin, cOf]
    rfl
  ur i i' := by
    have h1 : ¬ (T.length + (i' : Nat) < T.length) := by omega
    simp only [optD, Bottleneck.augD, i.2, dite_true, h1, dite_false, uOf]
    by_cases h : i = i'
    · subst h; simp; rfl
    · have : ¬ ((i' : Nat) = (i : Nat)) := fun e => h (Fin.ext e.symm)
      simp [h, this, extOpt]
  ll j j' := by
    have h1 : ¬ (S.length + (j : Nat) < S.length) := by omega
    simp only [optD, Bottleneck.augD, h1, dite_false, j'.2, dite_true, uOf]
    by_cases h : j = j'
    · subst h; simp; rfl
    · have : ¬ ((j : Nat) = (j' : Nat)) := fun e => h (Fin.ext e)
      simp [h, this, extOpt]
  lr j i := by
    have h1 : ¬ (S.length + (j : Nat) < S.length) := by omega
    have h3 : ¬ (T.length + (i : Nat) < T.length) := by omega
    simp [optD, Bottleneck.augD, h1, h3]

end Bn

/-! ### Wasserstein (C02 model) -/

section Ws
open PersimVerif.Wasserstein PersimVerif.WsLemmas PersimVerif.Aug
variable {K : Type}

/-- a C06 row in the representation of the C02 model (`[i, j, D[i, j]]`, a finite third entry) -/
def rowOpt (r : Row K) : Int × Int × Option K := (r.i, r.j, some r.cost)

theorem rowOpt_injective : Function.Injective (rowOpt : Row K → Int × Int × Option K) := by
  rintro ⟨i, j, c⟩ ⟨i', j', c'⟩ h
  simp only [rowOpt, Prod.mk.injEq, Option.some.injEq] at h
  obtain ⟨rfl, rfl, rfl⟩ := h
  rfl

theorem orPlaceholder_eq [Add K] [Sub K] [Mul K] [Neg K] [Zero K] (S : List (K × K)) :
    orPlaceholder S = placeholder S := by
  cases S <;> rfl

/-- the assignment `zip(arange n, σ)` as the list of columns C06's model consumes -/
def colsOf {n : Nat} (σ : Fin n → Fin n) : List Nat := List.ofFn fun i => ((σ i : Fin n) : Nat)

theorem colsOf_get {n : Nat} (σ : Fin n → Fin n) (i : Fin n) : (colsOf σ)[i.val]? = some (σ i).val := by
  simp [colsOf, i.2]

/-- the raw row C06's first pass produces in iteration `i` -/
theorem wsR_colsOf [Zero K] {n : Nat} (D : Nat → Nat → Option K) (σ : Fin n → Fin n) (i : Fin n) {e : K}
    (he : D i.val (σ i).val = some e) :
    wsR D (colsOf σ) i.val = ⟨(i.val : Int), ((σ i).val : Int), e⟩ := by
  simp [wsR, wsStep_eq i.val (σ i).val e (colsOf_get σ i) he]

/-- **C02's `rowsOf` returns C06's rows** (up to the representation of the third entry): for the
    assignment `zip(arange n, σ)` with all selected entries finite, lines 99-107 of wasserstein.py as
    modelled in `Model/Wasserstein.lean` and as modelled in `Model/Rows.lean` (`wsRaw`, `wsRewrite`,
    the `i + j != -2` filter) give the same list. -/
theorem rowsOf_refines [Zero K] (M N : Nat) {n : Nat} (D : Nat → Nat → Option K) (σ : Fin n → Fin n)
    (hfin : ∀ i, D i.val (σ i).val ≠ none) :
    rowsOf M N (List.ofFn fun i : Fin n => (i.val, (σ i).val)) (List.ofFn fun i : Fin n => D i.val (σ i).val)
      = ((((List.range n).map (wsR D (colsOf σ))).map (wsRewrite M N)).filter
            fun r => r.i + r.j != -2).map rowOpt := by
  unfold rowsOf
  rw [List.ofFn_eq_map, List.ofFn_eq_map, List.zip_map', List.map_map,
    ← List.map_coe_finRange_eq_range, List.map_map, List.map_map]
  refine filter_map_emb rowOpt _ _ (fun b => rfl) _ _ _ fun i _ => ?_
  obtain ⟨e, he⟩ := Option.ne_none_iff_exists'.mp (hfin i)
  simp only [Function.comp, wsR_colsOf D σ i he, he, wsRewrite, rowOpt]
  have h1 : ((i.val : Int) ≥ (M : Int)) ↔ (i.val ≥ M) := by omega
  have h2 : (((σ i).val : Int) ≥ (N : Int)) ↔ ((σ i).val ≥ N) := by omega
  simp only [h1, h2]

/-- `np.sum(D[matchi, matchj])` as computed by the C02 model is the sum of the third entries of
    C06's raw rows -/
theorem optSum_cost [Add K] [Zero K] (l : List (Row K)) (acc : K) :
    (l.map fun r => some r.cost).foldl optAdd (some acc) = some (l.foldl (fun a r => a + r.cost) acc) := by
  induction l generalizing acc with
  | nil => rfl
  | cons a t ih => simp only [List.map_cons, List.foldl_cons, optAdd, ih]

theorem optSum_selected [Add K] [Zero K] {n : Nat} (D : Nat → Nat → Option K) (σ : Fin n → Fin n)
    (hfin : ∀ i, D i.val (σ i).val ≠ none) :
    optSum (List.ofFn fun i : Fin n => D i.val (σ i).val)
      = some (rowsSum ((List.range n).map (wsR D (colsOf σ)))) := by
  have : (List.ofFn fun i : Fin n => D i.val (σ i).val)
      = ((List.range n).map (wsR D (colsOf σ))).map fun r => some r.cost := by
    rw [List.ofFn_eq_map, ← List.map_coe_finRange_eq_range, List.map_map, List.map_map]
    refine List.map_congr_left fun i _ => ?_
    obtain ⟨e, he⟩ := Option.ne_none_iff_exists'.mp (hfin i)
    simp only [Function.comp, wsR_colsOf D σ i he, he]
  rw [this]
  exact optSum_cost _ 0

variable [Field K] [LinearOrder K] [IsStrictOrderedRing K] {sqrt : K → K}

omit [LinearOrder K] [IsStrictOrderedRing K] in
/-- **C02's matrix satisfies C06's `IsAug`** for the Euclidean cost rule of `Model/Rows.lean`
    (the diagonal entries are `(d−b)/√2` as written, since the /repo fix of the diagonal cost) -/
theorem wsAug_isAug (S T : List (K × K)) :
    IsAug S.length T.length (cOf (Rows.euclidM sqrt) S T) (uOf (Rows.diagL2M sqrt) S)
      (uOf (Rows.diagL2M sqrt) T) (augEntry sqrt S T) := by
  have hrot : ∀ p : K × K, diagc sqrt p = Rows.diagL2M sqrt p := fun _ => rfl
  refine ⟨fun i j => ?_, fun i i' => ?_, fun j j' => ?_, fun j i => ?_⟩
  · simp only [augEntry, i.2, j.2, dite_true, cOf]
    rfl
  · have h1 : ¬ (T.length + (i' : Nat) < T.length) := by omega
    simp only [augEntry, i.2, dite_true, h1, dite_false, uOf]
    by_cases h : i = i'
    · subst h; simp [hrot]
    · have : ¬ ((i' : Nat) = (i : Nat)) := fun e => h (Fin.ext e.symm)
      simp [h, this]
  · have h1 : ¬ (S.length + (j : Nat) < S.length) := by omega
    simp only [augEntry, h1, dite_false, j'.2, dite_true, uOf]
    by_cases h : j = j'
    · subst h; simp [hrot]
    · have : ¬ ((j : Nat) = (j' : Nat)) := fun e => h (Fin.ext e)
      simp [h, this]
  · have h1 : ¬ (S.length + (j : Nat) < S.length) := by omega
    have h3 : ¬ (T.length + (i : Nat) < T.length) := by omega
    simp [augEntry, h1, h3]

/-- **what a contract-honouring solver returns on the model's matrix**: `zip(arange n, σ)` for a
    permutation `σ` all of whose selected entries are finite, of minimum cost (this is the first half
    of the proof of `WsLemmas.model_value`, with the permutation kept) -/
theorem lsa_selects (hs : SqrtSpec sqrt) (lsa : Mat K → List (Nat × Nat))
    (hl : LsaContract lsa) (S T : List (K × K)) :
    ∃ σ : Equiv.Perm (Fin (S.length + T.length)),
      lsa (augMatrix sqrt S T) = List.ofFn (fun i => (i.val, (σ i).val)) ∧
      (∀ i, augEntry sqrt S T i.val (σ i).val ≠ none) ∧
      (lsa (augMatrix sqrt S T)).mapM (fun p => lookup (augMatrix sqrt S T) p.1 p.2)
        = some (List.ofFn fun i => augEntry sqrt S T i.val (σ i).val) := by
  classical
  have hcost0 := sum_aug_toEquiv (pairCost sqrt S T) (diagCost sqrt S) (diagCost sqrt T)
    (PM.empty : PM (Fin S.length) (Fin T.length))
  have hsum0 := sum_Dfn_perm S T hs (permOf S T (toEquiv PM.empty))
  rw [equivOf_permOf, hcost0] at hsum0
  have hfeas : ∃ σ : Equiv.Perm (Fin (S.length + T.length)), ∀ i, Dfn sqrt S T i (σ i) ≠ none := by
    refine ⟨permOf S T (toEquiv PM.empty), fun i hi => ?_⟩
    have : ∑ i, toTop (Dfn sqrt S T i (permOf S T (toEquiv PM.empty) i)) = ⊤ :=
      WithTop.sum_eq_top.mpr ⟨i, Finset.mem_univ _, by rw [hi]; rfl⟩
    rw [hsum0] at this
    exact WithTop.coe_ne_top this
  obtain ⟨σ, hσ, hmin⟩ := hl _ (Dfn sqrt S T) hfeas
  have hle0 := hmin (permOf S T (toEquiv PM.empty))
  rw [hsum0] at hle0
  have hne : ∑ i, toTop (Dfn sqrt S T i (σ i)) ≠ ⊤ := ne_top_of_le_ne_top WithTop.coe_ne_top hle0
  refine ⟨σ, by rw [augMatrix_eq, hσ], fun i hi => ?_, ?_⟩
  · exact hne (WithTop.sum_eq_top.mpr ⟨i, Finset.mem_univ _, by
      show toTop (Dfn sqrt S T i (σ i)) = ⊤
      unfold Dfn; rw [hi]; rfl⟩)
  · rw [augMatrix_eq, hσ]; exact selected_ofFn _ _

end Ws

end PersimVerif.RowsBridge
